"""Evaluate a delivered mutant: confirm (tests pass with the change, demo fails with / passes without),
then run the machinery of the given properties against the changed tree (scratch worktree /tmp/mut).
usage: evalmut.py <Cxx> <a|b> [props...]   -> prints a JSON summary   (MUT_SUFFIX=.out2: second round)
       evalmut.py --dir <dir with patch.diff, demo.py> <Cxx> [props...]
The scratch worktree /tmp/mut is created if missing and moved to /repo's HEAD."""
import json, os, subprocess, sys, shutil
VERIF = os.path.dirname(os.path.dirname(os.path.abspath(__file__)))
WT = os.environ.get('MUT_WT', '/tmp/mut')


def sh(cmd, env=None, timeout=1200):
    e = dict(os.environ)
    if env:
        e.update(env)
    p = subprocess.run(cmd, shell=True, capture_output=True, text=True, env=e, timeout=timeout)
    out = '\n'.join(l for l in (p.stdout + p.stderr).splitlines() if 'conda' not in l.lower())
    return p.returncode, out


def light(pid, n_scale=1.0):
    """correspondence + monitors for a property whose proof modules may not exist yet"""
    code = f'''
import sys; sys.path.insert(0, "{VERIF}/harness")
import props, scen, corr, json
cfg = props.PROPS["{pid}"]
sc = []
for fam, nq, nt in cfg["families"]:
    sc += scen.generate(fam, "0-quick", int(nq * {n_scale}))
texts = [scen.to_text(s) for s in sc]
im, mo, diffs = corr.compare(texts, cfg["tags"], cfg.get("runner", "FullRunner"))
nm = 0; first = None
for s, st in zip(sc, im):
    for m in cfg["monitors"]:
        try:
            w = m(st, s)
        except Exception as e:
            w = ["monitor-error " + repr(e)]
        if w:
            nm += 1
            if first is None: first = w[0][:300]
print("RESULT " + json.dumps({{"scenarios": len(sc), "diffs": len(diffs), "monitor_rejections": nm, "first_witness": first,
      "first_diff": [d[2][:200], d[3][:200]] if (d := (diffs[0] if diffs else None)) else None}}))
'''
    rc, out = sh(f'/venv/bin/python -c \'{code}\'', env={'SIMPROCESD_REPO': WT})
    for l in out.splitlines():
        if l.startswith('RESULT '):
            return json.loads(l[7:])
    return {'error': out[-500:]}


def main():
    if sys.argv[1] == '--dir':
        d, pid = os.path.abspath(sys.argv[2]), sys.argv[3]
        props_to_run = sys.argv[4:] or [pid]
        res = {'mutant': os.path.basename(d)}
    else:
        pid, x = sys.argv[1], sys.argv[2]
        props_to_run = sys.argv[3:] or [pid]
        d = f'/tmp/mutants/{pid}{os.environ.get("MUT_SUFFIX", ".out")}/{x}'
        res = {'mutant': f'{pid}{x}'}
    if not os.path.isdir(WT):
        sh(f'git -C /repo worktree prune; git -C /repo worktree add --detach {WT}')
    sh(f'git -C {WT} checkout -q --detach $(git -C /repo rev-parse HEAD)')
    sh(f'git -C {WT} checkout -q -- . && git -C {WT} clean -fdq')
    rc0, o0 = sh(f'cd {WT} && PYTHONPATH={WT} /venv/bin/python {d}/demo.py')
    res['demo_without_change_rc'] = rc0
    rc, o = sh(f'git -C {WT} apply {d}/patch.diff')
    if rc != 0:
        res['apply_failed'] = o[-300:]
        print(json.dumps(res)); return
    rc1, o1 = sh(f'cd {WT} && PYTHONPATH={WT} /venv/bin/python {d}/demo.py')
    res['demo_with_change_rc'] = rc1
    res['demo_message'] = o1.strip().splitlines()[-1][:300] if o1.strip() else ''
    rct, ot = sh(f'cd {WT} && PYTHONPATH={WT} /venv/bin/python -m pytest -q -p no:cacheprovider simprocesd/tests/model 2>&1 | tail -1')
    res['tests'] = ot.strip()[-60:]
    res['confirmed'] = (rc0 == 0 and rc1 != 0 and '150 passed' in ot)
    det = {}
    import importlib
    sys.path.insert(0, os.path.join(VERIF, 'harness'))
    md = importlib.import_module('manifest_data')
    for q in props_to_run:
        if q in md.CLAIMED:
            rc, o = sh(f'cd {VERIF} && ./check {q} --tier quick', env={'SIMPROCESD_REPO': WT})
            lines = [l for l in o.splitlines() if l.startswith(('VIOLATION', 'KNOWN', q + ' quick', 'infrastructure'))]
            det[q] = {'rc': rc, 'lines': ([l for l in lines if l.startswith('VIOLATION')] + [l for l in lines if not l.startswith('VIOLATION')])[:3]}
        else:
            det[q] = light(q)
    res['detection'] = det
    sh(f'git -C {WT} checkout -q -- . && git -C {WT} clean -fdq')
    print(json.dumps(res))


main()
