#!/bin/sh
# usage: tools/mergeagent.sh /tmp/agents/<x>/lean   -- copy the new Lean files of a scratch copy into /verif/lean
# (existing files are never overwritten), add the new Props modules to SimProc.lean
src=$1
cd "$src" || exit 1
for f in $(find SimProc -name '*.lean'); do
  if [ ! -f /verif/lean/$f ]; then
    if grep -n 'sorry\|admit\|^axiom \|native_decide\|bv_decide\|implemented_by\|unsafe \|maxHeartbeats 0' $f | grep -v '^\s*--' ; then echo "SUSPICIOUS $f"; fi
    cp $f /verif/lean/$f; echo "new $f ($(wc -l < $f) lines)"
    case $f in SimProc/Props/*) m=$(echo ${f%.lean} | tr / .); grep -q "^import $m\$" /verif/lean/SimProc.lean || echo "import $m" >> /verif/lean/SimProc.lean;; esac
  elif ! cmp -s $f /verif/lean/$f; then echo "CHANGED-EXISTING $f (not copied)"; fi
done
