"""Mutation campaign against the correspondence + monitor layer (NOT the Lean build): generic one-token
mutants of simprocesd/model/**.py; for every mutant that still passes the library's own test-suite,
run a fixed scenario suite through the mutated code and ask, per property, whether the projection
differs from the (cached) model output or a monitor rejects.  Mutants nobody notices are listed for
triage (equivalent mutant or blind spot).

usage: mutcampaign.py build-suite [n_per_family]         -> /tmp/mc/suite.pkl (+ copy of spdriver)
       mutcampaign.py run <N> [seed]                      -> /tmp/mc/results.jsonl
       mutcampaign.py worker <mutant_dir>                 (internal)
       mutcampaign.py report
Everything lives under /tmp/mc (scratch; removed by `mutcampaign.py clean`)."""
import io
import json
import os
import pickle
import random
import shutil
import subprocess
import sys
import tokenize

VERIF = os.path.dirname(os.path.dirname(os.path.abspath(__file__)))
MC = '/tmp/mc'
sys.path.insert(0, os.path.join(VERIF, 'harness'))


def fam_runner_pairs():
    import props
    pairs = {}
    for pid, cfg in props.PROPS.items():
        r = cfg.get('runner', 'FullRunner')
        for fam, _, _ in cfg['families']:
            pairs.setdefault((r, fam), set()).add((pid, True))
        for fam, _, _ in cfg.get('impl_only_families', []):
            pairs.setdefault((r, fam), set()).add((pid, False))
    return pairs


def build_suite(n):
    import scen
    import corr
    os.makedirs(MC, exist_ok=True)
    shutil.copy(corr.SPDRIVER, os.path.join(MC, 'spdriver'))
    corr.SPDRIVER = os.path.join(MC, 'spdriver')
    pairs = fam_runner_pairs()
    fams = sorted({f for _, f in pairs})
    scen_by_fam = {}
    for f in fams:
        try:
            scen_by_fam[f] = scen.generate(f, 'mc', n)
        except NotImplementedError:      # corpus-only family
            scen_by_fam[f] = []
    model = {}
    for f in fams:
        if any(cmp for (r, ff), users in pairs.items() if ff == f for _, cmp in users):
            texts = [scen.to_text(s) for s in scen_by_fam[f]]
            model[f] = corr.run_model(texts)
    pickle.dump({'scen': scen_by_fam, 'model': model, 'pairs': {k: sorted(v) for k, v in pairs.items()}},
                open(os.path.join(MC, 'suite.pkl'), 'wb'))
    print('families', len(fams), 'scenarios', sum(len(v) for v in scen_by_fam.values()), 'runner-family pairs', len(pairs))


def worker(mdir):
    os.environ['SIMPROCESD_REPO'] = mdir
    import impl  # noqa: F401  (puts mdir on sys.path)
    import corr
    import scen
    import props
    suite = pickle.load(open(os.path.join(MC, 'suite.pkl'), 'rb'))
    detected = {}
    impl_cache = {}
    for (runner, fam), users in suite['pairs'].items():
        sc = suite['scen'][fam]
        texts = [scen.to_text(s) for s in sc]
        im = corr.run_impl(texts, runner)
        impl_cache[(runner, fam)] = im
        for pid, cmp in users:
            if pid in detected:
                continue
            cfg = props.PROPS[pid]
            for i, st in enumerate(im):
                hit = None
                if cmp and fam in suite['model']:
                    a = corr.project(st, cfg['tags'])
                    b = corr.project(suite['model'][fam][i], cfg['tags'])
                    if a != b:
                        d = corr.first_diff(a, b)
                        hit = f'diff {fam}#{i}: {d[1][:80]} | {d[2][:80]}' if d else f'diff {fam}#{i}'
                if hit is None:
                    for m in cfg['monitors']:
                        try:
                            w = m(st, sc[i])
                        except Exception as e:
                            w = [f'monitor-error {type(e).__name__}']
                        if w:
                            hit = f'monitor {fam}#{i}: {w[0][:120]}'
                            break
                if hit:
                    detected[pid] = hit
                    break
    for pid in ('C16', 'C05'):
        if pid not in detected:
            try:
                _, wit, _ = props.PROPS[pid]['extra']('mc', 'quick')
                if wit:
                    detected[pid] = 'extra ' + json.dumps(wit[0])[:120]
            except Exception as e:
                detected[pid] = f'extra raised {type(e).__name__}'
    print('RESULT ' + json.dumps(detected))


# ------------------------------------------------------------------------------------------ mutants
SWAPS = {'<': '<=', '<=': '<', '>': '>=', '>=': '>', '==': '!=', '!=': '==', 'and': 'or', 'or': 'and',
         'True': 'False', 'False': 'True', '+=': '-=', '-=': '+=', '+': '-', '-': '+', 'not': '', '0': '1', '1': '0'}


def candidates(repo):
    out = []
    base = os.path.join(repo, 'simprocesd', 'model')
    for root, _, files in os.walk(base):
        for fn in sorted(files):
            if not fn.endswith('.py') or fn == '__init__.py':
                continue
            p = os.path.join(root, fn)
            src = open(p).read()
            try:
                toks = list(tokenize.generate_tokens(io.StringIO(src).readline))
            except tokenize.TokenError:
                continue
            for t in toks:
                if t.type in (tokenize.OP, tokenize.NAME, tokenize.NUMBER) and t.string in SWAPS:
                    if t.string in ('+', '-') and t.type == tokenize.OP and t.line.strip().startswith(('import', 'from')):
                        continue
                    out.append((os.path.relpath(p, repo), t.start[0], t.start[1], t.string, SWAPS[t.string]))
            # statement deletion: simple `self.x(...)` call lines
            for ln, line in enumerate(src.splitlines(), 1):
                s = line.strip()
                if s.startswith('self.') and s.endswith(')') and '=' not in s.split('(')[0] and not s.startswith('self.assert'):
                    out.append((os.path.relpath(p, repo), ln, len(line) - len(line.lstrip()), '<stmt>', 'pass'))
    return out


def apply(repo, mdir, cand):
    rel, ln, col, old, new = cand
    if os.path.isdir(mdir):
        shutil.rmtree(mdir)
    os.makedirs(mdir)
    shutil.copytree(os.path.join(repo, 'simprocesd'), os.path.join(mdir, 'simprocesd'),
                    ignore=shutil.ignore_patterns('__pycache__', 'examples'))
    p = os.path.join(mdir, rel)
    lines = open(p).read().split('\n')
    line = lines[ln - 1]
    if old == '<stmt>':
        lines[ln - 1] = line[:col] + 'pass'
    else:
        assert line[col:col + len(old)] == old, (line, col, old)
        lines[ln - 1] = line[:col] + new + line[col + len(old):]
    open(p, 'w').write('\n'.join(lines))
    return line.strip(), lines[ln - 1].strip()


def run(n, seed):
    repo = os.environ.get('SIMPROCESD_REPO', '/repo')
    cands = candidates(repo)
    rng = random.Random(seed)
    rng.shuffle(cands)
    done = set()
    resf = os.path.join(MC, 'results.jsonl')
    if os.path.exists(resf):
        for l in open(resf):
            r = json.loads(l)
            done.add(tuple(r['cand']))
    print('candidates', len(cands), 'already done', len(done))
    k = 0
    for cand in cands:
        if k >= n:
            break
        if tuple(cand) in done:
            continue
        k += 1
        mdir = os.path.join(MC, 'm')
        try:
            before, after = apply(repo, mdir, cand)
        except AssertionError:
            continue
        rec = {'cand': list(cand), 'before': before, 'after': after}
        env = dict(os.environ, PYTHONPATH=mdir)
        try:
            t = subprocess.run(['/venv/bin/python', '-m', 'pytest', '-q', '-x', '-p', 'no:cacheprovider', 'simprocesd/tests/model'],
                               cwd=mdir, env=env, capture_output=True, text=True, timeout=120)
            rec['tests_pass'] = ' passed' in t.stdout and 'failed' not in t.stdout and 'error' not in t.stdout.lower().split('passed')[-1]
        except subprocess.TimeoutExpired:
            rec['tests_pass'] = False
            rec['tests'] = 'timeout'
        if rec['tests_pass']:
            try:
                w = subprocess.run(['/venv/bin/python', os.path.abspath(__file__), 'worker', mdir], capture_output=True, text=True,
                                   timeout=1500, env=dict(os.environ, SIMPROCESD_REPO=mdir))
                res = [l for l in w.stdout.splitlines() if l.startswith('RESULT ')]
                rec['detected'] = json.loads(res[0][7:]) if res else {'_worker_failed': (w.stderr or w.stdout)[-300:]}
            except subprocess.TimeoutExpired:
                rec['detected'] = {'_timeout': 'worker'}
        with open(resf, 'a') as f:
            f.write(json.dumps(rec) + '\n')
        print(k, cand[0].split('/')[-1], cand[1], cand[3], '->', cand[4], '| tests', 'pass' if rec['tests_pass'] else 'FAIL',
              '| detected by', sorted(rec.get('detected', {})) if rec['tests_pass'] else '-', flush=True)


def report():
    rs = [json.loads(l) for l in open(os.path.join(MC, 'results.jsonl'))]
    surv = [r for r in rs if r['tests_pass']]
    und = [r for r in surv if not r.get('detected')]
    print(f'mutants {len(rs)}; killed by the library test-suite {len(rs) - len(surv)}; passing the suite {len(surv)}; '
          f'of those noticed by at least one property check {len(surv) - len(und)}; unnoticed {len(und)}')
    for r in und:
        print('UNNOTICED', r['cand'][0], r['cand'][1], '|', r['before'], '=>', r['after'])


if __name__ == '__main__':
    cmd = sys.argv[1]
    if cmd == 'build-suite':
        build_suite(int(sys.argv[2]) if len(sys.argv) > 2 else 40)
    elif cmd == 'worker':
        worker(sys.argv[2])
    elif cmd == 'run':
        run(int(sys.argv[2]), sys.argv[3] if len(sys.argv) > 3 else '0')
    elif cmd == 'report':
        report()
    elif cmd == 'clean':
        shutil.rmtree(MC, ignore_errors=True)
