"""Write MANIFEST.json from the table below (kept as a script so that it always validates)."""
import json, os, sys
sys.path.insert(0, os.path.join(os.path.dirname(__file__), '..', 'harness'))
import manifest_data as D

props = [json.loads(l)['id'] for l in open(os.path.join(os.path.dirname(__file__), '..', 'properties.jsonl'))]
checks = []
for pid in props:
    if pid in D.CLAIMED:
        c = D.CLAIMED[pid]
        checks.append({
            'property_id': pid,
            'quick_cmd': f'./check {pid} --tier quick',
            'thorough_cmd': f'./check {pid} --tier thorough',
            'evidence_file': f'evidence/{pid}.json',
            'replay_cmd_template': f'./check {pid} --replay {{path}}',
            'engine': 'lean4-model+correspondence',
            'level_claimed': {'category': 'proof', 'text': c['text'], 'design_ref': c.get('design_ref', 'DESIGN.md section 11 (what is proved, per property), section 0 (machinery), section 9 (trusted base); section 7 is the original plan')},
            'level_note': c['note'],
            'technique': c['technique'],
        })
m = {
    'version': 1,
    'setup_cmd': '/venv/bin/python harness/facts.py && cd lean && lake build',
    'hooks': {
        'guard': 'SIMPROCESD_VERIF',
        'enable': 'no source hooks are needed: the harness wraps Event.__init__, Environment.step and selected methods from its own process (harness/impl.py); the guard name is reserved and unused',
        'baseline_off_cmd': 'cd /repo && /venv/bin/python -m pytest -ra -q -p no:cacheprovider --timeout=900 --continue-on-collection-errors',
        'source_commits': [],
        'add_only': True,
    },
    'engines': [{
        'name': 'lean4-model+correspondence',
        'path': 'lean/ (model, theorems, spdriver) + harness/ (fact translator, generators, implementation runner, correspondence, monitors)',
        'serves_properties': sorted(D.CLAIMED.keys()),
        'kind_free_text': 'machine-checked proof in Lean 4 about a hand-written executable model; tie to /repo checked on every run by differential correspondence and by facts regenerated from the Python AST',
    }],
    'checks': checks,
    'notes': D.NOTES,
    'not_applicable': [{'property_id': p, 'reason': D.NOT_CLAIMED.get(p, 'check not built yet in this revision of /verif (see DESIGN.md section 10)')} for p in props if p not in D.CLAIMED],
}
json.dump(m, open(os.path.join(os.path.dirname(__file__), '..', 'MANIFEST.json'), 'w'), indent=1)
print('claimed', sorted(D.CLAIMED.keys()))
