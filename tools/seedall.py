"""Re-evaluate every delivered mutant and write /verif/seeded/<id>/{patch.diff,demo.py,notes.txt,meta.json}."""
import json, os, shutil, subprocess, sys
VERIF = os.path.dirname(os.path.dirname(os.path.abspath(__file__)))
props = [json.loads(l) for l in open(os.path.join(VERIF, 'properties.jsonl'))]
for p in props:
    pid = p['id']
    for x in 'ab':
        d = f'/tmp/mutants/{pid}.out/{x}'
        if not os.path.exists(os.path.join(d, 'patch.diff')):
            continue
        out = subprocess.run(['/venv/bin/python', os.path.join(VERIF, 'tools', 'evalmut.py'), pid, x],
                             capture_output=True, text=True, timeout=3000).stdout
        res = None
        for l in out.splitlines():
            try:
                res = json.loads(l)
            except Exception:
                pass
        if res is None:
            print(pid, x, 'no result', out[-300:]); continue
        sd = os.path.join(VERIF, 'seeded', f'{pid}{x}')
        os.makedirs(sd, exist_ok=True)
        for fn in ('patch.diff', 'demo.py', 'notes.txt'):
            if os.path.exists(os.path.join(d, fn)):
                shutil.copy(os.path.join(d, fn), os.path.join(sd, fn))
        notes = open(os.path.join(d, 'notes.txt')).read() if os.path.exists(os.path.join(d, 'notes.txt')) else ''
        det = res.get('detection', {}).get(pid, {})
        detected = bool(det.get('lines') and any(l.startswith('VIOLATION') for l in det['lines'])) or \
            (det.get('diffs', 0) or 0) > 0 or (det.get('monitor_rejections', 0) or 0) > 0
        meta = {
            'id': f'{pid}{x}', 'breaks_property': pid,
            'origin': 'written by an independent sub-agent that saw only the property text and its own worktree',
            'what_it_needs_to_manifest': notes.strip()[:1500],
            'confirmed': {'existing_tests_with_change': res.get('tests'), 'demo_without_change_exit': res.get('demo_without_change_rc'),
                          'demo_with_change_exit': res.get('demo_with_change_rc'), 'demo_message': res.get('demo_message')},
            'ran': f'tools/evalmut.py {pid} {x}  (applies patch.diff to a scratch worktree, runs the test-suite, the demo with and '
                   f'without the change, and the check of {pid} with SIMPROCESD_REPO pointing at the changed tree)',
            'detected_by_check': detected, 'check_result': det,
        }
        json.dump(meta, open(os.path.join(sd, 'meta.json'), 'w'), indent=1)
        print(pid + x, 'confirmed' if res.get('confirmed') else 'NOT CONFIRMED', 'DETECTED' if detected else 'MISSED', flush=True)
