"""Seeded changes kept in /verif/seeded/<id>/ (patch.diff, demo.py, notes.txt, meta.json).
usage: seedall.py                 re-evaluate every seeded change against /repo's HEAD and refresh meta.json
       seedall.py import <suffix> <letters>   copy /tmp/mutants/Cxx<suffix>/{a,b} to seeded/Cxx<letters[0]>, Cxx<letters[1]>
                                              (e.g. `import .out2 cd`) and evaluate them"""
import json, os, shutil, subprocess, sys
VERIF = os.path.dirname(os.path.dirname(os.path.abspath(__file__)))
SEED = os.path.join(VERIF, 'seeded')
props = [json.loads(l)['id'] for l in open(os.path.join(VERIF, 'properties.jsonl'))]


def evaluate(sd, pid):
    out = subprocess.run(['/venv/bin/python', os.path.join(VERIF, 'tools', 'evalmut.py'), '--dir', sd, pid],
                         capture_output=True, text=True, timeout=3000).stdout
    res = None
    for l in out.splitlines():
        try:
            res = json.loads(l)
        except Exception:
            pass
    if res is None:
        print(os.path.basename(sd), 'no result', out[-300:]); return
    notes = open(os.path.join(sd, 'notes.txt')).read() if os.path.exists(os.path.join(sd, 'notes.txt')) else ''
    det = res.get('detection', {}).get(pid, {})
    detected = bool(det.get('lines') and any(l.startswith('VIOLATION') for l in det['lines']))
    head = subprocess.run(['git', '-C', '/repo', 'rev-parse', '--short', 'HEAD'], capture_output=True, text=True).stdout.strip()
    meta = {
        'id': os.path.basename(sd), 'breaks_property': pid,
        'origin': 'written by an independent sub-agent that saw only the property text and its own worktree',
        'what_it_needs_to_manifest': notes.strip()[:1500],
        'evaluated_against_repo_commit': head,
        'confirmed': {'patch_applies': 'apply_failed' not in res, 'existing_tests_with_change': res.get('tests'),
                      'demo_without_change_exit': res.get('demo_without_change_rc'),
                      'demo_with_change_exit': res.get('demo_with_change_rc'), 'demo_message': res.get('demo_message')},
        'ran': f'tools/evalmut.py --dir seeded/{os.path.basename(sd)} {pid}  (applies patch.diff to a scratch worktree of /repo, runs the '
               f'test-suite, the demo with and without the change, and the check of {pid} with SIMPROCESD_REPO pointing at the changed tree)',
        'detected_by_check': detected, 'check_result': det,
    }
    json.dump(meta, open(os.path.join(sd, 'meta.json'), 'w'), indent=1)
    print(os.path.basename(sd), 'confirmed' if res.get('confirmed') else 'NOT CONFIRMED ' + str(res.get('apply_failed', ''))[:80],
          'DETECTED' if detected else 'MISSED',
          ([l for l in (det.get('lines') or []) if l.startswith('VIOLATION')] or det.get('lines') or [''])[0][-40:], flush=True)


if len(sys.argv) > 1 and sys.argv[1] == 'import':
    suffix, letters = sys.argv[2], sys.argv[3]
    for pid in (sys.argv[4:] or props):
        for x, y in zip('ab', letters):
            d = f'/tmp/mutants/{pid}{suffix}/{x}'
            if not os.path.exists(os.path.join(d, 'patch.diff')):
                continue
            sd = os.path.join(SEED, pid + y)
            os.makedirs(sd, exist_ok=True)
            for fn in ('patch.diff', 'demo.py', 'notes.txt'):
                if os.path.exists(os.path.join(d, fn)):
                    shutil.copy(os.path.join(d, fn), os.path.join(sd, fn))
            evaluate(sd, pid)
else:
    only = sys.argv[1:]
    for name in sorted(os.listdir(SEED)):
        sd = os.path.join(SEED, name)
        if os.path.isdir(sd) and os.path.exists(os.path.join(sd, 'patch.diff')) and (not only or name in only):
            evaluate(sd, name[:3])
subprocess.run(['/venv/bin/python', os.path.join(VERIF, 'harness', 'facts.py')], capture_output=True)
