"""Evaluate a delivered change (directory with patch.diff, demo.py, notes.txt) with tools/evalmut.py and, when it is
confirmed, keep it as /verif/seeded/<Cxx><letter>/ with a meta.json that records what was run and what the check said.
usage: importdir.py <dir> <Cxx> <letter> [origin note]"""
import json, os, shutil, subprocess, sys
VERIF = os.path.dirname(os.path.dirname(os.path.abspath(__file__)))


def main():
    d, pid, letter = os.path.abspath(sys.argv[1]), sys.argv[2], sys.argv[3]
    origin = sys.argv[4] if len(sys.argv) > 4 else ''
    out = subprocess.run([sys.executable, os.path.join(VERIF, 'tools', 'evalmut.py'), '--dir', d, pid],
                         capture_output=True, text=True).stdout.strip().splitlines()
    ev = json.loads(out[-1])
    json.dump(ev, open(os.path.join(d, 'eval.json'), 'w'))
    det = ev.get('detection', {}).get(pid, {})
    print(pid + letter, 'confirmed' if ev.get('confirmed') else 'NOT CONFIRMED', 'rc', det.get('rc'),
          (det.get('lines') or [''])[0][:160], '|', ev.get('demo_message', '')[:160])
    if not ev.get('confirmed'):
        return 1
    dst = os.path.join(VERIF, 'seeded', pid + letter)
    os.makedirs(dst, exist_ok=True)
    for f in ('patch.diff', 'demo.py', 'notes.txt'):
        if os.path.exists(os.path.join(d, f)):
            shutil.copy(os.path.join(d, f), dst)
    head = subprocess.run('git -C /repo rev-parse --short HEAD', shell=True, capture_output=True, text=True).stdout.strip()
    notes = open(os.path.join(d, 'notes.txt')).read().strip() if os.path.exists(os.path.join(d, 'notes.txt')) else ''
    caught = det.get('rc') == 1 and any(l.startswith('VIOLATION') for l in det.get('lines', []))
    meta = {
        'id': pid + letter, 'breaks_property': pid,
        'origin': 'written by an independent sub-agent that saw only the property text and its own worktree' + (' (' + origin + ')' if origin else ''),
        'what_it_needs_to_manifest': notes,
        'evaluated_against_repo_commit': head,
        'confirmed': {'patch_applies': True, 'existing_tests_with_change': ev['tests'],
                      'demo_without_change_exit': ev['demo_without_change_rc'],
                      'demo_with_change_exit': ev['demo_with_change_rc'], 'demo_message': ev.get('demo_message', '')},
        'ran': f'tools/evalmut.py --dir seeded/{pid}{letter} {pid}  (applies patch.diff to a scratch worktree of /repo, runs the '
               f'test-suite, the demo with and without the change, and the check of {pid} with SIMPROCESD_REPO pointing at the changed tree)',
        'detected_by_check': caught,
        'check_result': {'rc': det.get('rc'), 'lines': det.get('lines', [])[:1]},
    }
    json.dump(meta, open(os.path.join(dst, 'meta.json'), 'w'), indent=1)
    return 0


sys.exit(main())
