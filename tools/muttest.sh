#!/bin/sh
# usage: tools/muttest.sh <patchfile|-> <prop> [<prop>...]   (patch applied to scratch worktree /tmp/mut)
P=$1; shift
git -C /tmp/mut checkout -q -- . 
if [ "$P" != "-" ]; then git -C /tmp/mut apply "$P" || exit 3; fi
for p in "$@"; do
  SIMPROCESD_REPO=/tmp/mut ./check $p --tier quick 2>&1 | grep -E "VIOLATION|KNOWN|quick:|infrastructure" | head -3
done
git -C /tmp/mut checkout -q -- .
