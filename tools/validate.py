import json, jsonschema, glob, sys
m=json.load(open('/verif/MANIFEST.json')); s=json.load(open('/root/.vp/MANIFEST.schema.json'))
jsonschema.validate(m,s); print('manifest valid; claimed', [c['property_id'] for c in m['checks']])
es=json.load(open('/root/.vp/EVIDENCE.schema.json'))
for f in sorted(glob.glob('/verif/evidence/C*.json')):
    e=json.load(open(f)); jsonschema.validate(e,es)
    c=e['coverage']; print(f.split('/')[-1], e['tier'], 'ok', c.get('discharged'),'/',c.get('obligations'), 'eval',c.get('evaluations'),'nontriv',c.get('distinct_nontrivial'), e['wall_s'],'s')
