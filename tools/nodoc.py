import ast, sys
for f in sys.argv[1:]:
    src=open(f).read()
    tree=ast.parse(src)
    lines=src.split('\n')
    kill=set()
    for node in ast.walk(tree):
        if isinstance(node,(ast.FunctionDef,ast.ClassDef,ast.Module)):
            b=node.body
            if b and isinstance(b[0],ast.Expr) and isinstance(getattr(b[0],'value',None),ast.Constant) and isinstance(b[0].value.value,str):
                for i in range(b[0].lineno,b[0].end_lineno+1): kill.add(i)
    print('=====',f)
    for i,l in enumerate(lines,1):
        if i in kill or not l.strip(): continue
        print(f'{i:4d} {l}')
