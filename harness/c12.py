"""C12 on the REAL code for calls the scenario protocol cannot express: create_work_order issued
BEFORE the system has started (the maintainer has no environment yet, the call raises): "an order is
accepted unless an identical one is queued or in progress, and create_work_order returns exactly that"
- a call that raised was not accepted, so it must leave nothing behind: the identical request made
later is accepted and performed exactly once (hooks and cost once)."""
import random


def prestart_orders(seed, tier):
    """returns (evaluations, witnesses, stats)"""
    import impl          # first: puts the tree under test on sys.path
    from simprocesd.model import System
    from simprocesd.model.factory_floor import Maintainer, PartProcessor, Source, Sink
    impl.CTX = None
    rng = random.Random(f'c12-{seed}-{tier}')
    n = 12 if tier == 'quick' else 120
    wit = []
    raised_calls = 0
    for t in range(n):
        s = System()
        src = Source('src', cycle_time=2)
        p = PartProcessor('p', [src], cycle_time=1)
        Sink('k', [p])
        m = Maintainer(capacity=rng.choice([1, 2, float('inf')]))
        starts = []
        p.add_shutdown_callback(lambda d, f, lost: starts.append(s.env.now if s.env else None))
        tags = [rng.choice(['a', 'b', 7]) for _ in range(rng.randint(1, 3))]
        early = {}
        for tg in tags:
            try:
                early[tg] = m.create_work_order(p, tg)
            except Exception as e:
                early[tg] = type(e).__name__
                raised_calls += 1
        s.simulate(1, print_summary=False)
        later = {}
        for tg in dict.fromkeys(tags):
            later[tg] = m.create_work_order(p, tg)
        s.simulate(20, print_summary=False)
        for tg in dict.fromkeys(tags):
            if early[tg] is not True and later[tg] is not True:
                wit.append({'kind': 'prestart-order', 'tag': repr(tg), 'call_before_start': early[tg],
                            'identical_call_after_start_returned': later[tg],
                            'expected': 'True: the earlier call raised / was rejected, nothing is queued or in progress'})
        accepted = sum(1 for tg in dict.fromkeys(tags) if later[tg] is True) + sum(1 for tg in dict.fromkeys(tags) if early[tg] is True)
        if len(starts) != accepted:
            wit.append({'kind': 'prestart-order-count', 'accepted_orders': accepted, 'orders_started': len(starts),
                        'calls_before_start': {repr(k): v for k, v in early.items()}})
        if len(wit) > 2:
            break
    return n, wit, {'models': n, 'calls_that_raised_before_start': raised_calls}
