"""Property monitors over an observation stream of the IMPLEMENTATION (used for the failing-input
search and for replays).  Each monitor returns a list of witnesses (empty = accepted)."""
import math


def num(tok):
    """time / priority token -> float (ticks)"""
    if tok == '-':
        return None
    if tok.startswith('f'):
        return float(tok[1:]) * 16.0
    return float(int(tok))


def pnum(tok):
    if tok.startswith('f'):
        return float(tok[1:]) * 4.0
    return float(int(tok))


def parse_events(s):
    if s == '-' or s == '':
        return []
    out = []
    for item in s.split(','):
        t, p, a, act, w, pa, c = item.split(':')
        out.append({'time': num(t), 'prio': pnum(p), 'asset': int(a), 'act': int(act),
                    'weight': float(w), 'paused_at': num(pa), 'cancelled': c == '1', 'raw': item})
    return out


def parse_ids(s):
    if s == '-' or s == '':
        return []
    return [int(x) for x in s.split(',')]


class Frame:
    def __init__(self, trigger):
        self.trigger = trigger      # ('ext', toks) | ('ev', dict) | ('run', d) | ('start',)
        self.results = []
        self.now = None
        self.terminated = None
        self.q = []
        self.z = []
        self.qid = []
        self.zid = []
        self.state = {}             # 'tag idx' -> body of the current state line
        self.recs = []              # records appended by this frame
        self.evid = None
        self.abort = None


def frames(stream, scenario_lines=None):
    """Split a stream into frames (one per executed event / external operation).  State lines are
    printed as deltas: every frame carries the full current state in `.state` (key -> rest of line)
    and the pending / paused lists current at that point."""
    fs = []
    cur = None
    state = {}
    q, z, qid, zid = [], [], [], []

    def close_frame():
        if cur is not None:
            cur.state = dict(state)
            cur.q, cur.z, cur.qid, cur.zid = q, z, qid, zid

    for l in stream:
        tag, _, rest = l.partition(' ')
        if tag == 'ev':
            close_frame()
            t, p, a, act, st = rest.split()
            cur = Frame(('ev', {'time': num(t), 'prio': pnum(p), 'asset': int(a), 'act': int(act), 'status': st}))
            fs.append(cur)
        elif tag == 'evid':
            if cur is not None:
                cur.evid = int(rest.split()[0])
        elif tag in ('res', 'rec'):
            if cur is None or cur.now is not None or cur.trigger[0] == 'runbegin':
                close_frame()
                cur = Frame(('ext', None))
                fs.append(cur)
            (cur.results if tag == 'res' else cur.recs).append(rest)
        elif tag == 'now':
            if cur is None or cur.now is not None or cur.trigger[0] == 'runbegin':
                close_frame()
                cur = Frame(('ext', None))
                fs.append(cur)
            n, term = rest.split()
            cur.now = num(n)
            cur.terminated = term == '1'
        elif tag == 'q':
            q = parse_events(rest)
        elif tag == 'z':
            z = parse_events(rest)
        elif tag == 'qid':
            qid = parse_ids(rest)
        elif tag == 'zid':
            zid = parse_ids(rest)
        elif tag == 'runbegin':
            close_frame()
            a, b = rest.split()
            cur = Frame(('runbegin', num(a), num(b)))
            fs.append(cur)
        elif tag == 'ran':
            close_frame()
            cur = Frame(('ran', num(rest)))
            cur.now = num(rest)
            fs.append(cur)
        elif tag in ('abort', 'abort-run'):
            close_frame()
            f = Frame(('abort', rest))
            f.abort = rest
            f.now = cur.now if cur is not None else None
            fs.append(f)
            cur = f
        elif tag in ('scenario', 'end'):
            continue
        else:
            if tag == 'wq':
                state['wq'] = rest
            else:
                idx, _, body = rest.partition(' ')
                state[tag + ' ' + idx] = body
    close_frame()
    return fs


def kvline(body):
    """'a=1 b=2' -> dict"""
    d = {}
    for t in body.split():
        if '=' in t:
            k, v = t.split('=', 1)
            d[k] = v
    return d


def close(a, b):
    """equality of two tick values: exact on the dyadic grid, a few ulps otherwise"""
    if float(a).is_integer() and float(b).is_integer():
        return a == b
    m = max(abs(a), abs(b), 1e-300) / 16.0
    return abs(a - b) <= 16.0 * 4 * math.ulp(m)


def ev_key(e):
    return (e['time'], -e['prio'])


# ------------------------------------------------------------------------------------------- C01
def c01(stream, scen=None):
    """time-then-priority dispatch, clock = event time, clock monotone, no event executed twice."""
    wit = []
    fs = frames(stream)
    prev = None
    now = 0.0
    executed = set()
    term = None       # the terminate event of the run that just began (scheduled after the last dump)
    for i, f in enumerate(fs):
        if f.trigger[0] == 'ev':
            e = f.trigger[1]
            if prev is not None:
                cand = [ev_key(x) for x in prev.q] + ([term] if term is not None else [])
                if cand and ev_key(e) != min(cand):
                    wit.append(f'frame {i}: executed event (time {e["time"]}, prio {e["prio"]}) is not the '
                               f'earliest / highest-priority pending one {min(cand)}')
            term = None
            if f.now is not None and f.now != e['time']:
                wit.append(f'frame {i}: clock {f.now} differs from the executed event time {e["time"]}')
            if e['time'] < now:
                wit.append(f'frame {i}: clock went backwards from {now} to {e["time"]}')
            if f.evid is not None and e['status'] == 'ran':
                if f.evid in executed:
                    wit.append(f'frame {i}: event {f.evid} executed twice')
                executed.add(f.evid)
        if f.now is not None:
            if f.now < now:
                wit.append(f'frame {i}: clock went backwards from {now} to {f.now}')
            now = max(now, f.now)
        if f.trigger[0] == 'runbegin':
            term = (f.trigger[1] + f.trigger[2], -4.0)
        if f.now is not None and f.trigger[0] not in ('ran', 'runbegin'):
            prev = f
    return wit


def c01_runs(stream, scen=None):
    """run(d) from t0 ends at exactly t0+d, leaves nothing due, executes nothing later."""
    wit = []
    fs = frames(stream)
    T = None
    ri = -1
    evs = []
    last_dump = None
    for f in fs:
        k = f.trigger[0]
        if k == 'runbegin':
            ri += 1
            T = f.trigger[1] + f.trigger[2] * 1.0
            evs = []
            if f.trigger[2] < 0:
                T = None
        elif k == 'ev':
            evs.append(f)
        elif k == 'abort':
            return wit      # aborted runs are outside the property
        elif k == 'ran':
            if T is not None:
                if f.now != T:
                    wit.append(f'run {ri}: ended at {f.now}, expected t0+d = {T}')
                for g in evs:
                    if g.trigger[1]['time'] > T:
                        wit.append(f'run {ri}: executed an event due at {g.trigger[1]["time"]} > {T}')
                if last_dump is not None:
                    for x in last_dump.q:
                        if x['time'] <= T and x['asset'] != -1 and not x['cancelled']:
                            wit.append(f'run {ri}: live event due at {x["time"]} <= {T} left in the queue')
            T = None
        if f.now is not None and k not in ('ran', 'runbegin'):
            last_dump = f
    return wit


def c01_live(stream, scen=None):
    """(queue-only scenarios) a run executes every LIVE event that is due: an event may be skipped as
    cancelled only if some cancel request for its asset id exists in the scenario at all."""
    if not scen or any(l[0] in ('asset', 'res', 'target', 'wire', 'S') for l in scen):
        return []
    cancelled_ids = set()
    for l in scen:
        op = l[2:] if l[0] == 'script' else (l[1:] if l[0] == 'ext' else None)
        if op and op[0] == 'cancel':
            cancelled_ids.add(int(op[1]))
    wit = []
    for i, f in enumerate(frames(stream)):
        if f.trigger[0] == 'ev' and f.trigger[1]['status'] == 'cancelled' and f.trigger[1]['asset'] not in cancelled_ids:
            e = f.trigger[1]
            wit.append(f'frame {i}: the event of asset {e["asset"]} due at {e["time"]} was skipped as cancelled, '
                       f'but nothing in the scenario cancels events of asset {e["asset"]}')
    return wit[:3]


# ------------------------------------------------------------------------------------------- C07
def c07(stream, scen=None):
    """Per-event tracking through the pending / paused lists (needs the implementation's event
    identities): a pending event keeps its time; pausing stamps `now` and keeps the time; resuming
    adds exactly the pause length (one ulp tolerance for non-dyadic times); cancelled events never
    run; ext pause/unpause/cancel affect exactly the asset's events."""
    wit = []
    fs = frames(stream, scen)
    ext_ops = [l for l in (scen or []) if l[0] in ('ext',)]
    prevq, prevz = {}, {}
    cancelled = set()
    for i, f in enumerate(fs):
        if f.trigger[0] == 'ev':
            e = f.trigger[1]
            if f.evid is not None:
                if e['status'] == 'ran' and f.evid in cancelled:
                    wit.append(f'frame {i}: cancelled event {f.evid} was executed')
        if f.now is None or f.trigger[0] == 'ran' or len(f.qid) != len(f.q):
            continue
        q = dict(zip(f.qid, f.q))
        z = dict(zip(f.zid, f.z))
        for k, x in list(q.items()) + list(z.items()):
            if x['cancelled']:
                cancelled.add(k)
        for k, x in q.items():
            if k in prevq and prevq[k]['time'] != x['time']:
                wit.append(f'frame {i}: pending event {k} changed its time {prevq[k]["time"]} -> {x["time"]}')
            if k in prevz:
                old = prevz[k]
                exp = old['time'] + (f.now - old['paused_at'])
                if not close(x['time'], exp):
                    wit.append(f'frame {i}: resumed event {k} at {x["time"]}, expected original time + '
                               f'pause length = {exp}')
        for k, x in z.items():
            if k in prevq:
                if x['time'] != prevq[k]['time']:
                    wit.append(f'frame {i}: paused event {k} changed its time')
            if k in prevz and not close(x['time'] - x['paused_at'] + 1e6, prevz[k]['time'] - prevz[k]['paused_at'] + 1e6):
                wit.append(f'frame {i}: paused event {k}: remaining delay changed while paused')
        prevq, prevz = q, z
    return wit


MONITORS = {'C01': [c01, c01_runs, c01_live], 'C07': [c07]}


# ---------------------------------------------------------------------------- component monitors
def preq(s):
    return {} if s in ('-', '') else {int(a): int(b) for a, b in (e.split(':') for e in s.split(';'))}


def pools_of(state):
    out = {}
    for k, v in state.items():
        if k.startswith('r '):
            d = kvline(v)
            out[int(k[2:])] = (int(d['use']), int(d['cap']))
    return out


def feasible(pools, req):
    for r, a in req.items():
        if a == 0:
            continue
        if r not in pools or pools[r][1] - pools[r][0] < a:
            return False
    return True


def advance_frames(fs):
    """indices of frames after which the clock advances (the next executed event is later), or
    which close a run"""
    out = []
    for i, f in enumerate(fs):
        if f.now is None or f.trigger[0] in ('ran', 'runbegin', 'abort'):
            continue
        nxt = None
        for g in fs[i + 1:]:
            if g.trigger[0] == 'ev':
                nxt = g
                break
            if g.trigger[0] in ('ran', 'ext', 'abort'):
                break
        if nxt is not None and nxt.trigger[1]['time'] > f.now:
            out.append(i)
    return out


def c09(stream, scen=None):
    """usage = sum of all outstanding holdings, usage >= 0, capacity >= 0, an operation that raised
    an error changed nothing (pools, holdings, waiting list)."""
    wit = []
    fs = frames(stream)
    prev = None
    for i, f in enumerate(fs):
        if f.now is None or f.trigger[0] in ('ran', 'runbegin'):
            continue
        pools = pools_of(f.state)
        hs = preq(f.state.get('hsum 0', '-'))
        for r, (u, c) in pools.items():
            if u < 0:
                wit.append(f'frame {i}: usage of resource {r} is negative ({u})')
            if c < 0:
                wit.append(f'frame {i}: capacity of resource {r} is negative ({c})')
            if hs.get(r, 0) != u:
                wit.append(f'frame {i}: usage of resource {r} is {u} but outstanding reservations hold {hs.get(r, 0)}')
        if f.trigger[0] == 'ext' and len(f.results) == 1 and f.results[0].startswith('err') and prev is not None:
            keys = [k for k in set(f.state) | set(prev.state) if k[0] in 'rhw']
            ch = [k for k in keys if f.state.get(k) != prev.state.get(k)]
            if ch:
                wit.append(f'frame {i}: operation raised {f.results[0]} but changed {ch[:3]}')
        prev = f
    return wit


def c10(stream, scen=None):
    """when the clock advances no waiting request is feasible; every callback log entry carries the
    right arguments."""
    wit = []
    fs = frames(stream)
    for i in advance_frames(fs):
        f = fs[i]
        pools = pools_of(f.state)
        wq = f.state.get('wq', '-')
        if wq != '-':
            for item in wq.split(','):
                req, _, cb = item.partition('@')
                if feasible(pools, preq(req)):
                    wit.append(f'frame {i} (t={f.now}): the clock advances while waiting request {req} of {cb} fits the pools {pools}')
    for i, f in enumerate(fs):
        for r in f.results:
            if 'badargs' in r:
                wit.append(f'frame {i}: callback invoked with wrong arguments: {r}')
    return wit


def c12(stream, scen=None):
    """utilisation within capacity, one order per target, nothing startable left when the clock
    advances, hooks once each per started order."""
    wit = []
    fs = frames(stream)
    adv = set(advance_frames(fs))
    starts, ends, hs, he = {}, {}, {}, {}
    for i, f in enumerate(fs):
        for rec in f.recs:
            t = rec.split()
            if t[0] == 'start_work_order':
                starts[(t[1], t[3], t[4])] = starts.get((t[1], t[3], t[4]), 0) + 1
            if t[0] == 'finish_work_order':
                ends[(t[1], t[3], t[4])] = ends.get((t[1], t[3], t[4]), 0) + 1
        for r in f.results:
            t = r.split()
            if t[0] == 'hook':
                d = hs if t[1] == 'start' else he
                d[(t[2], t[3])] = d.get((t[2], t[3]), 0) + 1
        if f.now is None:
            continue
        for k, v in f.state.items():
            if not k.startswith('m '):
                continue
            d = kvline(v)
            util = int(d['util'])
            avail = None if d['avail'] == 'inf' else int(d['avail'])
            act = [] if d['active'] == '-' else [x.split(':') for x in d['active'].split(';')]
            que = [] if d['queue'] == '-' else [x.split(':') for x in d['queue'].split(';')]
            if avail is not None and avail < 0 and util > 0:
                wit.append(f'frame {i}: maintainer {k} uses {util} with available capacity {avail}')
            tg = [a[1] for a in act]
            if len(set(tg)) != len(tg):
                wit.append(f'frame {i}: two orders in progress on one target: {act}')
            if sum(int(a[3]) for a in act) != util:
                wit.append(f'frame {i}: utilisation {util} differs from the needs of the active orders {act}')
            if i in adv:
                for o in que:
                    if o[1] not in tg and (avail is None or int(o[3]) <= avail):
                        wit.append(f'frame {i} (t={f.now}): clock advances while queued order {o} fits (avail {avail}) and its target is free')
    tot_s = {}
    for (m, tg, tag), n in starts.items():
        tot_s[(tg, tag)] = tot_s.get((tg, tag), 0) + n
    for key, n in tot_s.items():
        if hs.get(key, 0) != n:
            wit.append(f'start hook of target/tag {key} ran {hs.get(key, 0)} times for {n} started orders')
    tot_e = {}
    for (m, tg, tag), n in ends.items():
        tot_e[(tg, tag)] = tot_e.get((tg, tag), 0) + n
    for key, n in tot_e.items():
        if he.get(key, 0) != n:
            wit.append(f'end hook of target/tag {key} ran {he.get(key, 0)} times for {n} finished orders')
    return wit


def c18(stream, scen):
    """state changes happen at the timetable's times with the timetable's states; one action per
    registered object per change."""
    wit = []
    tts = []
    for l in scen or []:
        if l[0] == 'asset' and l[1] == 'sched':
            kv = dict(t.split('=', 1) for t in l[2:] if '=' in t)
            tt = [(int(a), int(b)) for a, b in (e.split(':') for e in kv['tt'].split(','))]
            tts.append((tt, kv.get('cyc', 'def') != '0'))
    fs = frames(stream)
    seen = {}
    t0 = {}
    for i, f in enumerate(fs):
        nact = {}
        for r in f.results:
            t = r.split()
            if t[0] == 'act':
                nact[t[1]] = nact.get(t[1], 0) + 1
                if 'badargs' in r:
                    wit.append(f'frame {i}: action called with wrong arguments: {r}')
        for rec in f.recs:
            t = rec.split()
            if t[0] != 'schedule_update':
                continue
            s, tm, st = int(t[1]), int(t[2]), int(t[3])
            k = seen.get(s, 0)
            seen[s] = k + 1
            if s >= len(tts):
                continue
            tt, cyc = tts[s]
            if k == 0:
                t0[s] = tm
            if not cyc and k >= len(tt):
                wit.append(f'frame {i}: non-cyclical scheduler {s} changed state after its last entry')
                continue
            exp_t = t0[s] + sum(tt[j % len(tt)][0] for j in range(k))
            exp_s = tt[k % len(tt)][1]
            if tm != exp_t or st != exp_s:
                wit.append(f'frame {i}: scheduler {s} change #{k} at {tm} to state {st}; timetable says {exp_t}, state {exp_s}')
    return wit


def c19(stream, scen):
    """periodic measurements exactly k intervals after the start (k-fold repeated addition of the
    interval, also on a non-dyadic grid); all series (incl. time) aligned and within capacity."""
    wit = []
    sens = []
    tick = 16.0
    for l in scen or []:
        if l[0] == 'tick':
            tick = float(l[1])
        if l[0] == 'asset' and l[1] == 'sensor':
            kv = dict(t.split('=', 1) for t in l[3:] if '=' in t)
            sens.append((l[2], kv))
    fs = frames(stream)
    for i, f in enumerate(fs):
        if f.now is None:
            continue
        for k, v in f.state.items():
            if not k.startswith('n '):
                continue
            si = int(k[2:])
            if si >= len(sens):
                continue
            kind, kv = sens[si]
            d = kvline(v)
            series = [[] if x == '-' else x.split(';') for x in d['data'].split('|')]
            tm = [] if d['time'] == '-' else [num(x) / 16.0 for x in d['time'].split(';')]
            lens = set(len(x) for x in series)
            cap = kv.get('cap', 'def')
            if len(lens) > 1:
                wit.append(f'frame {i}: sensor {si} probe series have different lengths {lens}')
            if cap not in ('def', 'inf') and any(n > int(cap) for n in lens):
                wit.append(f'frame {i}: sensor {si} keeps more than its capacity {cap}')
            if kind == 'per':
                if lens and len(tm) not in lens:
                    wit.append(f'frame {i}: sensor {si} time series has {len(tm)} entries, probe series {lens}')
                iv = int(kv.get('interval', '16')) / tick
                # the window [.., t] must be consecutive members of the sequence 0+iv, +iv, +iv, ...
                if tm:
                    t, seq = 0.0, []
                    while t < tm[-1] and len(seq) < 100000:
                        t = t + iv
                        seq.append(t)
                    if seq[-len(tm):] != tm:
                        wit.append(f'frame {i}: sensor {si} measured at {tm[-4:]}, repeated addition of the interval {iv} gives {seq[-len(tm):][-4:]}')
    return wit


def c20_summary(stream, scen=None):
    """The run summary printed by `simulate` counts the parts received by EVERY registered sink during the run,
    also by sinks constructed while the run was in progress (a late-created sink behaves like one created before
    the start).  The runner compares the printed number with the registered sinks' counters."""
    return [l for l in stream if l.startswith('summary-mismatch')][:3]


def c20_init(stream, scen=None):
    """family sysi (one system; every `counts` comes after its first simulate): every registered asset
    has been initialised exactly once -- also the assets constructed while the others were being
    initialised, and the ones constructed later."""
    if not scen or not any(l[:3] in (['S', 'asset', 'maker'], ['S', 'asset', 'nester']) or l[:2] == ['S', 'newrm'] for l in scen):
        return []
    if any(l.startswith('sres err') for l in stream):
        return []          # outside the family's shape
    wit = []
    # look-up by id alone: exactly the registered asset with that id (every S line answers with one line)
    sops = [l for l in scen if l[0] == 'S']
    outs = [l for l in stream if l.startswith(('sres', 'scount'))]
    if len(sops) == len(outs):
        for op, o in zip(sops, outs):
            if op[1] == 'find' and op[3] == '-' and op[4] != '-' and op[5] == '-' and op[6] == '-':
                if o.strip() != f'sres found {op[4]}':
                    wit.append(f'find_assets(id_ of asset {op[4]}) answered "{o.strip()}", expected exactly that asset')
    for l in stream:
        if l.startswith('scount'):
            body = l[6:].strip()
            counts = [int(x) for x in body.split(';')] if body not in ('', '-') else []
            bad = [i for i, c in enumerate(counts) if c != 1]
            if bad:
                wit.append(f'after simulate: assets {bad} were initialised {[counts[i] for i in bad]} times (all counts: {counts})')
    return wit


MONITORS.update({'C09': [c09], 'C10': [c10], 'C12': [c12], 'C18': [c18], 'C19': [c19], 'C20': [c20_init, c20_summary]})


# ------------------------------------------------------------------------------- floor monitors
def plist_(s, sep=';'):
    return [] if s in ('-', '', None) else s.split(sep)


class DevS:
    """parsed `d` line"""

    def __init__(self, idx, body):
        t = body.split(' ', 1)
        self.idx = idx
        self.kind = t[0]
        self.f = kvline(t[1] if len(t) > 1 else '')

    def slot(self, k):
        v = self.f.get(k, '-')
        return None if v == '-' else int(v)

    def buf(self):
        return [(int(a), int(b)) for a, b in (e.split(':') for e in plist_(self.f.get('buf', '-')))]

    def held(self):
        out = [x for x in (self.slot('part'), self.slot('out'), self.slot('inprog')) if x is not None]
        return out + [p for _, p in self.buf()]


def devs_of(state):
    return {int(k[2:]): DevS(int(k[2:]), v) for k, v in state.items() if k.startswith('d ')}


def parts_of(state):
    out = {}
    for k, v in state.items():
        if k.startswith('p '):
            d = kvline(v)
            kids = d['kids']
            out[int(k[2:])] = {'q': d['q'], 'v': d['v'], 'hist': [int(x) for x in plist_(d['hist'])],
                               'stack': [int(x) for x in plist_(d['stack'])],
                               'kids': None if kids == '-' else [int(x) for x in plist_(kids[1:-1])]}
    return out


def leaves(parts, p):
    r = parts.get(p)
    if r is None or r['kids'] is None:
        return [p]
    return list(r['kids'])


def c02(stream, scen=None):
    """every generated leaf part is in exactly one place: one device slot, delivered to one sink, or
    reported lost by one failure; a source never exceeds its budget."""
    wit = []
    nshut = {}
    di = 0
    for l in scen or []:
        if l[:2] == ['asset', 'dev']:
            kv = dict(t.split('=', 1) for t in l[3:] if '=' in t)
            nshut[di] = int(kv.get('nshut', '0'))
            di += 1
        elif l[:2] == ['asset', 'group']:
            di += 2
    fs = frames(stream)
    generated, delivered, lost = [], [], []
    known = {}                      # last known part table (p lines persist in `state`)
    prev_parts = {}
    for i, f in enumerate(fs):
        if f.trigger[0] == 'abort':
            return wit
        if f.now is None or f.trigger[0] in ('ran', 'runbegin'):
            continue
        devs = devs_of(f.state)
        parts = parts_of(f.state)
        for rec in f.recs:
            t = rec.split()
            if t[0] == 'received_part' and int(t[1]) in devs and devs[int(t[1])].kind == 'sink':
                src = parts if int(t[3]) in parts and parts[int(t[3])]['kids'] is not None else prev_parts
                delivered += leaves(src if int(t[3]) in src else parts, int(t[3]))
            if t[0] == 'device_failure' and t[3] != '-':
                lost += leaves(prev_parts if int(t[3]) in prev_parts else parts, int(t[3]))
                if nshut.get(int(t[1]), 0) > 0:
                    told = [r.split()[4] for r in f.results if r.startswith(f'shut {t[1]} ') and r.split()[3] == '1']
                    if told.count(t[3]) != nshut[int(t[1])]:
                        wit.append(f'frame {i} (t={f.now}): part {t[3]} lost by the failure of machine {t[1]} was reported to '
                                   f'{told.count(t[3])} of its {nshut[int(t[1])]} shutdown callbacks')
        inside = []
        for d in devs.values():
            if d.kind == 'sink':
                continue
            for p in d.held():
                inside += leaves(parts, p)
            if d.kind == 'source':
                mx = d.f.get('max', 'inf')
                if mx != 'inf' and int(d.f['prod']) > int(mx):
                    wit.append(f'frame {i}: source {d.idx} supplied {d.f["prod"]} parts with a budget of {mx}')
        for p, r in parts.items():
            if r['kids'] is None and r['hist'] and p not in generated and devs.get(r['hist'][0]) is not None \
                    and devs[r['hist'][0]].kind == 'source':
                generated.append(p)
        allp = inside + delivered + lost
        if len(set(allp)) != len(allp):
            dup = sorted(set(x for x in allp if allp.count(x) > 1))
            wit.append(f'frame {i} (t={f.now}): parts {dup[:4]} are in two places (inside/delivered/lost)')
        missing = [p for p in generated if p not in allp]
        if missing:
            wit.append(f'frame {i} (t={f.now}): generated parts {missing[:4]} are nowhere (not inside, delivered or lost)')
        extra = [p for p in allp if p not in generated]
        if extra:
            wit.append(f'frame {i} (t={f.now}): parts {extra[:4]} were never generated by a source')
        prev_parts = parts
        if len(wit) > 5:
            break
    return wit


def c03(stream, scen=None):
    """the deep-copy probe of the runner (ProbeRunner) found a ready part a downstream would accept
    at an instant at which the clock advances"""
    return [l for l in stream if l.startswith('lostwake')][:5]


def c05(stream, scen=None):
    """buffer: level = stored parts (batch contents count), level <= capacity, FIFO, minimum delay"""
    wit = []
    caps, delays = {}, {}
    di = 0
    for l in scen or []:
        if l[:2] == ['asset', 'dev']:
            kv = dict(t.split('=', 1) for t in l[3:] if '=' in t)
            if l[2] == 'buffer':
                c = kv.get('cap', 'def')
                caps[di] = None if c in ('def', 'inf') else int(c)
                delays[di] = int(kv.get('delay', '0'))
            di += 1
        elif l[:2] == ['asset', 'group']:
            di += 2
    fs = frames(stream)
    prevbuf = {}
    for i, f in enumerate(fs):
        if f.trigger[0] == 'abort':
            return wit
        if f.now is None or f.trigger[0] in ('ran', 'runbegin'):
            continue
        devs = devs_of(f.state)
        parts = parts_of(f.state)
        for x, d in devs.items():
            if d.kind != 'buffer':
                continue
            buf = d.buf()
            lvl = int(d.f['lvl'])
            n = sum(len(leaves(parts, p)) for _, p in buf)
            if n != lvl:
                wit.append(f'frame {i}: buffer {x} reports level {lvl} but stores {n} parts')
            if caps.get(x) is not None and lvl > caps[x]:
                wit.append(f'frame {i}: buffer {x} stores {lvl} parts, capacity {caps[x]}')
            old = prevbuf.get(x, [])
            # the new content must be: old minus a prefix, plus appended entries
            k = 0
            while k <= len(old) and old[k:] != buf[:len(old) - k]:
                k += 1
            if k > len(old):
                wit.append(f'frame {i}: buffer {x} content {buf} is not the old content {old} minus a prefix plus new arrivals')
            else:
                for t0, p in old[:k]:
                    if f.now - t0 < delays.get(x, 0):
                        wit.append(f'frame {i}: part {p} left buffer {x} after {f.now - t0} < minimum delay {delays.get(x)}')
                ts = [t for t, _ in buf]
                if ts != sorted(ts):
                    wit.append(f'frame {i}: buffer {x} arrival times not in order {ts}')
            prevbuf[x] = buf
    return wit


def c08(stream, scen=None):
    """every leaf part inside a device has a history that ends at that device and is a walk along
    configured connections (group input/output transparent, leaving a group through a path of that
    group); a part held by a member of a group has a path of that group on top of its stack, a part
    outside every group has an empty stack; a device with a blocked input receives nothing; collected
    parts are in arrival order."""
    wit = []
    member_group = {}
    path_group = {}
    group_io = {}
    di = 0
    rewired = any((l[0] == 'script' and l[2] == 'rewire') or (l[0] == 'ext' and l[1] in ('rewire', 'create'))
                  or (l[0] == 'script' and l[2] == 'create') for l in (scen or []))
    for l in scen or []:
        if l[:2] == ['asset', 'dev']:
            kv = dict(t.split('=', 1) for t in l[3:] if '=' in t)
            if l[2] == 'gpath':
                path_group[di] = int(kv['group'])
            di += 1
        elif l[:2] == ['asset', 'group']:
            kv = dict(t.split('=', 1) for t in l[3:] if '=' in t)
            for m in kv['devs'].split(','):
                member_group.setdefault(int(m), []).append(int(l[2]))
            group_io[int(l[2])] = (di, di + 1)
            di += 2
    nested = any(len(v) > 1 for v in member_group.values()) or any(p in member_group for p in path_group)
    fs = frames(stream)
    prev = None
    collected = {}
    checked = set()
    for i, f in enumerate(fs):
        if f.trigger[0] == 'abort':
            return wit
        if f.now is None or f.trigger[0] in ('ran', 'runbegin'):
            continue
        devs = devs_of(f.state)
        parts = parts_of(f.state)
        dn = {x: [int(z) for z in plist_(d.f.get('dn', '-'))] for x, d in devs.items()}
        paths_of = {}
        for p, g in path_group.items():
            paths_of.setdefault(g, []).append(p)

        def edge_ok(a, b):
            if b in dn.get(a, []):
                return True
            if a in path_group:                       # a path hands over to the group's input devices
                gi = group_io.get(path_group[a], (None, None))[0]
                if gi is not None and b in dn.get(gi, []):
                    return True
            for g, (gi, go) in group_io.items():       # a device feeding the group's output: leaves by a path
                if go in dn.get(a, []):
                    if any(b in dn.get(p, []) for p in paths_of.get(g, [])):
                        return True
                    # innermost first: the path's downstream may itself be a group's output (nested)
                    for p in paths_of.get(g, []):
                        for g2, (gi2, go2) in group_io.items():
                            if go2 in dn.get(p, []) and any(b in dn.get(p2, []) for p2 in paths_of.get(g2, [])):
                                return True
            return False

        for x, d in devs.items():
            for top in d.held():
                r = parts.get(top)
                if r is None:
                    continue
                for p in leaves(parts, top):
                    rp = parts.get(p)
                    if rp is None:
                        continue
                    if not rp['hist'] or rp['hist'][-1] != x:
                        wit.append(f'frame {i}: part {p} is inside device {x} but its routing history ends with {rp["hist"][-2:]}')
                    key = (p, len(rp['hist']))
                    if not rewired and key not in checked:
                        checked.add(key)
                        h = rp['hist']
                        for a, b in zip(h, h[1:]):
                            if not edge_ok(a, b):
                                wit.append(f'frame {i}: routing history of part {p} is {h}: {a} -> {b} is not a configured connection')
                                break
                if d.kind == 'batcher' and d.slot('inprog') == top:
                    continue
                if x in member_group and not nested:
                    g = member_group[x][0]
                    if not r['stack'] or path_group.get(r['stack'][-1]) != g:
                        wit.append(f'frame {i}: part {top} is inside group {g} (device {x}) but the top of its path stack is {r["stack"][-1:]}')
                if x in member_group and nested and (not r['stack'] or path_group.get(r['stack'][-1]) not in member_group[x]):
                    wit.append(f'frame {i}: part {top} is inside groups {member_group[x]} (device {x}) but the top of its path stack is {r["stack"][-1:]}')
                if x not in member_group and x not in path_group and r['stack'] and not nested:
                    wit.append(f'frame {i}: part {top} is outside every group (device {x}) but its path stack is {r["stack"]}')
            if d.kind == 'sink':
                c = [int(z) for z in plist_(d.f.get('coll', '-'))]
                old = collected.get(x, [])
                if c[:len(old)] != old:
                    wit.append(f'frame {i}: collected list of sink {x} is not append-only: {old} -> {c}')
                collected[x] = c
                for p in c[len(old):]:
                    rp = parts.get(p)
                    if rp is not None and not rewired:
                        h = rp['hist']
                        for a, b in zip(h, h[1:]):
                            if not edge_ok(a, b):
                                wit.append(f'frame {i}: routing history of collected part {p} is {h}: {a} -> {b} is not a configured connection')
                                break
                        if rp['stack']:
                            wit.append(f'frame {i}: collected part {p} still has group paths {rp["stack"]} on its stack')
        if prev is not None:
            pd = devs_of(prev.state)
            for rec in f.recs:
                t = rec.split()
                if t[0] == 'received_part':
                    x = int(t[1])
                    if x in pd and x in devs and pd[x].f.get('blk') == '1' and devs[x].f.get('blk') == '1':
                        wit.append(f'frame {i}: device {x} received part {t[3]} while its input was blocked')
        prev = f
        if len(wit) > 5:
            break
    return wit


def c08_gate(stream, scen=None):
    """a part passes a decision gate only if the gate's predicate accepts the part AS IT IS when it is offered: whenever
    the routing history of a single part grows by a gate in some event, the gate's predicate holds for the quality /
    value the part had just before that event (pass-through devices do not change a part; callbacks of the receiving
    device run after the gate has decided).  Also for a part that meets the same gate again (rework loops, a hand-over
    that was refused behind the gate and is repeated later)."""
    wit = []
    pred = {}
    di = 0
    for l in scen or []:
        if l[:2] == ['asset', 'dev']:
            if l[2] == 'gate':
                kv = dict(t.split('=', 1) for t in l[3:] if '=' in t)
                pred[di] = kv.get('pred', 'always').split(':')
            di += 1
        elif l[:2] == ['asset', 'group']:
            di += 2
        elif l[0] in ('script', 'ext') and 'create' in l[1:3]:
            break                   # device indices after a creation at run time are not tracked here
    if not any(p[0] not in ('always',) for p in pred.values()):
        return wit

    def holds(pr, q, v):
        if pr[0] == 'always':
            return True
        if pr[0] == 'never':
            return False
        x = q if pr[0][0] == 'q' else v
        return x >= int(pr[1]) if pr[0].endswith('ge') else x < int(pr[1])
    fs = frames(stream)
    prev = None
    for i, f in enumerate(fs):
        if f.trigger[0] == 'abort':
            return wit
        if f.now is None or f.trigger[0] in ('ran', 'runbegin'):
            continue
        parts = parts_of(f.state)
        if prev is not None:
            old = parts_of(prev.state)
            inside = {k for r in list(parts.values()) + list(old.values()) if r['kids'] for k in r['kids']}
            for p, r in parts.items():
                o = old.get(p)
                if o is None or r['kids'] is not None or o['kids'] is not None or p in inside:
                    continue        # (a batch is judged by the gate as a whole; its members only follow it)
                h0, h1 = o['hist'], r['hist']
                if len(h1) <= len(h0) or h1[:len(h0)] != h0:
                    continue
                try:
                    q, v = int(o['q']), int(o['v'])
                except ValueError:
                    continue
                for g in h1[len(h0):]:
                    if g in pred and not holds(pred[g], q, v):
                        wit.append(f'frame {i} (t={f.now}): part {p} (quality {q}, value {v}) passed gate {g} whose predicate '
                                   f'{":".join(pred[g])} rejects it; history {h1[-6:]}')
        prev = f
        if len(wit) > 3:
            break
    return wit


def c11(stream, scen=None):
    """a processor with required resources has a part in process only while holding exactly them;
    pool usage = sum of the processors' holdings; no idle operational processor holds resources when
    the clock advances."""
    wit = []
    req = {}
    di = 0
    for l in scen or []:
        if l[:2] == ['asset', 'dev']:
            kv = dict(t.split('=', 1) for t in l[3:] if '=' in t)
            if 'res' in kv:
                req[di] = {k: v for k, v in preq(kv['res']).items() if v > 0}
            di += 1
        elif l[:2] == ['asset', 'group']:
            di += 2
    fs = frames(stream)
    adv = set(advance_frames(fs))
    for i, f in enumerate(fs):
        if f.trigger[0] == 'abort':
            return wit
        for r in f.results:
            # marker written by the runner from inside the first shutdown callback of a failing processor
            if r.startswith('failobs ') and 'holds-at-failure' in r:
                t = r.split()
                wit.append(f'frame {i} (t={f.now}): processor {t[1]} announces its failure (part lost, nothing in process) '
                           f'while it still holds {t[3]}, pool {t[4]}')
        if f.now is None or f.trigger[0] in ('ran', 'runbegin'):
            continue
        devs = devs_of(f.state)
        pools = pools_of(f.state)
        tot = {}
        for x, d in devs.items():
            if d.kind != 'processor':
                continue
            rv = d.f.get('resv', '-')
            held = None if rv == '-' else preq(rv[1:-1])
            if held is not None:
                for r, a in held.items():
                    tot[r] = tot.get(r, 0) + a
            if x in req and d.slot('part') is not None and held != req[x]:
                wit.append(f'frame {i}: processor {x} has part {d.slot("part")} in process holding {held}, requires {req[x]}')
            if i in adv and held is not None and d.slot('part') is None and d.f.get('down') == '0' and sum(held.values()) > 0:
                wit.append(f'frame {i} (t={f.now}): clock advances while idle operational processor {x} holds {held}')
        for r, (u, c) in pools.items():
            if tot.get(r, 0) != u:
                wit.append(f'frame {i}: pool {r} usage {u} but processors hold {tot.get(r, 0)}')
        if len(wit) > 5:
            break
    return wit


def c13(stream, scen=None):
    """uptime / utilisation integrate the operational / processing indicator; a failure drops exactly
    the part in process and keeps a finished part; a machine that is down receives and releases nothing."""
    wit = []
    fs = frames(stream)
    prev = None
    acc_up, acc_use = {}, {}
    for i, f in enumerate(fs):
        if f.trigger[0] == 'abort':
            return wit
        if f.now is None or f.trigger[0] in ('ran', 'runbegin'):
            continue
        devs = devs_of(f.state)
        if prev is not None:
            pd = devs_of(prev.state)
            dt = f.now - prev.now
            for x, d in devs.items():
                if d.kind != 'processor' or x not in pd:
                    continue
                o = pd[x]
                if o.f['down'] == '0':
                    acc_up[x] = acc_up.get(x, 0) + dt
                    if o.slot('part') is not None:
                        acc_use[x] = acc_use.get(x, 0) + dt
                if int(d.f['up']) != acc_up.get(x, 0):
                    wit.append(f'frame {i} (t={f.now}): processor {x} reports uptime {d.f["up"]}, operational time so far is {acc_up.get(x, 0)}')
                if int(d.f['use']) != acc_use.get(x, 0):
                    wit.append(f'frame {i} (t={f.now}): processor {x} reports utilisation {d.f["use"]}, processing time so far is {acc_use.get(x, 0)}')
                if o.f['down'] == '1' and d.f['down'] == '1':
                    if d.slot('part') is not None and d.slot('part') != o.slot('part'):
                        wit.append(f'frame {i}: processor {x} accepted part {d.slot("part")} while down')
                    if o.slot('out') is not None and d.slot('out') is None:
                        wit.append(f'frame {i}: processor {x} released part {o.slot("out")} while down')
            for rec in f.recs:
                t = rec.split()
                if t[0] == 'device_failure':
                    x = int(t[1])
                    if x in pd and x in devs:
                        was = pd[x].slot('part')
                        rep = None if t[3] == '-' else int(t[3])
                        if len([r for r in f.recs if r.startswith(f'device_failure {x} ')]) == 1:
                            if rep != was:
                                wit.append(f'frame {i}: failure of {x} reports lost part {rep}, part in process was {was}')
                            if devs[x].slot('part') is not None:
                                wit.append(f'frame {i}: processor {x} still has a part in process after failing')
                            if pd[x].slot('out') != devs[x].slot('out') and pd[x].f['down'] == '1':
                                wit.append(f'frame {i}: failure of {x} changed its finished part')
                            ncb = sum(1 for r in f.results if r.startswith(f'shut {x} ') and r.split()[3] == '1')
                            nreg = None
                            if rep is not None and any(r.startswith(f'shut {x} ') for r in f.results):
                                lostrep = [r.split()[4] for r in f.results if r.startswith(f'shut {x} ') and r.split()[3] == '1']
                                if any(z != str(rep) for z in lostrep):
                                    wit.append(f'frame {i}: shutdown callbacks of {x} were told lost part {lostrep}, failure log says {rep}')
        prev = f
        if len(wit) > 5:
            break
    return wit


def c15(stream, scen=None):
    """after every event: last level record = buffer level, last resource_update = pool, source
    counter = number of supplied records, sink counter = parts in received records."""
    wit = []
    fs = frames(stream)
    last_level, last_res, supplied, recvd = {}, {}, {}, {}
    known = {}
    for i, f in enumerate(fs):
        if f.trigger[0] == 'abort':
            return wit
        parts_now = parts_of(f.state) if f.now is not None else {}
        for rec in f.recs:
            t = rec.split()
            if 'not-stored(' in t[-1]:
                # the runner watches every add_datapoint call: exactly one record per occurrence
                wit.append(f'frame {i} (t={f.now}): a datapoint was handed to add_datapoint but its series did not grow by exactly this one entry: {rec}')
            if t[0] == 'level':
                last_level[int(t[1])] = int(t[3])
                if f.now is not None and int(t[2]) != f.now:
                    wit.append(f'frame {i}: level record stamped {t[2]} at time {f.now}')
            elif t[0] == 'resource_update':
                last_res[int(t[1])] = (int(t[3]), int(t[4]))
            elif t[0] == 'supplied_new_part':
                supplied[int(t[1])] = supplied.get(int(t[1]), 0) + 1
            elif t[0] == 'received_part':
                src = parts_now if int(t[3]) in parts_now else known
                recvd[int(t[1])] = recvd.get(int(t[1]), 0) + len(leaves(src, int(t[3])))
                if f.now is not None and int(t[2]) != f.now:
                    wit.append(f'frame {i}: received_part record stamped {t[2]} at time {f.now}')
        if f.now is None or f.trigger[0] in ('ran', 'runbegin'):
            continue
        devs = devs_of(f.state)
        # one failure record per failure occurrence (occurrences seen through the shutdown callbacks)
        failed_cb = set(r.split()[1] for r in f.results if r.startswith('shut ') and r.split()[3] == '1')
        for x in failed_cb:
            nrec = sum(1 for r in f.recs if r.startswith(f'device_failure {x} '))
            if nrec != 1:
                wit.append(f'frame {i} (t={f.now}): machine {x} failed (its shutdown callbacks were told so) but {nrec} device_failure records were written')
        # ... and through the executed failure events themselves (a failure that hits a machine which is
        # already down and holds no part tells no callback, but it is a failure occurrence all the same)
        if f.trigger[0] == 'ev' and f.trigger[1]['status'] == 'ran' and f.trigger[1]['act'] % 16 == 4:
            x = f.trigger[1]['act'] // 16
            if x in devs and devs[x].kind == 'processor' and str(x) not in failed_cb:
                nrec = sum(1 for r in f.recs if r.startswith(f'device_failure {x} '))
                if nrec != 1:
                    wit.append(f'frame {i} (t={f.now}): the failure event of machine {x} was executed but {nrec} device_failure records were written')
        for x, d in devs.items():
            if d.kind == 'buffer' and x in last_level and last_level[x] != int(d.f['lvl']):
                wit.append(f'frame {i}: last level record of buffer {x} is {last_level[x]}, level is {d.f["lvl"]}')
            if d.kind == 'source' and int(d.f['prod']) != supplied.get(x, 0):
                wit.append(f'frame {i}: source {x} counter {d.f["prod"]} vs {supplied.get(x, 0)} supplied records')
            if d.kind == 'sink' and int(d.f['recv']) != recvd.get(x, 0):
                wit.append(f'frame {i}: sink {x} counter {d.f["recv"]} vs {recvd.get(x, 0)} parts in received records')
        started = any(k.startswith('d ') for k in f.state) and f.trigger[0] == 'ev'
        if started:
            for r, (u, c) in pools_of(f.state).items():
                if r in last_res and last_res[r] != (u, c):
                    wit.append(f'frame {i}: last resource_update of {r} is {last_res[r]}, pool is {(u, c)}')
                if r not in last_res:
                    # once the manager is initialised every pool has a record (C15W.last_resource_reachable)
                    wit.append(f'frame {i}: pool {r} = {(u, c)} exists but no resource_update was ever recorded for it')
        known.update(parts_now)
        if len(wit) > 5:
            break
    return wit


def c16(stream, scen=None):
    """value bookkeeping checked on the live objects by the runner (ValueRunner); plus, from the
    stream: a source's value is minus the summed value its supplied parts had when they were
    supplied, a sink's value the summed value of the parts at receipt; inside a receive callback registered on a
    sink the sink's public counters already contain the part (marker `sinkcb-unbooked` of the runner)."""
    wit = [l for l in stream if l.startswith(('valbad', 'res sinkcb-unbooked'))][:5]
    fs = frames(stream)
    prev_parts = {}
    cost, recv = {}, {}
    for i, f in enumerate(fs):
        if f.trigger[0] == 'abort':
            return wit
        if f.now is None or f.trigger[0] in ('ran', 'runbegin'):
            continue
        parts = parts_of(f.state)
        devs = devs_of(f.state)
        for rec in f.recs:
            t = rec.split()
            if t[0] == 'supplied_new_part':
                p = int(t[3])
                if p in prev_parts:
                    cost[int(t[1])] = cost.get(int(t[1]), 0) + int(prev_parts[p]['v'])
                else:
                    cost[int(t[1])] = None
            if t[0] == 'received_part' and int(t[1]) in devs and devs[int(t[1])].kind == 'sink':
                if recv.get(int(t[1]), 0) is not None:
                    recv[int(t[1])] = recv.get(int(t[1]), 0) + int(t[5])
        for x, d in devs.items():
            if d.kind == 'source' and cost.get(x) is not None and x in cost:
                if int(d.f['val']) != -cost[x]:
                    wit.append(f'frame {i} (t={f.now}): source {x} has value {d.f["val"]}, the parts it supplied were worth {cost[x]} when supplied')
            if d.kind == 'sink' and x in recv and int(d.f['val']) != recv[x]:
                wit.append(f'frame {i} (t={f.now}): sink {x} has value {d.f["val"]}, the parts it received were worth {recv[x]} at receipt')
        prev_parts = parts
        if len(wit) > 5:
            break
    return wit


def c17(stream, scen=None):
    """a batcher emits batches of exactly n parts (or single parts), and the leaves leaving are, in
    order, the leaves that arrived."""
    wit = []
    bsz = {}
    di = 0
    for l in scen or []:
        if l[:2] == ['asset', 'dev']:
            kv = dict(t.split('=', 1) for t in l[3:] if '=' in t)
            if l[2] == 'batcher':
                b = kv.get('bsz', '-')
                bsz[di] = None if b in ('-', 'def', 'inf') else int(b)
            di += 1
        elif l[:2] == ['asset', 'group']:
            di += 2
    fs = frames(stream)
    arrived, emitted, lastout = {}, {}, {}
    prev_parts = {}
    for i, f in enumerate(fs):
        if f.trigger[0] == 'abort':
            return wit
        if f.now is None or f.trigger[0] in ('ran', 'runbegin'):
            continue
        devs = devs_of(f.state)
        parts = parts_of(f.state)
        for rec in f.recs:
            t = rec.split()
            if t[0] == 'received_part' and int(t[1]) in bsz:
                src = prev_parts if int(t[3]) in prev_parts else parts
                arrived.setdefault(int(t[1]), []).extend(leaves(src, int(t[3])))
        for x in bsz:
            d = devs.get(x)
            if d is None:
                continue
            o = d.slot('out')
            if o is not None and o != lastout.get(x):
                lv = leaves(parts, o)
                if bsz[x] is None:
                    if parts.get(o, {}).get('kids') is not None:
                        wit.append(f'frame {i}: single-part batcher {x} emits a batch {o}')
                elif parts.get(o, {}).get('kids') is None or len(lv) != bsz[x]:
                    wit.append(f'frame {i}: batcher {x} (size {bsz[x]}) emits {o} with {len(lv)} parts')
                emitted.setdefault(x, []).extend(lv)
            lastout[x] = o
            ip = d.slot('inprog')
            if ip is not None and bsz[x] is not None and bsz[x] >= 1:
                nk = len(parts.get(ip, {}).get('kids') or [])
                if nk >= bsz[x]:
                    wit.append(f'frame {i}: batcher {x} (size {bsz[x]}) keeps {nk} parts in its unfinished batch {ip}: '
                               f'a full batch was not completed')
            em = emitted.get(x, [])
            ar = arrived.get(x, [])
            if em != ar[:len(em)]:
                wit.append(f'frame {i}: batcher {x} emitted leaves {em[-6:]} which is not a prefix of the arrivals {ar[:len(em)][-6:]}')
        prev_parts = parts
        if len(wit) > 5:
            break
    return wit


def c17_hist(stream, scen=None):
    """every routing-history update of a batch is applied to the parts it contains: after every
    event the history of a batch is a suffix of the history of each part inside it."""
    wit = []
    for i, f in enumerate(frames(stream)):
        if f.trigger[0] == 'abort':
            return wit
        if f.now is None:
            continue
        parts = parts_of(f.state)
        live = {x for d in devs_of(f.state).values() for x in d.held()}
        for b, r in parts.items():
            if b not in live:        # a batch no device holds any more keeps its last printed line
                continue
            for k in r['kids'] or []:
                if k not in parts:
                    continue
                hb, hk = r['hist'], parts[k]['hist']
                if hb and hk[len(hk) - len(hb):] != hb:
                    wit.append(f'frame {i} (t={f.now}): batch {b} has routing history {hb} but part {k} inside it has {hk}')
        if len(wit) > 5:
            break
    return wit


IDLE_SKIP_OPS = {'shutdown', 'restore', 'schedfailrel', 'schedfail', 'fail', 'wo', 'rewire', 'create', 'addres',
                 'reserve', 'release', 'register', 'merge', 'pause', 'unpause', 'cancel'}


def c08_idle(stream, scen=None):
    """idle-longest rule, with an idle clock kept by the monitor itself: when a device hands a part
    directly to one of several parallel single-slot devices (handler / processor / sink) that were
    all free, unblocked and operational, the receiver is one that has been free for the longest
    time (free since = the moment its last part left, or its creation).  Applied only to scenarios
    without failures, shutdowns, work orders, rewiring and resource requirements (which change what
    'able to take a part' means); input blocking and unblocking are allowed."""
    for l in scen or []:
        op = l[2] if l[0] == 'script' and len(l) > 2 else (l[1] if l[0] == 'ext' and len(l) > 1 else None)
        if op in IDLE_SKIP_OPS or l[0] in ('wire', 'target', 'res'):
            return []
        if l[:2] == ['asset', 'dev'] and any(t.startswith(('res=', 'fincb=', 'reccb=')) for t in l[3:]):
            return []
        if l[:2] == ['asset', 'maint'] or l[:2] == ['asset', 'group']:
            return []
    wit = []
    free_since = {}
    prev = None
    single = ('handler', 'processor', 'sink')
    always_gates = set()
    di = 0
    for l in scen or []:
        if l[:2] == ['asset', 'dev']:
            if l[2] == 'gate' and 'pred=always' in l:
                always_gates.add(di)
            di += 1
    for i, f in enumerate(frames(stream)):
        if f.trigger[0] == 'abort':
            return wit
        if f.now is None or f.trigger[0] in ('ran', 'runbegin'):
            continue
        devs = devs_of(f.state)
        pd = devs_of(prev.state) if prev is not None else {}
        if f.trigger[0] == 'ev' and f.trigger[1]['status'] == 'ran' and f.trigger[1]['act'] % 16 == 3 and pd:
            g = f.trigger[1]['act'] // 16
            if g in pd and pd[g].kind in ('source', 'handler', 'processor') and pd[g].slot('out') is not None:
                p = pd[g].slot('out')
                dn = [int(z) for z in plist_(pd[g].f.get('dn', '-'))]
                # a branch may start with an (always-accepting, unblocked) gate in front of ONE single-slot device:
                # the branch's idle time is that device's
                def through(y):
                    if y in pd and pd[y].kind == 'gate' and y in always_gates and pd[y].f.get('blk') == '0':
                        z = [int(t) for t in plist_(pd[y].f.get('dn', '-'))]
                        if len(z) == 1:
                            return z[0]
                    return y
                dn = [through(y) for y in dn]
                if dn and len(set(dn)) == len(dn) and all(y in pd and pd[y].kind in single for y in dn):
                    cand = [y for y in dn if pd[y].slot('part') is None and pd[y].slot('out') is None
                            and pd[y].f.get('blk') == '0' and pd[y].f.get('down') == '0' and y in free_since]
                    recv = [y for y in dn if y in devs and devs[y].slot('part') == p and pd[y].slot('part') is None]
                    if len(recv) == 1 and recv[0] in cand and len(cand) >= 2:
                        x = recv[0]
                        better = [y for y in cand if free_since[y] < free_since[x]]
                        if better:
                            wit.append(f'frame {i} (t={f.now}): device {g} handed part {p} to {x} (free since {free_since[x]}) although '
                                       f'{better[0]} was free, unblocked and operational and has been free since {free_since[better[0]]}')
        got = {int(r.split()[1]) for r in f.recs if r.startswith('received_part ')}
        for y, d in devs.items():
            if d.kind not in single:
                continue
            empty = d.slot('part') is None and d.slot('out') is None
            if y in got and empty:
                free_since[y] = f.now          # received and passed on / consumed within the same event
            elif y not in pd:
                if empty:
                    free_since[y] = f.now
            else:
                was_empty = pd[y].slot('part') is None and pd[y].slot('out') is None
                if empty and not was_empty:
                    free_since[y] = f.now
                elif empty and y not in free_since:
                    free_since[y] = f.now
                elif not empty:
                    free_since.pop(y, None)
        prev = f
        if len(wit) > 3:
            break
    return wit


def c06_source(stream, scen=None):
    """a source needs its full cycle time for every part it supplies: two consecutive supplies of one
    source are at least its cycle time apart (sources whose cycle time is changed by the scenario are
    skipped)."""
    for l in scen or []:
        op = l[2] if l[0] == 'script' and len(l) > 2 else (l[1] if l[0] == 'ext' and len(l) > 1 else None)
        if op in ('setcycle', 'offset', 'setparams'):
            return []
    wit = []
    last = {}
    for i, f in enumerate(frames(stream)):
        if f.trigger[0] == 'abort':
            return wit
        devs = devs_of(f.state) if f.now is not None else {}
        for rec in f.recs:
            t = rec.split()
            if t[0] != 'supplied_new_part':
                continue
            x, when = int(t[1]), num(t[2])
            d = devs.get(x)
            if d is not None and d.kind == 'source' and x in last:
                cyc = num(d.f['cyc'])
                if when - last[x] < cyc and not close(when - last[x], cyc):
                    wit.append(f'frame {i}: source {x} (cycle time {cyc}) supplied parts at {last[x]} and {when}: only {when - last[x]} apart')
            last[x] = when
        if len(wit) > 3:
            break
    return wit


MONITORS.update({'C02': [c02], 'C03': [c03], 'C05': [c05], 'C08': [c08, c08_idle, c08_gate], 'C11': [c11], 'C13': [c13],
                 'C15': [c15], 'C16': [c16], 'C17': [c17, c05, c17_hist]})


# ------------------------------------------------------------------------------------------ C04
NEG = float('-inf')


def serial_topups(scen):
    """Budget top-ups of the source of a serial scenario: [(time, amount)] in ticks, or None when the scenario changes
    the budget in a way the reference does not describe (a reduction, or an operation before the first run).  Two
    forms are understood: `script k adjust 0 n` scheduled from outside with `ext sched t a k p` / `ext schedrel ..`
    (executed at that instant if it is not in the past), and `ext adjust 0 n` between two runs (executed at the
    clock value reached by the runs so far)."""
    scripts = {}
    for l in scen:
        if l[0] == 'script':
            scripts.setdefault(l[1], []).append(l[2:])
    ups = []
    now = 0
    started = False

    def add(t, op):
        if op[0] != 'adjust':
            return True
        if op[1] != '0' or int(op[2]) < 0:
            return False
        ups.append((t, int(op[2])))
        return True
    for l in scen:
        if l[0] == 'run':
            now += int(l[1])
            started = True
        elif l[0] == 'ext' and l[1] in ('sched', 'schedrel'):
            t = int(l[2]) + (now if l[1] == 'schedrel' else 0)
            if t < now:
                continue        # a request in the past is rejected
            for op in scripts.get(l[4], []):
                if not add(t, op):
                    return None
        elif l[0] == 'ext' and l[1] == 'adjust':
            if not started or not add(now, l[1:]):
                return None
    return sorted(ups)


def serial_ref(scen, nparts):
    """Reference recurrence for a serial line: E[j][k] = time part k (1-based) enters station j.
    Stations: 0 = source, 1..n-1 = handler/processor (cycle c) or buffer (delay, capacity K), n = sink.
    A source whose budget is topped up: part k is PERMITTED from the instant tau_k at which the budget reaches k; the
    source starts its next cycle when the previous part leaves it (whatever the budget), so part k leaves at
    max(D(0,k-1) + c_0, tau_k, space downstream)."""
    st = []
    for l in scen:
        if l[:2] == ['asset', 'dev']:
            kv = dict(t.split('=', 1) for t in l[3:] if '=' in t)
            st.append((l[2], kv))
    n = len(st) - 1
    c = [0] * (n + 1)
    K = [1] * (n + 1)
    isbuf = [False] * (n + 1)
    for j, (kind, kv) in enumerate(st):
        if kind == 'buffer':
            isbuf[j] = True
            c[j] = int(kv.get('delay', '0'))
            cap = kv.get('cap', 'def')
            K[j] = None if cap in ('def', 'inf') else int(cap)
        else:
            c[j] = int(kv.get('cyc', '0'))
    budget = st[0][1].get('budget', 'def')
    budget = None if budget in ('def', 'inf') else int(budget)
    tau = {}
    if budget is not None:
        total = budget
        for t, a in serial_topups(scen) or []:
            for k in range(total + 1, total + a + 1):
                tau[k] = t
            total += a
        nparts = min(nparts, total)
    D = [[NEG] * (nparts + 2) for _ in range(n + 1)]   # D[j][k]: part k leaves station j (k>=1)
    E = [[NEG] * (nparts + 2) for _ in range(n + 2)]

    def free(j, k):
        """earliest time station j can take part k"""
        if j == n:
            return NEG if k == 1 else E[n][k - 1] + c[n]
        if K[j] is None:
            return NEG
        return NEG if k - K[j] < 1 else D[j][k - K[j]]

    for k in range(1, nparts + 1):
        g = c[0] if k == 1 else D[0][k - 1] + c[0]
        D[0][k] = max(g, tau.get(k, NEG), free(1, k))
        for j in range(1, n + 1):
            E[j][k] = D[j - 1][k]
            if j == n:
                break
            if isbuf[j]:
                D[j][k] = max(E[j][k] + c[j], D[j][k - 1] if k > 1 else NEG, free(j + 1, k))
            else:
                D[j][k] = max(E[j][k] + c[j], free(j + 1, k))
    return E, n


def c04(stream, scen):
    """serial line: the time the k-th part enters each station equals the blocking-after-service
    recurrence (exactly), and when a run call returns at clock value T (every run of a horizon split over several
    calls, calls of length 0 included) exactly the entries due no later than T have happened."""
    wit = []
    kinds = [l[2] for l in scen if l[:2] == ['asset', 'dev']]
    if len(kinds) < 2 or kinds[0] != 'source' or kinds[-1] != 'sink' or serial_topups(scen) is None:
        return wit          # not a serial line source -> stations -> sink (e.g. a shrinking candidate without its sink)
    fs = frames(stream)
    seen = {}
    horizon = 0
    marks = []          # (clock value at which a run call returned, entries per station so far)
    for f in fs:
        if f.trigger[0] == 'abort':
            return wit
        if f.now is not None:
            horizon = max(horizon, f.now)
        for rec in f.recs:
            t = rec.split()
            if t[0] == 'received_part':
                seen.setdefault(int(t[1]), []).append(int(t[2]))
        if f.trigger[0] == 'ran':
            marks.append((f.trigger[1], {j: len(v) for j, v in seen.items()}))
    nparts = max([len(v) for v in seen.values()] + [0]) + 3
    E, n = serial_ref(scen, nparts)
    # what had to be done when the m-th run call returned: the reference of the scenario UP TO that call (a top-up
    # made from outside afterwards, at the same clock value, belongs to the next call)
    runs = [i for i, l in enumerate(scen) if l[0] == 'run']
    partial = [serial_ref(scen[:i + 1], nparts)[0] for i in runs[:len(marks)]]
    for j in range(1, n + 1):
        got = seen.get(j, [])
        exp = [int(x) for x in E[j][1:] if x != NEG and x <= horizon]
        if got != exp:
            wit.append(f'station {j}: parts entered at {got[:8]}..., the reference recurrence gives {exp[:8]}... (horizon {horizon})')
            continue
        for (T, cnt), Em in zip(marks, partial):
            due = sum(1 for x in Em[j][1:] if x != NEG and x <= T)
            if cnt.get(j, 0) != due:
                wit.append(f'station {j}: when the run call returned at t={int(T)}, {cnt.get(j, 0)} parts had entered; the reference '
                           f'recurrence has {due} entries up to that instant ({exp[:8]}...)')
                break
    return wit


MONITORS['C04'] = [c04]


# ------------------------------------------------------------------------------------------ C06
def c06(stream, scen=None):
    """every part accepted by a handler / processor leaves processing after exactly the cycle time in
    effect at acceptance (one-shot offsets included, floored at 0) of OPERATIONAL time (maintenance
    downtime added on top), unless a failure loses it; a sink accepts the next part no sooner than its
    cycle time after the previous one."""
    wit = []
    cbs = {}
    fcbs = {}
    di = 0
    for l in scen or []:
        if l[:2] == ['asset', 'dev']:
            kv = dict(t.split('=', 1) for t in l[3:] if '=' in t)
            if 'recvcb' in kv:
                cbs[di] = [c.split(':') for c in kv['recvcb'].split(',')]
            if 'fincb' in kv:
                fcbs[di] = [c.split(':') for c in kv['fincb'].split(',')]
            di += 1
        elif l[:2] == ['asset', 'group']:
            di += 2
    fs = frames(stream)
    prev = None
    cur = {}        # device -> [pid, expected cycle, work so far]
    last_sink = {}
    for i, f in enumerate(fs):
        if f.trigger[0] == 'abort':
            return wit
        if f.now is None or f.trigger[0] in ('ran', 'runbegin'):
            continue
        devs = devs_of(f.state)
        pd = devs_of(prev.state) if prev is not None else {}
        dt = (f.now - prev.now) if prev is not None else 0
        lost = {}
        for rec in f.recs:
            t = rec.split()
            if t[0] == 'device_failure' and t[3] != '-':
                lost[int(t[1])] = int(t[3])
        for x, d in devs.items():
            if d.kind not in ('handler', 'processor'):
                continue
            o = pd.get(x)
            if x in cur and o is not None:
                if o.f.get('down', '0') == '0' and o.slot('part') == cur[x][0]:
                    cur[x][2] += dt
            if x in cur and d.slot('part') != cur[x][0]:
                pid, c, work = cur.pop(x)
                if lost.get(x) == pid:
                    pass
                elif work != c:
                    wit.append(f'frame {i} (t={f.now}): part {pid} left processing in device {x} after {work} of operational '
                               f'time, cycle time in effect at acceptance was {c}')
                elif d.slot('out') != pid and not any(r.startswith(f'received_part ') and r.split()[3] == str(pid) for r in f.recs):
                    pass
        for rec in f.recs:
            t = rec.split()
            if t[0] != 'received_part':
                continue
            x, pid = int(t[1]), int(t[3])
            d = devs.get(x)
            if d is None:
                continue
            if d.kind == 'sink':
                if x in last_sink and f.now - last_sink[x][0] < last_sink[x][1]:
                    wit.append(f'frame {i}: sink {x} accepted a part {f.now - last_sink[x][0]} after the previous one, '
                               f'cycle time in effect (one-shot offset included) {last_sink[x][1]}')
                # cycle time in effect for THIS part: the sink's cycle time and one-shot offset just before the receipt
                c0 = int(pd[x].f.get('cyc', '0')) if x in pd else int(d.f.get('cyc', '0'))
                o0 = int(pd[x].f.get('off', '0')) if x in pd else 0
                for cb in cbs.get(x, []):
                    o0 += int(cb[1])
                    if cb[0] != '-':
                        c0 = int(cb[0])
                last_sink[x] = (f.now, max(0, c0 + o0))
            if d.kind in ('handler', 'processor'):
                off = int(pd[x].f.get('off', '0')) if x in pd else 0
                cyc = int(pd[x].f.get('cyc', '0')) if x in pd else int(d.f.get('cyc', '0'))
                for cb in cbs.get(x, []):
                    off += int(cb[1])
                    if cb[0] != '-':
                        cyc = int(cb[0])
                c = max(0, cyc + off)
                fin_here = any(r.startswith(f'produced_part {x} ') for r in f.recs)
                allowed = sum(int(c[1]) for c in fcbs.get(x, [])) if fin_here else 0
                later_ops = any(l[0] == 'script' and l[2] == 'offset' and l[3] == str(x) for l in (scen or []))
                if int(d.f.get('off', '0')) != allowed and not later_ops:
                    wit.append(f'frame {i}: device {x} accepted part {pid} but its one-shot cycle-time offset is still {d.f.get("off")}')
                if d.slot('part') == pid:
                    if x in cur:
                        wit.append(f'frame {i}: device {x} accepted part {pid} while still processing {cur[x][0]}')
                    cur[x] = [pid, c, 0]
                elif c != 0 and lost.get(x) != pid:
                    wit.append(f'frame {i}: part {pid} was accepted by device {x} and left processing in the same event, cycle time {c}')
        prev = f
        if len(wit) > 5:
            break
    return wit


def c06_oneshot(stream, scen=None):
    """a one-shot offset is kept until the next cycle of its device STARTS, whatever happens in between (the first
    run call and its initialisation included), and it counts for that cycle:
    (1) the offset of a source / handler / processor / sink changes from a non-zero value only in an event in which
        that device starts a cycle (it receives a part; a source supplies one or is started), or by an explicit
        offset operation / callback of the scenario;
    (2) a source supplies its next part no sooner than max(0, cycle time + one-shot offset) -- both as they were just
        before the cycle started -- after the start of that cycle (the start of the simulation for the first one)."""
    wit = []
    script_off = {}      # script -> devices whose offset it changes
    fincb = set()
    initial = set()      # sources that exist before the first run
    di = 0
    seen_run = False
    for l in scen or []:
        if l[0] == 'run':
            seen_run = True
        if l[0] == 'script' and len(l) > 3 and l[2] == 'offset':
            script_off.setdefault(int(l[1]), set()).add(int(l[3]))
        if l[:2] == ['asset', 'dev']:
            if any(t.startswith('fincb=') for t in l[3:]):
                fincb.add(di)
            if l[2] == 'source' and not seen_run:
                initial.add(di)
            di += 1
        elif l[:2] == ['asset', 'group']:
            di += 2
    fs = frames(stream)
    prev = None
    after_runbegin = False
    first_init_done = False
    start = {}           # source -> (start of the current cycle, cycle time in effect)
    for i, f in enumerate(fs):
        if f.trigger[0] == 'abort':
            return wit
        if f.trigger[0] == 'runbegin':
            after_runbegin = True
            continue
        if f.now is None or f.trigger[0] == 'ran':
            continue
        init_frame = after_runbegin and f.trigger[0] == 'ext'
        first_init = init_frame and not first_init_done
        after_runbegin = False
        devs = devs_of(f.state)
        pd = devs_of(prev.state) if prev is not None else {}
        recv = set()
        supplied = {}
        produced = set()
        for rec in f.recs:
            t = rec.split()
            if t[0] == 'received_part':
                recv.add(int(t[1]))
            elif t[0] == 'supplied_new_part':
                supplied[int(t[1])] = num(t[2])
            elif t[0] == 'produced_part':
                produced.add(int(t[1]))
        by_script = set()
        if f.trigger[0] == 'ev' and f.trigger[1]['act'] % 16 == 1:
            by_script = script_off.get(f.trigger[1]['act'] // 16, set())
        if f.trigger[0] == 'ev' or init_frame:
            for x, d in devs.items():
                if d.kind not in ('source', 'handler', 'processor', 'sink') or x not in pd:
                    continue
                try:
                    old, new = num(pd[x].f.get('off', '0')), num(d.f.get('off', '0'))
                except ValueError:
                    continue
                if old == 0 or old == new or x in by_script:
                    continue
                started = x in recv or x in supplied or (d.kind == 'source' and first_init and x in initial)
                if not started and not (x in fincb and x in produced):
                    wit.append(f'frame {i} (t={f.now}): {d.kind} {x} lost its one-shot cycle-time offset ({pd[x].f.get("off")} -> '
                               f'{d.f.get("off")}) without starting a cycle')
        for x, d in devs.items():
            if d.kind != 'source':
                continue
            o = pd.get(x, d)
            try:
                ceff = max(0, num(o.f.get('cyc', '0')) + (num(o.f.get('off', '0')) if x in pd else 0))
            except ValueError:
                continue
            if x in supplied:
                if x in start and supplied[x] < start[x][0] + start[x][1] and not close(supplied[x], start[x][0] + start[x][1]):
                    wit.append(f'frame {i}: source {x} supplied a part at {supplied[x]}; its cycle started at {start[x][0]} with cycle '
                               f'time + one-shot offset {start[x][1]}')
                start[x] = (supplied[x], ceff)
            elif first_init and x in initial:
                start[x] = (f.now, ceff)
        if init_frame:
            first_init_done = True
        prev = f
        if len(wit) > 4:
            break
    return wit


MONITORS['C06'] = [c06, c06_source, c06_oneshot]
