"""Property monitors over an observation stream of the IMPLEMENTATION (used for the failing-input
search and for replays).  Each monitor returns a list of witnesses (empty = accepted)."""
import math


def num(tok):
    """time / priority token -> float (ticks)"""
    if tok == '-':
        return None
    if tok.startswith('f'):
        return float(tok[1:]) * 16.0
    return float(int(tok))


def pnum(tok):
    if tok.startswith('f'):
        return float(tok[1:]) * 4.0
    return float(int(tok))


def parse_events(s):
    if s == '-' or s == '':
        return []
    out = []
    for item in s.split(','):
        t, p, a, act, w, pa, c = item.split(':')
        out.append({'time': num(t), 'prio': pnum(p), 'asset': int(a), 'act': int(act),
                    'weight': float(w), 'paused_at': num(pa), 'cancelled': c == '1', 'raw': item})
    return out


def parse_ids(s):
    if s == '-' or s == '':
        return []
    return [int(x) for x in s.split(',')]


class Frame:
    def __init__(self, trigger):
        self.trigger = trigger      # ('ext', toks) | ('ev', dict) | ('run', d) | ('start',)
        self.results = []
        self.now = None
        self.terminated = None
        self.q = []
        self.z = []
        self.qid = []
        self.zid = []
        self.lines = {}             # tag -> list of raw lines (component state)
        self.evid = None
        self.abort = None


def frames(stream, scenario_lines=None):
    """Split a stream into frames.  `scenario_lines` (token lists) lets ext frames know their op."""
    exts = [l for l in (scenario_lines or []) if l[0] in ('ext', 'step', 'run')]
    fs = []
    cur = None
    ext_i = 0
    pending_res = []
    for l in stream:
        tag, _, rest = l.partition(' ')
        if tag == 'ev':
            t, p, a, act, st = rest.split()
            cur = Frame(('ev', {'time': num(t), 'prio': pnum(p), 'asset': int(a), 'act': int(act), 'status': st}))
            fs.append(cur)
        elif tag == 'evid':
            if cur is not None:
                cur.evid = int(rest.split()[0])
        elif tag == 'res':
            if cur is None or cur.now is not None:
                # result printed before the dump of a new ext frame
                cur = Frame(('ext', None))
                fs.append(cur)
            cur.results.append(rest)
        elif tag == 'now':
            if cur is None or cur.now is not None:
                cur = Frame(('ext', None))
                fs.append(cur)
            n, term = rest.split()
            cur.now = num(n)
            cur.terminated = term == '1'
        elif tag == 'q':
            cur.q = parse_events(rest)
        elif tag == 'z':
            cur.z = parse_events(rest)
        elif tag == 'qid':
            cur.qid = parse_ids(rest)
        elif tag == 'zid':
            cur.zid = parse_ids(rest)
        elif tag == 'runbegin':
            a, b = rest.split()
            f = Frame(('runbegin', num(a), num(b)))
            fs.append(f)
            cur = f
        elif tag == 'ran':
            f = Frame(('ran', num(rest)))
            f.now = num(rest)
            fs.append(f)
            cur = f
        elif tag in ('abort', 'abort-run'):
            f = Frame(('abort', rest))
            f.abort = rest
            f.now = cur.now if cur is not None else None
            fs.append(f)
            cur = f
        elif tag in ('scenario', 'end'):
            continue
        else:
            if cur is not None:
                cur.lines.setdefault(tag, []).append(rest)
    return fs


def ev_key(e):
    return (e['time'], -e['prio'])


# ------------------------------------------------------------------------------------------- C01
def c01(stream, scen=None):
    """time-then-priority dispatch, clock = event time, clock monotone, run ends at t0+d with
    nothing due left, nothing executed beyond t0+d, no event executed twice."""
    wit = []
    fs = frames(stream)
    prev = None
    now = 0.0
    executed = set()
    run_t0 = None
    for i, f in enumerate(fs):
        if f.trigger[0] == 'ev':
            e = f.trigger[1]
            if prev is not None and prev.q:
                mn = min(ev_key(x) for x in prev.q)
                if ev_key(e) != mn:
                    wit.append(f'frame {i}: executed event (time {e["time"]}, prio {e["prio"]}) is not the '
                               f'earliest / highest-priority pending one {mn}')
            if f.now is not None and f.now != e['time']:
                wit.append(f'frame {i}: clock {f.now} differs from the executed event time {e["time"]}')
            if e['time'] < now:
                wit.append(f'frame {i}: clock went backwards from {now} to {e["time"]}')
            if f.evid is not None and e['status'] == 'ran':
                if f.evid in executed:
                    wit.append(f'frame {i}: event {f.evid} executed twice')
                executed.add(f.evid)
        if f.now is not None:
            if f.now < now:
                wit.append(f'frame {i}: clock went backwards from {now} to {f.now}')
            now = max(now, f.now)
        if f.trigger[0] == 'runbegin' and prev is not None:
            # the terminate event of this run is scheduled without a dump of its own
            g = Frame(prev.trigger)
            g.q = list(prev.q) + [{'time': f.trigger[1] + f.trigger[2], 'prio': 4.0}]
            prev = g
        if f.now is not None and f.trigger[0] != 'ran':
            prev = f
    return wit


def c01_runs(stream, scen=None):
    """run(d) from t0 ends at exactly t0+d, leaves nothing due, executes nothing later."""
    wit = []
    fs = frames(stream)
    T = None
    ri = -1
    evs = []
    last_dump = None
    for f in fs:
        k = f.trigger[0]
        if k == 'runbegin':
            ri += 1
            T = f.trigger[1] + f.trigger[2] * 1.0
            evs = []
            if f.trigger[2] < 0:
                T = None
        elif k == 'ev':
            evs.append(f)
        elif k == 'abort':
            return wit      # aborted runs are outside the property
        elif k == 'ran':
            if T is not None:
                if f.now != T:
                    wit.append(f'run {ri}: ended at {f.now}, expected t0+d = {T}')
                for g in evs:
                    if g.trigger[1]['time'] > T:
                        wit.append(f'run {ri}: executed an event due at {g.trigger[1]["time"]} > {T}')
                if last_dump is not None:
                    for x in last_dump.q:
                        if x['time'] <= T and x['asset'] != -1 and not x['cancelled']:
                            wit.append(f'run {ri}: live event due at {x["time"]} <= {T} left in the queue')
            T = None
        if f.now is not None and k not in ('ran', 'runbegin'):
            last_dump = f
    return wit


# ------------------------------------------------------------------------------------------- C07
def c07(stream, scen=None):
    """Per-event tracking through the pending / paused lists (needs the implementation's event
    identities): a pending event keeps its time; pausing stamps `now` and keeps the time; resuming
    adds exactly the pause length (one ulp tolerance for non-dyadic times); cancelled events never
    run; ext pause/unpause/cancel affect exactly the asset's events."""
    wit = []
    fs = frames(stream, scen)
    ext_ops = [l for l in (scen or []) if l[0] in ('ext',)]
    prevq, prevz = {}, {}
    cancelled = set()
    for i, f in enumerate(fs):
        if f.trigger[0] == 'ev':
            e = f.trigger[1]
            if f.evid is not None:
                if e['status'] == 'ran' and f.evid in cancelled:
                    wit.append(f'frame {i}: cancelled event {f.evid} was executed')
        if f.now is None or f.trigger[0] == 'ran' or len(f.qid) != len(f.q):
            continue
        q = dict(zip(f.qid, f.q))
        z = dict(zip(f.zid, f.z))
        for k, x in list(q.items()) + list(z.items()):
            if x['cancelled']:
                cancelled.add(k)
        for k, x in q.items():
            if k in prevq and prevq[k]['time'] != x['time']:
                wit.append(f'frame {i}: pending event {k} changed its time {prevq[k]["time"]} -> {x["time"]}')
            if k in prevz:
                old = prevz[k]
                exp = old['time'] + (f.now - old['paused_at'])
                tol = 0 if float(exp).is_integer() and float(x['time']).is_integer() else 16 * 2 * math.ulp(max(abs(exp) / 16, 1e-300))
                if abs(x['time'] - exp) > tol:
                    wit.append(f'frame {i}: resumed event {k} at {x["time"]}, expected original time + '
                               f'pause length = {exp}')
        for k, x in z.items():
            if k in prevq:
                if x['time'] != prevq[k]['time']:
                    wit.append(f'frame {i}: paused event {k} changed its time')
            if k in prevz and (x['time'] - x['paused_at'] != prevz[k]['time'] - prevz[k]['paused_at']):
                wit.append(f'frame {i}: paused event {k}: remaining delay changed while paused')
        prevq, prevz = q, z
    return wit


MONITORS = {'C01': [c01, c01_runs], 'C07': [c07]}
