"""Property monitors over an observation stream of the IMPLEMENTATION (used for the failing-input
search and for replays).  Each monitor returns a list of witnesses (empty = accepted)."""
import math


def num(tok):
    """time / priority token -> float (ticks)"""
    if tok == '-':
        return None
    if tok.startswith('f'):
        return float(tok[1:]) * 16.0
    return float(int(tok))


def pnum(tok):
    if tok.startswith('f'):
        return float(tok[1:]) * 4.0
    return float(int(tok))


def parse_events(s):
    if s == '-' or s == '':
        return []
    out = []
    for item in s.split(','):
        t, p, a, act, w, pa, c = item.split(':')
        out.append({'time': num(t), 'prio': pnum(p), 'asset': int(a), 'act': int(act),
                    'weight': float(w), 'paused_at': num(pa), 'cancelled': c == '1', 'raw': item})
    return out


def parse_ids(s):
    if s == '-' or s == '':
        return []
    return [int(x) for x in s.split(',')]


class Frame:
    def __init__(self, trigger):
        self.trigger = trigger      # ('ext', toks) | ('ev', dict) | ('run', d) | ('start',)
        self.results = []
        self.now = None
        self.terminated = None
        self.q = []
        self.z = []
        self.qid = []
        self.zid = []
        self.state = {}             # 'tag idx' -> body of the current state line
        self.recs = []              # records appended by this frame
        self.evid = None
        self.abort = None


def frames(stream, scenario_lines=None):
    """Split a stream into frames (one per executed event / external operation).  State lines are
    printed as deltas: every frame carries the full current state in `.state` (key -> rest of line)
    and the pending / paused lists current at that point."""
    fs = []
    cur = None
    state = {}
    q, z, qid, zid = [], [], [], []

    def close_frame():
        if cur is not None:
            cur.state = dict(state)
            cur.q, cur.z, cur.qid, cur.zid = q, z, qid, zid

    for l in stream:
        tag, _, rest = l.partition(' ')
        if tag == 'ev':
            close_frame()
            t, p, a, act, st = rest.split()
            cur = Frame(('ev', {'time': num(t), 'prio': pnum(p), 'asset': int(a), 'act': int(act), 'status': st}))
            fs.append(cur)
        elif tag == 'evid':
            if cur is not None:
                cur.evid = int(rest.split()[0])
        elif tag in ('res', 'rec'):
            if cur is None or cur.now is not None:
                close_frame()
                cur = Frame(('ext', None))
                fs.append(cur)
            (cur.results if tag == 'res' else cur.recs).append(rest)
        elif tag == 'now':
            if cur is None or cur.now is not None:
                close_frame()
                cur = Frame(('ext', None))
                fs.append(cur)
            n, term = rest.split()
            cur.now = num(n)
            cur.terminated = term == '1'
        elif tag == 'q':
            q = parse_events(rest)
        elif tag == 'z':
            z = parse_events(rest)
        elif tag == 'qid':
            qid = parse_ids(rest)
        elif tag == 'zid':
            zid = parse_ids(rest)
        elif tag == 'runbegin':
            close_frame()
            a, b = rest.split()
            cur = Frame(('runbegin', num(a), num(b)))
            fs.append(cur)
        elif tag == 'ran':
            close_frame()
            cur = Frame(('ran', num(rest)))
            cur.now = num(rest)
            fs.append(cur)
        elif tag in ('abort', 'abort-run'):
            close_frame()
            f = Frame(('abort', rest))
            f.abort = rest
            f.now = cur.now if cur is not None else None
            fs.append(f)
            cur = f
        elif tag in ('scenario', 'end'):
            continue
        else:
            if tag == 'wq':
                state['wq'] = rest
            else:
                idx, _, body = rest.partition(' ')
                state[tag + ' ' + idx] = body
    close_frame()
    return fs


def kvline(body):
    """'a=1 b=2' -> dict"""
    d = {}
    for t in body.split():
        if '=' in t:
            k, v = t.split('=', 1)
            d[k] = v
    return d


def close(a, b):
    """equality of two tick values: exact on the dyadic grid, a few ulps otherwise"""
    if float(a).is_integer() and float(b).is_integer():
        return a == b
    m = max(abs(a), abs(b), 1e-300) / 16.0
    return abs(a - b) <= 16.0 * 4 * math.ulp(m)


def ev_key(e):
    return (e['time'], -e['prio'])


# ------------------------------------------------------------------------------------------- C01
def c01(stream, scen=None):
    """time-then-priority dispatch, clock = event time, clock monotone, run ends at t0+d with
    nothing due left, nothing executed beyond t0+d, no event executed twice."""
    wit = []
    fs = frames(stream)
    prev = None
    now = 0.0
    executed = set()
    run_t0 = None
    for i, f in enumerate(fs):
        if f.trigger[0] == 'ev':
            e = f.trigger[1]
            if prev is not None and prev.q:
                mn = min(ev_key(x) for x in prev.q)
                if ev_key(e) != mn:
                    wit.append(f'frame {i}: executed event (time {e["time"]}, prio {e["prio"]}) is not the '
                               f'earliest / highest-priority pending one {mn}')
            if f.now is not None and f.now != e['time']:
                wit.append(f'frame {i}: clock {f.now} differs from the executed event time {e["time"]}')
            if e['time'] < now:
                wit.append(f'frame {i}: clock went backwards from {now} to {e["time"]}')
            if f.evid is not None and e['status'] == 'ran':
                if f.evid in executed:
                    wit.append(f'frame {i}: event {f.evid} executed twice')
                executed.add(f.evid)
        if f.now is not None:
            if f.now < now:
                wit.append(f'frame {i}: clock went backwards from {now} to {f.now}')
            now = max(now, f.now)
        if f.trigger[0] == 'runbegin' and prev is not None:
            # the terminate event of this run is scheduled without a dump of its own
            g = Frame(prev.trigger)
            g.q = list(prev.q) + [{'time': f.trigger[1] + f.trigger[2], 'prio': 4.0}]
            prev = g
        if f.now is not None and f.trigger[0] != 'ran':
            prev = f
    return wit


def c01_runs(stream, scen=None):
    """run(d) from t0 ends at exactly t0+d, leaves nothing due, executes nothing later."""
    wit = []
    fs = frames(stream)
    T = None
    ri = -1
    evs = []
    last_dump = None
    for f in fs:
        k = f.trigger[0]
        if k == 'runbegin':
            ri += 1
            T = f.trigger[1] + f.trigger[2] * 1.0
            evs = []
            if f.trigger[2] < 0:
                T = None
        elif k == 'ev':
            evs.append(f)
        elif k == 'abort':
            return wit      # aborted runs are outside the property
        elif k == 'ran':
            if T is not None:
                if f.now != T:
                    wit.append(f'run {ri}: ended at {f.now}, expected t0+d = {T}')
                for g in evs:
                    if g.trigger[1]['time'] > T:
                        wit.append(f'run {ri}: executed an event due at {g.trigger[1]["time"]} > {T}')
                if last_dump is not None:
                    for x in last_dump.q:
                        if x['time'] <= T and x['asset'] != -1 and not x['cancelled']:
                            wit.append(f'run {ri}: live event due at {x["time"]} <= {T} left in the queue')
            T = None
        if f.now is not None and k not in ('ran', 'runbegin'):
            last_dump = f
    return wit


# ------------------------------------------------------------------------------------------- C07
def c07(stream, scen=None):
    """Per-event tracking through the pending / paused lists (needs the implementation's event
    identities): a pending event keeps its time; pausing stamps `now` and keeps the time; resuming
    adds exactly the pause length (one ulp tolerance for non-dyadic times); cancelled events never
    run; ext pause/unpause/cancel affect exactly the asset's events."""
    wit = []
    fs = frames(stream, scen)
    ext_ops = [l for l in (scen or []) if l[0] in ('ext',)]
    prevq, prevz = {}, {}
    cancelled = set()
    for i, f in enumerate(fs):
        if f.trigger[0] == 'ev':
            e = f.trigger[1]
            if f.evid is not None:
                if e['status'] == 'ran' and f.evid in cancelled:
                    wit.append(f'frame {i}: cancelled event {f.evid} was executed')
        if f.now is None or f.trigger[0] == 'ran' or len(f.qid) != len(f.q):
            continue
        q = dict(zip(f.qid, f.q))
        z = dict(zip(f.zid, f.z))
        for k, x in list(q.items()) + list(z.items()):
            if x['cancelled']:
                cancelled.add(k)
        for k, x in q.items():
            if k in prevq and prevq[k]['time'] != x['time']:
                wit.append(f'frame {i}: pending event {k} changed its time {prevq[k]["time"]} -> {x["time"]}')
            if k in prevz:
                old = prevz[k]
                exp = old['time'] + (f.now - old['paused_at'])
                if not close(x['time'], exp):
                    wit.append(f'frame {i}: resumed event {k} at {x["time"]}, expected original time + '
                               f'pause length = {exp}')
        for k, x in z.items():
            if k in prevq:
                if x['time'] != prevq[k]['time']:
                    wit.append(f'frame {i}: paused event {k} changed its time')
            if k in prevz and not close(x['time'] - x['paused_at'] + 1e6, prevz[k]['time'] - prevz[k]['paused_at'] + 1e6):
                wit.append(f'frame {i}: paused event {k}: remaining delay changed while paused')
        prevq, prevz = q, z
    return wit


MONITORS = {'C01': [c01, c01_runs], 'C07': [c07]}


# ---------------------------------------------------------------------------- component monitors
def preq(s):
    return {} if s in ('-', '') else {int(a): int(b) for a, b in (e.split(':') for e in s.split(';'))}


def pools_of(state):
    out = {}
    for k, v in state.items():
        if k.startswith('r '):
            d = kvline(v)
            out[int(k[2:])] = (int(d['use']), int(d['cap']))
    return out


def feasible(pools, req):
    for r, a in req.items():
        if a == 0:
            continue
        if r not in pools or pools[r][1] - pools[r][0] < a:
            return False
    return True


def advance_frames(fs):
    """indices of frames after which the clock advances (the next executed event is later), or
    which close a run"""
    out = []
    for i, f in enumerate(fs):
        if f.now is None or f.trigger[0] in ('ran', 'runbegin', 'abort'):
            continue
        nxt = None
        for g in fs[i + 1:]:
            if g.trigger[0] == 'ev':
                nxt = g
                break
            if g.trigger[0] in ('ran', 'ext', 'abort'):
                break
        if nxt is not None and nxt.trigger[1]['time'] > f.now:
            out.append(i)
    return out


def c09(stream, scen=None):
    """usage = sum of all outstanding holdings, usage >= 0, capacity >= 0, an operation that raised
    an error changed nothing (pools, holdings, waiting list)."""
    wit = []
    fs = frames(stream)
    prev = None
    for i, f in enumerate(fs):
        if f.now is None or f.trigger[0] in ('ran', 'runbegin'):
            continue
        pools = pools_of(f.state)
        hs = preq(f.state.get('hsum 0', '-'))
        for r, (u, c) in pools.items():
            if u < 0:
                wit.append(f'frame {i}: usage of resource {r} is negative ({u})')
            if c < 0:
                wit.append(f'frame {i}: capacity of resource {r} is negative ({c})')
            if hs.get(r, 0) != u:
                wit.append(f'frame {i}: usage of resource {r} is {u} but outstanding reservations hold {hs.get(r, 0)}')
        if f.trigger[0] == 'ext' and len(f.results) == 1 and f.results[0].startswith('err') and prev is not None:
            keys = [k for k in set(f.state) | set(prev.state) if k[0] in 'rhw']
            ch = [k for k in keys if f.state.get(k) != prev.state.get(k)]
            if ch:
                wit.append(f'frame {i}: operation raised {f.results[0]} but changed {ch[:3]}')
        prev = f
    return wit


def c10(stream, scen=None):
    """when the clock advances no waiting request is feasible; every callback log entry carries the
    right arguments."""
    wit = []
    fs = frames(stream)
    for i in advance_frames(fs):
        f = fs[i]
        pools = pools_of(f.state)
        wq = f.state.get('wq', '-')
        if wq != '-':
            for item in wq.split(','):
                req, _, cb = item.partition('@')
                if feasible(pools, preq(req)):
                    wit.append(f'frame {i} (t={f.now}): the clock advances while waiting request {req} of {cb} fits the pools {pools}')
    for i, f in enumerate(fs):
        for r in f.results:
            if 'badargs' in r:
                wit.append(f'frame {i}: callback invoked with wrong arguments: {r}')
    return wit


def c12(stream, scen=None):
    """utilisation within capacity, one order per target, nothing startable left when the clock
    advances, hooks once each per started order."""
    wit = []
    fs = frames(stream)
    adv = set(advance_frames(fs))
    starts, ends, hs, he = {}, {}, {}, {}
    for i, f in enumerate(fs):
        for rec in f.recs:
            t = rec.split()
            if t[0] == 'start_work_order':
                starts[(t[1], t[3], t[4])] = starts.get((t[1], t[3], t[4]), 0) + 1
            if t[0] == 'finish_work_order':
                ends[(t[1], t[3], t[4])] = ends.get((t[1], t[3], t[4]), 0) + 1
        for r in f.results:
            t = r.split()
            if t[0] == 'hook':
                d = hs if t[1] == 'start' else he
                d[(t[2], t[3])] = d.get((t[2], t[3]), 0) + 1
        if f.now is None:
            continue
        for k, v in f.state.items():
            if not k.startswith('m '):
                continue
            d = kvline(v)
            util = int(d['util'])
            avail = None if d['avail'] == 'inf' else int(d['avail'])
            act = [] if d['active'] == '-' else [x.split(':') for x in d['active'].split(';')]
            que = [] if d['queue'] == '-' else [x.split(':') for x in d['queue'].split(';')]
            if avail is not None and avail < 0 and util > 0:
                wit.append(f'frame {i}: maintainer {k} uses {util} with available capacity {avail}')
            tg = [a[1] for a in act]
            if len(set(tg)) != len(tg):
                wit.append(f'frame {i}: two orders in progress on one target: {act}')
            if sum(int(a[3]) for a in act) != util:
                wit.append(f'frame {i}: utilisation {util} differs from the needs of the active orders {act}')
            if i in adv:
                for o in que:
                    if o[1] not in tg and (avail is None or int(o[3]) <= avail):
                        wit.append(f'frame {i} (t={f.now}): clock advances while queued order {o} fits (avail {avail}) and its target is free')
    tot_s = {}
    for (m, tg, tag), n in starts.items():
        tot_s[(tg, tag)] = tot_s.get((tg, tag), 0) + n
    for key, n in tot_s.items():
        if hs.get(key, 0) != n:
            wit.append(f'start hook of target/tag {key} ran {hs.get(key, 0)} times for {n} started orders')
    tot_e = {}
    for (m, tg, tag), n in ends.items():
        tot_e[(tg, tag)] = tot_e.get((tg, tag), 0) + n
    for key, n in tot_e.items():
        if he.get(key, 0) != n:
            wit.append(f'end hook of target/tag {key} ran {he.get(key, 0)} times for {n} finished orders')
    return wit


def c18(stream, scen):
    """state changes happen at the timetable's times with the timetable's states; one action per
    registered object per change."""
    wit = []
    tts = []
    for l in scen or []:
        if l[0] == 'asset' and l[1] == 'sched':
            kv = dict(t.split('=', 1) for t in l[2:] if '=' in t)
            tt = [(int(a), int(b)) for a, b in (e.split(':') for e in kv['tt'].split(','))]
            tts.append((tt, kv.get('cyc', 'def') != '0'))
    fs = frames(stream)
    seen = {}
    t0 = {}
    for i, f in enumerate(fs):
        nact = {}
        for r in f.results:
            t = r.split()
            if t[0] == 'act':
                nact[t[1]] = nact.get(t[1], 0) + 1
                if 'badargs' in r:
                    wit.append(f'frame {i}: action called with wrong arguments: {r}')
        for rec in f.recs:
            t = rec.split()
            if t[0] != 'schedule_update':
                continue
            s, tm, st = int(t[1]), int(t[2]), int(t[3])
            k = seen.get(s, 0)
            seen[s] = k + 1
            if s >= len(tts):
                continue
            tt, cyc = tts[s]
            if k == 0:
                t0[s] = tm
            if not cyc and k >= len(tt):
                wit.append(f'frame {i}: non-cyclical scheduler {s} changed state after its last entry')
                continue
            exp_t = t0[s] + sum(tt[j % len(tt)][0] for j in range(k))
            exp_s = tt[k % len(tt)][1]
            if tm != exp_t or st != exp_s:
                wit.append(f'frame {i}: scheduler {s} change #{k} at {tm} to state {st}; timetable says {exp_t}, state {exp_s}')
    return wit


def c19(stream, scen):
    """periodic measurements at k*interval; all series (incl. time) aligned and within capacity."""
    wit = []
    sens = []
    for l in scen or []:
        if l[0] == 'asset' and l[1] == 'sensor':
            kv = dict(t.split('=', 1) for t in l[3:] if '=' in t)
            sens.append((l[2], kv))
    fs = frames(stream)
    for i, f in enumerate(fs):
        if f.now is None:
            continue
        for k, v in f.state.items():
            if not k.startswith('n '):
                continue
            si = int(k[2:])
            if si >= len(sens):
                continue
            kind, kv = sens[si]
            d = kvline(v)
            series = [[] if x == '-' else x.split(';') for x in d['data'].split('|')]
            tm = [] if d['time'] == '-' else [int(x) for x in d['time'].split(';')]
            lens = set(len(x) for x in series)
            cap = kv.get('cap', 'def')
            if len(lens) > 1:
                wit.append(f'frame {i}: sensor {si} probe series have different lengths {lens}')
            if cap not in ('def', 'inf') and any(n > int(cap) for n in lens):
                wit.append(f'frame {i}: sensor {si} keeps more than its capacity {cap}')
            if kind == 'per':
                if lens and len(tm) not in lens:
                    wit.append(f'frame {i}: sensor {si} time series has {len(tm)} entries, probe series {lens}')
                iv = int(kv.get('interval', '16'))
                if any(x % iv != 0 or x <= 0 for x in tm) or any(b - a != iv for a, b in zip(tm, tm[1:])):
                    wit.append(f'frame {i}: sensor {si} measured at {tm}, interval {iv}')
    return wit


MONITORS.update({'C09': [c09], 'C10': [c10], 'C12': [c12], 'C18': [c18], 'C19': [c19]})
