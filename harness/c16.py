"""C16, last clause ("the system's net value is the sum over its registered assets"), on the REAL code
with models the scenario protocol cannot express: several registered assets that share a name
(two default-named Maintainers, machines named alike), assets without any flow, values of both signs."""
import random


def net_value(seed, tier):
    """returns (evaluations, witnesses, stats)"""
    import impl          # first: puts the tree under test on sys.path
    from simprocesd.model import System
    from simprocesd.model.factory_floor import Source, Sink, PartProcessor, PartHandler, Buffer, Maintainer, Asset
    impl.CTX = None
    rng = random.Random(f'c16-{seed}-{tier}')
    n = 30 if tier == 'quick' else 300
    wit = []
    dup_models = 0
    for t in range(n):
        s = System()
        names = ['M', 'M', 'X', 'line', '']          # collisions are likely
        src = Source(rng.choice(names), cycle_time=rng.choice([1, 2]))
        prev = [src]
        for k in range(rng.randint(1, 3)):
            cls = rng.choice([PartProcessor, PartHandler, Buffer])
            kw = {'value': rng.choice([0, 7, -4, 100])}
            prev = [cls(rng.choice(names), prev, **kw)]
        Sink(rng.choice(names), prev)
        for k in range(rng.randint(0, 3)):
            Maintainer(value=rng.choice([0, -60, 25])) if rng.random() < 0.6 else Maintainer(rng.choice(names), value=rng.choice([1, 9]))
        s.simulate(rng.choice([0, 3, 10]), print_summary=False)
        assets = [a for a in s._assets if isinstance(a, Asset)]
        nm = [a.name for a in assets]
        if len(set(nm)) < len(nm):
            dup_models += 1
        expect = sum(a.value for a in assets)
        got = s.get_net_value_of_assets()
        if got != expect:
            wit.append({'kind': 'net-value', 'model': t, 'asset_names': nm, 'asset_values': [a.value for a in assets],
                        'net_value_reported': got, 'sum_over_registered_assets': expect})
            if len(wit) > 2:
                break
    # several System objects: the net value of a system is the sum over ITS registered assets, also after
    # a newer System exists
    for t in range(6):
        s1 = System()
        a = [PartProcessor(f'p{j}', value=rng.choice([3, -7, 40])) for j in range(rng.randint(1, 3))]
        Maintainer(value=rng.choice([-60, 25]))
        s1.simulate(rng.choice([0, 2]), print_summary=False)
        own = sum(x.value for x in s1._assets if isinstance(x, Asset))
        s2 = System()
        PartHandler('h', value=rng.choice([500, -500]))
        got = s1.get_net_value_of_assets()
        if got != own:
            wit.append({'kind': 'net-value-other-system', 'net_value_reported': got, 'sum_over_its_registered_assets': own})
            break
    # batches inside batches (legal: a Batch is a Part; made by a custom PartGenerator): "a batch is worth
    # the sum of its parts", and source / sink accounting follows
    from simprocesd.model.factory_floor import Part, Batch, PartGenerator

    def worth(p):
        return sum(worth(x) for x in p.parts) if isinstance(p, Batch) else p.value
    nested = 0
    for t in range(n // 3):
        shape = rng.choice([[[3, 4], 5], [[1], [2, [6]]], [[-2, 7]], [4, [0, 9], 1]])

        def build(sh, name):
            if isinstance(sh, list):
                return Batch(name, [build(x, f'{name}.{i}') for i, x in enumerate(sh)])
            return Part(name, sh)

        class NestGen(PartGenerator):
            def generate_part_helper(self, part_name, part_counter):
                return build(shape, part_name)
        s = System()
        src = Source('src', NestGen('N'), cycle_time=1, starting_parts=rng.choice([1, 2, 3]))
        buf = Buffer('buf', [src])
        snk = Sink('snk', [buf], collect_parts=True)
        s.simulate(6, print_summary=False)
        nested += 1
        total = 0
        for b in snk.collected_parts:
            if b.value != worth(b):
                wit.append({'kind': 'batch-value', 'shape': repr(shape), 'batch_value_reported': b.value, 'sum_of_contained_parts': worth(b)})
                break
            total += worth(b)
        else:
            if snk.value != total or src.value != -total:
                wit.append({'kind': 'batch-accounting', 'shape': repr(shape), 'sink_value': snk.value, 'source_value': src.value,
                            'worth_of_received_parts': total})
        if len(wit) > 2:
            break
    return n, wit, {'models': n, 'models_with_equal_names': dup_models, 'nested_batch_models': nested}
