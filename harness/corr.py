"""Correspondence check: run scenarios on the implementation (/repo, in-process, in a worker pool)
and on the Lean model (compiled `spdriver`), and diff the canonical observation streams under a
projection."""
import multiprocessing as mp
import os
import subprocess
import sys

HERE = os.path.dirname(os.path.abspath(__file__))
VERIF = os.path.dirname(HERE)
SPDRIVER = os.path.join(VERIF, 'lean', '.lake', 'build', 'bin', 'spdriver')
SCENARIO_TIMEOUT_S = 12
SCENARIO_RETRY_S = 90

sys.path.insert(0, HERE)
import scen  # noqa: E402


def _impl_worker(args):
    runner_name, texts = args
    import impl
    import implx
    cls = getattr(implx, runner_name)
    res = []
    import signal

    class _Timeout(BaseException):
        pass

    def _alarm(signum, frame):
        raise _Timeout()
    signal.signal(signal.SIGALRM, _alarm)
    confirmed_hang = False

    def _timed(t, budget):
        signal.setitimer(signal.ITIMER_REAL, budget)
        try:
            return impl.run_text(t, cls)
        finally:
            signal.setitimer(signal.ITIMER_REAL, 0)
    for t in texts:
        try:
            try:
                res.append(_timed(t, SCENARIO_TIMEOUT_S))
            except _Timeout:
                # a scenario normally takes milliseconds; before calling it a hang, rule out a loaded
                # machine by one retry with a much larger budget (once a hang is confirmed in this
                # worker, later time-outs are not retried)
                if confirmed_hang:
                    raise
                try:
                    res.append(_timed(t, SCENARIO_RETRY_S))
                except _Timeout:
                    confirmed_hang = True
                    raise
        except _Timeout:
            # the implementation did not return (e.g. an endless loop inside one event)
            res.append([t.splitlines()[0] if t else 'scenario ?', 'abort Timeout'])
        except BaseException as e:  # harness failure: reported, never silently dropped
            res.append([f'harness-error {type(e).__name__} {e}'])
    return res


def run_impl(texts, runner_name='FullRunner', procs=None):
    procs = procs or min(16, os.cpu_count() or 1)
    if len(texts) < 4 or procs == 1:
        return _impl_worker((runner_name, texts))
    chunk = max(1, (len(texts) + procs * 4 - 1) // (procs * 4))
    jobs = [(runner_name, texts[i:i + chunk]) for i in range(0, len(texts), chunk)]
    with mp.get_context('fork').Pool(procs) as pool:
        parts = pool.map(_impl_worker, jobs)
    return [x for p in parts for x in p]


def split_streams(lines):
    out, cur = [], None
    for l in lines:
        if l.startswith('scenario '):
            cur = [l]
        elif cur is not None:
            cur.append(l)
            if l == 'end':
                out.append(cur)
                cur = None
    if cur is not None:
        out.append(cur)
    return out


def run_model(texts, procs=None):
    procs = procs or min(16, os.cpu_count() or 1)
    chunk = max(1, (len(texts) + procs - 1) // procs)
    chunks = [texts[i:i + chunk] for i in range(0, len(texts), chunk)]
    ps = []
    for c in chunks:
        p = subprocess.Popen([SPDRIVER], stdin=subprocess.PIPE, stdout=subprocess.PIPE, text=True)
        ps.append((p, c))
    res = []
    import threading
    outs = [None] * len(ps)

    def feed(i, p, c):
        outs[i] = p.communicate(''.join(c))[0]
    ths = [threading.Thread(target=feed, args=(i, p, c)) for i, (p, c) in enumerate(ps)]
    for t in ths:
        t.start()
    for t in ths:
        t.join()
    for i, (p, c) in enumerate(ps):
        st = split_streams(outs[i].splitlines())
        if len(st) != len(c):
            st = st + [['model-error driver-output-short']] * (len(c) - len(st))
        res.extend(st)
    return res


def fields(*names):
    """projector for `key=value` state lines: keep the tag, the index (and device kind) and the
    named fields only"""
    keep = set(names)

    def f(line):
        t = line.split(' ')
        head = [x for x in t[:3] if '=' not in x]
        return ' '.join(head + [x for x in t[len(head):] if x.split('=', 1)[0] in keep])
    return f


def only(prefixes, g=None):
    """projector keeping only lines that start with one of the prefixes (after the tag)"""
    def f(line):
        rest = line.split(' ', 1)[1] if ' ' in line else ''
        if not rest.startswith(tuple(prefixes)):
            return None
        return g(line) if g else line
    return f


def project(stream, tags):
    """Keep the lines whose tag is in `tags` (dict tag -> None | function(line) -> line | None).
    State lines are deltas of the full line: after projecting, a line equal to the last projected
    line with the same key is dropped (an unprojected field changed)."""
    out = []
    last = {}
    for l in stream:
        tag = l.split(' ', 1)[0]
        if tag in tags:
            f = tags[tag]
            m = f(l) if f else l
            if m is None:
                continue
            if tag in ('d', 'p', 'r', 'h', 'm', 's', 'n', 'q', 'z', 'wq', 'hsum'):
                t = m.split(' ', 2)
                k = tag if tag in ('q', 'z', 'wq') else tag + ' ' + (t[1] if len(t) > 1 else '')
                if last.get(k) == m:
                    continue
                last[k] = m
            out.append(m)
        elif tag in ('abort', 'abort-run', 'model-error', 'harness-error'):
            out.append(l)
    return out


def first_diff(a, b):
    for i in range(max(len(a), len(b))):
        x = a[i] if i < len(a) else '<missing>'
        y = b[i] if i < len(b) else '<missing>'
        if x != y:
            return i, x, y
    return None


def compare(texts, tags, runner_name='FullRunner'):
    """Returns (impl_streams, model_streams, diffs) where diffs = list of (index, lineno, impl, model)."""
    im = run_impl(texts, runner_name)
    mo = run_model(texts)
    diffs = []
    for i, (a, b) in enumerate(zip(im, mo)):
        d = first_diff(project(a, tags), project(b, tags))
        if d is not None:
            diffs.append((i,) + d)
    return im, mo, diffs
