"""C02, budget clause ("a source never supplies more parts than its part budget (initial amount plus
adjustments)") on the REAL code for budgets the scenario protocol cannot express: fractional and negative
initial amounts, topped up later by positive adjustments made while the source is exhausted (so the
library's rule that a decrease cannot take the budget below what was already produced never comes into
play and the budget is exactly initial + sum of adjustments)."""
import random


def odd_budgets(seed, tier):
    """returns (evaluations, witnesses, stats)"""
    import impl          # first: puts the tree under test on sys.path
    from simprocesd.model import System
    from simprocesd.model.factory_floor import Source, Sink
    from simprocesd.model.simulation import EventType
    impl.CTX = None
    rng = random.Random(f'c02-{seed}-{tier}')
    n = 20 if tier == 'quick' else 200
    wit = []
    for t in range(n):
        s = System()
        initial = rng.choice([2.5, 0.5, 1.25, -3, -1, -1.5, 0, 3])
        src = Source('src', cycle_time=1, starting_parts=initial)
        snk = Sink('k', [src])
        adds = []
        when = 12
        for _ in range(rng.randint(0, 2)):
            v = rng.choice([1, 2, 5])            # adjust_part_count takes whole numbers
            adds.append((when, v))
            s.env.schedule_event(when, -7, (lambda v=v: src.adjust_part_count(v)), EventType.OTHER_HIGH_PRIORITY)
            when += 15
        budget = initial
        horizon = when + 5
        s.simulate(horizon, print_summary=False)
        budget = initial + sum(v for _, v in adds)
        supplied = src.produced_parts
        if supplied > max(budget, 0):
            wit.append({'kind': 'budget', 'initial_amount': initial, 'adjustments': adds, 'budget': budget,
                        'supplied': supplied, 'received_by_sink': snk.received_parts_count})
            if len(wit) > 2:
                break
        elif snk.received_parts_count != supplied:
            wit.append({'kind': 'budget-conservation', 'supplied': supplied, 'received_by_sink': snk.received_parts_count})
    return n, wit, {'models': n}
