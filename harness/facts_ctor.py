"""Facts about registration / initialisation order (C20), from the AST of asset.py and system.py."""
import ast
import os


def _parse(p):
    with open(p) as f:
        return ast.parse(f.read())


def _calls(node, attr):
    return [n for n in ast.walk(node) if isinstance(n, ast.Call) and isinstance(n.func, ast.Attribute) and n.func.attr == attr]


def generate(model_dir):
    L = []
    asset = _parse(os.path.join(model_dir, 'factory_floor', 'asset.py'))
    system = _parse(os.path.join(model_dir, 'system.py'))
    # 1. constructors that register with the System themselves (must be none: registration happens
    #    after construction, in the metaclass __call__)
    offenders = []
    for dirpath, _, files in sorted(os.walk(model_dir)):
        if os.sep + 'tests' in dirpath:
            continue
        for fn in sorted(files):
            if fn.endswith('.py'):
                t = _parse(os.path.join(dirpath, fn))
                for cls in [n for n in t.body if isinstance(n, ast.ClassDef)]:
                    for m in [n for n in cls.body if isinstance(n, ast.FunctionDef) and n.name == '__init__']:
                        if _calls(m, 'add_asset') or _calls(m, '_register_with_system'):
                            offenders.append(cls.name)
    L.append('/-- Classes whose `__init__` registers the asset itself (initialisation would then run before the\nsubclass constructors). -/')
    L.append('def ctorRegisters : List String := [' + ', '.join('"%s"' % c for c in offenders) + ']')
    # 2. metaclass __call__: construct, then register, then return
    meta_ok = False
    for cls in [n for n in asset.body if isinstance(n, ast.ClassDef)]:
        for m in [n for n in cls.body if isinstance(n, ast.FunctionDef) and n.name == '__call__']:
            body = [s for s in m.body if not (isinstance(s, ast.Expr) and isinstance(s.value, ast.Constant))]
            if (len(body) == 3 and isinstance(body[0], ast.Assign) and isinstance(body[0].value, ast.Call)
                    and isinstance(body[0].value.func, ast.Attribute) and body[0].value.func.attr == '__call__'
                    and isinstance(body[1], ast.Expr) and _calls(body[1], '_register_with_system')
                    and isinstance(body[2], ast.Return)):
                meta_ok = True
    uses_meta = any(isinstance(n, ast.ClassDef) and n.name == 'Asset' and any(k.arg == 'metaclass' for k in n.keywords)
                    for n in asset.body)
    reg_ok = False
    for cls in [n for n in asset.body if isinstance(n, ast.ClassDef) and n.name == 'Asset']:
        for m in [n for n in cls.body if isinstance(n, ast.FunctionDef) and n.name == '_register_with_system']:
            reg_ok = bool(_calls(m, 'add_asset'))
    L.append('def registersAfterConstruction : Bool := ' + ('true' if meta_ok and uses_meta and reg_ok else 'false'))
    # 3. System.add_asset: append, and initialise at once when the simulation is initialised
    add_ok = False
    sim_guard = False
    sim_once = False
    for cls in [n for n in system.body if isinstance(n, ast.ClassDef) and n.name == 'System']:
        for m in [n for n in cls.body if isinstance(n, ast.FunctionDef)]:
            src = ast.unparse(m)
            if m.name == 'add_asset':
                add_ok = ('_assets.append(new_asset)' in src and '_simulation_is_initialized' in src
                          and 'new_asset.initialize(' in src and 'System._instance._assets' in src)
            if m.name == 'simulate':
                body = [s for s in m.body if not (isinstance(s, ast.Expr) and isinstance(s.value, ast.Constant))]
                if body and isinstance(body[0], ast.If):
                    t = ast.unparse(body[0].test)
                    sim_guard = t in ('System._instance != self', 'self != System._instance') and \
                        isinstance(body[0].body[0], ast.Raise)
                for s in body:
                    if isinstance(s, ast.If) and ast.unparse(s.test) == 'not self._simulation_is_initialized':
                        inner = ast.unparse(s)
                        sim_once = ('self._initialize_assets()' in inner and 'self._simulation_is_initialized = True' in inner
                                    and 'resource_manager.initialize' in inner)
    L.append('def addAssetInitialisesWhenRunning : Bool := ' + ('true' if add_ok else 'false'))
    L.append('def simulateGuardsLatest : Bool := ' + ('true' if sim_guard else 'false'))
    L.append('def simulateInitialisesOnce : Bool := ' + ('true' if sim_once else 'false'))
    L.append('')
    return L
