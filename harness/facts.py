"""Fact translator: Python AST of /repo/simprocesd/model -> lean/SimProc/Gen/Facts.lean.

The output is deterministic; the file is only rewritten when its content changes (so that
`lake build` is a no-op otherwise).  A shape the translator does not recognise yields an explicit
`none`/empty fact (and then a failing proof obligation), never a guessed one.
"""
import ast
import os
import sys

REPO = os.environ.get('SIMPROCESD_REPO', '/repo')
HERE = os.path.dirname(os.path.abspath(__file__))
OUT = os.path.join(os.path.dirname(HERE), 'lean', 'SimProc', 'Gen', 'Facts.lean')
MODEL = os.path.join(REPO, 'simprocesd', 'model')


def parse(path):
    with open(path) as f:
        return ast.parse(f.read())


def lean_str(s):
    return '"' + s.replace('\\', '\\\\').replace('"', '\\"') + '"'


def event_types(tree):
    """EventType body: names in order; `auto()` numbering from 1; explicit ints honoured."""
    for node in tree.body:
        if isinstance(node, ast.ClassDef) and node.name == 'EventType':
            out, nxt = [], 1
            for st in node.body:
                if isinstance(st, ast.Assign) and len(st.targets) == 1 and isinstance(st.targets[0], ast.Name):
                    v = st.value
                    if isinstance(v, ast.Call) and getattr(v.func, 'id', None) == 'auto':
                        val = nxt
                    elif isinstance(v, ast.Constant) and isinstance(v.value, int):
                        val = v.value
                    else:
                        return None
                    out.append((st.targets[0].id, val))
                    nxt = val + 1
            return out
    return None


def cmp_field(node):
    """self.X <op> other.X  ->  (X, op)"""
    if isinstance(node, ast.Compare) and len(node.ops) == 1 and len(node.comparators) == 1:
        l, r = node.left, node.comparators[0]
        if (isinstance(l, ast.Attribute) and isinstance(r, ast.Attribute)
                and isinstance(l.value, ast.Name) and isinstance(r.value, ast.Name)
                and l.attr == r.attr and l.value.id == 'self' and r.value.id == 'other'):
            return l.attr, type(node.ops[0]).__name__
    return None


def lt_chain(tree):
    """The if/elif chain of Event.__lt__: [(field, 'Lt'|'Gt')], or None if the shape is different."""
    for node in tree.body:
        if isinstance(node, ast.ClassDef) and node.name == 'Event':
            for fn in node.body:
                if isinstance(fn, ast.FunctionDef) and fn.name == '__lt__':
                    body = [s for s in fn.body if not (isinstance(s, ast.Expr) and isinstance(s.value, ast.Constant))]
                    chain = []
                    cur = body
                    while True:
                        if len(cur) != 1:
                            return None
                        st = cur[0]
                        if isinstance(st, ast.If):
                            c = cmp_field(st.test)
                            if c is None or c[1] != 'NotEq':
                                return None
                            if len(st.body) != 1 or not isinstance(st.body[0], ast.Return):
                                return None
                            r = cmp_field(st.body[0].value)
                            if r is None or r[0] != c[0] or r[1] not in ('Lt', 'Gt'):
                                return None
                            chain.append((r[0], r[1]))
                            cur = st.orelse
                        elif isinstance(st, ast.Return):
                            r = cmp_field(st.value)
                            if r is None or r[1] not in ('Lt', 'Gt'):
                                return None
                            chain.append((r[0], r[1]))
                            return chain
                        else:
                            return None
    return None


def sched_past_guard(tree):
    """schedule_event starts with `if time < self.now: raise ValueError`, before creating the Event."""
    for node in tree.body:
        if isinstance(node, ast.ClassDef) and node.name == 'Environment':
            for fn in node.body:
                if isinstance(fn, ast.FunctionDef) and fn.name == 'schedule_event':
                    body = [s for s in fn.body if not (isinstance(s, ast.Expr) and isinstance(s.value, ast.Constant))]
                    if not body or not isinstance(body[0], ast.If):
                        return False
                    t = body[0].test
                    ok = (isinstance(t, ast.Compare) and len(t.ops) == 1 and isinstance(t.ops[0], ast.Lt)
                          and isinstance(t.left, ast.Name) and t.left.id == 'time'
                          and isinstance(t.comparators[0], ast.Attribute) and t.comparators[0].attr in ('now', '_now'))
                    ok = ok and len(body[0].body) >= 1 and isinstance(body[0].body[0], ast.Raise) and not body[0].orelse
                    return bool(ok)
    return False


def expr_src(e):
    try:
        return ast.unparse(e)
    except Exception:
        return '?'


def time_kind(e):
    s = expr_src(e).replace('self._env', 'env').replace('self.env', 'env')
    if s == 'env.now':
        return 'now'
    if s.startswith('env.now + '):
        return 'now+'
    if s in ('time', 'event_time'):
        return 'param'
    return 'other'


def walk_sites(root):
    sched, data = [], []
    for dirpath, _, files in sorted(os.walk(root)):
        if os.sep + 'tests' in dirpath:
            continue
        for fn in sorted(files):
            if not fn.endswith('.py'):
                continue
            tree = parse(os.path.join(dirpath, fn))
            for cls in [n for n in tree.body if isinstance(n, ast.ClassDef)]:
                for m in [n for n in cls.body if isinstance(n, ast.FunctionDef)]:
                    for call in [n for n in ast.walk(m) if isinstance(n, ast.Call)]:
                        f = call.func
                        if isinstance(f, ast.Attribute) and f.attr == 'schedule_event' and cls.name != 'Environment' or \
                           (isinstance(f, ast.Attribute) and f.attr == 'schedule_event' and cls.name == 'Environment' and m.name == 'run'):
                            args = call.args
                            et = 'OTHER_LOW_PRIORITY'
                            if len(args) >= 4:
                                a = args[3]
                                et = a.attr if isinstance(a, ast.Attribute) else '?'
                            for kw in call.keywords:
                                if kw.arg == 'event_type':
                                    et = kw.value.attr if isinstance(kw.value, ast.Attribute) else '?'
                            act = expr_src(args[2]) if len(args) >= 3 else '?'
                            asset = expr_src(args[1]) if len(args) >= 2 else '?'
                            sched.append((cls.name, m.name, et, time_kind(args[0]) if args else '?', asset, act))
                        if isinstance(f, ast.Attribute) and f.attr == 'add_datapoint' and call.args:
                            a0 = call.args[0]
                            label = a0.value if isinstance(a0, ast.Constant) else ('$' + expr_src(a0))
                            data.append((str(label), cls.name, m.name))
    return sched, data


def generate():
    sim = parse(os.path.join(MODEL, 'simulation.py'))
    ets = event_types(sim)
    chain = lt_chain(sim)
    guard = sched_past_guard(sim)
    sched, data = walk_sites(MODEL)
    L = ['/- GENERATED by harness/facts.py from the Python sources of /repo. Do not edit. -/',
         'namespace SimProc', 'namespace Gen', '']
    if ets is None:
        L.append('def eventTypes : List (String × Int) := []')
    else:
        L.append('def eventTypes : List (String × Int) :=\n  [' + ', '.join(f'({lean_str(n)}, {v})' for n, v in ets) + ']')
    L.append('')
    L.append('/-- The comparison chain of `Event.__lt__`: (field, ascending?) per level. -/')
    if chain is None:
        L.append('def ltChain : Option (List (String × Bool)) := none')
    else:
        L.append('def ltChain : Option (List (String × Bool)) :=\n  some [' + ', '.join(
            f'({lean_str(f)}, {"true" if d == "Lt" else "false"})' for f, d in chain) + ']')
    L.append('')
    L.append(f'def schedulePastGuard : Bool := {"true" if guard else "false"}')
    L.append('')
    L.append('/-- Every `schedule_event` call site: (class, method, event type, time, asset, action). -/')
    L.append('def scheduleSites : List (String × String × String × String × String × String) :=\n  [' + ',\n   '.join(
        '(' + ', '.join(lean_str(x) for x in s) + ')' for s in sched) + ']')
    L.append('')
    L.append('/-- Every `add_datapoint` call site: (label, class, method). -/')
    L.append('def datapointSites : List (String × String × String) :=\n  [' + ',\n   '.join(
        '(' + ', '.join(lean_str(x) for x in s) + ')' for s in data) + ']')
    L.append('')
    try:
        import facts_ctor
        L.extend(facts_ctor.generate(MODEL))
    except ImportError:
        pass
    L += ['end Gen', 'end SimProc', '']
    return '\n'.join(L)


def write():
    text = generate()
    os.makedirs(os.path.dirname(OUT), exist_ok=True)
    old = None
    if os.path.exists(OUT):
        with open(OUT) as f:
            old = f.read()
    if old != text:
        tmp = OUT + f'.tmp{os.getpid()}'
        with open(tmp, 'w') as f:
            f.write(text)
        os.replace(tmp, OUT)
        return True
    return False


if __name__ == '__main__':
    changed = write()
    print('facts', 'rewritten' if changed else 'unchanged', OUT)
