"""C15, last clause ("an enabled event trace lists exactly the executed events in execution order"), on
the REAL code: small lines simulated in several consecutive runs, some traced and some not; the trace
kept by the environment (and the exported JSON) is compared with the events observed by wrapping
Environment.step.  HOME is redirected to a scratch directory for the export."""
import json
import os
import random
import shutil
import tempfile


def event_trace(seed, tier):
    """returns (evaluations, witnesses, stats)"""
    import impl          # first: puts the tree under test on sys.path
    from simprocesd.model import System
    from simprocesd.model.factory_floor import Source, Sink, PartProcessor, Buffer, Maintainer
    import functools
    impl.CTX = None
    rng = random.Random(f'c15-{seed}-{tier}')
    n = 8 if tier == 'quick' else 60
    wit = []
    total = 0
    home = tempfile.mkdtemp(prefix='c15home')
    os.makedirs(os.path.join(home, 'Downloads'), exist_ok=True)
    old_home = os.environ.get('HOME')
    os.environ['HOME'] = home
    try:
        for t in range(n):
            s = System()
            src = Source('src', cycle_time=rng.choice([1, 2]))
            m = PartProcessor('m', [src], cycle_time=rng.choice([1, 3]))
            b = Buffer('b', [m], minimum_delay=rng.choice([0, 2]))
            Sink('k', [b])
            env = s.env
            # every other model has maintenance and a failure: the maintainer's own events and the events scheduled
            # below are functools.partial objects (no __name__ of their own); the trace must list them like any other
            maint = Maintainer('mt') if t % 2 == 1 else None
            if maint is not None:
                s.simulate(0, print_summary=False)      # initialise, so that a failure can be scheduled

                def ask(maint=maint, m=m):
                    maint.create_work_order(m, 'fix')
                env.schedule_event(rng.choice([1, 2, 4]), -1, functools.partial(ask))
                m.schedule_failure(rng.choice([3, 5]), 'f')
                m.add_shutdown_callback(lambda dev, is_failure, part, maint=maint: maint.create_work_order(dev, 'repair') if is_failure else None)
            seen = []          # what a traced step executes, in order
            orig_step = env.step

            def name_of(a):
                # named callables by their name; anything else (partial objects) only has to be listed with SOME text
                return getattr(a, '__name__', None)

            def step(env=env, orig_step=orig_step):
                e = env._events[0]
                if env._trace:
                    seen.append((e.time, e.asset_id, name_of(e.action)))
                return orig_step()
            env.step = step
            runs = [(rng.choice([2, 3, 5, 6]), rng.random() < 0.7) for _ in range(rng.randint(2, 4))]
            for d, traced in runs:
                try:
                    s.simulate(d, trace=traced, print_summary=False)
                except Exception as e:
                    wit.append({'kind': 'event-trace-crash', 'with_maintainer': maint is not None, 'traced': traced,
                                'runs_so_far': [list(r) for r in runs],
                                'raised': f'{type(e).__name__}: {e}'[:200]})
                    break
                tr = env._event_trace
                got = [(tr[k]['time'], tr[k]['asset_id'], tr[k]['action']) for k in sorted(tr)]
                if len(got) == len(seen):
                    # an action without a name of its own is compared as "listed with a text"
                    got = [(g[0], g[1], g[2] if s_[2] is not None else (None if isinstance(g[2], str) else g[2]))
                           for g, s_ in zip(got, seen)]
                if got != seen or sorted(tr) != list(range(len(tr))):
                    wit.append({'kind': 'event-trace', 'runs_so_far': [list(r) for r in runs], 'trace_has': len(got),
                                'executed_in_traced_runs': len(seen),
                                'first_difference': next(((i, got[i] if i < len(got) else None, seen[i] if i < len(seen) else None)
                                                          for i in range(max(len(got), len(seen)))
                                                          if i >= len(got) or i >= len(seen) or got[i] != seen[i]), None)})
                    break
                if traced:
                    path = os.path.join(home, 'Downloads', f'{env.name}_trace.json')
                    exported = json.load(open(path))
                    if [(v['time'], v['asset_id']) for _, v in sorted(exported.items(), key=lambda kv: int(kv[0]))] != [x[:2] for x in seen] or \
                            any(v['action'] != x[2] for (_, v), x in zip(sorted(exported.items(), key=lambda kv: int(kv[0])), seen) if x[2] is not None):
                        wit.append({'kind': 'event-trace-export', 'exported': len(exported), 'executed_in_traced_runs': len(seen)})
                        break
            total += len(seen)
            if len(wit) > 1:
                break
    finally:
        if old_home is None:
            os.environ.pop('HOME', None)
        else:
            os.environ['HOME'] = old_home
        shutil.rmtree(home, ignore_errors=True)
    # records of BATCHES carry the batch's worth at the moment of writing, also when the parts inside it
    # changed their value since the batch was formed (finish callbacks that work on the contained parts)
    from simprocesd.model.factory_floor import Part, Batch, PartGenerator

    def worth(p):
        return sum(worth(x) for x in p.parts) if isinstance(p, Batch) else p.value
    batch_records = 0
    for t in range(max(2, n // 3)):
        k = rng.choice([2, 3])

        class Gen(PartGenerator):
            def generate_part_helper(self, part_name, part_counter):
                return Batch(part_name, [Part(f'{part_name}.{i}', 1) for i in range(k)])
        s = System()
        src = Source('src', Gen('B'), cycle_time=2)
        m1 = PartProcessor('m1', [src], cycle_time=1)
        m1.add_finish_processing_callback(lambda d, b: [x.add_value('work', rng.choice([1, 2])) for x in b.parts])
        m2 = PartProcessor('m2', [m1], cycle_time=1)
        Sink('k', [m2])
        live = {}
        env = s.env
        orig = env.add_datapoint
        bad = []

        def add_datapoint(list_label, sub_label, datapoint, live=live, bad=bad):
            if list_label in ('received_part', 'produced_part') and len(datapoint) >= 4:
                p = live.get(datapoint[1])
                if p is not None and isinstance(p, Batch) and datapoint[3] != worth(p):
                    bad.append((list_label, sub_label, tuple(datapoint), worth(p)))
            return orig(list_label, sub_label, datapoint)
        env.add_datapoint = add_datapoint
        for d in (m1, m2):
            d.add_receive_part_callback(lambda dev, p, live=live: live.__setitem__(p.id, p))
        s.simulate(12, print_summary=False)
        batch_records += sum(len(v) for v in env.simulation_data.get('produced_part', {}).values())
        if bad:
            wit.append({'kind': 'batch-record-value', 'record': repr(bad[0][:3]), 'worth_of_the_batch_at_that_moment': bad[0][3]})
            break
    return n, wit, {'models': n, 'traced_events_compared': total, 'batch_records_checked': batch_records}
