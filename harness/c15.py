"""C15 on the REAL code.
`event_trace`: last clause ("an enabled event trace lists exactly the executed events in execution order"):
small lines simulated in several consecutive runs, some traced and some not; the trace kept by the
environment (and the exported JSON) is compared with the events observed by wrapping Environment.step
(HOME is redirected to a scratch directory for the export); records of batches.
`coinciding_occurrences`: "exactly one record per occurrence" when several occurrences at ONE instant yield
EQUAL datapoints (equally named machines failing together, a zero-length work order accepted repeatedly,
equally named schedules switching together, an unlimited pool topped up twice).
`shared_manager`: one ResourceManager handed to a System that is created anew for every replication: every
System's own log mirrors the pools after each of its events, stamped with its own clock."""
import json
import os
import random
import shutil
import tempfile


def event_trace(seed, tier):
    """returns (evaluations, witnesses, stats)"""
    import impl          # first: puts the tree under test on sys.path
    from simprocesd.model import System
    from simprocesd.model.factory_floor import Source, Sink, PartProcessor, Buffer, Maintainer
    import functools
    impl.CTX = None
    rng = random.Random(f'c15-{seed}-{tier}')
    n = 8 if tier == 'quick' else 60
    wit = []
    total = 0
    home = tempfile.mkdtemp(prefix='c15home')
    os.makedirs(os.path.join(home, 'Downloads'), exist_ok=True)
    old_home = os.environ.get('HOME')
    os.environ['HOME'] = home
    try:
        for t in range(n):
            s = System()
            src = Source('src', cycle_time=rng.choice([1, 2]))
            m = PartProcessor('m', [src], cycle_time=rng.choice([1, 3]))
            b = Buffer('b', [m], minimum_delay=rng.choice([0, 2]))
            Sink('k', [b])
            env = s.env
            # every other model has maintenance and a failure: the maintainer's own events and the events scheduled
            # below are functools.partial objects (no __name__ of their own); the trace must list them like any other
            maint = Maintainer('mt') if t % 2 == 1 else None
            if maint is not None:
                s.simulate(0, print_summary=False)      # initialise, so that a failure can be scheduled

                def ask(maint=maint, m=m):
                    maint.create_work_order(m, 'fix')
                env.schedule_event(rng.choice([1, 2, 4]), -1, functools.partial(ask))
                m.schedule_failure(rng.choice([3, 5]), 'f')
                m.add_shutdown_callback(lambda dev, is_failure, part, maint=maint: maint.create_work_order(dev, 'repair') if is_failure else None)
            seen = []          # what a traced step executes, in order
            orig_step = env.step

            def name_of(a):
                # named callables by their name; anything else (partial objects) only has to be listed with SOME text
                return getattr(a, '__name__', None)

            def step(env=env, orig_step=orig_step):
                e = env._events[0]
                if env._trace:
                    seen.append((e.time, e.asset_id, name_of(e.action)))
                return orig_step()
            env.step = step
            runs = [(rng.choice([2, 3, 5, 6]), rng.random() < 0.7) for _ in range(rng.randint(2, 4))]
            for d, traced in runs:
                try:
                    s.simulate(d, trace=traced, print_summary=False)
                except Exception as e:
                    wit.append({'kind': 'event-trace-crash', 'with_maintainer': maint is not None, 'traced': traced,
                                'runs_so_far': [list(r) for r in runs],
                                'raised': f'{type(e).__name__}: {e}'[:200]})
                    break
                tr = env._event_trace
                got = [(tr[k]['time'], tr[k]['asset_id'], tr[k]['action']) for k in sorted(tr)]
                if len(got) == len(seen):
                    # an action without a name of its own is compared as "listed with a text"
                    got = [(g[0], g[1], g[2] if s_[2] is not None else (None if isinstance(g[2], str) else g[2]))
                           for g, s_ in zip(got, seen)]
                if got != seen or sorted(tr) != list(range(len(tr))):
                    wit.append({'kind': 'event-trace', 'runs_so_far': [list(r) for r in runs], 'trace_has': len(got),
                                'executed_in_traced_runs': len(seen),
                                'first_difference': next(((i, got[i] if i < len(got) else None, seen[i] if i < len(seen) else None)
                                                          for i in range(max(len(got), len(seen)))
                                                          if i >= len(got) or i >= len(seen) or got[i] != seen[i]), None)})
                    break
                if traced:
                    path = os.path.join(home, 'Downloads', f'{env.name}_trace.json')
                    exported = json.load(open(path))
                    if [(v['time'], v['asset_id']) for _, v in sorted(exported.items(), key=lambda kv: int(kv[0]))] != [x[:2] for x in seen] or \
                            any(v['action'] != x[2] for (_, v), x in zip(sorted(exported.items(), key=lambda kv: int(kv[0])), seen) if x[2] is not None):
                        wit.append({'kind': 'event-trace-export', 'exported': len(exported), 'executed_in_traced_runs': len(seen)})
                        break
            total += len(seen)
            if len(wit) > 1:
                break
    finally:
        if old_home is None:
            os.environ.pop('HOME', None)
        else:
            os.environ['HOME'] = old_home
        shutil.rmtree(home, ignore_errors=True)
    # records of BATCHES carry the batch's worth at the moment of writing, also when the parts inside it
    # changed their value since the batch was formed (finish callbacks that work on the contained parts)
    from simprocesd.model.factory_floor import Part, Batch, PartGenerator

    def worth(p):
        return sum(worth(x) for x in p.parts) if isinstance(p, Batch) else p.value
    batch_records = 0
    for t in range(max(2, n // 3)):
        k = rng.choice([2, 3])

        class Gen(PartGenerator):
            def generate_part_helper(self, part_name, part_counter):
                return Batch(part_name, [Part(f'{part_name}.{i}', 1) for i in range(k)])
        s = System()
        src = Source('src', Gen('B'), cycle_time=2)
        m1 = PartProcessor('m1', [src], cycle_time=1)
        m1.add_finish_processing_callback(lambda d, b: [x.add_value('work', rng.choice([1, 2])) for x in b.parts])
        m2 = PartProcessor('m2', [m1], cycle_time=1)
        Sink('k', [m2])
        live = {}
        env = s.env
        orig = env.add_datapoint
        bad = []

        def add_datapoint(list_label, sub_label, datapoint, live=live, bad=bad):
            if list_label in ('received_part', 'produced_part') and len(datapoint) >= 4:
                p = live.get(datapoint[1])
                if p is not None and isinstance(p, Batch) and datapoint[3] != worth(p):
                    bad.append((list_label, sub_label, tuple(datapoint), worth(p)))
            return orig(list_label, sub_label, datapoint)
        env.add_datapoint = add_datapoint
        for d in (m1, m2):
            d.add_receive_part_callback(lambda dev, p, live=live: live.__setitem__(p.id, p))
        s.simulate(12, print_summary=False)
        batch_records += sum(len(v) for v in env.simulation_data.get('produced_part', {}).values())
        if bad:
            wit.append({'kind': 'batch-record-value', 'record': repr(bad[0][:3]), 'worth_of_the_batch_at_that_moment': bad[0][3]})
            break
    return n, wit, {'models': n, 'traced_events_compared': total, 'batch_records_checked': batch_records}


def _watch(env, after_event):
    """observe every add_datapoint CALL of `env` (label, sub-label -> datapoints in call order) and call
    `after_event()` after every executed event"""
    calls = {}
    orig_add, orig_step = env.add_datapoint, env.step

    def add_datapoint(list_label, sub_label, datapoint):
        calls.setdefault((list_label, sub_label), []).append(datapoint)
        return orig_add(list_label, sub_label, datapoint)

    def step():
        r = orig_step()
        after_event()
        return r
    env.add_datapoint = add_datapoint
    env.step = step
    return calls


def _series_vs_calls(env, calls):
    """the stored series are exactly the datapoints handed in, one entry per call, in call order"""
    data = env.simulation_data
    for (label, sub), dps in calls.items():
        got = list(data.get(label, {}).get(sub, []))
        if got != dps:
            return (f'{len(dps)} datapoints were recorded under [{label!r}][{sub!r}] (add_datapoint calls) but the series '
                    f'holds {len(got)}: calls {dps[:6]}, series {got[:6]}')
    for label, subs in data.items():
        for sub, got in subs.items():
            if (label, sub) not in calls and len(got):
                return f'series [{label!r}][{sub!r}] holds {len(got)} entries nobody recorded through add_datapoint'
    return None


def coinciding_occurrences(seed, tier):
    import impl
    from simprocesd.model import System, EventType
    from simprocesd.model.factory_floor import Source, Sink, PartProcessor, Maintainer, ActionScheduler
    impl.CTX = None
    rng = random.Random(f'c15co-{seed}-{tier}')
    n = 6 if tier == 'quick' else 40
    wit = []
    occurrences = 0
    equal = {}          # label -> how often a datapoint equal to the previous one of its series was recorded
    for t in range(n):
        random.seed(seed * 1000 + t)
        k = rng.choice([2, 2, 3])
        s = System()
        env = s.env
        rm = s.resource_manager
        rm.add_resources('air', float('inf'))
        budget = rng.choice([2, 4, 40])
        src = Source('source', cycle_time=1, starting_parts=budget)
        stations = [PartProcessor('station', [src], cycle_time=rng.choice([1, 2])) for _ in range(k)]
        sink = Sink('sink', stations)
        press = PartProcessor('press')
        crew = Maintainer('crew')
        sched_plan = [(rng.choice([2, 3]), 'work'), (rng.choice([1, 2]), 'rest')]
        shifts = [ActionScheduler(list(sched_plan), name='shift') for _ in range(rng.choice([1, 2, 2]))]
        failures, accepted, transitions, topups = [], [], [], []
        for st in stations:
            st.add_shutdown_callback(lambda m, is_failure, lost, failures=failures, env=env:
                                     failures.append((env.now, lost.id if lost is not None else None)) if is_failure else None)
        for sh in shifts:
            sh.register_object(object(), lambda sch, obj, time, state, transitions=transitions: transitions.append((time, state)))
        state = {'initialised': False}

        def occurred(env=env, s=s, failures=failures, accepted=accepted, transitions=transitions, topups=topups, state=state):
            """what happened (seen through callbacks and return values) against what the log holds"""
            d = s.simulation_data

            def series(label, sub):
                return list(d.get(label, {}).get(sub, []))
            got = series('device_failure', 'station')
            if sorted(got, key=repr) != sorted(failures, key=repr):
                return (f'{len(failures)} failure(s) of the machines named "station" happened (time, lost part) = {failures} '
                        f'but the device_failure records are {got}')
            if len(series('enter_queue', 'crew')) != len(accepted):
                return (f'{len(accepted)} work orders were accepted at {accepted} but there are '
                        f'{len(series("enter_queue", "crew"))} enter_queue record(s): {series("enter_queue", "crew")}')
            if sorted(series('schedule_update', 'shift'), key=repr) != sorted(transitions, key=repr):
                return (f'the schedules named "shift" made the transitions {transitions} but the schedule_update records '
                        f'are {series("schedule_update", "shift")}')
            if state['initialised'] and len(series('resource_update', 'air')) != 1 + len(topups):
                return (f'pool "air" was recorded once at the start and topped up {len(topups)} time(s) at {topups} but has '
                        f'{len(series("resource_update", "air"))} resource_update record(s): {series("resource_update", "air")}')
            return None

        def after_event(env=env):
            if wit:
                return
            w = _series_vs_calls(env, calls) or occurred()
            if w:
                wit.append({'kind': 'one-record-per-occurrence', 'time': env.now, 'model': f'{k} machines named "station", '
                            f'{len(shifts)} schedule(s) named "shift", a zero-length work order requested repeatedly, an '
                            f'unlimited pool topped up twice at one instant', 'finding': w[:700]})
        calls = _watch(env, after_event)
        try:
            s.simulate(0, print_summary=False)
            state['initialised'] = True
            horizon = rng.choice([12, 20])
            tf = rng.choice([3, 5, horizon - 2])       # early: the machines hold parts; late and a small budget: all idle
            for st in stations:
                st.schedule_failure(tf, 'breaks down')
            tw = rng.choice([1, 4, 7])

            def ask(accepted=accepted, env=env, crew=crew, press=press):
                if crew.create_work_order(press, 'inspect', 'routine'):
                    accepted.append(env.now)
            for _ in range(rng.choice([2, 3])):
                env.schedule_event(tw, -1, ask, EventType.OTHER_LOW_PRIORITY, 'inspection')
            tc = rng.choice([2, 6])

            def topup(rm=rm, env=env, topups=topups):
                for _ in range(2):
                    rm.add_resources('air', 1)
                    topups.append(env.now)
            env.schedule_event(tc, -1, topup, EventType.OTHER_LOW_PRIORITY, 'top up')
            s.simulate(horizon, print_summary=False)
            after_event()
            if not wit:
                for label in ('start_work_order', 'finish_work_order'):
                    got = s.simulation_data.get(label, {}).get('crew', [])
                    if len(got) != len(accepted):
                        wit.append({'kind': 'one-record-per-occurrence', 'time': env.now,
                                    'finding': f'{len(accepted)} zero-length work orders were accepted at {accepted} and none is '
                                               f'pending, but there are {len(got)} {label} record(s): {got}'})
                        break
        except Exception as e:
            wit.append({'kind': 'one-record-per-occurrence-crash', 'raised': f'{type(e).__name__}: {e}'[:300]})
        occurrences += len(failures) + len(accepted) + len(transitions) + len(topups)
        for (label, sub), dps in calls.items():
            c = sum(1 for a, b in zip(dps, dps[1:]) if a == b)
            if c:
                equal[label] = equal.get(label, 0) + c
        if wit:
            break
    return n, wit, {'coinciding_models': n, 'coinciding_occurrences_checked': occurrences,
                    'datapoints_equal_to_their_predecessor': dict(sorted(equal.items()))}


def shared_manager(seed, tier):
    import impl
    from simprocesd.model import System, ResourceManager
    from simprocesd.model.factory_floor import Source, Sink, PartProcessor
    impl.CTX = None
    rng = random.Random(f'c15rm-{seed}-{tier}')
    n = 4 if tier == 'quick' else 30
    wit = []
    events = [0]
    for t in range(n):
        rm = ResourceManager()
        pools = {'fixture': rng.choice([1, 2]), 'jig': rng.choice([1, 3])}
        for name, c in pools.items():
            rm.add_resources(name, c)
        reps = rng.choice([2, 3])
        budget = rng.choice([3, 5])
        cyc = rng.choice([1, 2])
        need = [{'fixture': 1}, {'fixture': 1, 'jig': rng.choice([1, 2]) if pools['jig'] > 1 else 1}]
        for rep in range(reps):
            random.seed(seed * 1000 + t)
            s = System(resource_manager=rm)
            env = s.env
            src = Source('source', cycle_time=1, starting_parts=budget)
            ms = [PartProcessor(f'm{i}', [src], cycle_time=cyc, resources_for_processing=dict(need[i])) for i in range(2)]
            sink = Sink('sink', ms)
            if rep == reps - 1 and rng.random() < 0.5:
                rm.add_resources('fixture', 1)          # a change between two replications
            seen = {}

            def after_event(env=env, s=s, rep=rep, seen=seen):
                events[0] += 1
                if wit:
                    return
                d = s.simulation_data.get('resource_update', {})
                for name in pools:
                    pool = (rm.get_resource_usage(name), rm.get_resource_capacity(name))
                    ser = d.get(name, [])
                    w = None
                    if not ser:
                        w = f'pool {name!r} is (usage, capacity) = {pool} but this System has no resource_update record of it'
                    elif tuple(ser[-1][1:]) != pool:
                        w = f'pool {name!r} is (usage, capacity) = {pool} but this System\'s last resource_update record of it is {ser[-1]}'
                    elif any(x[0] != env.now for x in ser[seen.get(name, 0):]) and seen.get(name) is not None:
                        w = f'resource_update records {ser[seen.get(name, 0):]} of pool {name!r} were written at time {env.now} of this System'
                    elif ser[0][0] != 0:
                        w = f'the first resource_update record of pool {name!r} is {ser[0]}: not stamped with the start of this System'
                    seen[name] = len(ser)
                    if w:
                        wit.append({'kind': 'shared-resource-manager', 'replication': rep, 'time': env.now,
                                    'model': 'one ResourceManager handed to a System created anew per replication: source -> '
                                             'two parallel machines requiring its resources -> sink',
                                    'finding': w, 'own_log_keys': sorted(map(str, s.simulation_data))})
                        return
            calls = _watch(env, after_event)
            try:
                s.simulate(rng.choice([6, 10, 40]), print_summary=False)
                after_event()
                w = _series_vs_calls(env, calls) if not wit else None
                if w:
                    wit.append({'kind': 'shared-resource-manager', 'replication': rep, 'finding': w})
            except Exception as e:
                wit.append({'kind': 'shared-resource-manager-crash', 'replication': rep, 'raised': f'{type(e).__name__}: {e}'[:300]})
            if wit:
                break
            # let the run drain so that the next replication starts from free pools or not, as it happens
        if wit:
            break
    return n, wit, {'shared_manager_models': n, 'shared_manager_events_checked': events[0]}


def real_code(seed, tier):
    """all extra checks of C15; returns (evaluations, witnesses, stats)"""
    total, wit, stats = 0, [], {}
    for f in (event_trace, coinciding_occurrences, shared_manager):
        k, w, st = f(seed, tier)
        total += k
        wit += w
        stats.update(st)
    return total, wit, stats
