"""C15, last clause ("an enabled event trace lists exactly the executed events in execution order"), on
the REAL code: small lines simulated in several consecutive runs, some traced and some not; the trace
kept by the environment (and the exported JSON) is compared with the events observed by wrapping
Environment.step.  HOME is redirected to a scratch directory for the export."""
import json
import os
import random
import shutil
import tempfile


def event_trace(seed, tier):
    """returns (evaluations, witnesses, stats)"""
    import impl          # first: puts the tree under test on sys.path
    from simprocesd.model import System
    from simprocesd.model.factory_floor import Source, Sink, PartProcessor, Buffer
    impl.CTX = None
    rng = random.Random(f'c15-{seed}-{tier}')
    n = 8 if tier == 'quick' else 60
    wit = []
    total = 0
    home = tempfile.mkdtemp(prefix='c15home')
    os.makedirs(os.path.join(home, 'Downloads'), exist_ok=True)
    old_home = os.environ.get('HOME')
    os.environ['HOME'] = home
    try:
        for t in range(n):
            s = System()
            src = Source('src', cycle_time=rng.choice([1, 2]))
            m = PartProcessor('m', [src], cycle_time=rng.choice([1, 3]))
            b = Buffer('b', [m], minimum_delay=rng.choice([0, 2]))
            Sink('k', [b])
            env = s.env
            seen = []          # what a traced step executes, in order
            orig_step = env.step

            def step(env=env, orig_step=orig_step):
                e = env._events[0]
                if env._trace:
                    seen.append((e.time, e.asset_id, e.action.__name__))
                return orig_step()
            env.step = step
            runs = [(rng.choice([2, 3, 5, 6]), rng.random() < 0.7) for _ in range(rng.randint(2, 4))]
            for d, traced in runs:
                s.simulate(d, trace=traced, print_summary=False)
                tr = env._event_trace
                got = [(tr[k]['time'], tr[k]['asset_id'], tr[k]['action']) for k in sorted(tr)]
                if got != seen or sorted(tr) != list(range(len(tr))):
                    wit.append({'kind': 'event-trace', 'runs_so_far': [list(r) for r in runs], 'trace_has': len(got),
                                'executed_in_traced_runs': len(seen),
                                'first_difference': next(((i, got[i] if i < len(got) else None, seen[i] if i < len(seen) else None)
                                                          for i in range(max(len(got), len(seen)))
                                                          if i >= len(got) or i >= len(seen) or got[i] != seen[i]), None)})
                    break
                if traced:
                    path = os.path.join(home, 'Downloads', f'{env.name}_trace.json')
                    exported = json.load(open(path))
                    if [(v['time'], v['asset_id'], v['action']) for _, v in sorted(exported.items(), key=lambda kv: int(kv[0]))] != seen:
                        wit.append({'kind': 'event-trace-export', 'exported': len(exported), 'executed_in_traced_runs': len(seen)})
                        break
            total += len(seen)
            if len(wit) > 1:
                break
    finally:
        if old_home is None:
            os.environ.pop('HOME', None)
        else:
            os.environ['HOME'] = old_home
        shutil.rmtree(home, ignore_errors=True)
    return n, wit, {'models': n, 'traced_events_compared': total}
