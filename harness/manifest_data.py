NOTES = ('Every check: regenerate facts from /repo -> lake build of the property theorems -> #print axioms audit -> '
         'correspondence implementation/model on generated scenarios -> monitors on implementation traces -> '
         'failing-input search and shrinking on any break. Exit 2 = infrastructure failure.')

BASE_NOTE = ('Trusted: Lean kernel; axioms propext/Classical.choice/Quot.sound only (audited each run); Lean compiler for '
             'spdriver; the Python harness (generators, observers, fact translator). The theorem is about the model; the '
             'model is tied to /repo by differential correspondence on generated scenarios (testing, not proof) and by '
             'regenerated facts. Times on the dyadic grid k/16.')

CLAIMED = {
    'C01': dict(
        text='Theorems (Props/C01.lean) over the Env model for every operation sequence, every tie-break weight and every '
             'time arithmetic: queue invariant, popped event is the minimum of the time-then-priority order, clock = event '
             'time and monotone, past requests rejected without state change, every uid executed at most once, run(d) '
             'executes exactly what is due up to t0+d and ends at t0+d. The comparison chain, the EventType values, the '
             'past-time guard and the schedule sites are regenerated from the source and re-proved (Props/Facts.lean). '
             'Model tied to the code by differential runs of family env; dispatch-order monitors on implementation traces.',
        note=BASE_NOTE + ' Hypotheses: user priorities above TERMINATE; asset id -1 is not paused/cancelled by users.',
        technique='Lean 4 invariant proof by induction over operation lists + differential correspondence + regenerated facts',
    ),
}

CLAIMED['C07'] = dict(
    text='Theorems (Props/C07.lean) over the Env model for every state and operation sequence: pause withholds exactly '
         'the asset\'s pending events and keeps the order of the others; unpause re-inserts exactly those events, shifted, '
         'into a sorted queue; with exact time arithmetic the shift is + (now - pausedAt) so the remaining delay is '
         'preserved (pause invariant proved for every reachable state); cancel flags exactly the asset\'s pending and paused '
         'events, the flag is never cleared and a cancelled event is never reported as run; events scheduled afterwards are '
         'unaffected; redundant pause/resume are identities. Tie: family env (pauses at non-zero times, nested pauses, '
         'cancel-then-unpause) compared event by event with the real Environment; per-event tracking monitor on '
         'implementation traces incl. a decimal-time stream.',
    note=BASE_NOTE + ' Remaining-delay theorems assume exact time arithmetic (Arith.exact); float rounding is covered only by the monitor (one-ulp tolerance).',
    technique='Lean 4 theorems over the event-queue model + differential correspondence',
)

CLAIMED['C10'] = dict(
    text='Theorems (Props/C10.lean): for the waiting-list scan with ARBITRARY callbacks (only interface laws assumed): a '
         'callback runs only for a request that fits at that moment and with exactly the registered request; called-back plus '
         'still-waiting entries are a permutation of previously-waiting plus newly-registered ones (exactly once); calls are a '
         'subsequence of the waiting list (registration order). For manager + "check pending" flag: every operation that can '
         'make a request feasible schedules a check, a completed check re-establishes the invariant whatever the callbacks do, '
         'hence with no check pending no feasible request waits; the check event is OTHER_HIGH_PRIORITY at now with asset -1 '
         '(regenerated schedule-site fact), so by C01 it runs before the clock advances. Tie: family rm vs the real manager.',
    note=BASE_NOTE,
    technique='Lean 4 theorems over a generic scan + invariant proof + differential correspondence',
)
CLAIMED['C12'] = dict(
    text='Theorems (Props/C12.lean) for every stream of requests/finishes with arbitrary target answers: create returns '
         'exactly "not a duplicate" and a rejected request changes nothing; utilisation = sum of active needs; one order per '
         'target; (target, tag) unique over queue+active; the scan starts orders in request order skipping exactly the '
         'unstartable ones (recursive characterisation); after every create/finish no queued order is startable; capacity '
         'never exceeded; cost charged once. The event glue (START_WORK at now, FINISH_WORK at now + duration read at start, '
         'hooks once) is part of the executable model and checked by correspondence and monitor, not a theorem (partial).',
    note=BASE_NOTE + ' Hypothesis: needed capacities >= 0.',
    technique='Lean 4 invariant proof over the maintainer model + differential correspondence',
)
CLAIMED['C18'] = dict(
    text='Theorems (Props/C18.lean) for every timetable, registration list and number of transitions: the k-th state change '
         'of a cyclical scheduler happens at t0 + sum of the first k durations (cyclically) and enters entry k mod n; a '
         'non-cyclical one visits each entry once and then stops; period = total duration; each change acts on exactly the '
         'objects registered at that moment in registration order; (un)registration takes effect from the next change. '
         'Tie: family sched vs the real ActionScheduler (default of is_cyclical exercised by omission).',
    note=BASE_NOTE,
    technique='Lean 4 theorems by induction over transitions + differential correspondence',
)
CLAIMED['C19'] = dict(
    text='Theorems (Props/C19.lean) for every interval, capacity, probe count and value sequence: k-th periodic measurement '
         'at start + k*interval; output-part sensor measures part j iff j mod (n+1) = 0; one value per probe; every probe '
         'series AND the time series equal the last min(count, c) samples (aligned); Cms.add_sensor idempotent. '
         'Tie: family sensor vs the real sensors (after the F4 fix).',
    note=BASE_NOTE,
    technique='Lean 4 theorems over the sensor model + differential correspondence',
)

CLAIMED['C09'] = dict(
    text='Theorems (Props/C09.lean) over the resource-manager model for EVERY sequence of well-formed operations (also before '
         'initialisation): invariant (usage of each resource = sum held by outstanding reservations, holdings positive, '
         'capacity >= 0) by induction; usage >= 0; an operation that reports an error returns the unchanged manager; reserve '
         'succeeds iff everything fits and then takes exactly the requested amounts, otherwise nothing; usage <= capacity is '
         'preserved by everything except an explicit capacity reduction; full / partial release give back exactly what is '
         'named; second release is a no-op; merge never changes a pool and sums the holdings. The model is the manager as '
         'repaired by the fix: commits F1, F2, F3, F9. Tie: family rm vs the real ResourceManager, incl. zero / negative / '
         'unknown entries and pre-start operations; monitor: usage = sum of all holdings, error => nothing changed.',
    note=BASE_NOTE + ' Hypotheses: request dictionaries have distinct keys; integer amounts (merge of a reservation with itself is a no-op since the repair of F11: inv_merge needs no distinctness; only merge_holdings, which describes the merged holdings, takes a != b).',
    technique='Lean 4 invariant proof by induction over operation sequences + differential correspondence',
)

CLAIMED['C14'] = dict(
    text='(a) The model is a function of (scenario, weight function), so determinism holds by construction and is transferred '
         'by the correspondence check (implementation = that function on families env and floor with random asset-id offsets). '
         '(b) Theorems (Props/C14.lean): a strictly monotone renaming of asset ids commutes with every environment operation '
         'and operation sequence (ids are used only through < as last tie-break and = in pause/cancel), i.e. results are '
         'independent of the id offset. (c) run_split (Props/C14Split.lean), proved for an ARBITRARY closed system of actions: running for a and then for b '
         'yields the same final user state and the same environment up to event numbering as running once for a+b, with '
         'the tie-break weights held fixed and user priorities above TERMINATE (simulation argument, no bound on steps). (d) Same seed twice with the '
         'unpatched generator, different PYTHONHASHSEEDs, simulate_multiple_times in-process vs 1/2/4/default worker processes '
         'are CHECKED on the real code on every run (not provable about CPython).',
    note=BASE_NOTE + ' Partial: worker-process equality and hash-order independence are checked, not proved.',
    technique='Lean 4 commutation theorem + differential correspondence + metamorphic runs of the real code',
)
CLAIMED['C16'] = dict(
    text='Theorems (Props/C16.lean) for every sequence of value changes of an asset: value = starting value + sum of the '
         'history changes; every entry carries (label, time, change, running total) with consistent running totals; zero '
         'changes are not recorded and change nothing; add_cost = add_value of the negation; the starting value never '
         'changes; net value = sum over assets. The amounts used at the library\'s sites (source: minus the value of the '
         'supplied part; sink: value at receipt; maintainer: order cost; batch = sum of parts) are part of the executable '
         'model (Floor.lean / World.lean use AssetVal.addValue/addCost) and are checked by correspondence on the floor and '
         'maint families and by a live-object check of every asset and part after every event (partial: sites not theorems).',
    note=BASE_NOTE,
    technique='Lean 4 invariant proof over value histories + differential correspondence + live-object bookkeeping check',
)

CLAIMED['C20'] = dict(
    text='Theorems (Props/C20.lean) about the lifecycle model for EVERY sequence of System() creations, asset creations, '
         'simulate calls and look-ups: every asset is registered with exactly one system (the latest at creation), is '
         'initialised exactly once iff its system has started simulating (immediately when created afterwards) and at most once '
         'ever; only the latest system simulates (otherwise error, state unchanged); continuing a simulation re-initialises '
         'nothing; find_assets returns exactly the registered assets matching all filters in registration order. Regenerated '
         'facts (proved by decide on every run): no constructor registers the asset itself, registration happens after all '
         'constructors (metaclass __call__, fix F5), add_asset initialises at once when running, simulate guards the latest '
         'system and initialises once. "Behaves like the same asset created before the start": the world model\'s constructor '
         'call + immediate initialisation is compared with the real code for every asset kind created before / between / '
         'during runs (family sys), plus family sysm for the lifecycle operations.',
    note=BASE_NOTE + ' The late-creation clause is established by correspondence with the model (testing), not by a theorem.',
    technique='Lean 4 invariant proof over the lifecycle model + regenerated AST facts + differential correspondence',
)

CLAIMED['C02'] = dict(
    text='Closed-world theorems (Props/C02.lean, ~7000 lines of machinery in Proofs/) about the executable model of the whole '
         'factory floor (all device kinds incl. batchers, gates, shared and nested groups, resources, failures, maintenance, '
         'scripts): the strengthened conservation invariant ConsS (leaf parts inside non-sink devices ++ delivered ++ lost is a '
         'permutation of the generated leaf parts, generated has no duplicates, no top-level part is held twice, batches are one '
         'level deep, ...) holds for fresh worlds and is preserved by initialisation, constructor calls, every scripted '
         'operation, every admissible event action (cons_exec\'), every step and every run of the event loop, with no bound on '
         'steps or sizes; conservation_reachable: for every fresh, statically well-formed world (scripts without rewiring / '
         'creation, failures only on machines, wiring closed under reachability) and every loop fuel, generated = inside + '
         'delivered + lost and nothing is in two places. Also: a handler-like device accepts only into empty slots; a source never '
         'exceeds its budget (initial + adjustments). The first, stronger formulation was refuted by machine-checked '
         'counterexamples kept in the file (the model allows a failing sink and dangling device indices, which the library does '
         'not). Tie: families floor/floorc/floors vs the real code on slots, part contents, sink counts, failure log and '
         'shutdown callbacks; census monitor on implementation traces after every event.',
    note=BASE_NOTE + ' Hypotheses of conservation_reachable: Static (no rewire/create in scripts, failures only on non-sinks, every device reachable by a hand-over exists). For worlds whose scripts rewire and create (conservation_reachable_dyn): class Dyn (decidable certificate DynAuto), each clause shown necessary by a counterexample.',
    technique='Lean 4 closed-world invariant proof by induction over events + differential correspondence + census monitor',
)

CLAIMED['C03'] = dict(
    text='PARTIAL by design. Theorems (Props/C03.lean) about the notification mechanism of the executable floor model, for '
         'every world: a hand-over attempt (schedulePass) clears the flag and queues a live PASS_PART event of the device at '
         'the current instant and is never rejected; notifications never remove or cancel a queued event and never set a '
         'waiting flag; notifyUp wakes every flagged, operational upstream handler it reaches (directly, through chains of '
         'gates of any length within the fuel, through group input/output) - i.e. it turns "flagged" into "attempt queued at '
         'now"; a blocked ready part is always flagged (passHandler / buffer); every unblocking site performs the notification '
         'or the attempt in the same call (unblocking an input, restoring a machine with or without a finished part, resources '
         'becoming available, a sink finishing, a successful hand-over, a buffer gaining room, a raised part budget, an added '
         'connection), and by C01 an attempt queued at `now` runs before the clock advances. NOT proved: the global invariant '
         'over all reachable states (no device holds an acceptable ready part when time advances) - that part is CHECKED on the '
         'real code by a deep-copy probe at every clock advance (each ready part is offered to each sorted downstream on a copy '
         'of the object graph) and by correspondence of slots/flags/events with the model on congested and targeted families.',
    note=BASE_NOTE + ' Partial: local mechanism proved; closed-world liveness invariant checked, not proved. "run returns": per-scenario watchdog.',
    technique='Lean 4 theorems about the wake-up mechanism + deep-copy quiescence probe on the real code + differential correspondence',
)
CLAIMED['C05'] = dict(
    text='Theorems (Props/C05.lean): (A) an abstract buffer machine with the model\'s arithmetic satisfies the whole contract for '
         'EVERY sequence of offers and releases with arbitrary downstream answers and non-decreasing times: level = number of '
         'stored parts (batch contents count), level <= capacity, arrival order kept, released ++ stored = accepted (FIFO), every '
         'released part stayed at least the minimum delay, offer accepted iff room. (B) refinement to the executable model: '
         'canAcceptBasic on a buffer is exactly room & not blocked; acceptPart on a buffer is the machine\'s offer (exact level, '
         'queue and the two records); bufferLoop/passPart are the machine\'s release (suffix of the queue, level bookkeeping, '
         'only expired heads) for every topology in which the hand-over does not loop back into the buffer (hypothesis Good / '
         'PlainDown, proved satisfiable; a self-loop example shows why it is needed); BufOK is preserved. Tie: floor families '
         'with buffers vs the real Buffer; contract monitor on implementation traces.',
    note=BASE_NOTE + ' Float rounding of (now - stored) and numpy.nextafter are outside the model (dyadic times: ulp test = "> 0").',
    technique='Lean 4 contract proof for an abstract machine + refinement lemmas to the model + differential correspondence',
)
CLAIMED['C08'] = dict(
    text='Theorems (Props/C08.lean, 48) about the model\'s hand-over functions for every world: the stable sort used for the '
         'downstream order is a permutation, sorted by waiting-since with "not waiting" last, and stable, and the accepting '
         'device is the first in that order that accepts (idle longest first); a gate whose predicate rejects or a blocked '
         'gate/path/handler returns the unchanged world; a refused hand-over leaves NO trace: the parts table (all histories and '
         'path stacks, batch contents included) is identical and no slot changed (no_leftovers, by induction over the controller '
         'recursion); on acceptance exactly the device is appended to the history of the part and its contents; a group output '
         'pops exactly the innermost path and offers the part to that path\'s downstreams, restoring the stack on refusal; '
         'collected lists only grow at the end. NOT proved: the closed-world invariant "every history is a walk of the '
         'configured graph" over all reachable states - checked on implementation traces (history-is-a-walk monitor incl. nested '
         'groups) and by correspondence of all histories and stacks with the model.',
    note=BASE_NOTE + ' A blocked GroupOutput is not consulted by the library either (model and code agree).',
    technique='Lean 4 theorems over the hand-over recursion + routing monitor + differential correspondence',
)
CLAIMED['C17'] = dict(
    text='Theorems (Props/C17.lean) about the model\'s batcher functions for every world satisfying an explicit, decidable '
         'well-formedness predicate (each clause shown necessary by a counterexample): the internal move (batcherLoop / '
         'tryMove) preserves the sequence output ++ batch-under-construction ++ remaining input (order preservation, input '
         'batches unpacked front to back); with size n an output produced by the loop is a batch of exactly n parts and the '
         'batch under construction stays below n; in single mode the output is the next single part; acceptance exactly when both '
         'slots are empty; accepting appends the new leaves at the end of the sequence, a hand-over removes them from the front; '
         'other devices and other parts are untouched; the loop refines an abstract list machine. NOT proved: the end-to-end '
         'statement across hand-overs over all reachable states (needs the floor-wide invariant) - checked by the leaf-order '
         'monitor on implementation traces and by correspondence on the batch-heavy family.',
    note=BASE_NOTE,
    technique='Lean 4 refinement proof of the batcher loop + leaf-order monitor + differential correspondence',
)

CLAIMED['C11'] = dict(
    text='Theorems (Props/C11.lean) about the model\'s processor/resource functions for every world with the C09 invariant: the '
         'resource part of acceptance succeeds iff everything declared fits, then holds EXACTLY the positive declared amounts '
         '(new reservation, usage grows by exactly those amounts) and otherwise takes nothing and registers exactly one waiting '
         'request (with an availability check queued); a part is accepted by a resource-declaring processor only while holding '
         'the declared amounts (ProcInv preserved by its own operations); a failure gives everything back (usage drops by exactly '
         'the holdings); a maintenance shutdown and the restore leave reservation and pools unchanged; finishing a part while '
         'holding queues a live RELEASE event for the current instant, which by C01 runs before the clock advances but after a '
         'same-instant PASS_PART (priority facts regenerated from the source), and releases iff the machine is idle or down; '
         'pool usage = sum of the holdings of the processors holding reservations (class S + FreshR: no reservations made by scripts; those are covered by C09W), with the '
         'ownership invariant preserved by acquisition, release, failure, maintenance and hand-over. NOT proved: the global '
         'clause "whenever time advances no idle operational processor holds resources" as an invariant of the whole event loop '
         '(its local ingredients are proved) - checked by the monitor at every clock advance and by correspondence on the '
         'pool-heavy and maintenance-dense families.',
    note=BASE_NOTE + ' Hypotheses: C09 invariant, request dictionaries with distinct keys and non-negative amounts.',
    technique='Lean 4 theorems over the processor/resource functions (reusing C09/C01) + monitor + differential correspondence',
)

CLAIMED['C04'] = dict(
    text='The reference recurrence is a total Lean function (Ref.D / Ref.E over a serial-line configuration) with proved '
         'algebra for well-formed parameters: it satisfies the recurrence D(j,k) = max(E(j,k)+c_j, D(j,k-1) for buffers, '
         'blocking term) verbatim, E(j+1,k) = D(j,k), parts never overtake (monotone in k), no part leaves early, FIFO, blocking '
         'terms, all values >= 0, sink counts monotone in the horizon; the definition does not mention tie-break weights. '
         'serial_timing (the executable model\'s received-part times of a serial line equal the reference, for every seed, weight '
         'modulus, horizon and loop fuel) is PROVED for the source -> sink line for all parameters and budgets by an invariant over '
         'the event loop (incl. completion of the run and weight independence), and for longer lines only TESTED by kernel '
         'evaluation on ten line/modulus combinations (theorems named serial_timing_test_*) plus a checker checkB proved sound. '
         'The general n-station induction is NOT proved. On the real code the statement is evaluated exactly on every run: the '
         'monitor computes the reference recurrence and compares the entry times of every station of 300+ random serial lines '
         '(handlers, processors, buffers with capacities and delays, zero cycle times, finite budgets, split runs).',
    note=BASE_NOTE + ' Partial: general line length not proved (source->sink proved; longer lines tested + checked on the implementation).',
    technique='Lean 4 reference function + algebra + loop-invariant proof for the shortest line + exact reference monitor on the real code',
)
CLAIMED['C06'] = dict(
    text='Theorems (Props/C06.lean) about the model\'s timing functions for every world: the processing delay is max 0 (cycle + '
         'one-shot offset) evaluated after the receive callbacks; accepting a part with positive delay adds exactly one live '
         'finish event at now + delay for the device (offset consumed) and with delay <= 0 finishes at once; the consumed offset '
         'never carries over (only what this cycle\'s finish callbacks request remains - the stronger "always 0" is refuted by a '
         'checked example); a maintenance shutdown applies exactly Env.pause to the device\'s events, a failure exactly '
         'Env.cancel, a restore exactly Env.unpause (then the pass/notify), so by the C07 theorems the remaining delay of the '
         'finish event is preserved across maintenance (due time shifted by exactly the down time) and after a failure no event '
         'of the device that existed then ever runs; finishing moves the part to the output and queues the pass attempt. NOT '
         'proved as one trace theorem over the event loop ("operational work = cycle time exactly when the part moves"): it is '
         'the composition of these lemmas; checked on implementation traces by the operational-time monitor and by '
         'correspondence (maintenance-dense family with several shutdowns during one part and failures during a shutdown).',
    note=BASE_NOTE + ' Exact time arithmetic (dyadic grid).',
    technique='Lean 4 theorems over accept/schedule/pause/cancel/resume composing C07 + operational-time monitor + differential correspondence',
)
CLAIMED['C13'] = dict(
    text='Theorems (Props/C13.lean) about the model\'s processor state machine for every world: a shut-down processor refuses '
         'every hand-over and its pass/move actions change nothing; a failure drops exactly the part in process (output, other '
         'devices and the parts table unchanged), appends its leaves to the lost log, writes exactly one failure record (after '
         'the resource records) and reports it to each shutdown callback exactly once in registration order (also when it arrives '
         'during a maintenance shutdown with a part in process - fix F6); repeated shutdown/restore are no-ops; a finished part '
         'survives failure and maintenance and a restore re-queues its pass attempt; uptime/utilisation as rates: the accounting '
         'invariant UpInv is preserved by every function that writes the accounting fields, none of them changes the public '
         'uptime/utilisation at the instant it runs, and when only the clock advances uptime grows by dt iff operational and '
         'utilisation by dt iff a part is in process on an operational machine. Findings kept as checked examples: initialising a '
         'machine that is already shut down restarts its uptime clock (model and library agree). NOT proved as an invariant of the '
         'whole event loop (that no other function writes the accounting fields is by inspection); checked by the integrating '
         'monitor on implementation traces, the deep-copy probe (finished part leaves after restoration) and correspondence.',
    note=BASE_NOTE,
    technique='Lean 4 theorems over the processor state machine (rates formulation) + integrating monitor + probe + differential correspondence',
)

CLAIMED['C15'] = dict(
    text='Theorems (Props/C15.lean, 114) about the model\'s data log for every world: the log is append-only through EVERY model '
         'function and hence through every executed event (trace_is_append_only: records are never removed or rewritten, old '
         'records keep their positions); exactly-one-record lemmas with the values of that moment for every site: failure (after '
         'the resource records, with the part that was in process), received (quality and value before the receive callbacks; '
         'for a buffer preceded by the level record), produced (written last, after the finish callbacks, once), supplied (exactly '
         'when the source\'s counter is incremented), resource updates (in order), schedule and work-order records; counter '
         'invariants: a source\'s produced counter minus its supplied records is preserved, a sink\'s counter grows by the batch '
         'contents; last-record invariants: every function that changes a pool returns as last record for it the new '
         '(usage, capacity), every buffer level change is immediately followed by its level record, and "last level record = '
         'level" is preserved by every script-free event action; regenerated fact sites_complete (decide): the add_datapoint sites '
         'in the source are exactly the ones the model mirrors. NOT proved: the counter / last-record invariants across events '
         'that run scenario scripts (needs script hypotheses) - checked after every event on implementation traces by the monitor '
         '(last level/resource record, counters, one failure record per failure) and by correspondence of the full record stream '
         'on the floor, maint, sched and rm families.',
    note=BASE_NOTE,
    technique='Lean 4 theorems over the data log (append-only by induction through all functions) + monitor + differential correspondence + regenerated site facts',
)

NOT_CLAIMED = {}


# ---------------------------------------------------------------------------------------------------
# Closed-world layer (Props/CxxW.lean, CxxT.lean): theorems about EVERY state the whole event loop
# can reach.  The texts above describe the one-call / component theorems; what they list as "NOT
# proved" has since been proved and is replaced here.
def _cut(pid, marker, tail):
    t = CLAIMED[pid]['text']
    i = t.find(marker)
    CLAIMED[pid]['text'] = (t[:i] if i >= 0 else t + ' ') + tail


def _add(pid, tail, note=None, technique=None):
    CLAIMED[pid]['text'] += ' ' + tail
    if note:
        CLAIMED[pid]['note'] += ' ' + note
    if technique:
        CLAIMED[pid]['technique'] = technique


_add('C01', 'CLOSED WORLD (Props/C01W.lean): every floor and world function of the model changes the event queue only through '
     'library queue operations (env_refines_<f> for 56 theorems), so the queue invariants, dispatch order, clock '
     'monotonicity, executed-at-most-once and the run(d) specification hold in every world reachable by constructor calls, '
     'operations, simulateInit, runBegin, step and runLoop (dispatch_order_world, clock_monotone_world, executed_once_world, '
     'run_ends_world); whole simulations (families floor, floorm) are compared too.',
     technique='Lean 4 invariant proof by induction over operation lists, lifted to the whole world model by a refinement proof + differential correspondence + regenerated facts')
_add('C07', 'CLOSED WORLD (Props/C01W.lean): cancelled_never_runs_world, cancelled_stays_world, remaining_delay_world: the '
     'pause/cancel theorems hold for the events of every reachable world (machines that are shut down, restored and fail '
     'pause, resume and cancel their own events: families floorm, floorpf).')
_add('C07', 'REPEATED CYCLES (Props/C07R.lean): cycles_exact — an event paused and resumed any number of times (well-timed pause/resume '
     'pairs, the clock moving in between) ends up due at its original time plus the SUM of the pause lengths, whatever pause stamp '
     'an earlier cycle left on it; cycle_exact, pause_stamps_now (a new pause overwrites a stale stamp).')
_add('C09', 'CLOSED WORLD (Props/C11W.lean rmInv_reachable): the manager invariant holds in every reachable world of the floor model.')
_add('C10', 'CLOSED WORLD (Props/C11W.lean): check_pending (a feasible waiting request always has a live check event due now), '
     'no_feasible_waiting_at_advance / no_feasible_waiting_when_clock_advances in every reachable world.')
_cut('C12', 'The event glue', 'CLOSED WORLD (Props/C12W.lean, class S + Fresh, each clause shown necessary by a checked counterexample): in every '
     'reachable world bookkeeping_reachable (Inv and CapOK of every maintainer), active_has_one_event / event_has_order (every '
     'active order has exactly one live START or FINISH event and vice versa; the "unknown order" branches are unreachable), '
     'start_step / finish_step / exact_duration (the FINISH event and record are stamped exactly start + the duration read at '
     'the start), hookLog_reachable / hook_counts (start and end hooks exactly once per order, cost once), '
     'nothing_startable_reachable (no queued order that fits is left waiting), log_well_bracketed.')
CLAIMED['C12']['note'] = BASE_NOTE + ' Hypotheses: class S (no create in scripts, maintainer ids distinct from device ids and not paused by scripts, durations and needed capacities >= 0, at most 256 maintainers).'
_add('C16', 'CLOSED WORLD (Props/C16W.lean): vinv_reachable (every device and maintainer), source_value_reachable (value = initial - '
     'cost of supplied parts, amount read before the hand-over), sink_value_reachable, maintainer_value_reachable, '
     'other_value_reachable in every reachable state of NoCreate worlds. The net value over equally named assets is checked '
     'on the real code (harness/c16.py).')
_add('C20', 'CLOSED WORLD (Props/C20W.lean): registration frame theorems (one entry, asset id = index + 1, others untouched), '
     'reg_reachable / count_reachable (an instrumented model counts initialisations: exactly 1 per registered asset once '
     'started, 0 before), simulateInit_idem, create_started (late creation = registration + initAsset at now), '
     'create_commutes (for a not-started world creating before or after simulateInit gives the SAME world, queue included, '
     'under the decidable side condition CommuteOK; three checked counterexamples commute_false_* show when it fails; reg_false_stale_spec for the registration invariant), invariants survive '
     'creation (Good, ConsS, C09.Inv), late_processor_bookkeeping (uptime clock starts at creation).')
_cut('C02', 'Tie: families floor/floorc/floors', 'DYNAMIC WORLDS (Props/C02W.lean): conservation_reachable_dyn for worlds whose scripts and external operations REWIRE '
     'devices and CREATE devices, groups, maintainers, schedulers and sensors while running (class Dyn; 14 decide-checked '
     'counterexamples show every clause necessary), budget_reachable_dyn, held_once_reachable_dyn. Tie: families '
     'floor/floorc/floors/floorq and sys/floorl (creation while running) vs the real code on slots, part contents, sink '
     'counts, failure log and shutdown callbacks; census monitor on implementation traces after every event.')
_cut('C03', 'NOT proved: the global invariant', 'CLOSED WORLD (Props/C03W.lean): no_lost_wakeupC_reachable: in every reachable state at which the clock is about to advance, '
     'every ready part is genuinely blocked (Wake invariant: a live attempt is queued for now, or the holder is flagged and no '
     'downstream would accept, or the only willing downstream is a processor waiting for resources with a live pending-request '
     'check queued for now), for scope S4 = sources, handlers, processors with or without resource requirements, buffers, '
     'gates, batchers and batches, sinks and ONE shared group with any number of paths, arbitrary wiring, failures, '
     'maintenance, blocking, capacity and budget changes (nested scopes S1-S4, each preserved by every step); give_answerC '
     '(give answers exactly wouldAccept). The proof attempt with batches produced the counterexample that is finding F12 '
     '(repaired). Several groups are outside S4: there the property is CHECKED on the real code by the deep-copy probe at '
     'every clock advance and by correspondence.')
CLAIMED['C03']['note'] = BASE_NOTE + ' Partial: closed-world theorem for scope S4 (one shared group); several/nested groups by probe and correspondence. "run returns": per-scenario watchdog.'
_add('C05', 'CLOSED WORLD (Props/C05W.lean): bufOK_reachable / bufOK_exec for every buffer of every reachable state of ANY topology '
     '(self-loops included), queue_step (FIFO: the queue after a step is drop k ++ new, every dropped entry waited its delay). '
     'Off the dyadic grid the minimum-delay clause is checked on the real code in exact rational arithmetic (harness/c05.py).')
_cut('C08', 'NOT proved: the closed-world invariant', 'CLOSED WORLD (Props/C08W.lean): give_history_exact (through any nesting of gates, paths, group inputs/outputs the history grows by '
     'exactly the chain walked), route_reachable: in every reachable state of a Static world of any topology every history '
     'is a walk along configured connections from a source to the holder and every path stack is the exact bracket structure '
     '(Stacks without batchers; gates_accept_now without batchers and callbacks - two checked counterexamples show why). '
     'Props/C08S.lean: the idle clock is EXACT in every reachable state (idle_clock_iff: it runs iff the device is free; '
     'clock_never_moved; becomes_free_starts_clock; idle_longest_first) - finding F13 repaired; the '
     'idle-longest rule is additionally checked by a monitor that keeps its own idle clock (family floori). Tie: correspondence of all '
     'histories and stacks; routing monitors.')
_cut('C17', 'NOT proved: the end-to-end', 'CLOSED WORLD (Props/C17W.lean): batcher_wf_reachable, sizes_reachable (exact batch sizes in every reachable state), '
     'order_step / order_reachable_closed (across any step the leaf sequence of a batcher only grows at the end by arriving '
     'parts or loses the output at the front). Tie: leaf-order and batch-history monitors, correspondence on batch-heavy families.')
_cut('C11', 'NOT proved: the global', 'CLOSED WORLD (Props/C11W.lean): in every reachable state procInv_reachable, part_only_while_holding, ownedBy_reachable, '
     'usage_sum_reachable, release_pending / release_paused, no_idle_holder_at_advance, holders_at_advance (when the clock '
     'advances every holder has a part in process or is shut down). Tie: monitor at every clock advance, correspondence.')
_cut('C04', 'serial_timing (the executable', 'serial_timing is PROVED IN FULL (Props/C04W.lean): for every well-formed serial line of any length (handlers, processors, '
     'buffers with capacities and delays, zero cycle times), every CONSTANT budget, seed, weight modulus, horizon and sufficient fuel, for runs that end without a model error (budget top-ups, family serialq, are NOT covered by the theorem: correspondence and the reference recurrence with permission times only), '
     'the logged entry times of every station equal the reference and the sink count equals the reference count; '
     'serial_line_completes (explicit fuel bound), weight_independence. On the real code the statement is evaluated exactly on '
     'every run by the reference monitor on 300+ random serial lines.')
CLAIMED['C04']['note'] = BASE_NOTE
CLAIMED['C04']['technique'] = 'Lean 4 reference function + closed-form invariant proof over the event loop for every serial line + exact reference monitor on the real code'
_cut('C06', 'NOT proved as one trace theorem', 'CLOSED WORLD (Props/C06W.lean, C06T.lean): the timer invariant (exactly one live finish event per part in process, pending '
     'iff operational) in every reachable state, assertions_unreachable, and the run-level theorems cycle_time_exact '
     '(operational time between accept and finish = the delay; finish = accept + D + downtime), timer_dies_only_by_failure, '
     'one_part_at_a_time, produced_record_exact. Tie: operational-time and source-cycle monitors, correspondence, and the '
     'implementation-only family with re-entrant shutdown callbacks.')
_cut('C13', 'NOT proved as an invariant of the', 'CLOSED WORLD (Props/C06W.lean): upInv_reachable, uptime_integrates, utilization_integrates in every reachable state. Tie: '
     'integrating monitor, deep-copy probe, maintainer monitor, correspondence (incl. machines created while running), and '
     'the implementation-only family with re-entrant shutdown callbacks.')
_cut('C15', 'NOT proved: the counter', 'CLOSED WORLD (Props/C15W.lean): supplied_count_reachable, received_count_reachable, last_level_reachable, '
     'last_resource_reachable, records_stamped_now, log_sorted_reachable in every reachable state of NoCreate worlds. Tie: '
     'monitor after every event, correspondence of the full record stream.')
_add('C14', 'CLOSED WORLD (Props/C14W.lean): world_run_split (run d1 then d2 = run d1+d2 up to event uids, every field), '
     'uid_irrelevant / uid_renumbering, weights_only_break_ties (a different weight function changes nothing as long as the '
     'popped event is alone in its time-priority class), exec_queue_blind.')
_add('C18', 'CLOSED WORLD (Props/C18W.lean): pending_transition (exactly one live transition event, due at t0 + T k), '
     'records_timetable_prefix, transition_step (one action call per registered object, in order), no_acts_elsewhere in every '
     'reachable world; five checked counterexamples (pending_false_*) show the static class necessary.')
_add('C19', 'CLOSED WORLD (Props/C19W.lean): periodic_sensor_reachable (samples at t0 + k*interval with the values of that moment, one '
     'callback result each, exactly one pending event), series_reachable, output_sensor_reachable / decision_pattern.')
CLAIMED['C16']['text'] = CLAIMED['C16']['text'].replace(' (partial: sites not theorems)', ' (the site amounts are theorems of the closed-world layer below)')
CLAIMED['C20']['note'] = BASE_NOTE + ' The late-creation clause: create_started / create_commutes / late_processor_bookkeeping for the model (group specs: registration and single initialisation only); tie to the code by correspondence on families sys, sysm and the implementation-only family sysi.'

_add('C10', 'Props/C10W.lean: World.scanOps satisfies the generic laws (scan_laws), served_only_when_feasible, check_shuffle / '
     'served_sublist (registration order), check_cbLog, served_once over whole runs, check_after_change, for a class that '
     'allows scripted register/reserve/release/merge, rewiring and creation; the scan fuel is the explicit decidable side '
     'condition StepDone (fuel_needed shows a self-re-registering always-feasible callback never lets the scan finish).')
_add('C15', 'DYNAMIC WORLDS (Props/C15D.lean): the same theorems when assets are created while running (payloads with zero counters; '
     'necessity counterexamples).')
_add('C16', 'DYNAMIC WORLDS (Props/C16D.lean): the value equations when assets are created while running; nested batches are checked '
     'on the real code (harness/c16.py).')
CLAIMED['C03']['text'] = CLAIMED['C03']['text'].replace('Several groups are outside S4:', 'MID-RUN REWIRING (scripts and outside operations) is covered by '
     'no_lost_wakeup_rewire_all_reachable (class S4R; connection_added: a newly connected acceptor gets an attempt queued at that '
     'instant; connection_removed; four checked counterexamples for the excluded rewirings). Several groups and creation are outside S4R:')

CLAIMED['C03']['text'] = CLAIMED['C03']['text'].replace('Several groups and creation are outside S4R:', 'SEVERAL GROUPS (chained, re-entrant, nested; batchers at nesting depth <= 1; a group shared between two nesting levels only if the usages are not connected by the wiring) are covered by '
     'no_lost_wakeup5_reachable (scope S5, typed group-path stacks) and, with rewiring issued from outside between events, no_lost_wakeup5_rewire_reachable; a batcher at depth 2 loses a wake-up in the model AND in the library '
     '(nested_batcher_false, known finding F14, printed as KNOWN-FINDING). Creation (together with the C03 invariant) is outside the scopes:')
CLAIMED['C03']['note'] = BASE_NOTE + ' Partial: closed-world theorem for scopes S4R (rewiring, one group) and S5 (several groups); scripted rewiring with several groups and creation by probe and correspondence. Known finding F14 (nested groups with batches crossing group boundaries). "run returns": per-scenario watchdog.'
CLAIMED['C08']['note'] += ' Known finding F14 (nested groups with batches crossing group boundaries: a part leaves the inner group through the outer path) is reported as KNOWN-FINDING.'

_add('C13', 'CLOSED WORLD, own file (Props/C13W.lean; from the timer invariant C06W.WI, which holds in every world reachable from a '
     'fresh world of class Static\' + Init; item 5 also C12W.Inv): down_is_inert (across every step in which a processor is down before '
     'and after, its slots, reservation and the four accounting fields are unchanged except by its own live failure / release '
     'event, it refuses every part, its pass handler changes nothing, its finish timer is paused as exactly one live event), '
     'shutdown_keeps_part (same part, same remaining work, finish due at now + r once operational), failure_discards_exactly '
     '(input slot emptied, output untouched, lost log grows by exactly the lost leaves, exactly one failure record, one callback '
     'result per shutdown callback), lost_only_by_failure, finished_part_survives(_step), finished_part_leaves (under C03W.GoodB: '
     'a kept finished part has a live pass event or is genuinely blocked), repeated_ops_noop, work_order_downtime_exact (between '
     'START and FINISH of a default order the clock advances by exactly the duration, upTime + downTime = dur, downTime = dur when '
     'no other control event intervenes), uptime_exact / utilization_exact (differences of the accounts over any span of a run '
     'equal the summed operational / busy time). Two sketched claims are shown FALSE in the class by decide '
     '(down_pending_false: stray release events of the initial queue; work_order_downtime_ge_false: a script restoring the '
     'machine mid-order).')

_add('C09', 'CLOSED WORLD WITH OPERATIONS FROM OUTSIDE (Props/C09W.lean): rmInv_reachable -- C09.Inv w.rm (usage = sum of the outstanding '
     'holdings, ids, positivity, capacities >= 0) in every world reachable by initialisation, events, runs and ANY well-formed operation '
     'issued from outside or from scripts and callbacks (register / reserve / release / merge / addres with zero, negative and unknown '
     'entries, rewiring, creation), also for operations issued BEFORE the first simulate (before_init, before_init_silent: finding F9); '
     'hypotheses: requests of reserve / partial release / declared requirements have distinct keys (ReqWF, opWF: necessary, nodup_needed '
     'by checked counterexamples: a reserve and a partial release with a duplicated key, a declared requirement with a duplicated key) and the initial pools satisfy the invariant (fresh_not_enough). World-level corollaries: '
     'usage_eq_sum, usage_nonneg, cap_nonneg, ext_error_changes_nothing (an operation answering with an error leaves the WHOLE world '
     'unchanged), ext_reserve_atomic, ext_reserve_iff, ext_release_exact, ext_release_unknown, ext_merge_usage_unchanged, '
     'ext_merge_holdings, ext_self_merge_noop, ext_add_spec. Every scenario of the correspondence family rm is inside this class.')
CLAIMED['C15']['text'] += (' The event-trace clause is checked on the real code (harness/c15.py): traced and untraced runs of models WITH '
     'maintenance and failures (events whose action is a functools.partial), trace and exported file compared with the events '
     'observed by wrapping Environment.step; finding F15 (simulate(trace=True) raised AttributeError on a model with a work order) '
     'was found this way and repaired (435c9e8).')

_add('C03', 'STAGE V (appended to Props/C03W.lean): several groups AND re-wiring inside scripts: scope S5R (contains S4R and S5; decidable; '
     'preserved by every step), no_lost_wakeup5_script_rewire_reachable, wakeV_reachable, stacks_typedV; the only added condition is that '
     'the envelope (wiring plus every connection a scripted rewire may add) is typed by the group-context certificate -- necessary: '
     'script_rewire_untyped_false, outside_rewire_untyped_false (a connection across two group contexts loses a wake-up). A group shared '
     'between two nesting levels is in scope when its usages are not connected by the wiring (s5_exLevels); when they are, no certificate '
     'exists (shared_levels_untypable) and Quiescent is only evaluated on the concrete run (shared_levels_run_quiescent). Still outside: '
     'batchers at nesting depth >= 2 (F14), connected shared levels, create.')
CLAIMED['C03']['note'] = BASE_NOTE + ' Partial: closed-world theorem for scope S5R (several groups, rewiring in scripts and from outside, typed envelope); creation, batchers at nesting depth >= 2 and connected shared nesting levels by probe and correspondence. Known finding F14 (nested groups with batches crossing group boundaries). "run returns": per-scenario watchdog.'

_add('C13', 'Props/C13Q.lean (class Static\' + Init + InitQ: no pass / release event of a device in the initial queue, no part budget on '
     'processors -- both clauses shown necessary: initq_needed, budget_clause_needed): invariant QI in every world of the run from simulateInit (qi_run: wAt w0.simulateInit k, every k); '
     'down_is_quiet (while a processor is down no live pass-part, release or finish event of it is pending; its paused finish events are '
     'exactly the timer of the part in process; while it is operational none of its events is paused), no_own_event_fires_while_down, '
     'reservation_kept_while_down / reservation_kept_run (across every step in which the machine is down before and after, its reservation '
     'changes only by its own live failure: the release-event exception of C13W.Inert is gone). Not proved: the exact list of events paused '
     'by a maintenance shutdown (step-level equality); that the attempt re-queued by a restore (C13.finished_part_survives, one call) succeeds or is genuinely blocked is proved only under the C03W invariant GoodB (C13W.finished_part_leaves).')
_add('C18', 'SCHEDULERS CREATED WHILE RUNNING (Props/C18D.lean; class SD = C18W.Static without its script clause + C20W.Reg + scripts and outside '
     'operations that may create schedulers (schedNew: no negative duration), maintainers and a cms; anchor map A: creation time per scheduler): '
     'wd_reachable, anchor_initial, anchor_created_step, anchor_created_outside (a scheduler created between two runs is anchored at the end of '
     'the previous run), pending_transition_dyn (exactly one live transition event per scheduler, initial or created, due at A s + T k), '
     'records_timetable_prefix_dyn, transition_step_dyn, late_equals_early_shifted (the schedule of a scheduler created at tc is the schedule '
     'of the same scheduler created before the start, shifted by tc); necessity: schedNew_needed, idOK_needed. Creation of devices, groups and '
     'sensors is outside this class.')

NOTES = NOTES + (' Known findings (known_findings.json): F1-F9, F11-F13, F15, F16 are genuine defects of the library repaired by minimal fix: commits in /repo '
                 '(recorded as fixed; they suppress nothing); F14 (nested groups with batches crossing group boundaries) is recorded as known for C03 and C08: '
                 'their checks print one KNOWN-FINDING line each and exit 0. Trusted base, per-property status and the seeded-change experiments: DESIGN.md '
                 'sections 9, 11, 12. Evidence files carry coverage.proved_class_membership: how many compared scenarios start inside the class of each '
                 'closed-world theorem.')

_add('C19', 'SENSORS CREATED WHILE RUNNING (Props/C19D.lean; class SDS = C18W.Static of the script-less twin + C18W.Fresh + C20W.Reg + scripts and '
     'outside operations that may create PERIODIC sensors (sensNew: interval >= 0), maintainers and a cms; anchor map B: creation time per '
     'sensor): ws_reachable, anchor_created_step, anchor_created_outside, periodic_sensor_dyn (k-th sample at B s + (k+1)*interval with the '
     'values of that moment, one callback result per callback, exactly one pending event), sample_step_dyn, series_dyn, '
     'late_sensor_equals_early_shifted; necessity: sensNew_interval_needed, idOK_needed; late_output_sensor_misses_parts shows that the '
     'output-sensor statement fails for a late-created output sensor (kind clause).')
for _p, _cls in (('C05', ' Class of the closed-world theorems: C05W.Init.'), ('C06', " Class: C06W.Static' + Init."),
                 ('C11', ' Class: C11W.S + FreshR.'), ('C17', ' Class: C17W.Init = Fresh + Static + SizesPos; NoFailNonProc for the order theorem.'),
                 ('C19', ' Class of C19W: C18W.Static + Fresh.'),
                 ('C14', ' world_run_split needs Good, C01.Inv, UserState and the first run reaching its horizon (RunsTo).'),
                 ('C08', ' stacks are exact brackets only in worlds without batchers (stacks_unpacked_false); idle_clock_iff speaks about initialised '
                         'single-slot devices that are not shut down, idle_longest_first about devices whose direct downstream neighbours are all single-slot.'),
                 ('C01', ' run_ends_world is stated for the relation ReachI.'),
                 ('C15', ' The per-sink count equation needs NoBatch (counterexample with batches); C15D adds ScriptsNB.'),
                 ('C03', ' connection_added / connection_removed are proved for the first rewiring stage S1R only.')):
    CLAIMED[_p]['note'] += _cls
