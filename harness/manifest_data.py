NOTES = ('Every check: regenerate facts from /repo -> lake build of the property theorems -> #print axioms audit -> '
         'correspondence implementation/model on generated scenarios -> monitors on implementation traces -> '
         'failing-input search and shrinking on any break. Exit 2 = infrastructure failure.')

BASE_NOTE = ('Trusted: Lean kernel; axioms propext/Classical.choice/Quot.sound only (audited each run); Lean compiler for '
             'spdriver; the Python harness (generators, observers, fact translator). The theorem is about the model; the '
             'model is tied to /repo by differential correspondence on generated scenarios (testing, not proof) and by '
             'regenerated facts. Times on the dyadic grid k/16.')

CLAIMED = {
    'C01': dict(
        text='Theorems (Props/C01.lean) over the Env model for every operation sequence, every tie-break weight and every '
             'time arithmetic: queue invariant, popped event is the minimum of the time-then-priority order, clock = event '
             'time and monotone, past requests rejected without state change, every uid executed at most once, run(d) '
             'executes exactly what is due up to t0+d and ends at t0+d. The comparison chain, the EventType values, the '
             'past-time guard and the schedule sites are regenerated from the source and re-proved (Props/Facts.lean). '
             'Model tied to the code by differential runs of family env; dispatch-order monitors on implementation traces.',
        note=BASE_NOTE + ' Hypotheses: user priorities above TERMINATE; asset id -1 is not paused/cancelled by users.',
        technique='Lean 4 invariant proof by induction over operation lists + differential correspondence + regenerated facts',
    ),
}

CLAIMED['C07'] = dict(
    text='Theorems (Props/C07.lean) over the Env model for every state and operation sequence: pause withholds exactly '
         'the asset\'s pending events and keeps the order of the others; unpause re-inserts exactly those events, shifted, '
         'into a sorted queue; with exact time arithmetic the shift is + (now - pausedAt) so the remaining delay is '
         'preserved (pause invariant proved for every reachable state); cancel flags exactly the asset\'s pending and paused '
         'events, the flag is never cleared and a cancelled event is never reported as run; events scheduled afterwards are '
         'unaffected; redundant pause/resume are identities. Tie: family env (pauses at non-zero times, nested pauses, '
         'cancel-then-unpause) compared event by event with the real Environment; per-event tracking monitor on '
         'implementation traces incl. a decimal-time stream.',
    note=BASE_NOTE + ' Remaining-delay theorems assume exact time arithmetic (Arith.exact); float rounding is covered only by the monitor (one-ulp tolerance).',
    technique='Lean 4 theorems over the event-queue model + differential correspondence',
)

NOT_CLAIMED = {}
