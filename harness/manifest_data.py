NOTES = ('Every check: regenerate facts from /repo -> lake build of the property theorems -> #print axioms audit -> '
         'correspondence implementation/model on generated scenarios -> monitors on implementation traces -> '
         'failing-input search and shrinking on any break. Exit 2 = infrastructure failure.')

BASE_NOTE = ('Trusted: Lean kernel; axioms propext/Classical.choice/Quot.sound only (audited each run); Lean compiler for '
             'spdriver; the Python harness (generators, observers, fact translator). The theorem is about the model; the '
             'model is tied to /repo by differential correspondence on generated scenarios (testing, not proof) and by '
             'regenerated facts. Times on the dyadic grid k/16.')

CLAIMED = {
    'C01': dict(
        text='Theorems (Props/C01.lean) over the Env model for every operation sequence, every tie-break weight and every '
             'time arithmetic: queue invariant, popped event is the minimum of the time-then-priority order, clock = event '
             'time and monotone, past requests rejected without state change, every uid executed at most once, run(d) '
             'executes exactly what is due up to t0+d and ends at t0+d. The comparison chain, the EventType values, the '
             'past-time guard and the schedule sites are regenerated from the source and re-proved (Props/Facts.lean). '
             'Model tied to the code by differential runs of family env; dispatch-order monitors on implementation traces.',
        note=BASE_NOTE + ' Hypotheses: user priorities above TERMINATE; asset id -1 is not paused/cancelled by users.',
        technique='Lean 4 invariant proof by induction over operation lists + differential correspondence + regenerated facts',
    ),
}

NOT_CLAIMED = {}
