"""Seeded scenario generators, one family per model layer.  A scenario is a list of protocol lines
(list of tokens).  Every random choice comes from the `random.Random` passed in."""
import random

PRIOS = [8, 12, 16, 20, 24, 28, 32, 36, 40, 44]           # 4 * EventType (above TERMINATE)
FRAC_PRIOS = [5, 7, 9, 19, 21, 27, 29, 31, 33, 43, 45]    # quarter steps, e.g. FAIL - 0.25
WMODS = [0, 1, 2, 3, 5, 1000003]


def pick_prio(rng):
    return rng.choice(PRIOS) if rng.random() < 0.7 else rng.choice(FRAC_PRIOS)


def gen_env(rng, idx, big=False):
    """Environment family: schedule/pause/unpause/cancel/step/run from outside and from inside
    event actions; equal times, fractional priorities, colliding weights, nested pauses,
    cancel-then-unpause, split runs, requests in the past."""
    L = [['scenario', str(idx)], ['seed', str(rng.randrange(1000)), str(rng.choice(WMODS))]]
    assets = [-2, -3, -4, -5][:rng.randint(2, 4)]
    nscripts = rng.randint(3, 10 if not big else 16)
    times = [0, 1, 2, 3, 4, 8, 8, 8, 16, 16, 17, 24, 32, 33, 40]
    for k in range(nscripts):
        for _ in range(rng.choice([0, 1, 1, 2, 2, 3])):
            c = rng.random()
            a = rng.choice(assets)
            if c < 0.35 and k + 1 < nscripts:
                L.append(['script', str(k), 'schedrel', str(rng.choice([0, 0, 1, 2, 3, 8, 16])),
                          str(a), str(rng.randrange(k + 1, nscripts)), str(pick_prio(rng))])
            elif c < 0.45 and k + 1 < nscripts:
                L.append(['script', str(k), 'sched', str(rng.choice(times)), str(a),
                          str(rng.randrange(k + 1, nscripts)), str(pick_prio(rng))])
            elif c < 0.65:
                L.append(['script', str(k), 'pause', str(a)])
            elif c < 0.85:
                L.append(['script', str(k), 'unpause', str(a)])
            else:
                L.append(['script', str(k), 'cancel', str(a)])
    now = 0
    for _ in range(rng.randint(4, 14 if not big else 30)):
        c = rng.random()
        a = rng.choice(assets)
        if c < 0.5:
            t = rng.choice(times) + (now if rng.random() < 0.6 else 0)
            L.append(['ext', 'sched', str(t), str(a), str(rng.randrange(nscripts)), str(pick_prio(rng))])
        elif c < 0.58:
            L.append(['ext', 'pause', str(a)])
        elif c < 0.66:
            L.append(['ext', 'unpause', str(a)])
        elif c < 0.70:
            L.append(['ext', 'cancel', str(a)])
        elif c < 0.80:
            L.append(['step'])
        else:
            d = rng.choice([0, 1, 3, 8, 8, 16, 24])
            L.append(['run', str(d)])
            now += d
    if rng.random() < 0.7:
        for a in assets:
            if rng.random() < 0.6:
                L.append(['ext', 'unpause', str(a)])
        L.append(['run', str(rng.choice([40, 64, 100]))])
    L.append(['end'])
    return L


def gen_envdec(rng, idx, big=False):
    """Same as env but on a decimal time grid (1 tick = 0.1): implementation only (float rounding
    is outside the model); judged by the order/clock monitors."""
    L = gen_env(rng, idx, big)
    return [L[0], ['tick', '10']] + L[1:]


FAMILIES = {'env': gen_env, 'envdec': gen_envdec}


def to_text(lines):
    return '\n'.join(' '.join(l) for l in lines) + '\n'


def generate(family, seed, n, start=0, **kw):
    out = []
    for i in range(n):
        rng = random.Random(f'{family}-{seed}-{start + i}')
        out.append(FAMILIES[family](rng, start + i, **kw))
    return out


# ------------------------------------------------------------------------------------------ rm
def _req(rng, rids, allow_bad=True):
    n = rng.choice([1, 1, 2, 2, 3])
    keys = rng.sample(rids + ([7] if allow_bad and rng.random() < 0.15 else []), min(n, len(rids)))
    ent = []
    for k in keys:
        c = rng.random()
        if c < 0.08 and allow_bad:
            a = -rng.randint(1, 2)
        elif c < 0.2:
            a = 0
        else:
            a = rng.randint(1, 3)
        ent.append(f'{k}:{a}')
    return ';'.join(ent)


def gen_rm(rng, idx, big=False, prestart=True):
    """Resource-manager family: add/remove capacity, reserve (multi, zero, negative, unknown),
    full/partial/repeated release, merge, registrations with callbacks that reserve/release/register,
    operations before the first simulate, time advancing between operations."""
    L = [['scenario', str(idx)], ['seed', str(rng.randrange(1000)), str(rng.choice(WMODS))]]
    rids = [0, 1, 2][:rng.randint(1, 3)]
    for r in rids:
        if rng.random() < 0.85:
            L.append(['res', str(r), str(rng.randint(0, 5))])
    if rng.random() < 0.1:
        L.append(['res', '7', str(rng.choice([-3, -1, 2]))])
    nscripts = rng.randint(3, 8)
    nh = 4

    def rm_op(k=None):
        c = rng.random()
        h = rng.randrange(nh)
        if c < 0.18:
            return ['addres', str(rng.choice(rids + [7] if rng.random() < 0.1 else rids)), str(rng.choice([-4, -2, -1, 0, 1, 2, 3]))]
        if c < 0.48:
            return ['reserve', str(h), _req(rng, rids)]
        if c < 0.63:
            return ['release', str(h)]
        if c < 0.73:
            return ['release', str(h), _req(rng, rids)]
        if c < 0.80:
            return ['merge', str(h), str(rng.randrange(nh))]
        kk = rng.randrange((k if k is not None else -1) + 1, nscripts + 1)
        if kk >= nscripts:
            kk = nscripts - 1 if (k is None or k < nscripts - 1) else None
        if kk is None:
            return ['reserve', str(h), _req(rng, rids)]
        return ['register', str(kk), _req(rng, rids, allow_bad=False)]

    for k in range(nscripts):
        for _ in range(rng.choice([0, 1, 1, 2, 3])):
            L.append(['script', str(k)] + rm_op(k))
    if prestart and rng.random() < 0.25:
        for _ in range(rng.randint(1, 3)):
            L.append(['ext'] + rm_op())
    for _ in range(rng.randint(2, 6)):
        for _ in range(rng.randint(0, 5)):
            if rng.random() < 0.6:
                L.append(['ext'] + rm_op())
            else:
                L.append(['ext', 'schedrel', str(rng.choice([0, 0, 1, 4, 8])), '-2', str(rng.randrange(nscripts)),
                          str(pick_prio(rng))])
        L.append(['run', str(rng.choice([0, 1, 4, 8, 16]))])
    L.append(['end'])
    return L


# --------------------------------------------------------------------------------------- maint
def gen_maint(rng, idx, big=False):
    """Maintainer family: capacities (inf, default, 0..3), fake Maintainable targets with
    table-driven duration/capacity/cost and scripted hooks that create further orders, duplicates,
    bursts at one instant, needed capacity 0 and above the total, duration 0."""
    L = [['scenario', str(idx)], ['seed', str(rng.randrange(1000)), str(rng.choice(WMODS))]]
    nm = rng.choice([1, 1, 2])
    for _ in range(nm):
        L.append(['asset', 'maint', 'cap=' + rng.choice(['inf', 'def', '0', '1', '2', '2', '3']),
                  'value=' + str(rng.choice([0, 100]))])
    nt = rng.randint(2, 4)
    nscripts = rng.randint(3, 8)
    for t in range(nt):
        params = ','.join(f'{tag}:{rng.choice([0, 8, 8, 16, 24])}:{rng.choice([0, 1, 1, 2, 5])}:{rng.choice([0, 0, 3, 10])}'
                          for tag in range(3))
        st = str(rng.randrange(nscripts)) if rng.random() < 0.3 else '-'
        en = str(rng.randrange(nscripts)) if rng.random() < 0.3 else '-'
        L.append(['target', str(t), 'dev=-', f'start={st}', f'end={en}', f'params={params}'])

    def wo():
        return ['wo', str(rng.randrange(nm)), str(rng.randrange(nt)), str(rng.randrange(3)), str(rng.randrange(5))]
    for k in range(nscripts):
        for _ in range(rng.choice([0, 1, 1, 2, 3])):
            if rng.random() < 0.85:
                L.append(['script', str(k)] + wo())
            else:
                L.append(['script', str(k), 'setparams', str(rng.randrange(nt)), str(rng.randrange(3)),
                          str(rng.choice([0, 8, 16])), str(rng.choice([0, 1, 2])), str(rng.choice([0, 5]))])
    for _ in range(rng.randint(4, 12)):
        L.append(['ext', 'sched', str(rng.choice([0, 0, 4, 8, 8, 8, 16, 20, 24, 32, 40])), '-2',
                  str(rng.randrange(nscripts)), str(pick_prio(rng))])
    L.append(['run', str(rng.choice([16, 32, 48]))])
    if rng.random() < 0.5:
        for _ in range(rng.randint(1, 3)):
            L.append(['ext'] + wo())
        L.append(['run', str(rng.choice([16, 64]))])
    L.append(['end'])
    return L


# --------------------------------------------------------------------------------------- sched
def gen_sched(rng, idx, big=False):
    """ActionScheduler family: timetables with repeated states, zero and fractional durations,
    cyclical / not / defaulted, register/unregister before the run and from events."""
    L = [['scenario', str(idx)], ['seed', str(rng.randrange(1000)), str(rng.choice(WMODS))]]
    ns = rng.choice([1, 1, 2])
    for _ in range(ns):
        n = rng.randint(1, 5)
        tt = ','.join(f'{rng.choice([0, 1, 3, 8, 8, 16, 20])}:{rng.randint(0, 3)}' for _ in range(n))
        if all(e.split(':')[0] == '0' for e in tt.split(',')):
            tt += ',8:1'
        L.append(['asset', 'sched', 'cyc=' + rng.choice(['def', '1', '0', '0']), f'tt={tt}'])
    nscripts = rng.randint(2, 6)

    def reg():
        if rng.random() < 0.65:
            return ['regobj', str(rng.randrange(ns)), str(rng.randrange(4)), rng.choice(['-', '-', '0', '1'])]
        return ['unregobj', str(rng.randrange(ns)), str(rng.randrange(4))]
    for k in range(nscripts):
        for _ in range(rng.choice([1, 1, 2])):
            L.append(['script', str(k)] + reg())
    for _ in range(rng.randint(0, 3)):
        L.append(['ext'] + reg())
    for _ in range(rng.randint(2, 8)):
        L.append(['ext', 'sched', str(rng.choice([0, 3, 8, 8, 16, 24, 27, 40])), '-2', str(rng.randrange(nscripts)),
                  str(rng.choice(PRIOS + [44, 45, 43]))])
    L.append(['run', str(rng.choice([24, 40, 64, 100]))])
    if rng.random() < 0.4:
        L.append(['ext'] + reg())
        L.append(['run', str(rng.choice([16, 50]))])
    L.append(['end'])
    return L


# -------------------------------------------------------------------------------------- sensor
def gen_sensor(rng, idx, big=False):
    """Periodic sensors (interval, capacity, probes over changing variables, callbacks) and a
    condition-monitoring system with duplicate add_sensor calls."""
    L = [['scenario', str(idx)], ['seed', str(rng.randrange(1000)), str(rng.choice(WMODS))]]
    nv = rng.randint(1, 3)
    for v in range(nv):
        L.append(['var', str(v), str(rng.randint(0, 9))])
    ns = rng.choice([1, 2])
    for _ in range(ns):
        vars_ = ','.join(str(rng.randrange(nv)) for _ in range(rng.randint(1, 3)))
        L.append(['asset', 'sensor', 'per', 'interval=' + str(rng.choice([1, 3, 8, 16, 5])),
                  'cap=' + rng.choice(['def', 'inf', '1', '2', '3', '5']), f'vars={vars_}', 'cbs=' + str(rng.randint(0, 2))])
    ncms = rng.choice([0, 1, 1, 2])
    for _ in range(ncms):
        L.append(['asset', 'cms'])
    nscripts = rng.randint(2, 5)
    for k in range(nscripts):
        for _ in range(rng.choice([1, 2])):
            if ncms and rng.random() < 0.3:
                L.append(['script', str(k), 'addsensor', str(rng.randrange(ncms)), str(rng.randrange(ns))])
            else:
                L.append(['script', str(k), 'setvar', str(rng.randrange(nv)), str(rng.randint(0, 9))])
    for c in range(ncms):
        for _ in range(rng.randint(0, 2)):
            L.append(['ext', 'addsensor', str(c), str(rng.randrange(ns))])
    for _ in range(rng.randint(2, 8)):
        L.append(['ext', 'sched', str(rng.choice([0, 3, 8, 8, 16, 24, 27, 40])), '-2', str(rng.randrange(nscripts)),
                  str(rng.choice(PRIOS))])
    L.append(['run', str(rng.choice([24, 40, 64]))])
    if rng.random() < 0.4:
        L.append(['run', str(rng.choice([16, 30]))])
    L.append(['end'])
    return L


FAMILIES.update({'rm': gen_rm, 'maint': gen_maint, 'sched': gen_sched, 'sensor': gen_sensor})
