"""Seeded scenario generators, one family per model layer.  A scenario is a list of protocol lines
(list of tokens).  Every random choice comes from the `random.Random` passed in."""
import random

PRIOS = [8, 12, 16, 20, 24, 28, 32, 36, 40, 44]           # 4 * EventType (above TERMINATE)
FRAC_PRIOS = [5, 7, 9, 19, 21, 27, 29, 31, 33, 43, 45]    # quarter steps, e.g. FAIL - 0.25
WMODS = [0, 1, 2, 3, 5, 1000003]


def pick_prio(rng):
    return rng.choice(PRIOS) if rng.random() < 0.7 else rng.choice(FRAC_PRIOS)


def gen_env(rng, idx, big=False):
    """Environment family: schedule/pause/unpause/cancel/step/run from outside and from inside
    event actions; equal times, fractional priorities, colliding weights, nested pauses,
    cancel-then-unpause, split runs, requests in the past."""
    L = [['scenario', str(idx)], ['seed', str(rng.randrange(1000)), str(rng.choice(WMODS))]]
    assets = [-2, -3, -4, -5][:rng.randint(2, 4)]
    nscripts = rng.randint(3, 10 if not big else 16)
    times = [0, 1, 2, 3, 4, 8, 8, 8, 16, 16, 17, 24, 32, 33, 40]
    for k in range(nscripts):
        for _ in range(rng.choice([0, 1, 1, 2, 2, 3])):
            c = rng.random()
            a = rng.choice(assets)
            if c < 0.35 and k + 1 < nscripts:
                L.append(['script', str(k), 'schedrel', str(rng.choice([0, 0, 1, 2, 3, 8, 16])),
                          str(a), str(rng.randrange(k + 1, nscripts)), str(pick_prio(rng))])
            elif c < 0.45 and k + 1 < nscripts:
                L.append(['script', str(k), 'sched', str(rng.choice(times)), str(a),
                          str(rng.randrange(k + 1, nscripts)), str(pick_prio(rng))])
            elif c < 0.65:
                L.append(['script', str(k), 'pause', str(a)])
            elif c < 0.85:
                L.append(['script', str(k), 'unpause', str(a)])
            else:
                L.append(['script', str(k), 'cancel', str(a)])
    now = 0
    for _ in range(rng.randint(4, 14 if not big else 30)):
        c = rng.random()
        a = rng.choice(assets)
        if c < 0.5:
            t = rng.choice(times) + (now if rng.random() < 0.6 else 0)
            L.append(['ext', 'sched', str(t), str(a), str(rng.randrange(nscripts)), str(pick_prio(rng))])
        elif c < 0.58:
            L.append(['ext', 'pause', str(a)])
        elif c < 0.66:
            L.append(['ext', 'unpause', str(a)])
        elif c < 0.70:
            L.append(['ext', 'cancel', str(a)])
        elif c < 0.80:
            L.append(['step'])
        else:
            d = rng.choice([0, 1, 3, 8, 8, 16, 24])
            L.append(['run', str(d)])
            now += d
    if rng.random() < 0.7:
        for a in assets:
            if rng.random() < 0.6:
                L.append(['ext', 'unpause', str(a)])
        L.append(['run', str(rng.choice([40, 64, 100]))])
    L.append(['end'])
    return L


def gen_envdec(rng, idx, big=False):
    """Same as env but on a decimal time grid (1 tick = 0.1): implementation only (float rounding
    is outside the model); judged by the order/clock monitors."""
    L = gen_env(rng, idx, big)
    return [L[0], ['tick', '10']] + L[1:]


FAMILIES = {'env': gen_env, 'envdec': gen_envdec}


def to_text(lines):
    return '\n'.join(' '.join(l) for l in lines) + '\n'


def generate(family, seed, n, start=0, **kw):
    out = []
    for i in range(n):
        rng = random.Random(f'{family}-{seed}-{start + i}')
        out.append(FAMILIES[family](rng, start + i, **kw))
    return out
