"""Seeded scenario generators, one family per model layer.  A scenario is a list of protocol lines
(list of tokens).  Every random choice comes from the `random.Random` passed in."""
import random

PRIOS = [8, 12, 16, 20, 24, 28, 32, 36, 40, 44]           # 4 * EventType (above TERMINATE)
FRAC_PRIOS = [5, 7, 9, 19, 21, 27, 29, 31, 33, 43, 45]    # quarter steps, e.g. FAIL - 0.25
WMODS = [0, 1, 2, 3, 5, 1000003]


def pick_prio(rng):
    return rng.choice(PRIOS) if rng.random() < 0.7 else rng.choice(FRAC_PRIOS)


def gen_env(rng, idx, big=False):
    """Environment family: schedule/pause/unpause/cancel/step/run from outside and from inside
    event actions; equal times, fractional priorities, colliding weights, nested pauses,
    cancel-then-unpause, split runs, requests in the past."""
    L = [['scenario', str(idx)], ['seed', str(rng.randrange(1000)), str(rng.choice(WMODS))]]
    assets = [-2, -3, -4, -5][:rng.randint(2, 4)]
    nscripts = rng.randint(3, 10 if not big else 16)
    times = [0, 1, 2, 3, 4, 8, 8, 8, 16, 16, 17, 24, 32, 33, 40]
    def sa(a):
        # events may belong to no asset (id -1, the id the library itself uses for its internal events);
        # only pausing / cancelling that id is outside the property's domain
        return -1 if rng.random() < 0.12 else a
    for k in range(nscripts):
        for _ in range(rng.choice([0, 1, 1, 2, 2, 3])):
            c = rng.random()
            a = rng.choice(assets)
            if c < 0.45 and k + 1 < nscripts:
                a = sa(a)
            if c < 0.35 and k + 1 < nscripts:
                L.append(['script', str(k), 'schedrel', str(rng.choice([0, 0, 1, 2, 3, 8, 16])),
                          str(a), str(rng.randrange(k + 1, nscripts)), str(pick_prio(rng))])
            elif c < 0.45 and k + 1 < nscripts:
                L.append(['script', str(k), 'sched', str(rng.choice(times)), str(a),
                          str(rng.randrange(k + 1, nscripts)), str(pick_prio(rng))])
            elif c < 0.65:
                L.append(['script', str(k), 'pause', str(a)])
            elif c < 0.85:
                L.append(['script', str(k), 'unpause', str(a)])
            else:
                L.append(['script', str(k), 'cancel', str(a)])
    now = 0
    # focused half: few assets and a pause/cancel/unpause-heavy mix, so that one asset holds paused
    # and pending events at the same moment, goes through several pause cycles, is cancelled while
    # paused, ... (states the uniform mix reaches too rarely)
    focus = rng.random() < 0.5
    if focus:
        assets = assets[:rng.randint(1, 2)]
    for _ in range(rng.randint(4, 14 if not big else 30)):
        c = rng.random()
        a = rng.choice(assets)
        if focus:
            c = {0: 0.0, 1: 0.0, 2: 0.0, 3: 0.52, 4: 0.52, 5: 0.6, 6: 0.6, 7: 0.67, 8: 0.75, 9: 0.9}[rng.randrange(10)]
        if c < 0.5:
            t = rng.choice(times) + (now if rng.random() < 0.6 else 0)
            L.append(['ext', 'sched', str(t), str(sa(a)), str(rng.randrange(nscripts)), str(pick_prio(rng))])
        elif c < 0.58:
            L.append(['ext', 'pause', str(a)])
        elif c < 0.66:
            L.append(['ext', 'unpause', str(a)])
        elif c < 0.70:
            L.append(['ext', 'cancel', str(a)])
        elif c < 0.80:
            L.append(['step'])
        else:
            d = rng.choice([0, 1, 3, 8, 8, 16, 24])
            L.append(['run', str(d)])
            now += d
    if rng.random() < 0.7:
        for a in assets:
            if rng.random() < 0.6:
                L.append(['ext', 'unpause', str(a)])
        L.append(['run', str(rng.choice([40, 64, 100]))])
    L.append(['end'])
    return L


def gen_envdec(rng, idx, big=False):
    """Same as env but on a decimal time grid (1 tick = 0.1): implementation only (float rounding
    is outside the model); judged by the order/clock monitors."""
    L = gen_env(rng, idx, big)
    if rng.random() < 0.35:
        # rounding probe: an event scheduled RELATIVELY from inside an event lands at t1/10 + d/10, which
        # for many pairs is one ulp above (t1+d)/10; from inside it, the absolute time (t1+d)/10 is
        # requested: it lies before the clock by one ulp and must be rejected (or, if accepted by a
        # tolerant guard, makes the clock step back)
        nscripts = 1 + max([int(l[1]) for l in L if l[0] == 'script'] + [-1])
        pairs = [(a, b) for a in range(1, 12) for b in range(1, 12) if a / 10 + b / 10 > (a + b) / 10]
        t1, d = rng.choice(pairs)
        k0, k1, k2 = nscripts, nscripts + 1, nscripts + 2
        probe = [['script', str(k0), 'schedrel', str(d), '-2', str(k1), str(pick_prio(rng))],
                 ['script', str(k1), 'sched', str(t1 + d), '-3', str(k2), str(pick_prio(rng))],
                 ['script', str(k2), 'schedrel', '1', '-3', str(k2 + 1), str(pick_prio(rng))],
                 ['ext', 'sched', str(t1), '-2', str(k0), str(pick_prio(rng))]]
        i = next(j for j, l in enumerate(L) if l[0] in ('ext', 'step', 'run'))
        L = L[:i] + probe + L[i:]
    return [L[0], ['tick', '10']] + L[1:]


FAMILIES = {'env': gen_env, 'envdec': gen_envdec}


def to_text(lines):
    return '\n'.join(' '.join(l) for l in lines) + '\n'


def generate(family, seed, n, start=0, **kw):
    out = []
    for i in range(n):
        rng = random.Random(f'{family}-{seed}-{start + i}')
        out.append(FAMILIES[family](rng, start + i, **kw))
    return out


# ------------------------------------------------------------------------------------------ rm
def _req(rng, rids, allow_bad=True):
    n = rng.choice([1, 1, 2, 2, 3])
    keys = rng.sample(rids + ([7] if allow_bad and rng.random() < 0.15 else []), min(n, len(rids)))
    ent = []
    for k in keys:
        c = rng.random()
        if c < 0.08 and allow_bad:
            a = -rng.randint(1, 2)
        elif c < 0.2:
            a = 0
        else:
            a = rng.randint(1, 3)
        ent.append(f'{k}:{a}')
    return ';'.join(ent)


def gen_rm(rng, idx, big=False, prestart=True):
    """Resource-manager family: add/remove capacity, reserve (multi, zero, negative, unknown),
    full/partial/repeated release, merge, registrations with callbacks that reserve/release/register,
    operations before the first simulate, time advancing between operations."""
    L = [['scenario', str(idx)], ['seed', str(rng.randrange(1000)), str(rng.choice(WMODS))]]
    rids = [0, 1, 2][:rng.randint(1, 3)]
    for r in rids:
        if rng.random() < 0.85:
            L.append(['res', str(r), str(rng.randint(0, 5))])
    if rng.random() < 0.1:
        L.append(['res', '7', str(rng.choice([-3, -1, 2]))])
    nscripts = rng.randint(3, 8)
    nh = 4

    def rm_op(k=None):
        c = rng.random()
        h = rng.randrange(nh)
        if c < 0.18:
            return ['addres', str(rng.choice(rids + [7] if rng.random() < 0.1 else rids)), str(rng.choice([-4, -2, -1, 0, 1, 2, 3]))]
        if c < 0.48:
            return ['reserve', str(h), _req(rng, rids)]
        if c < 0.63:
            return ['release', str(h)]
        if c < 0.73:
            # partial release; now and then with an explicitly EMPTY request (releases nothing)
            return ['release', str(h), _req(rng, rids) if rng.random() < 0.8 else '-']
        if c < 0.80:
            return ['merge', str(h), str(rng.randrange(nh))]
        kk = rng.randrange((k if k is not None else -1) + 1, nscripts + 1)
        if kk >= nscripts:
            kk = nscripts - 1 if (k is None or k < nscripts - 1) else None
        if kk is None:
            return ['reserve', str(h), _req(rng, rids)]
        return ['register', str(kk), _req(rng, rids, allow_bad=False)]

    for k in range(nscripts):
        for _ in range(rng.choice([0, 1, 1, 2, 3])):
            L.append(['script', str(k)] + rm_op(k))
    if prestart and rng.random() < 0.25:
        for _ in range(rng.randint(1, 3)):
            L.append(['ext'] + rm_op())
    for _ in range(rng.randint(2, 6)):
        for _ in range(rng.randint(0, 5)):
            if rng.random() < 0.6:
                L.append(['ext'] + rm_op())
            else:
                L.append(['ext', 'schedrel', str(rng.choice([0, 0, 1, 4, 8])), '-2', str(rng.randrange(nscripts)),
                          str(pick_prio(rng))])
        L.append(['run', str(rng.choice([0, 1, 4, 8, 16]))])
    L.append(['end'])
    # the same requester asks twice for the same thing while its first request may still wait (two entries of the
    # waiting list that are EQUAL: same amounts, same callback): every third registration is repeated at once.
    # (own random stream: the scenarios are otherwise the ones generated before this was added)
    rng2 = random.Random(f'rm-twice-{idx}-{len(L)}')
    out = []
    for l in L:
        out.append(l)
        if 'register' in l[:3] and l[0] in ('ext', 'script') and rng2.random() < 0.34:
            out.append(list(l))
    return out


# --------------------------------------------------------------------------------------- maint
def gen_maint(rng, idx, big=False):
    """Maintainer family: capacities (inf, default, 0..3), fake Maintainable targets with
    table-driven duration/capacity/cost and scripted hooks that create further orders, duplicates,
    bursts at one instant, needed capacity 0 and above the total, duration 0."""
    L = [['scenario', str(idx)], ['seed', str(rng.randrange(1000)), str(rng.choice(WMODS))]]
    nm = rng.choice([1, 1, 2])
    for _ in range(nm):
        L.append(['asset', 'maint', 'cap=' + rng.choice(['inf', 'def', '0', '1', '2', '2', '3']),
                  'value=' + str(rng.choice([0, 100]))])
    nt = rng.randint(2, 4)
    nscripts = rng.randint(3, 8)
    for t in range(nt):
        params = ','.join(f'{tag}:{rng.choice([0, 8, 8, 16, 24])}:{rng.choice([0, 1, 1, 2, 5])}:{rng.choice([0, 0, 3, 10, -6])}'
                          for tag in range(3))
        st = str(rng.randrange(nscripts)) if rng.random() < 0.3 else '-'
        en = str(rng.randrange(nscripts)) if rng.random() < 0.3 else '-'
        L.append(['target', str(t), 'dev=-', f'start={st}', f'end={en}', f'params={params}'])

    def wo():
        return ['wo', str(rng.randrange(nm)), str(rng.randrange(nt)), str(rng.randrange(3)), str(rng.randrange(5))]
    for k in range(nscripts):
        for _ in range(rng.choice([0, 1, 1, 2, 3])):
            if rng.random() < 0.85:
                L.append(['script', str(k)] + wo())
            else:
                L.append(['script', str(k), 'setparams', str(rng.randrange(nt)), str(rng.randrange(3)),
                          str(rng.choice([0, 8, 16])), str(rng.choice([0, 1, 2])), str(rng.choice([0, 5]))])
    for _ in range(rng.randint(4, 12)):
        L.append(['ext', 'sched', str(rng.choice([0, 0, 4, 8, 8, 8, 16, 20, 24, 32, 40])), '-2',
                  str(rng.randrange(nscripts)), str(pick_prio(rng))])
    L.append(['run', str(rng.choice([16, 32, 48]))])
    if rng.random() < 0.5:
        for _ in range(rng.randint(1, 3)):
            L.append(['ext'] + wo())
        L.append(['run', str(rng.choice([16, 64]))])
    L.append(['end'])
    return L


# --------------------------------------------------------------------------------------- sched
def gen_sched(rng, idx, big=False):
    """ActionScheduler family: timetables with repeated states, zero and fractional durations,
    cyclical / not / defaulted, register/unregister before the run and from events."""
    L = [['scenario', str(idx)], ['seed', str(rng.randrange(1000)), str(rng.choice(WMODS))]]
    ns = rng.choice([1, 1, 2])
    for _ in range(ns):
        n = rng.randint(1, 5)
        tt = ','.join(f'{rng.choice([0, 1, 3, 8, 8, 16, 20])}:{rng.randint(0, 3)}' for _ in range(n))
        if all(e.split(':')[0] == '0' for e in tt.split(',')):
            tt += ',8:1'
        L.append(['asset', 'sched', 'cyc=' + rng.choice(['def', '1', '0', '0']), f'tt={tt}'])
    nscripts = rng.randint(2, 6)

    def reg():
        if rng.random() < 0.65:
            return ['regobj', str(rng.randrange(ns)), str(rng.randrange(4)), rng.choice(['-', '-', '0', '1'])]
        return ['unregobj', str(rng.randrange(ns)), str(rng.randrange(4))]
    for k in range(nscripts):
        for _ in range(rng.choice([1, 1, 2])):
            L.append(['script', str(k)] + reg())
    for _ in range(rng.randint(0, 3)):
        L.append(['ext'] + reg())
    for _ in range(rng.randint(2, 8)):
        L.append(['ext', 'sched', str(rng.choice([0, 3, 8, 8, 16, 24, 27, 40])), '-2', str(rng.randrange(nscripts)),
                  str(rng.choice(PRIOS + [44, 45, 43]))])
    L.append(['run', str(rng.choice([24, 40, 64, 100]))])
    if rng.random() < 0.4:
        L.append(['ext'] + reg())
        L.append(['run', str(rng.choice([16, 50]))])
    L.append(['end'])
    return L


# -------------------------------------------------------------------------------------- sensor
def gen_sensor(rng, idx, big=False):
    """Periodic sensors (interval, capacity, probes over changing variables, callbacks) and a
    condition-monitoring system with duplicate add_sensor calls."""
    L = [['scenario', str(idx)], ['seed', str(rng.randrange(1000)), str(rng.choice(WMODS))]]
    nv = rng.randint(1, 3)
    for v in range(nv):
        L.append(['var', str(v), str(rng.randint(0, 9))])
    ns = rng.choice([1, 2])
    for _ in range(ns):
        vars_ = ','.join(str(rng.randrange(nv)) for _ in range(rng.randint(1, 3)))
        L.append(['asset', 'sensor', 'per', 'interval=' + str(rng.choice([1, 3, 8, 16, 5])),
                  'cap=' + rng.choice(['def', 'inf', '1', '2', '3', '5']), f'vars={vars_}', 'cbs=' + str(rng.randint(0, 2))])
    ncms = rng.choice([0, 1, 1, 2])
    for _ in range(ncms):
        L.append(['asset', 'cms'])
    nscripts = rng.randint(2, 5)
    for k in range(nscripts):
        for _ in range(rng.choice([1, 2])):
            if ncms and rng.random() < 0.3:
                L.append(['script', str(k), 'addsensor', str(rng.randrange(ncms)), str(rng.randrange(ns))])
            else:
                L.append(['script', str(k), 'setvar', str(rng.randrange(nv)), str(rng.randint(0, 9))])
    for c in range(ncms):
        for _ in range(rng.randint(0, 2)):
            L.append(['ext', 'addsensor', str(c), str(rng.randrange(ns))])
    for _ in range(rng.randint(2, 8)):
        L.append(['ext', 'sched', str(rng.choice([0, 3, 8, 8, 16, 24, 27, 40])), '-2', str(rng.randrange(nscripts)),
                  str(rng.choice(PRIOS))])
    L.append(['run', str(rng.choice([24, 40, 64]))])
    if rng.random() < 0.4:
        L.append(['run', str(rng.choice([16, 30]))])
    L.append(['end'])
    return L


def gen_sensordec(rng, idx, big=False):
    """sensor family on a decimal time grid (1 tick = 0.1): implementation only."""
    L = gen_sensor(rng, idx, big)
    return [L[0], ['tick', '10']] + L[1:]


FAMILIES.update({'rm': gen_rm, 'maint': gen_maint, 'sched': gen_sched, 'sensor': gen_sensor, 'sensordec': gen_sensordec})


# --------------------------------------------------------------------------------------- floor
class FloorBuilder:
    def __init__(self, rng):
        self.rng = rng
        self.L = []
        self.ndev = 0
        self.kinds = []          # kind per device index
        self.nassets = 0

    def dev(self, kind, **kw):
        if kind in ('buffer', 'batcher', 'gate', 'gpath'):
            kw.pop('cyc', None)
        toks = ['asset', 'dev', kind] + [f'{k}={v}' for k, v in kw.items() if v is not None]
        self.L.append(toks)
        self.kinds.append(kind)
        self.ndev += 1
        self.nassets += 1
        return self.ndev - 1

    def group(self, gid, devs, ins=None, outs=None):
        self.L.append(['asset', 'group', str(gid), 'devs=' + ','.join(map(str, devs)),
                       'in=' + (','.join(map(str, ins)) if ins else '-'),
                       'out=' + (','.join(map(str, outs)) if outs else '-')])
        self.kinds += ['ginput', 'goutput']
        self.ndev += 2
        self.nassets += 2


def _cb(rng):
    c = rng.choice(['-', '-', '-', '4', '12'])
    o = rng.choice([0, 0, 0, 2, -3, 8])
    v = rng.choice([0, 0, 1, 5])
    q = rng.choice(['-', '-', '0', '2'])
    return f'{c}:{o}:{v}:{q}'


def gen_floor(rng, idx, big=False, groups=True, congested=False, serial=False):
    """Random well-posed line: sources -> stages of handlers / processors / buffers / batchers (behind
    gates, inside shared groups) -> sinks; fan-in/fan-out; zero and positive cycle times; capacities;
    batches; resource pools; scripted failures, work orders, shutdown/restore, input blocking,
    capacity and budget changes, cycle-time changes, callbacks; one to three runs."""
    B = FloorBuilder(rng)
    L = [['scenario', str(idx)], ['seed', str(rng.randrange(1000)), str(rng.choice(WMODS))]]
    if rng.random() < 0.5:
        L.append(['idoff', str(rng.randrange(50))])
    npools = rng.choice([0, 0, 1, 1, 2])
    for r in range(npools):
        L.append(['res', str(r), str(rng.choice([0, 1, 1, 2, 3]))])
    cyc_choices = [0, 0, 2, 4, 4, 8, 8, 12, 16] if not congested else [0, 4, 8, 8, 16, 16, 24]
    batches = (rng.random() < 0.25) and not serial

    def mk_source():
        budget = rng.choice(['inf', 'inf', 'def', '1', '3', '6', '12', '0'])
        cyc = rng.choice([2, 4, 4, 8, 8, 16]) if budget in ('inf', 'def') else rng.choice([0, 0, 2, 4, 8])
        return B.dev('source', cyc=cyc, budget=budget, pval=rng.choice([0, 0, 5, 7, -4]), pqual=rng.choice([1, 1, 3]),
                     batchof=(rng.choice([0, 0, 2, 3, -1]) if batches else 0))

    prev = [mk_source() for _ in range(1 if serial else rng.choice([1, 1, 2]))]
    procs = []
    gid = 0
    nst = rng.randint(1, 4 if not big else 6)
    outside = list(prev)       # devices not in any group (valid upstreams for outside devices)
    for st in range(nst):
        cur = []
        use_group = groups and not serial and not batches and rng.random() < 0.25
        if use_group:
            # members (connected only among themselves), then the group, then paths
            n_m = rng.choice([1, 1, 2])
            members = []
            for j in range(n_m):
                kind = rng.choice(['processor', 'handler', 'processor'])
                kw = dict(cyc=rng.choice(cyc_choices), up=(','.join(map(str, members[-1:])) if members else None))
                if kind == 'processor':
                    kw.update(nshut=rng.choice([0, 1]), nrest=rng.choice([0, 1]))
                    if npools and rng.random() < 0.4:
                        kw['res'] = ';'.join(f'{r}:{rng.choice([1, 1, 2])}' for r in rng.sample(range(npools), rng.randint(1, npools)))
                m = B.dev(kind, **kw)
                members.append(m)
                if kind == 'processor':
                    procs.append(m)
            B.group(gid, members)
            npaths = rng.choice([1, 2, 2, 3])
            for pi in range(npaths):
                ups = rng.sample(prev, rng.randint(1, len(prev)))
                if pi > 0 and cur and B.kinds[cur[-1]] != 'gpath' and rng.random() < 0.3:
                    # re-entrant: this path is fed by a device placed after an earlier path
                    ups = [cur[-1]]
                p = B.dev('gpath', group=gid, up=','.join(map(str, ups)))
                if rng.random() < 0.6:
                    k2 = rng.choice(['handler', 'buffer', 'processor'])
                    kw = dict(up=str(p))
                    if k2 == 'buffer':
                        kw.update(cap=rng.choice(['inf', 'def', '1', '2', '3']), delay=rng.choice([0, 0, 4, 8]))
                    else:
                        kw.update(cyc=rng.choice(cyc_choices))
                    d = B.dev(k2, **kw)
                    if k2 == 'processor':
                        procs.append(d)
                    cur.append(d)
                else:
                    cur.append(p)
            gid += 1
        else:
            for j in range(1 if serial else rng.choice([1, 1, 2, 3])):
                ups = rng.sample(prev, rng.randint(1, len(prev)))
                if not serial and rng.random() < 0.25:
                    # a decision gate in front, sometimes a complementary pair feeding two devices
                    pred = rng.choice(['always', 'qge:2', 'qlt:2', 'vge:6', 'vlt:6', 'never'])
                    g = B.dev('gate', up=','.join(map(str, ups)), pred=pred)
                    ups = [g]
                    if rng.random() < 0.15:
                        # a chain of pass-through gates (notifications have to travel through all of them)
                        for _ in range(rng.randint(2, 5)):
                            g = B.dev('gate', up=str(g), pred='always')
                        ups = [g]
                kind = rng.choice(['handler', 'processor', 'processor', 'buffer', 'buffer'] +
                                  (['batcher', 'batcher'] if batches or (not serial and rng.random() < 0.15) else []))
                kw = dict(up=','.join(map(str, ups)))
                if kind in ('handler', 'processor'):
                    kw['cyc'] = rng.choice(cyc_choices)
                    if not serial and rng.random() < 0.25:
                        kw['recvcb'] = ','.join(_cb(rng) for _ in range(rng.choice([1, 1, 2])))
                if kind == 'processor':
                    kw.update(nshut=rng.choice([0, 1, 2]), nrest=rng.choice([0, 1]))
                    if npools and not serial and rng.random() < (0.7 if congested else 0.4):
                        kw['res'] = ';'.join(f'{r}:{rng.choice([0, 1, 1, 2])}' for r in rng.sample(range(npools), rng.randint(1, npools)))
                    if not serial and rng.random() < 0.2:
                        kw['fincb'] = _cb(rng)
                if kind == 'buffer':
                    kw.update(cap=rng.choice(['inf', 'def', '1', '1', '2', '3', '5']), delay=rng.choice([0, 0, 0, 4, 8, 20]))
                if kind == 'batcher':
                    kw['bsz'] = rng.choice(['-', '-', '2', '3', '4'])
                d = B.dev(kind, **kw)
                if kind == 'processor':
                    procs.append(d)
                cur.append(d)
        prev = cur
    for j in range(1 if serial else rng.choice([1, 1, 2])):
        ups = prev if j == 0 else rng.sample(prev, rng.randint(1, len(prev)))
        B.dev('sink', up=','.join(map(str, ups)), cyc=rng.choice([0, 0, 0, 4, 8] if not congested else [0, 8, 16, 24]),
              collect=rng.choice([0, 1]))
    L += B.L
    # maintainer + targets (processors with default hooks)
    nm = 0
    ntg = 0
    if procs and not serial and rng.random() < 0.6:
        nm = 1
        L.append(['asset', 'maint', 'cap=' + rng.choice(['inf', 'def', '1', '2']), 'value=' + str(rng.choice([0, 50]))])
        for d in procs[:4]:
            params = ','.join(f'{tag}:{rng.choice([0, 4, 8, 16, 24])}:{rng.choice([0, 1, 1, 2])}:{rng.choice([0, 0, 3, -2])}'
                              for tag in range(2))
            L.append(['target', str(ntg), f'dev={d}', 'start=-', 'end=-', f'params={params}'])
            ntg += 1
    if procs and not serial and rng.random() < 0.25:
        L.append(['asset', 'sensor', 'out', f'proc={rng.choice(procs)}', 'n=' + rng.choice(['def', '0', '1', '2']),
                  'cap=' + rng.choice(['def', '2', '3']), 'attrs=' + rng.choice(['0', '1', '0,1']), 'cbs=' + str(rng.choice([0, 1]))])
    # scripts
    ops = []
    handlerlike = [i for i, k in enumerate(B.kinds) if k in ('handler', 'processor', 'buffer', 'batcher', 'sink')]
    sources = [i for i, k in enumerate(B.kinds) if k == 'source']
    anydev = list(range(B.ndev))
    if not serial:
        for _ in range(rng.randint(0, 10 if not big else 20)):
            c = rng.random()
            if rng.random() < 0.04:
                # the machine-only operations on a device that is not a machine (an error, nothing happens)
                ops.append([rng.choice(['schedfailrel', 'shutdown', 'restore']), str(rng.choice(anydev))] +
                           (['0'] if ops and False else []))
                if ops[-1][0] == 'schedfailrel':
                    ops[-1].append('0')
            elif procs and c < 0.22:
                ops.append(['schedfailrel', str(rng.choice(procs)), str(rng.choice([0, 0, 1, 4]))])
            elif procs and c < 0.32:
                ops.append(['shutdown', str(rng.choice(procs))])
            elif procs and c < 0.47:
                ops.append(['restore', str(rng.choice(procs))])
            elif nm and c < 0.62:
                ops.append(['wo', '0', str(rng.randrange(ntg)), str(rng.randrange(2)), '0'])
            elif c < 0.74:
                ops.append(['block', str(rng.choice(anydev)), rng.choice(['0', '1', '1'])])
            elif npools and c < 0.84:
                ops.append(['addres', str(rng.randrange(npools)), str(rng.choice([-2, -1, -1, 1, 1, 2]))])
            elif c < 0.90:
                ops.append(['adjust', str(rng.choice(sources)), str(rng.choice([-2, 1, 2, 5]))])
            elif c < 0.95 and handlerlike:
                d = rng.choice(handlerlike)
                if B.kinds[d] in ('handler', 'processor', 'sink'):
                    ops.append(['setcycle', str(d), str(rng.choice([0, 4, 8, 20]))])
                else:
                    ops.append(['offset', str(d), '0'])
            elif handlerlike:
                d = rng.choice([x for x in handlerlike if B.kinds[x] in ('handler', 'processor', 'sink')] or handlerlike)
                ops.append(['offset', str(d), str(rng.choice([-4, 2, 8]))])
    # every op becomes a script of its own, scheduled at a random time (several at the same instant);
    # blocking / shutdown / capacity reductions are usually undone later (so that the unblocking
    # notifications are exercised)
    times = [0, 4, 8, 8, 12, 16, 16, 20, 24, 32, 32, 40, 48, 56, 64, 80]
    sched = []
    extra = []
    for op in ops:
        t = rng.choice(times)
        sched.append((t, op))
        undo = None
        if op[0] == 'block' and op[2] == '1':
            undo = ['block', op[1], '0']
        elif op[0] == 'shutdown':
            undo = ['restore', op[1]]
        elif op[0] == 'schedfailrel':
            undo = ['restore', op[1]]
        elif op[0] == 'addres' and int(op[2]) < 0:
            undo = ['addres', op[1], str(-int(op[2]))]
        if undo is not None and rng.random() < 0.75:
            extra.append((t + rng.choice([0, 4, 8, 12, 24, 40]), undo))
    sched += extra
    for k, (t, op) in enumerate(sched):
        L.append(['script', str(k)] + op)
    for k, (t, op) in enumerate(sched):
        L.append(['ext', 'sched', str(t), '-2', str(k), str(pick_prio(rng))])
    horizon = rng.choice([48, 64, 96, 128]) if not big else rng.choice([128, 200])
    if serial and rng.random() < 0.4:
        # "every horizon": a horizon of exactly 0 (everything with entry time 0 must have happened when the call
        # returns), and horizons split over several calls some of which have length 0 (before the first event, at
        # an arbitrary instant, twice in a row, at the very end)
        L += _serial_runs(rng, horizon)
    elif rng.random() < 0.3:
        a = rng.choice([8, 16, 20, 33])
        L.append(['run', str(a)])
        L.append(['run', str(horizon - a if horizon > a else 8)])
    else:
        L.append(['run', str(horizon)])
    L.append(['end'])
    return L


def _serial_runs(rng, horizon):
    """run lines of a serial scenario whose horizon is 0 or is split into pieces, some of length 0"""
    c = rng.random()
    if c < 0.2:
        return [['run', '0'] for _ in range(rng.choice([1, 1, 2]))]
    pieces = []
    left = horizon
    for _ in range(rng.choice([1, 2, 2, 3])):
        a = rng.choice([1, 4, 8, 16, 20, 33])
        if a < left:
            pieces.append(a)
            left -= a
    pieces.append(left)
    out = []
    if rng.random() < 0.7:
        out += [['run', '0'] for _ in range(rng.choice([1, 1, 2]))]
    for i, a in enumerate(pieces):
        out.append(['run', str(a)])
        if rng.random() < 0.35:
            out.append(['run', '0'])
    if not any(r == ['run', '0'] for r in out):
        out.insert(0, ['run', '0'])
    return out


def gen_floor_congested(rng, idx, big=False):
    return gen_floor(rng, idx, big, congested=True)


def gen_serial(rng, idx, big=False):
    return gen_floor(rng, idx, big, groups=False, serial=True)


def gen_serial_topup(rng, idx, big=False):
    """Serial line whose source has a small finite budget that is topped up (existing op `adjust`, positive amounts
    only): from a scheduled event shortly after the last supply / inside the source's tail cycle / exactly at its
    end / long after the whole line has run dry, and from outside between two run calls.  A part that becomes
    permitted at tau leaves the source at max(previous departure + c_0, tau, space downstream)."""
    L = gen_floor(rng, idx, big, groups=False, serial=True)
    L = [l for l in L if l[0] not in ('run', 'end')]
    si = next(i for i, l in enumerate(L) if l[:3] == ['asset', 'dev', 'source'])
    cyc = rng.choice([0, 2, 3, 4, 4, 8])
    bud = rng.choice([0, 1, 1, 2, 3])
    L[si] = [t for t in L[si] if not t.startswith(('cyc=', 'budget='))] + [f'cyc={cyc}', f'budget={bud}']
    delays = []
    for l in L:
        if l[:2] == ['asset', 'dev']:
            delays += [int(t.split('=')[1]) for t in l[3:] if t.startswith(('cyc=', 'delay='))]
    dry = bud * max(delays + [1]) + sum(delays)        # by then every part of the first budget has left the source
    sched = []
    t = bud * cyc
    for _ in range(rng.randint(1, 3)):
        if rng.random() < 0.5:
            t += rng.choice([0, 1, 2, max(cyc - 1, 0), cyc, cyc + 1, 2 * cyc + 1, 17])
        else:
            t = max(t, dry) + rng.choice([0, 1, 5, 16])
        sched.append((t, ['adjust', '0', str(rng.choice([1, 1, 2, 3]))]))
        t += rng.choice([0, 1, cyc])
    between = None
    if rng.random() < 0.4:
        # the last top-up comes from outside, between two run calls
        between = sched.pop()
    _sched_ops(L, rng, sched)
    end = max([x[0] for x in sched] + [between[0] if between else 0]) + rng.choice([16, 48, 64])
    if between is not None:
        if rng.random() < 0.3:
            L.append(['run', '0'])
        L.append(['run', str(between[0])])
        L.append(['ext'] + between[1])
        if rng.random() < 0.3:
            L.append(['run', '0'])
        L.append(['run', str(end - between[0])])
    elif rng.random() < 0.3:
        a = rng.choice([8, 16, 20, 33])
        L.append(['run', str(a)])
        L.append(['run', str(max(end - a, 8))])
    else:
        L.append(['run', str(end)])
    L.append(['end'])
    return L


FAMILIES.update({'floor': gen_floor, 'floorc': gen_floor_congested, 'serial': gen_serial, 'serialq': gen_serial_topup})


# ----------------------------------------------------------------------------------------- sys
def gen_sys(rng, idx, big=False):
    """Late creation: assets of every kind constructed before the first run, between runs and from
    inside events (then initialised immediately), wired to existing devices."""
    L = [['scenario', str(idx)], ['seed', str(rng.randrange(1000)), str(rng.choice(WMODS))]]
    if rng.random() < 0.5:
        L.append(['idoff', str(rng.randrange(30))])
    L.append(['var', '0', str(rng.randint(0, 9))])
    ndev = 0
    kinds = []
    nsched = nsens = nmaint = 0

    def dev_line(kind, ups):
        nonlocal ndev
        kw = {}
        if kind == 'source':
            kw = dict(cyc=rng.choice([2, 4, 8]), budget=rng.choice(['inf', '4', '8', 'def']), pval=rng.choice([0, 3]))
        elif kind in ('handler', 'processor', 'sink'):
            kw = dict(up=','.join(map(str, ups)), cyc=rng.choice([0, 4, 8]))
            if kind == 'processor':
                kw.update(nshut=1, nrest=1)
            if kind == 'sink':
                kw['collect'] = rng.choice([0, 1])
        elif kind == 'buffer':
            kw = dict(up=','.join(map(str, ups)), cap=rng.choice(['def', '1', '3']), delay=rng.choice([0, 4]))
        elif kind == 'gate':
            kw = dict(up=','.join(map(str, ups)), pred='always')
        elif kind == 'batcher':
            kw = dict(up=','.join(map(str, ups)), bsz=rng.choice(['-', '2']))
        ndev += 1
        kinds.append(kind)
        return ['dev', kind] + [f'{k}={v}' for k, v in kw.items()]

    def other_line():
        nonlocal nsched, nsens, nmaint
        c = rng.random()
        if c < 0.3:
            nsched += 1
            return ['sched', 'cyc=' + rng.choice(['def', '0']), 'tt=' + ','.join(f'{rng.choice([3, 8, 16])}:{rng.randint(0, 2)}' for _ in range(rng.randint(1, 3)))]
        if c < 0.6:
            nsens += 1
            return ['sensor', 'per', 'interval=' + str(rng.choice([3, 8])), 'cap=' + rng.choice(['def', '2']), 'vars=0', 'cbs=1']
        if c < 0.8:
            nmaint += 1
            return ['maint', 'cap=' + rng.choice(['def', '1']), 'value=0']
        return ['cms']

    solid = set()       # devices that certainly exist (created before the start or by an `ext create`)

    def feeders():
        return [i for i, k in enumerate(kinds) if k not in ('sink',) and i in solid]

    # before the start: a small line
    L.append(['asset'] + dev_line('source', []))
    for _ in range(rng.randint(0, 2)):
        k = rng.choice(['handler', 'processor', 'buffer'])
        L.append(['asset'] + dev_line(k, [ndev - 1]))
    if rng.random() < 0.7:
        L.append(['asset'] + dev_line('sink', [ndev - 1]))
    solid.update(range(ndev))
    if rng.random() < 0.5:
        L.append(['asset'] + other_line())
    # creations
    nscripts = 0

    def creation():
        if rng.random() < 0.7:
            k = rng.choice(['source', 'handler', 'processor', 'buffer', 'sink', 'sink', 'gate', 'batcher'])
            ups = [] if k == 'source' else rng.sample(feeders(), 1)
            return dev_line(k, ups), True
        return other_line(), False
    # created between runs (from outside) ...
    for _ in range(rng.randint(1, 4)):
        if rng.random() < 0.6:
            L.append(['run', str(rng.choice([0, 8, 12, 20]))])
        c, isdev = creation()
        L.append(['ext', 'create'] + c)
        if isdev:
            solid.add(ndev - 1)
    # ... and from inside events (wired to devices that certainly exist)
    for _ in range(rng.randint(1, 4)):
        c, isdev = creation()
        L.append(['script', str(nscripts), 'create'] + c)
        L.append(['ext', 'schedrel', str(rng.choice([0, 3, 4, 8, 12, 20, 24])), '-2', str(nscripts), str(pick_prio(rng))])
        nscripts += 1
    L.append(['run', str(rng.choice([32, 48, 64]))])
    if rng.random() < 0.4:
        L.append(['run', str(rng.choice([8, 16]))])
    L.append(['end'])
    return L


FAMILIES['sys'] = gen_sys


def gen_sysm(rng, idx, big=False):
    """System lifecycle: sequences of System() creations, asset creations of several classes,
    simulate calls on the latest and on stale systems, find_assets with every filter combination."""
    L = [['scenario', str(idx)]]
    nsys = 0
    nassets = 0
    classes = ['handler', 'processor', 'sink', 'buffer', 'source', 'maint']
    if rng.random() < 0.15:
        L.append(['S', 'asset', rng.choice(classes), '0'])     # before any System exists
    for _ in range(rng.randint(4, 16 if not big else 40)):
        c = rng.random()
        if c < 0.18 or nsys == 0:
            L.append(['S', 'new'])
            nsys += 1
        elif c < 0.22:
            k = rng.randint(1, 3)
            L.append(['S', 'multi', str(k)])      # simulate_multiple_times in the calling thread
            nsys += k
        elif c < 0.55:
            L.append(['S', 'asset', rng.choice(classes), str(rng.randrange(4))])
            nassets += 1
        elif c < 0.75:
            L.append(['S', 'simulate', str(rng.randrange(nsys) if rng.random() < 0.4 else nsys - 1)])
        else:
            L.append(['S', 'find', str(rng.randrange(nsys)),
                      rng.choice(['-', '-', str(rng.randrange(4))]),
                      rng.choice(['-', '-', '-', str(rng.randrange(max(nassets, 1)))]),
                      rng.choice(['-', '-'] + classes), rng.choice(['-', '-'] + classes)])
        if rng.random() < 0.3:
            L.append(['S', 'counts'])
    L.append(['S', 'counts'])
    L.append(['end'])
    return L


FAMILIES['sysm'] = gen_sysm


def gen_sysi(rng, idx, big=False):
    """Implementation only: assets that construct further assets WHILE the first simulate call is
    initialising the registered assets (and again between runs), and a user's ResourceManager whose
    start-up hook constructs assets; every asset must end up initialised exactly once."""
    L = [['scenario', str(idx)], ['S', 'new']]
    classes = ['handler', 'processor', 'sink', 'buffer', 'source', 'maint']
    nmin = 0          # a lower bound of the number of assets that certainly exist
    for _ in range(rng.randint(1, 5)):
        c = rng.random()
        if c < 0.4:
            L.append(['S', 'asset', 'maker', str(rng.randint(1, 4)), str(rng.choice([1, 1, 2, 3]))])
            nmin += 1
        elif c < 0.6:
            # helpers constructed inside a constructor: registration order differs from id order
            k = rng.randint(1, 3)
            L.append(['S', 'asset', 'nester', str(k)])
            nmin += k + 1
        else:
            L.append(['S', 'asset', rng.choice(classes), str(rng.randrange(1, 4))])
            nmin += 1
        if rng.random() < 0.5:
            L.append(['S', 'find', '0', '-', str(rng.randrange(nmin)), '-', '-'])
    L.append(['S', 'simulate', '0'])
    L.append(['S', 'counts'])
    for _ in range(rng.randint(0, 3)):
        L.append(['S', 'find', '0', '-', str(rng.randrange(nmin)), '-', '-'])
    for _ in range(rng.randint(0, 3)):
        if rng.random() < 0.5:
            L.append(['S', 'asset', 'maker', str(rng.randint(1, 3)), str(rng.choice([1, 2]))])
        else:
            L.append(['S', 'asset', rng.choice(classes), str(rng.randrange(1, 4))])
        if rng.random() < 0.5:
            L.append(['S', 'simulate', '0'])
    L.append(['S', 'simulate', '0'])
    L.append(['S', 'counts'])
    L.append(['end'])
    if rng.random() < 0.4:
        # the other start-up hook of the first simulate call: the initialize() of a user's ResourceManager
        # constructs assets (drawn last: the scenarios are otherwise the ones generated before this was added)
        L[1] = ['S', 'newrm', str(rng.randint(1, 3)), str(rng.choice([1, 1, 2]))]
    return L


FAMILIES['sysi'] = gen_sysi


# ------------------------------------------------------------------- targeted floor sub-families
def _hdr(rng, idx):
    L = [['scenario', str(idx)], ['seed', str(rng.randrange(1000)), str(rng.choice(WMODS))]]
    if rng.random() < 0.5:
        L.append(['idoff', str(rng.randrange(50))])
    return L


def _sched_ops(L, rng, sched):
    for k, (t, op) in enumerate(sched):
        L.append(['script', str(k)] + op)
    for k, (t, op) in enumerate(sched):
        L.append(['ext', 'sched', str(t), '-2', str(k), str(pick_prio(rng))])


def gen_floor_maint(rng, idx, big=False):
    """Maintenance-dense: long cycle times, several shutdown/restore pairs and work orders while one
    part is in process, failures scheduled DURING a shutdown window, restores at various points,
    processors holding resources, a finished part blocked behind a slow downstream."""
    L = _hdr(rng, idx)
    npools = rng.choice([0, 1, 1, 2])
    for r in range(npools):
        L.append(['res', str(r), str(rng.choice([1, 1, 2]))])
    B = FloorBuilder(rng)
    s = B.dev('source', cyc=rng.choice([2, 4, 8]), budget=rng.choice(['inf', '6', '12']), pval=rng.choice([0, 5]))
    procs = []
    prev = [s]
    for j in range(rng.choice([1, 2, 2])):
        kw = dict(up=','.join(map(str, prev)), cyc=rng.choice([12, 16, 24, 40]), nshut=rng.choice([1, 2]), nrest=1)
        if npools and rng.random() < 0.7:
            kw['res'] = ';'.join(f'{r}:1' for r in rng.sample(range(npools), rng.randint(1, npools)))
        p = B.dev('processor', **kw)
        procs.append(p)
        if rng.random() < 0.3:
            p2 = B.dev('processor', **kw)
            procs.append(p2)
            prev = [p, p2]
        else:
            prev = [p]
    B.dev('sink', up=','.join(map(str, prev)), cyc=rng.choice([0, 0, 8, 30]), collect=0)
    L += B.L
    L.append(['asset', 'maint', 'cap=' + rng.choice(['inf', '1', '2']), 'value=0'])
    for i, d in enumerate(procs):
        L.append(['target', str(i), f'dev={d}', 'start=-', 'end=-',
                  'params=' + ','.join(f'{tag}:{rng.choice([0, 4, 8, 12, 20])}:{rng.choice([0, 1])}:{rng.choice([0, 3])}' for tag in range(2))])
    sched = []
    t = rng.choice([2, 6, 10])
    for _ in range(rng.randint(3, 9)):
        d = rng.randrange(len(procs))
        c = rng.random()
        if c < 0.35:
            dur = rng.choice([2, 4, 6, 10])
            sched.append((t, ['shutdown', str(procs[d])]))
            if rng.random() < 0.5:
                sched.append((t + rng.randrange(0, dur + 1), ['schedfailrel', str(procs[d]), str(rng.choice([0, 0, 1]))]))
            sched.append((t + dur, ['restore', str(procs[d])]))
            t += rng.choice([dur, dur + 2, dur + 6])
        elif c < 0.65:
            sched.append((t, ['wo', '0', str(d), str(rng.randrange(2)), '0']))
            if rng.random() < 0.5:
                sched.append((t + rng.choice([1, 2, 3, 5]), ['schedfailrel', str(procs[d]), '0']))
                sched.append((t + rng.choice([6, 10, 24]), ['restore', str(procs[d])]))
            t += rng.choice([2, 6, 14])
        elif c < 0.85:
            sched.append((t, ['schedfailrel', str(procs[d]), str(rng.choice([0, 1, 3]))]))
            sched.append((t + rng.choice([2, 4, 9]), ['restore', str(procs[d])]))
            t += rng.choice([4, 10])
        else:
            if npools:
                r = rng.randrange(npools)
                sched.append((t, ['addres', str(r), '-1']))
                sched.append((t + rng.choice([4, 8]), ['addres', str(r), '1']))
            t += 4
    _sched_ops(L, rng, sched)
    L.append(['run', str(rng.choice([96, 128, 160]))])
    L.append(['end'])
    return L


def gen_floor_batch(rng, idx, big=False):
    """Batch-heavy: singles and batches of several sizes (incl. empty) mixed into batchers of size n /
    single, gates behind batchers, slow or blocked downstreams (refusals of batches), buffers in
    front of unpacking batchers."""
    L = _hdr(rng, idx)
    B = FloorBuilder(rng)
    n = rng.choice([2, 2, 3, 4])
    srcs = []
    for j in range(rng.choice([1, 2, 2, 3])):
        srcs.append(B.dev('source', cyc=rng.choice([2, 4, 6, 8]), budget=rng.choice(['inf', '5', '9']),
                          pval=rng.choice([0, 2]), batchof=rng.choice([0, 0, n, n, 2, 3, 5, -1])))
    prev = srcs
    if rng.random() < 0.4:
        prev = [B.dev('buffer', up=','.join(map(str, prev)), cap=rng.choice(['inf', '4', '6', '8']), delay=rng.choice([0, 4]))]
    b1 = B.dev('batcher', up=','.join(map(str, prev)), bsz=rng.choice([str(n), str(n), '-']))
    prev = [b1]
    c = rng.random()
    if c < 0.5:
        g = B.dev('gate', up=str(b1), pred=rng.choice(['always', 'always', 'vge:0', 'qlt:5']))
        prev = [g]
    if rng.random() < (0.5 if c >= 0.5 else 0.25):        # a gate mostly hands over directly (refusals reach it)
        prev = [B.dev('buffer', up=','.join(map(str, prev)), cap=rng.choice(['inf', '3', '6']), delay=rng.choice([0, 0, 8]))]
    if rng.random() < 0.5:
        prev = [B.dev('batcher', up=','.join(map(str, prev)), bsz=rng.choice(['-', '2', '3']))]
    slow = B.dev(rng.choice(['processor', 'handler']), up=','.join(map(str, prev)), cyc=rng.choice([8, 12, 20]))
    B.dev('sink', up=str(slow), cyc=rng.choice([0, 8]), collect=rng.choice([0, 1]))
    if rng.random() < 0.4:
        B.dev('sink', up=','.join(map(str, prev)), cyc=rng.choice([0, 16]), collect=0)
    L += B.L
    sched = []
    for _ in range(rng.randint(0, 5)):
        t = rng.choice([4, 8, 16, 24, 40])
        d = rng.choice([slow, b1] + prev)
        sched.append((t, ['block', str(d), '1']))
        sched.append((t + rng.choice([4, 8, 20]), ['block', str(d), '0']))
    _sched_ops(L, rng, sched)
    L.append(['run', str(rng.choice([64, 96, 128]))])
    L.append(['end'])
    return L


def gen_floor_groups(rng, idx, big=False):
    """Group-heavy: shared groups with several paths, a path feeding a path of another group, nested
    groups (an inner group's path is a member / the input device of an outer group), blocked paths,
    failing members."""
    L = _hdr(rng, idx)
    B = FloorBuilder(rng)
    shape = rng.choice(['nested', 'nested', 'chain', 'shared'])
    s1 = B.dev('source', cyc=rng.choice([2, 4, 8]), budget=rng.choice(['inf', '4', '8']), pval=rng.choice([0, 3]))
    s2 = B.dev('source', cyc=rng.choice([4, 8]), budget=rng.choice(['inf', '3'])) if rng.random() < 0.5 else None
    procs = []
    paths = []
    if shape == 'nested':
        m1 = B.dev('processor', cyc=rng.choice([0, 4, 8]), nshut=1, nrest=1)
        procs.append(m1)
        B.group(0, [m1])
        pin = B.dev('gpath', group=0)                         # inner path, no upstream yet
        members = [pin]
        if rng.random() < 0.6:
            b = B.dev(rng.choice(['handler', 'processor', 'buffer']), up=str(pin), cyc=rng.choice([0, 4]))
            members.append(b)
        if rng.random() < 0.3:
            a = B.dev('handler', cyc=rng.choice([0, 4]))
            L_extra = ('wire', pin, [a])
            members = [a] + members
        else:
            L_extra = None
        L += B.L
        B.L = []
        if L_extra:
            L.append(['wire', str(L_extra[1]), ','.join(map(str, L_extra[2]))])
        B.group(1, members)
        for src in [s1] + ([s2] if s2 is not None else []):
            p = B.dev('gpath', group=1, up=str(src))
            paths.append(p)
            if rng.random() < 0.5:
                k = B.dev('handler', up=str(p), cyc=rng.choice([0, 4, 8]))
                B.dev('sink', up=str(k), cyc=0, collect=1)
            else:
                B.dev('sink', up=str(p), cyc=rng.choice([0, 4]), collect=1)
    elif shape == 'chain':
        m1 = B.dev('processor', cyc=rng.choice([0, 4, 8]), nshut=1, nrest=1)
        B.group(0, [m1])
        m2 = B.dev(rng.choice(['processor', 'handler']), cyc=rng.choice([0, 4, 8]))
        B.group(1, [m2])
        procs.append(m1)
        a = B.dev('gpath', group=0, up=str(s1))
        bpath = B.dev('gpath', group=1, up=str(a))            # path feeding a path
        paths += [a, bpath]
        B.dev('sink', up=str(bpath), cyc=rng.choice([0, 4]), collect=1)
        if s2 is not None:
            c = B.dev('gpath', group=1, up=str(s2))
            d = B.dev('gpath', group=0, up=str(c))
            paths += [c, d]
            B.dev('sink', up=str(d), cyc=0, collect=1)
    else:
        # half of the shared cells are entered through a gate, so that the same part meets the same
        # gate twice (second visit refused while the machine works on the following part)
        g0 = B.dev('gate', pred='always') if rng.random() < 0.5 else None
        m1 = B.dev('processor', cyc=rng.choice([2, 4, 8]), nshut=1, nrest=1, up=(str(g0) if g0 is not None else None))
        m2 = B.dev('handler', up=str(m1), cyc=rng.choice([0, 4])) if g0 is None or rng.random() < 0.5 else None
        procs.append(m1)
        B.group(0, [x for x in (g0, m1, m2) if x is not None])
        a = B.dev('gpath', group=0, up=str(s1))
        mid = B.dev(rng.choice(['handler', 'buffer']), up=str(a), cyc=rng.choice([0, 4]))
        b = B.dev('gpath', group=0, up=str(mid))              # re-entrant
        paths += [a, b]
        B.dev('sink', up=str(b), cyc=rng.choice([0, 4]), collect=1)
        if s2 is not None:
            c = B.dev('gpath', group=0, up=str(s2))
            paths.append(c)
            B.dev('sink', up=str(c), cyc=0, collect=1)
    L += B.L
    sched = []
    for _ in range(rng.randint(0, 5)):
        t = rng.choice([4, 8, 12, 20, 32])
        c = rng.random()
        if c < 0.5 and paths:
            d = rng.choice(paths)
            sched.append((t, ['block', str(d), '1']))
            sched.append((t + rng.choice([4, 8, 16]), ['block', str(d), '0']))
        elif procs:
            d = rng.choice(procs)
            sched.append((t, ['schedfailrel', str(d), '0']))
            sched.append((t + rng.choice([2, 6, 12]), ['restore', str(d)]))
    _sched_ops(L, rng, sched)
    L.append(['run', str(rng.choice([64, 96]))])
    L.append(['end'])
    return L


def gen_floor_pools(rng, idx, big=False):
    """Resource-heavy: several processors requiring two or three pools each (in different orders),
    scarce capacities, capacity schedules dropping to zero and rising again, failures and work orders
    while holding resources."""
    L = _hdr(rng, idx)
    npools = rng.choice([2, 2, 3])
    caps = [rng.choice([0, 1, 1, 2, 3, 4]) for _ in range(npools)]
    # 40 %: every machine takes one unit of pool 0, and pool 0 suffers an outage during which one holder fails
    # (gives its share back while the others still hold theirs: usage stays above the reduced capacity)
    shared = rng.random() < 0.4
    if shared:
        caps[0] = rng.choice([2, 3, 4])
    for r in range(npools):
        L.append(['res', str(r), str(caps[r])])
    B = FloorBuilder(rng)
    srcs = [B.dev('source', cyc=rng.choice([2, 4, 8]), budget=rng.choice(['inf', '5', '10'])) for _ in range(rng.choice([1, 2, 3]))]
    procs = []
    # a third of the lines distribute the parts through a gate (a pass-through device that must not touch
    # the pools while it looks for a taker)
    gate = B.dev('gate', up=','.join(map(str, srcs)), pred='always') if rng.random() < 0.33 else None
    for j in range(rng.choice([2, 3, 3, 4])):
        pools = rng.sample(range(npools), rng.choice([1, 2, 2, npools]))
        if shared:
            pools = [0] + [r for r in pools if r != 0]
        res = ';'.join(f'{r}:{1 if (shared and r == 0) else rng.choice([0, 1, 1, 2])}' for r in pools)
        procs.append(B.dev('processor', up=(str(gate) if gate is not None else ','.join(map(str, rng.sample(srcs, rng.randint(1, len(srcs)))))),
                           cyc=rng.choice([0, 4, 8, 12]), res=res, nshut=1, nrest=0))
    B.dev('sink', up=','.join(map(str, procs)), cyc=rng.choice([0, 0, 4]), collect=0)
    L += B.L
    L.append(['asset', 'maint', 'cap=inf', 'value=0'])
    for i, d in enumerate(procs):
        L.append(['target', str(i), f'dev={d}', 'start=-', 'end=-', 'params=0:8:0:0,1:4:0:0'])
    sched = []
    if shared:
        t0 = rng.choice([8, 12, 16, 24])
        d = rng.choice(procs)
        sched.append((t0, ['addres', '0', str(-caps[0])]))
        sched.append((t0 + rng.choice([1, 2, 3]), ['schedfailrel', str(d), '0']))
        sched.append((t0 + rng.choice([6, 10]), ['restore', str(d)]))
        sched.append((t0 + rng.choice([12, 16, 20]), ['addres', '0', str(caps[0])]))
    for _ in range(rng.randint(2, 8)):
        t = rng.choice([2, 4, 8, 12, 16, 24, 32, 40])
        c = rng.random()
        r = rng.randrange(npools)
        if c < 0.4:
            # a third of the reductions are OUTAGES: the whole initial capacity is withdrawn while several
            # machines may hold shares of it (usage above capacity until they give them back)
            k = caps[r] if (caps[r] > 0 and rng.random() < 0.34) else rng.choice([1, 1, 2])
            sched.append((t, ['addres', str(r), str(-k)]))
            sched.append((t + rng.choice([4, 8, 16]), ['addres', str(r), str(k)]))
        elif c < 0.55:
            sched.append((t, ['addres', str(r), str(rng.choice([1, 2]))]))
        elif c < 0.8:
            d = rng.randrange(len(procs))
            sched.append((t, ['wo', '0', str(d), str(rng.randrange(2)), '0']))
            if rng.random() < 0.5:
                sched.append((t + rng.choice([1, 2]), ['schedfailrel', str(procs[d]), '0']))
                sched.append((t + rng.choice([10, 14]), ['restore', str(procs[d])]))
        else:
            d = rng.choice(procs)
            sched.append((t, ['schedfailrel', str(d), '0']))
            sched.append((t + rng.choice([2, 6]), ['restore', str(d)]))
    _sched_ops(L, rng, sched)
    L.append(['run', str(rng.choice([64, 96]))])
    L.append(['end'])
    return L


def gen_floor_special(rng, idx, big=False):
    f = rng.choice([gen_floor_maint, gen_floor_maint, gen_floor_batch, gen_floor_batch, gen_floor_groups, gen_floor_pools])
    return f(rng, idx, big)


def gen_floor_procfirst(rng, idx, big=False):
    """maintenance-dense line whose processors are created BEFORE the source (wired afterwards), so
    that the very first asset id belongs to a machine that fails"""
    L = _hdr(rng, idx)
    L = [l for l in L if l[0] != 'idoff']
    n = rng.choice([1, 2])
    cyc = [rng.choice([8, 12, 20]) for _ in range(n)]
    for j in range(n):
        L.append(['asset', 'dev', 'processor', f'cyc={cyc[j]}', 'nshut=1', 'nrest=1'])
    L.append(['asset', 'dev', 'source', f'cyc={rng.choice([2, 4])}', 'budget=inf'])
    L.append(['wire', '0', str(n)])
    for j in range(1, n):
        L.append(['wire', str(j), str(j - 1)])
    L.append(['asset', 'dev', 'sink', f'up={n - 1}', 'cyc=0', 'collect=0'])
    sched = []
    t = rng.choice([3, 6, 10])
    for _ in range(rng.randint(2, 5)):
        d = rng.randrange(n)
        sched.append((t, ['schedfailrel', str(d), str(rng.choice([0, 1, 2]))]))
        sched.append((t + rng.choice([2, 3, 5, 9]), ['restore', str(d)]))
        t += rng.choice([7, 13, 21])
    _sched_ops(L, rng, sched)
    L.append(['run', str(rng.choice([96, 128]))])
    L.append(['end'])
    return L


def gen_floor_late(rng, idx, big=False):
    """Late machines: processors (and their sink) are constructed while the simulation is running
    (between two runs, at a clock value > 0), then shut down / restored / failed / maintained; their
    uptime and utilisation start at the moment of creation."""
    L = _hdr(rng, idx)
    L.append(['asset', 'dev', 'source', f'cyc={rng.choice([2, 4, 8])}', f'budget={rng.choice(["inf", "6", "12"])}', 'pval=0'])
    ndev = 1
    prev = 0
    if rng.random() < 0.4:
        L.append(['asset', 'dev', 'buffer', 'up=0', f'cap={rng.choice(["inf", "2", "4"])}', 'delay=0'])
        ndev, prev = 2, 1
    t0 = rng.choice([3, 5, 8, 13, 20])
    L.append(['run', str(t0)])
    procs = []
    for _ in range(rng.choice([1, 1, 2])):
        L.append(['ext', 'create', 'dev', 'processor', f'up={prev}', f'cyc={rng.choice([4, 8, 12, 20])}', 'nshut=1', 'nrest=1'])
        procs.append(ndev)
        prev = ndev
        ndev += 1
        if rng.random() < 0.3:
            L.append(['run', str(rng.choice([2, 7]))])
    L.append(['ext', 'create', 'dev', 'sink', f'up={prev}', f'cyc={rng.choice([0, 0, 6])}', 'collect=0'])
    sched = []
    t = t0 + rng.choice([10, 12, 16])
    for _ in range(rng.randint(1, 5)):
        d = rng.choice(procs)
        c = rng.random()
        if c < 0.5:
            dur = rng.choice([2, 4, 6, 10])
            sched.append((t, ['shutdown', str(d)]))
            sched.append((t + dur, ['restore', str(d)]))
            t += dur + rng.choice([1, 4, 9])
        else:
            sched.append((t, ['schedfailrel', str(d), str(rng.choice([0, 1, 3]))]))
            sched.append((t + rng.choice([4, 6, 11]), ['restore', str(d)]))
            t += rng.choice([12, 15])
    _sched_ops(L, rng, sched)
    L.append(['run', str(rng.choice([64, 96]))])
    L.append(['end'])
    return L


def gen_floor_reentrant(rng, idx, big=False):
    """Implementation only (the model has no re-entrant callbacks): a machine whose first shutdown
    callback repairs it at once (`restore_functionality()` called from inside the failure), hit by
    failures in mid-cycle; judged by the state-machine / accounting / flow monitors."""
    L = _hdr(rng, idx)
    L.append(['asset', 'dev', 'source', f'cyc={rng.choice([2, 4, 8])}', f'budget={rng.choice(["inf", "8", "12"])}', 'pval=0'])
    n = rng.choice([1, 1, 2])
    procs = []
    prev = 0
    for j in range(n):
        L.append(['asset', 'dev', 'processor', f'up={prev}', f'cyc={rng.choice([6, 10, 12, 20])}', 'nshut=1', 'nrest=1',
                  f'shutrestore={rng.choice([1, 2, 0]) if j else rng.choice([1, 2])}'])
        procs.append(j + 1)
        prev = j + 1
    L.append(['asset', 'dev', 'sink', f'up={prev}', f'cyc={rng.choice([0, 0, 4])}', 'collect=0'])
    sched = []
    t = rng.choice([3, 5, 9])
    for _ in range(rng.randint(1, 5)):
        d = rng.choice(procs)
        if rng.random() < 0.6:
            sched.append((t, ['schedfailrel', str(d), str(rng.choice([0, 1, 2, 5]))]))
        else:
            # maintenance-style shutdown (the first one of a vetoing machine is undone by its callback),
            # restored a little later
            sched.append((t, ['shutdown', str(d)]))
            sched.append((t + rng.choice([1, 2, 5]), ['restore', str(d)]))
        t += rng.choice([3, 7, 11, 17, 23])
    _sched_ops(L, rng, sched)
    L.append(['run', str(rng.choice([64, 96, 128]))])
    L.append(['end'])
    return L


def gen_floor_idle(rng, idx, big=False):
    """Idle race: a burst source and a sparse source feed 2-3 parallel single-slot machines with
    different cycle times; inputs are blocked and unblocked while machines are busy or idle; parts
    arrive while several machines are free, so the idle-longest rule decides who receives them."""
    L = _hdr(rng, idx)
    B = FloorBuilder(rng)
    a = B.dev('source', cyc=rng.choice([1, 2, 3]), budget=rng.choice(['2', '3', '4', '6']), pval=0)
    b = B.dev('source', cyc=rng.choice([9, 12, 17, 24]), budget='inf', pval=0)
    k = rng.choice([2, 2, 3])
    ms = []
    for j in range(k):
        kind = rng.choice(['processor', 'processor', 'handler'])
        feed = f'{a},{b}'
        if rng.random() < 0.3:
            # the branch starts with a pass-through device: its idle time is the machine's behind it
            feed = str(B.dev('gate', up=feed, pred='always'))
        ms.append(B.dev(kind, up=feed, cyc=rng.choice([1, 2, 4, 6, 8, 10, 14])))
    B.dev('sink', up=','.join(map(str, ms)), cyc=0, collect=rng.choice([0, 1]))
    L += B.L
    sched = []
    for _ in range(rng.randint(1, 5)):
        t = rng.choice([0, 1, 2, 3, 4, 5, 7, 10, 13, 20, 26])
        d = rng.choice(ms)
        sched.append((t, ['block', str(d), '1']))
        sched.append((t + rng.choice([1, 1, 2, 3, 6]), ['block', str(d), '0']))
    _sched_ops(L, rng, sched)
    L.append(['run', str(rng.choice([48, 64, 96]))])
    L.append(['end'])
    return L


def gen_floor_budget(rng, idx, big=False):
    """Part budgets: sources with small finite budgets that run out and are topped up (or cut) shortly
    after the last supply, in the middle of the source's tail cycle, exactly at its end, or much later;
    fast and slow downstreams."""
    L = _hdr(rng, idx)
    B = FloorBuilder(rng)
    srcs = []
    for j in range(rng.choice([1, 1, 2])):
        srcs.append((B.dev('source', cyc=rng.choice([3, 4, 8]), budget=rng.choice(['0', '1', '2', '3']), pval=0), ))
    prev = [x[0] for x in srcs]
    k = rng.choice(['handler', 'processor', 'buffer'])
    m = B.dev(k, up=','.join(map(str, prev)), cyc=rng.choice([0, 1, 4, 10]), cap=rng.choice(['inf', '1', '2']) if k == 'buffer' else None,
              delay=0 if k == 'buffer' else None)
    B.dev('sink', up=str(m), cyc=rng.choice([0, 0, 6]), collect=0)
    L += B.L
    sched = []
    for (x,) in srcs:
        line = B.L[x]
        cyc = int([t for t in line if t.startswith('cyc=')][0][4:])
        bud = int([t for t in line if t.startswith('budget=')][0][7:])
        t = bud * cyc
        for _ in range(rng.randint(1, 3)):
            t += rng.choice([0, 1, 2, cyc - 1, cyc, cyc + 1, 2 * cyc + 1, 17])
            sched.append((t, ['adjust', str(x), str(rng.choice([1, 1, 2, 3, -1]))]))
            t += rng.choice([0, 1, cyc])
    _sched_ops(L, rng, sched)
    L.append(['run', str(rng.choice([64, 96]))])
    L.append(['end'])
    return L


def gen_floor_rework(rng, idx, big=False):
    """Rework loop: source -> buffer -> machine (its finish callback adds value) -> two complementary gates:
    'done' (value >= limit) to the sink, 'rework' (value < limit) back into the buffer; low traffic, so the
    same part meets the same gate again with a different value and nothing else in between; in half of the lines the
    exit is busy or blocked now and then (the finished part is refused there and offered to the rework gate again)."""
    L = _hdr(rng, idx)
    add = rng.choice([3, 5])
    limit = add * rng.choice([2, 2, 3])
    L.append(['asset', 'dev', 'source', f'cyc={rng.choice([8, 16, 40])}', f'budget={rng.choice(["2", "3", "5", "inf"])}', 'pval=0'])
    L.append(['asset', 'dev', 'buffer', 'up=0', f'cap={rng.choice(["inf", "4"])}', 'delay=0'])
    L.append(['asset', 'dev', 'processor', 'up=1', f'cyc={rng.choice([1, 2, 4])}', f'fincb=-:0:{add}:-'])
    # the order in which the machine asks its two gates is the order of their construction
    done, rework = (3, 4) if rng.random() < 0.5 else (4, 3)
    for g in (3, 4):
        L.append(['asset', 'dev', 'gate', 'up=2', f'pred=vge:{limit}' if g == done else f'pred=vlt:{limit}'])
    # half of the lines have an exit that is not always free (a slow sink, or the exit gate / the sink blocked for a
    # while): a finished part then finds its exit refused and is offered to the rework gate it has just come through
    slow = rng.random() < 0.5
    L.append(['asset', 'dev', 'sink', f'up={done}', f'cyc={rng.choice([6, 12, 20, 40]) if slow and rng.random() < 0.7 else 0}',
              'collect=1'])
    L.append(['wire', '1', f'0,{rework}'])
    if slow:
        sched = []
        for _ in range(rng.randint(0, 3)):
            t = rng.randrange(4, 60)
            d = rng.choice([done, 5])
            sched.append((t, ['block', str(d), '1']))
            sched.append((t + rng.choice([3, 7, 12, 25]), ['block', str(d), '0']))
        _sched_ops(L, rng, sched)
    L.append(['run', str(rng.choice([64, 96, 160]))])
    L.append(['end'])
    return L


def gen_floor_cyclechange(rng, idx, big=False):
    """Cycle time changed under a held part: several feeders (so that somebody is refused meanwhile) into single-slot
    devices and a sink whose cycle time is set to another value -- often to 0 -- or offset for one cycle WHILE a part
    is held, and zero-cycle devices / sinks that get a positive one-shot offset (their next cycle is not instantaneous
    although their cycle time reads 0 when it ends); half of the scenarios also set cycle times and give one-shot offsets
    from outside before the first run.  Whatever the cycle time reads at the end of a cycle, the slot is free then and
    the refused upstreams have to be told; a cycle lasts what cycle time + offset were when it started."""
    L = _hdr(rng, idx)
    B = FloorBuilder(rng)
    srcs = [B.dev('source', cyc=rng.choice([1, 2, 3, 4, 6]), budget=rng.choice(['inf', 'inf', '4', '8']), pval=0)
            for _ in range(rng.choice([1, 2, 2, 3]))]
    prev = srcs
    mids = []
    if rng.random() < 0.5:
        for _ in range(rng.choice([1, 2, 2])):
            mids.append(B.dev(rng.choice(['handler', 'processor']), up=','.join(map(str, rng.sample(prev, rng.randint(1, len(prev))))),
                              cyc=rng.choice([0, 0, 2, 4, 8])))
        for x in srcs:
            if not any(str(x) in [t for t in B.L[m] if t.startswith('up=')][0][3:].split(',') for m in mids):
                B.L[mids[0]] = [t if not t.startswith('up=') else t + f',{x}' for t in B.L[mids[0]]]
        prev = mids
    sink = B.dev('sink', up=','.join(map(str, prev)), cyc=rng.choice([0, 0, 0, 4, 8]), collect=rng.choice([0, 1]))
    L += B.L
    sched = []
    for _ in range(rng.randint(2, 6)):
        t = rng.randrange(1, 48)
        d = rng.choice(mids + [sink, sink])
        if rng.random() < 0.5:
            sched.append((t, ['offset', str(d), str(rng.choice([2, 4, 8, 12, -2]))]))
        else:
            sched.append((t, ['setcycle', str(d), str(rng.choice([0, 0, 4, 8]))]))
    _sched_ops(L, rng, sched)
    if rng.random() < 0.5:
        # the same operations from outside BEFORE the first run (the devices are not initialised yet): a one-shot
        # offset given then counts for the first cycle of a source / handler / machine / sink
        for _ in range(rng.randint(1, 4)):
            d = rng.choice(srcs + mids + [sink, sink])
            if rng.random() < 0.7:
                L.append(['ext', 'offset', str(d), str(rng.choice([3, 5, 8, 10, -2]))])
            else:
                # (never 0 for a source: with an unlimited budget it would supply without end at one instant)
                L.append(['ext', 'setcycle', str(d), str(rng.choice([2, 6] if d in srcs else [0, 2, 6]))])
    horizon = rng.choice([64, 96])
    if rng.random() < 0.25:
        a = rng.choice([0, 5, 16])
        L.append(['run', str(a)])
        if rng.random() < 0.5:
            L.append(['ext', 'offset', str(rng.choice(srcs + mids + [sink])), str(rng.choice([4, 9]))])
        L.append(['run', str(horizon - a)])
    else:
        L.append(['run', str(horizon)])
    L.append(['end'])
    return L


FAMILIES['floork'] = gen_floor_cyclechange


def gen_floor_values(rng, idx, big=False):
    """Value changes at every station INCLUDING the sinks: receive-part callbacks (table-driven: add value, set quality,
    set cycle time, one-shot offset) on handlers, machines, buffers and on the sinks themselves (final inspection that
    marks a part up or down the moment it is received), finish callbacks on machines, part values of both signs,
    single parts and batches, collecting and non-collecting sinks with and without a cycle time."""
    L = _hdr(rng, idx)
    B = FloorBuilder(rng)
    batches = rng.random() < 0.2

    def vcb():
        return f'{rng.choice(["-", "-", "-", "4"])}:{rng.choice([0, 0, 0, 2])}:{rng.choice([-3, -1, 1, 2, 5])}:{rng.choice(["-", "-", "0", "2"])}'
    prev = [B.dev('source', cyc=rng.choice([2, 4, 8]), budget=rng.choice(['inf', '3', '6']), pval=rng.choice([0, 5, 7, -4]),
                  pqual=rng.choice([1, 3]), batchof=(rng.choice([2, 3]) if batches else 0))
            for _ in range(rng.choice([1, 1, 2]))]
    for _ in range(rng.choice([0, 1, 1, 2])):
        kind = rng.choice(['handler', 'processor', 'processor', 'buffer'])
        kw = dict(up=','.join(map(str, prev)))
        if kind == 'buffer':
            kw.update(cap=rng.choice(['inf', '2', '4']), delay=rng.choice([0, 4]))
        else:
            kw['cyc'] = rng.choice([0, 2, 4, 8])
        if rng.random() < 0.5:
            kw['recvcb'] = ','.join(vcb() for _ in range(rng.choice([1, 1, 2])))
        if kind == 'processor' and rng.random() < 0.4:
            kw['fincb'] = vcb()
        prev = [B.dev(kind, **kw)]
    for j in range(rng.choice([1, 1, 2])):
        kw = dict(up=','.join(map(str, prev)), cyc=rng.choice([0, 0, 4, 8]), collect=rng.choice([0, 1]))
        if rng.random() < 0.75:
            kw['recvcb'] = ','.join(vcb() for _ in range(rng.choice([1, 1, 2])))
        B.dev('sink', **kw)
    L += B.L
    L.append(['run', str(rng.choice([48, 64, 96]))])
    if rng.random() < 0.3:
        L.append(['run', str(rng.choice([8, 24]))])
    L.append(['end'])
    return L


FAMILIES['floorv'] = gen_floor_values


def gen_floor_nestbat(rng, idx, big=False):
    """corpus-only family (harness/corpus/floorn): nested groups whose batches cross group boundaries
    (known finding F14); nothing is generated"""
    raise NotImplementedError


FAMILIES['floorn'] = gen_floor_nestbat
FAMILIES.update({'floorpf': gen_floor_procfirst, 'floorm': gen_floor_maint, 'floorb': gen_floor_batch, 'floorg': gen_floor_groups,
                 'floorp': gen_floor_pools, 'floors': gen_floor_special, 'floorl': gen_floor_late,
                 'floorr': gen_floor_reentrant, 'floori': gen_floor_idle, 'floorq': gen_floor_budget, 'floorw': gen_floor_rework})


# ------------------------------------------------------------------------ exhaustive enumerations
import itertools

ENVX_SCRIPTS = [
    ['script', '0', 'pause', '-3'],
    ['script', '1', 'unpause', '-3'],
    ['script', '2', 'cancel', '-2'],
    ['script', '3', 'schedrel', '4', '-3', '4', '28'],
    ['script', '3', 'pause', '-2'],
    ['script', '4', 'unpause', '-2'],
]
ENVX_ALPHABET = [
    ['ext', 'sched', '8', '-2', '0', '28'], ['ext', 'sched', '8', '-3', '1', '19'], ['ext', 'sched', '4', '-2', '3', '28'],
    ['ext', 'sched', '8', '-3', '2', '29'], ['ext', 'sched', '0', '-3', '4', '44'],
    ['ext', 'pause', '-2'], ['ext', 'unpause', '-2'], ['ext', 'cancel', '-3'], ['step'], ['run', '4'], ['run', '8'],
]
RMX_SCRIPTS = [['script', '0', 'reserve', '1', '0:1'], ['script', '1', 'release', '0']]
RMX_ALPHABET = [
    ['ext', 'addres', '0', '2'], ['ext', 'addres', '0', '-1'], ['ext', 'addres', '1', '1'], ['ext', 'addres', '7', '-1'],
    ['ext', 'reserve', '0', '0:1;1:1'], ['ext', 'reserve', '1', '0:2'], ['ext', 'reserve', '0', '0:1;1:-1'],
    ['ext', 'release', '0'], ['ext', 'release', '0', '0:1'], ['ext', 'release', '0', '-'], ['ext', 'release', '1', '5:0;0:1'], ['ext', 'merge', '0', '1'],
    ['ext', 'register', '0', '0:1'], ['ext', 'register', '1', '1:1'], ['run', '0'], ['run', '4'],
]


def enum_family(name, bound):
    """all operation sequences up to length `bound` over a fixed alphabet (thorough tier)"""
    scripts, alpha, tail = {
        'envx': (ENVX_SCRIPTS, ENVX_ALPHABET, [['run', '40']]),
        'rmx': (RMX_SCRIPTS, RMX_ALPHABET, [['run', '4']]),
    }[name]
    out = []
    idx = 0
    for n in range(1, bound + 1):
        for seq in itertools.product(alpha, repeat=n):
            L = [['scenario', str(idx)], ['seed', str(idx % 7), str([0, 2, 1000003][idx % 3])]] + scripts
            if name == 'rmx':
                L.append(['res', '0', '1'])
            L += [list(x) for x in seq] + tail + [['end']]
            out.append(L)
            idx += 1
    return out
