"""Per-property orchestration: facts -> lake build -> axiom audit -> correspondence -> monitors
-> failing-input search / shrinking -> evidence.  See DESIGN.md sections 3-6.

Exit codes: 0 property held on everything explored; 1 violation (a `VIOLATION property=.. replay=..`
line is printed); 2 infrastructure failure (never reported as a violation)."""
import argparse
import hashlib
import json
import os
import re
import shutil
import subprocess
import sys
import time

HERE = os.path.dirname(os.path.abspath(__file__))
VERIF = os.path.dirname(HERE)
LEAN = os.path.join(VERIF, 'lean')
sys.path.insert(0, HERE)

import facts      # noqa: E402
import scen       # noqa: E402
import corr       # noqa: E402
import monitors   # noqa: E402
import props      # noqa: E402

ALLOWED_AXIOMS = {'propext', 'Classical.choice', 'Quot.sound'}
FORBIDDEN = ['sorry', 'admit', 'native_decide', 'bv_decide', 'implemented_by', 'unsafe ', 'maxHeartbeats 0']

TRUSTED_BASE = [
    'Lean 4.33.0 kernel (thorough tier: .olean files re-checked with leanchecker)',
    'axioms of every property theorem printed by #print axioms on this run; allowed: propext, Classical.choice, Quot.sound',
    'Lean code generator and runtime for the compiled model driver (spdriver)',
    'harness/: scenario generators, builders, observers, canonicalisation, fact translator (Python)',
    'correspondence model<->/repo is differential testing on generated scenarios, not proof',
    'modelled not verified: CPython, bisect.insort, sorted, dict order, copy, functools.partial, IEEE rounding (times on an exact dyadic grid)',
]


def log(*a):
    print(*a, flush=True)


def strip_comments(src):
    src = re.sub(r'/-.*?-/', '', src, flags=re.S)
    src = re.sub(r'--.*', '', src)
    return src


def theorem_names(path):
    """Fully qualified names of the theorems declared in a Lean file (simple namespace tracking)."""
    with open(path) as f:
        src = strip_comments(f.read())
    ns = []
    out = []
    for line in src.splitlines():
        m = re.match(r'\s*namespace\s+(\S+)', line)
        if m:
            ns.append(m.group(1))
            continue
        m = re.match(r'\s*end\s+(\S+)', line)
        if m and ns and ns[-1] == m.group(1):
            ns.pop()
            continue
        m = re.match(r'\s*(?:protected\s+)?theorem\s+(\S+)', line)
        if m:
            out.append('.'.join(ns + [m.group(1)]))
    return out


def lake_build(targets, timeout=1500):
    t = time.time()
    try:
        p = subprocess.run(['lake', 'build'] + targets, cwd=LEAN, capture_output=True, text=True, timeout=timeout)
    except subprocess.TimeoutExpired:
        return None, 'timeout', time.time() - t
    return p.returncode, p.stdout + p.stderr, time.time() - t


def forbidden_tokens(files):
    hits = []
    for f in files:
        with open(f) as fh:
            src = strip_comments(fh.read())
        for tok in FORBIDDEN:
            if re.search(r'(?<![A-Za-z_.])' + re.escape(tok.strip()) + r'(?![A-Za-z_])', src):
                hits.append((os.path.relpath(f, LEAN), tok.strip()))
        if re.search(r'^\s*axiom\s', src, flags=re.M):
            hits.append((os.path.relpath(f, LEAN), 'axiom'))
    return hits


def lean_files_of(modules):
    """Transitive closure (within the project) of the imports of the given modules."""
    seen, todo = [], list(modules)
    while todo:
        m = todo.pop()
        if m in seen:
            continue
        p = os.path.join(LEAN, *m.split('.')) + '.lean'
        if not os.path.exists(p):
            continue
        seen.append(m)
        with open(p) as f:
            for line in f:
                mm = re.match(r'\s*import\s+(SimProc\.\S+)', line)
                if mm:
                    todo.append(mm.group(1))
    return [os.path.join(LEAN, *m.split('.')) + '.lean' for m in seen]


def audit_axioms(pid, modules, names, scratch):
    """#print axioms for every property theorem.  Returns {name: [axioms] | None (unknown decl)}."""
    path = os.path.join(scratch, f'Audit_{pid}.lean')
    with open(path, 'w') as f:
        for m in modules:
            f.write(f'import {m}\n')
        for n in names:
            f.write(f'#print axioms {n}\n')
    p = subprocess.run(['lake', 'env', 'lean', path], cwd=LEAN, capture_output=True, text=True, timeout=900)
    out = p.stdout + p.stderr
    res = {}
    for n in names:
        m = re.search(r"'" + re.escape(n) + r"' depends on axioms: \[(.*?)\]", out, flags=re.S)
        if m:
            res[n] = [x.strip() for x in m.group(1).replace('\n', ' ').split(',') if x.strip()]
        elif re.search(r"'" + re.escape(n) + r"' does not depend on any axioms", out):
            res[n] = []
        else:
            res[n] = None
    return res, out


def class_imports():
    with open(os.path.join(LEAN, 'Classes.lean')) as f:
        return re.findall(r'^\s*import\s+(SimProc\.\S+)', f.read(), flags=re.M)


def load_known():
    p = os.path.join(VERIF, 'known_findings.json')
    if not os.path.exists(p):
        return []
    with open(p) as f:
        return json.load(f).get('findings', [])


def batcher_nesting_depth_ge_2(text):
    """Shape of the known finding F14: some batcher belongs to a group one of whose paths belongs to another
    group (a batcher at nesting depth >= 2).  Computed from the `asset` lines of a scenario text (a group takes
    two device indices: its input and its output)."""
    kinds, members, path_of = {}, {}, {}
    idx = 0
    for line in text.splitlines():
        t = line.split()
        if len(t) < 3 or t[0] != 'asset':
            continue
        if t[1] == 'dev':
            kinds[idx] = t[2]
            if t[2] == 'gpath':
                for x in t[3:]:
                    if x.startswith('group=') and x[6:].lstrip('-').isdigit():
                        path_of[idx] = int(x[6:])
            idx += 1
        elif t[1] == 'group':
            devs = []
            for x in t[3:]:
                if x.startswith('devs='):
                    devs = [int(y) for y in x[5:].split(',') if y.lstrip('-').isdigit()]
            if t[2].lstrip('-').isdigit():
                members[int(t[2])] = devs
            idx += 2
    for g, devs in members.items():
        if not any(kinds.get(d) == 'batcher' for d in devs):
            continue
        for p, pg in path_of.items():
            if pg == g and any(p in dv for g2, dv in members.items() if g2 != g):
                return True
    return False


def witness_kind(w):
    """The rule a monitor witness comes from: its text without the frame prefix and without numbers, so that shrinking
    keeps a scenario only while the SAME rule still rejects it."""
    body = w.split(':', 1)[1] if w.startswith('frame ') and ':' in w else w
    return re.sub(r'-?\d+(\.\d+)?', '#', body).strip()[:48]


SHAPES = {'batcher_nesting_depth_ge_2': batcher_nesting_depth_ge_2}


def match_known(pid, witness_text, known):
    """A witness is a listed finding only if its text matches the entry's signature AND, when the entry names a
    `shape`, the (shrunk) scenario has that structural shape -- so that a different violation of the same property in
    a scenario that merely contains similar devices is still reported."""
    for k in known:
        if k.get('property') == pid and k.get('status') == 'known':
            if re.search(k['signature'], witness_text) and SHAPES.get(k.get('shape'), lambda _: True)(witness_text):
                return k
    return None


def run_one(text, cfg):
    """impl + model streams of a single scenario (in-process impl)."""
    im = corr._impl_worker((cfg.get('runner', 'FullRunner'), [text]))[0]
    mo = corr.run_model([text], procs=1)[0]
    return im, mo


def eval_scenario(pid, cfg, lines, use_model=True):
    """Returns (witnesses, diff) for one scenario given as token lists."""
    text = scen.to_text(lines)
    im, mo = run_one(text, cfg)
    wit = []
    for m in cfg['monitors']:
        try:
            wit += m(im, lines)
        except Exception as e:
            wit.append(f'monitor-error {m.__name__} {type(e).__name__} {e}')
    d = None
    if use_model:
        d = corr.first_diff(corr.project(im, cfg['tags']), corr.project(mo, cfg['tags']))
    return wit, d, im, mo


def shrink(pid, cfg, lines, pred, budget=150):
    """Greedy line-dropping (ddmin-like) keeping header/footer lines; `pred(lines)` = still failing."""
    keep_kinds = ('scenario', 'seed', 'end')
    cur = list(lines)
    n = 0
    chunk = max(1, len(cur) // 2)
    while chunk >= 1 and n < budget:
        i = 0
        changed = False
        while i < len(cur) and n < budget:
            cand = [l for j, l in enumerate(cur) if not (i <= j < i + chunk and l[0] not in keep_kinds)]
            if len(cand) < len(cur):
                n += 1
                try:
                    ok = pred(cand)
                except Exception:
                    ok = False
                if ok:
                    cur = cand
                    changed = True
                    continue
            i += chunk
        if not changed:
            chunk //= 2
    return cur


CLASS_FLAGS = {
    'C01': ['C01W'], 'C02': ['C02', 'C02W', 'C02W_B'], 'C03': ['C03W_S1', 'C03W_S4', 'C03W_S5', 'C03W_S4R', 'C03W_S5R'],
    'C04': [], 'C05': ['C05W'], 'C06': ['C06W'], 'C07': ['C01W'], 'C08': ['C08W', 'C08S'], 'C09': ['C09W', 'C10W', 'C11W'],
    'C10': ['C10W', 'C10W_Q', 'C11W'], 'C11': ['C11W'], 'C12': ['C12W'], 'C13': ['C06W', 'C12W', 'C13Q'], 'C14': ['C14W'],
    'C15': ['C15W', 'C15W_L', 'C15D'], 'C16': ['C16W', 'C16D'], 'C17': ['C17W', 'C17W_O'], 'C18': ['C18W', 'C18D'], 'C19': ['C19W', 'C19D'],
    'C20': ['C20W'],
}


def class_membership(pid, texts):
    """How many of the scenarios compared with the model START in a world that satisfies the decidable
    hypotheses of the property's closed-world theorems (evaluated by the compiled `spclass`, whose flags are
    proved to mean those hypotheses: lean/Classes.lean, classReport_spec).  For such a scenario the theorem
    applies to the model's run, and the correspondence says the implementation behaved like the model."""
    exe = os.path.join(LEAN, '.lake', 'build', 'bin', 'spclass')
    flags = CLASS_FLAGS.get(pid, [])
    if not flags or not os.path.exists(exe) or not texts:
        return {'flags': flags, 'note': 'C04: every scenario of families serial / serialq is a well-formed serial line (L.WF) by construction; serial_timing speaks about a '
                'constant source budget, the topped-up budgets of serialq are covered by correspondence and the reference monitor only'
                if pid == 'C04' else 'not evaluated'}
    try:
        p = subprocess.run([exe], input=''.join(texts), capture_output=True, text=True, timeout=600)
    except Exception as e:
        return {'flags': flags, 'note': f'spclass failed: {type(e).__name__}'}
    counts = {f: 0 for f in flags}
    evaluated = skipped = with_extops = 0
    for line in p.stdout.splitlines():
        t = line.split()
        if len(t) < 3 or t[0] != 'class':
            continue
        if t[2] == 'skipped':
            skipped += 1
            continue
        evaluated += 1
        kv = dict(x.split('=', 1) for x in t[2:] if '=' in x)
        if kv.get('extops', '0') != '0':
            with_extops += 1
        for f in flags:
            if kv.get(f) == '1':
                counts[f] += 1
    return {'scenarios_evaluated': evaluated, 'skipped_lifecycle_or_decimal': skipped,
            'inside_class': counts, 'scenarios_with_outside_operations_between_events': with_extops,
            'meaning': 'initial world satisfies the hypotheses of the named closed-world theorem family (lean/Classes.lean)'}


def write_replay(pid, payload):
    d = os.path.join(VERIF, 'evidence', 'replay')
    os.makedirs(d, exist_ok=True)
    h = hashlib.sha1(json.dumps(payload, sort_keys=True).encode()).hexdigest()[:10]
    path = os.path.join(d, f'{pid}-{h}.json')
    payload['replay_cmd'] = f'./check {pid} --replay evidence/replay/{pid}-{h}.json'
    with open(path, 'w') as f:
        json.dump(payload, f, indent=1)
    return os.path.relpath(path, VERIF)


def do_replay(pid, cfg, path):
    with open(path) as f:
        r = json.load(f)
    if 'scenario' not in r:
        log(f'replay {path}: no scenario recorded ({r.get("kind")}): re-run ./check {pid} --tier quick')
        return 2
    lines = [l.split() for l in r['scenario'].splitlines() if l.strip()]
    # scenarios of implementation-only families (and decimal-time ones) contain lines the model's driver does not
    # read: they are judged by the monitors alone, as in the check that produced them
    impl_only = r.get('family') in [f for f, _, _ in cfg.get('impl_only_families', [])]
    wit, d, im, mo = eval_scenario(pid, cfg, lines, use_model=not impl_only and not any(l[0] == 'tick' for l in lines))
    log('scenario:')
    log(r['scenario'])
    log('monitor witnesses on the implementation trace:', json.dumps(wit, indent=1))
    log('first difference implementation/model under the projection:', d)
    if wit or d:
        log(f'VIOLATION property={pid} replay={path}')
        return 1
    log('replay: no longer failing')
    return 0


def main():
    ap = argparse.ArgumentParser()
    ap.add_argument('pid')
    ap.add_argument('--tier', default=os.environ.get('VERIF_TIER', 'quick'))
    ap.add_argument('--replay')
    args = ap.parse_args()
    pid = args.pid
    if pid not in props.PROPS:
        log(f'unknown property {pid}')
        return 2
    cfg = props.PROPS[pid]
    tier = 'thorough' if args.tier == 'thorough' else 'quick'
    try:
        seed = int(os.environ.get('VERIF_SEED', '0'))
    except ValueError:
        seed = 0
    if args.replay:
        return do_replay(pid, cfg, args.replay)

    t0 = time.time()
    scratch = os.path.join(VERIF, '.scratch', f'{pid}-{os.getpid()}')
    os.makedirs(scratch, exist_ok=True)
    # runs against another tree (SIMPROCESD_REPO, used when evaluating seeded changes) must not overwrite the
    # evidence of the tree under verification
    alt = os.environ.get('SIMPROCESD_REPO', '/repo').rstrip('/') != '/repo'
    evidence_path = os.path.join(VERIF, 'evidence', 'other-tree' if alt else '', f'{pid}.json')
    os.makedirs(os.path.dirname(evidence_path), exist_ok=True)
    violations = []       # (replay path, suffix)
    known_lines = []
    notes = []
    known = load_known()
    try:
        # 1. regenerate the facts from /repo's current sources
        facts.write()
        # 2. build the property's proof modules and the model driver
        rc, out, bt = lake_build(['spdriver'])
        if rc is None or rc != 0:
            log('infrastructure: model driver does not build\n' + str(out)[-3000:])
            return 2
        # the class reporter imports the closed-world theorem files of ALL properties: on a tree where another
        # property's obligation is broken it does not build; that is not this property's failure
        rcc, outc, btc = lake_build(['spclass'])
        spclass_ok = rcc == 0
        bt += btc
        if not spclass_ok:
            log('note: spclass (class membership reporter) does not build on this tree; membership is not evaluated')
        modules = cfg['modules']
        rc, out, bt2 = lake_build(modules)
        if rc is None:
            log('infrastructure: lake build timed out')
            return 2
        proof_broken = None
        if rc != 0:
            failing = re.findall(r'error: (\S+\.lean:\d+:\d+): (.*)', out)
            proof_broken = {'output': out[-4000:], 'errors': failing[:10]}
            log('proof obligations no longer check:', failing[:5])
        # 3. audit
        names = []
        for pf in cfg['prop_files']:
            names += theorem_names(os.path.join(LEAN, pf))
        names = [n for n in names if cfg.get('theorem_filter', lambda n: True)(n)]
        axioms = {}
        audit_fail = []
        class_names = theorem_names(os.path.join(LEAN, 'Classes.lean')) if (spclass_ok and CLASS_FLAGS.get(pid)) else []
        if not proof_broken:
            axioms, aout = audit_axioms(pid, modules + (['Classes'] if class_names else []), names + class_names, scratch)
            for n, ax in axioms.items():
                if ax is None:
                    audit_fail.append((n, 'not found'))
                elif not set(ax) <= ALLOWED_AXIOMS:
                    audit_fail.append((n, ax))
            hits = forbidden_tokens(lean_files_of(modules) + ([os.path.join(LEAN, 'Classes.lean')] + lean_files_of(class_imports())
                                                              if class_names else []))
            if hits:
                audit_fail.append(('forbidden tokens', hits))
            if audit_fail:
                log('infrastructure: audit failed', audit_fail)
                return 2
        discharged = 0 if proof_broken else sum(1 for n in names if axioms.get(n) is not None)

        # 4. scenarios: corpus first, then generated
        fam_stats = {}
        all_scen = []    # (family, lines)
        for fam, nq, nt in cfg['families']:
            n = nt if tier == 'thorough' else nq
            cdir = os.path.join(HERE, 'corpus', fam)
            if os.path.isdir(cdir):
                for fn in sorted(os.listdir(cdir)):
                    with open(os.path.join(cdir, fn)) as f:
                        all_scen.append((fam, [l.split() for l in f.read().splitlines() if l.strip()]))
            kw = cfg.get('gen_kw', {}).get(fam, {})
            for s in scen.generate(fam, f'{seed}-{tier}', n, **kw):
                all_scen.append((fam, s))
        exhaustive_info = None
        if tier == 'thorough' and cfg.get('exhaustive'):
            for fam, bound in cfg['exhaustive']:
                ex = scen.enum_family(fam, bound)
                all_scen += [(fam, s) for s in ex]
                exhaustive_info = {'family': fam, 'length_bound': bound, 'sequences': len(ex)}
        texts = [scen.to_text(s) for _, s in all_scen]
        im, mo, diffs = corr.compare(texts, cfg['tags'], cfg.get('runner', 'FullRunner'))
        n_model = len(texts)
        # implementation-only families (e.g. non-dyadic times): monitors only, no model comparison
        for fam, nq, nt in cfg.get('impl_only_families', []):
            n = nt if tier == 'thorough' else nq
            extra = [(fam, s) for s in scen.generate(fam, f'{seed}-{tier}', n)]
            cdir = os.path.join(HERE, 'corpus', fam)
            if os.path.isdir(cdir):
                for fn in sorted(os.listdir(cdir)):
                    with open(os.path.join(cdir, fn)) as f:
                        extra.insert(0, (fam, [l.split() for l in f.read().splitlines() if l.strip()]))
            etexts = [scen.to_text(s) for _, s in extra]
            im += corr.run_impl(etexts, cfg.get('runner', 'FullRunner'))
            mo += [[] for _ in etexts]
            all_scen += extra
            texts += etexts

        # 5. monitors on the implementation traces
        mon_hits = []
        nontrivial = set()
        for i, ((fam, s), st) in enumerate(zip(all_scen, im)):
            w = []
            for m in cfg['monitors']:
                try:
                    w += m(st, s)
                except Exception as e:
                    w.append(f'monitor-error {m.__name__} {type(e).__name__} {e}')
            if w:
                mon_hits.append((i, w))
            if cfg['nontrivial'](st, s):
                nontrivial.add(hashlib.sha1(texts[i].encode()).hexdigest())
        harness_err = [i for i, st in enumerate(im) if any(l.startswith('harness-error') for l in st)]
        model_err = [i for i, st in enumerate(mo) if any(l.startswith('model-error') for l in st)]

        # 6. classification, failing-input search, shrinking
        reported = set()

        def report_monitor(i, w):
            fam, s = all_scen[i]

            def pred(c):
                ww, _, _, _ = eval_scenario(pid, cfg, c, use_model=False)
                return any(witness_kind(x) == witness_kind(w[0]) for x in ww)
            small = shrink(pid, cfg, s, pred)
            ww, d, _, _ = eval_scenario(pid, cfg, small, use_model=fam not in [f for f, _, _ in cfg.get('impl_only_families', [])]
                                        and not any(l[0] == 'tick' for l in small))
            text = json.dumps(ww) + '\n' + scen.to_text(small)
            k = match_known(pid, text, known)
            if k:
                known_lines.append(f'KNOWN-FINDING: property={pid} {k["what"]}')
                return
            path = write_replay(pid, {'property': pid, 'kind': 'monitor', 'family': fam, 'seed': seed,
                                      'scenario': scen.to_text(small), 'witness': ww, 'first_diff': d})
            violations.append((path, ''))

        for i, w in mon_hits[:5]:
            report_monitor(i, w)
        if (diffs or proof_broken) and not violations:
            # correspondence or proof broken: search for a failing input with the monitors
            # (monitor hits so far, if any, were all known findings: they do not explain the break)
            found = False
            if not found:
                extra = []
                for fam, nq, nt in cfg['families']:
                    if nq == 0 and nt == 0:
                        continue          # corpus-only family
                    kw = cfg.get('gen_kw', {}).get(fam, {})
                    extra += [(fam, s) for s in scen.generate(fam, f'{seed}-search', max(nq, 200), **kw)]
                etexts = [scen.to_text(s) for _, s in extra]
                eim = corr.run_impl(etexts, cfg.get('runner', 'FullRunner'))
                for (fam, s), st in zip(extra, eim):
                    w = []
                    for m in cfg['monitors']:
                        try:
                            w += m(st, s)
                        except Exception as e:
                            w.append(f'monitor-error {m.__name__} {e}')
                    if w:
                        all_scen.append((fam, s))
                        report_monitor(len(all_scen) - 1, w)
                        found = bool(violations)
                        if found:
                            break
            if not found and not violations:
                if diffs and cfg.get('divergence_is_witness'):
                    # the property determines this projection: a divergence is itself the failing input
                    i, ln, a, b = diffs[0]
                    fam, s = all_scen[i]

                    def predd(c):
                        _, d, _, _ = eval_scenario(pid, cfg, c)
                        return d is not None
                    small = shrink(pid, cfg, s, predd)
                    _, d, _, _ = eval_scenario(pid, cfg, small)
                    text = json.dumps(d)
                    k = match_known(pid, text + '\n' + scen.to_text(small), known)
                    if k:
                        known_lines.append(f'KNOWN-FINDING: property={pid} {k["what"]}')
                    else:
                        path = write_replay(pid, {
                            'property': pid, 'kind': 'correspondence', 'family': fam, 'seed': seed,
                            'scenario': scen.to_text(small),
                            'first_diff': {'line': d[0], 'implementation': d[1], 'model (proved to meet the property)': d[2]} if d else None,
                            'explanation': cfg.get('divergence_text', '')})
                        violations.append((path, ''))
                elif diffs:
                    i, ln, a, b = diffs[0]
                    fam, s = all_scen[i]
                    path = write_replay(pid, {
                        'property': pid, 'kind': 'correspondence-no-input', 'family': fam, 'seed': seed,
                        'scenario': texts[i] if i < len(texts) else scen.to_text(s),
                        'broken': f'correspondence family {fam} under the projection of {pid}',
                        'first_diff': {'line': ln, 'implementation': a, 'model': b}})
                    violations.append((path, ' no-failing-input-found'))
                else:
                    path = write_replay(pid, {
                        'property': pid, 'kind': 'proof', 'seed': seed,
                        'broken': 'proof obligation(s) over the facts regenerated from /repo no longer check',
                        'errors': proof_broken['errors'], 'output': proof_broken['output'][-1500:]})
                    violations.append((path, ' no-failing-input-found'))
        if harness_err and not violations:
            # the observer itself failed (e.g. a renamed private field): treated like a broken correspondence
            i = harness_err[0]
            path = write_replay(pid, {'property': pid, 'kind': 'observer', 'seed': seed, 'scenario': texts[i],
                                      'broken': 'harness observer failed on the implementation',
                                      'lines': [l for l in im[i] if l.startswith('harness-error')][:5]})
            violations.append((path, ' no-failing-input-found'))

        # 6b. property-specific extra checks on the real code (e.g. C14 metamorphic runs)
        extra_stats = None
        if cfg.get('extra') and not violations:
            n_extra, ewit, extra_stats = cfg['extra'](seed, tier)
            for wv in ewit[:3]:
                path = write_replay(pid, dict({'property': pid, 'seed': seed}, **wv))
                violations.append((path, ''))

        # 7. thorough extras
        extra_cov = {}
        if tier == 'thorough' and not proof_broken:
            t1 = time.time()
            try:
                p = subprocess.run(['lake', 'env', 'leanchecker'] + modules, cwd=LEAN, capture_output=True,
                                   text=True, timeout=1500)
                extra_cov['leanchecker'] = {'rc': p.returncode, 'wall_s': round(time.time() - t1, 1),
                                            'tail': (p.stdout + p.stderr)[-300:]}
                if p.returncode != 0:
                    log('infrastructure: leanchecker failed', (p.stdout + p.stderr)[-1000:])
                    return 2
            except subprocess.TimeoutExpired:
                log('infrastructure: leanchecker timed out')
                return 2

        # 8. evidence
        for fam, s in all_scen:
            fam_stats[fam] = fam_stats.get(fam, 0) + 1
        sample_i = 0
        cov = {
            'obligations': len(names),
            'discharged': discharged,
            'checker_cmd': 'cd lean && lake build ' + ' '.join(modules) + ' && lake env lean <audit file with #print axioms for every theorem>',
            'trusted_base': TRUSTED_BASE + cfg.get('trusted_extra', []),
            'theorems': {n: axioms.get(n) for n in names},
            'partial_theorems': cfg.get('partial', []),
            'traces_validated_against_impl': n_model - len(diffs),
            'implementation_only_traces': len(texts) - n_model,
            'evaluations': len(texts),
            'distinct_nontrivial': len(nontrivial),
            'rule': cfg['rule'],
            'scenarios_per_family': fam_stats,
            'correspondence_differences': len(diffs),
            'monitor_rejections': len(mon_hits),
            'model_errors': len(model_err),
            'projection_tags': sorted(cfg['tags'].keys()),
            'samples': [{'scenario': texts[sample_i].splitlines()[:40],
                         'implementation_trace_head': im[sample_i][:25]}] if texts else [],
            'exhaustive': exhaustive_info is not None,
            'exhaustive_part': exhaustive_info,
            'build_s': round(bt + bt2, 1),
        }
        cov['proved_class_membership'] = (class_membership(pid, texts[:n_model]) if spclass_ok else
                                          {'flags': CLASS_FLAGS.get(pid, []), 'note': 'spclass does not build on this tree'})
        if class_names:
            cov['proved_class_membership']['class_report_theorems_audited'] = {
                'file': 'lean/Classes.lean', 'count': sum(1 for n in class_names if axioms.get(n) is not None)}
        cov.update(extra_cov)
        if extra_stats is not None:
            cov['extra_checks'] = extra_stats
        if cfg.get('stats'):
            cov['distribution'] = cfg['stats']([s for _, s in all_scen], im)
        ev = {'property_id': pid, 'tier': tier, 'seed': seed, 'level': 'proof', 'coverage': cov,
              'assumptions': cfg.get('assumptions', []), 'wall_s': round(time.time() - t0, 2),
              'violations': len(violations), 'known_findings_reported': known_lines}
        with open(evidence_path, 'w') as f:
            json.dump(ev, f, indent=1)
        for l in sorted(set(known_lines)):
            log(l)
        if violations:
            for path, suffix in violations:
                log(f'VIOLATION property={pid} replay={path}{suffix}')
            return 1
        log(f'{pid} {tier}: {discharged}/{len(names)} theorems checked, {len(texts)} scenarios, '
            f'{len(diffs)} differences, {len(mon_hits)} monitor rejections, {round(time.time() - t0, 1)} s')
        return 0
    finally:
        shutil.rmtree(scratch, ignore_errors=True)


if __name__ == '__main__':
    try:
        sys.exit(main())
    except subprocess.TimeoutExpired:
        log('infrastructure: timeout')
        sys.exit(2)
