"""Per-property configuration: proof modules, scenario families, projection, monitors."""
import monitors as M

ENV_TAGS = {'ev': None, 'now': None, 'res': None, 'ran': None, 'runbegin': None}


def env_nontrivial(stream, scen):
    """equal-time events with different priorities executed, or a pause at a non-zero time."""
    evs = [l.split() for l in stream if l.startswith('ev ')]
    same_time = any(a[1] == b[1] and a[2] != b[2] for a, b in zip(evs, evs[1:]))
    paused = any(l.startswith('z ') and l != 'z -' for l in stream)
    return same_time or paused


def env_stats(scens, streams):
    ops = {}
    for s in scens:
        for l in s:
            k = l[0] if l[0] not in ('script', 'ext') else l[0] + ':' + l[2 if l[0] == 'script' else 1]
            ops[k] = ops.get(k, 0) + 1
    evs = sum(1 for st in streams for l in st if l.startswith('ev '))
    rej = sum(1 for st in streams for l in st if l == 'res err ValueError')
    canc = sum(1 for st in streams for l in st if l.startswith('ev ') and l.endswith('cancelled'))
    return {'ops': ops, 'executed_events': evs, 'rejected_past_requests': rej, 'cancelled_events_popped': canc}


PROPS = {
    'C01': dict(
        modules=['SimProc.Props.C01', 'SimProc.Props.Facts'],
        prop_files=['SimProc/Props/C01.lean', 'SimProc/Props/Facts.lean'],
        families=[('env', 300, 6000)],
        impl_only_families=[('envdec', 150, 3000)],
        tags=ENV_TAGS,
        monitors=M.MONITORS['C01'],
        nontrivial=env_nontrivial,
        stats=env_stats,
        divergence_is_witness=False,
        rule='random schedule/pause/unpause/cancel/step/run sequences issued from outside and from inside '
             'event actions over 2-4 asset ids (family env); non-trivial = a scenario in which two events due at '
             'the same instant with different priorities were executed or an event was paused; distinct by scenario text',
        assumptions=['priorities of user events above TERMINATE; no pause/cancel of the internal asset id -1',
                     'times on the dyadic grid k/16 (exact float arithmetic)'],
    ),
    'C07': dict(
        modules=['SimProc.Props.C07'],
        prop_files=['SimProc/Props/C07.lean'],
        families=[('env', 300, 6000)],
        impl_only_families=[('envdec', 150, 3000)],
        tags=ENV_TAGS,
        monitors=M.MONITORS['C07'],
        nontrivial=lambda st, s: any(l.startswith('z ') and l != 'z -' for l in st),
        stats=env_stats,
        divergence_is_witness=True,
        divergence_text='C07 fixes when each event fires (original time plus pause length; cancelled never); the '
                        'model is proved to do exactly that, so a different executed-event stream is a failing input',
        rule='family env; non-trivial = at least one event was paused during the scenario; distinct by scenario text',
        assumptions=['times on the dyadic grid k/16 (exact float arithmetic)'],
    ),
}
