"""Per-property configuration: proof modules, scenario families, projection, monitors."""
import monitors as M

ENV_TAGS = {'ev': None, 'now': None, 'res': None, 'ran': None, 'runbegin': None}


def env_nontrivial(stream, scen):
    """equal-time events with different priorities executed, or a pause at a non-zero time."""
    evs = [l.split() for l in stream if l.startswith('ev ')]
    same_time = any(a[1] == b[1] and a[2] != b[2] for a, b in zip(evs, evs[1:]))
    paused = any(l.startswith('z ') and l != 'z -' for l in stream)
    return same_time or paused


def env_stats(scens, streams):
    ops = {}
    for s in scens:
        for l in s:
            k = l[0] if l[0] not in ('script', 'ext') else l[0] + ':' + l[2 if l[0] == 'script' else 1]
            ops[k] = ops.get(k, 0) + 1
    evs = sum(1 for st in streams for l in st if l.startswith('ev '))
    rej = sum(1 for st in streams for l in st if l == 'res err ValueError')
    canc = sum(1 for st in streams for l in st if l.startswith('ev ') and l.endswith('cancelled'))
    return {'ops': ops, 'executed_events': evs, 'rejected_past_requests': rej, 'cancelled_events_popped': canc}


PROPS = {
    'C01': dict(
        modules=['SimProc.Props.C01', 'SimProc.Props.Facts'],
        prop_files=['SimProc/Props/C01.lean', 'SimProc/Props/Facts.lean'],
        families=[('env', 300, 6000)],
        impl_only_families=[('envdec', 150, 3000)],
        tags=ENV_TAGS,
        monitors=M.MONITORS['C01'],
        nontrivial=env_nontrivial,
        stats=env_stats,
        divergence_is_witness=False,
        rule='random schedule/pause/unpause/cancel/step/run sequences issued from outside and from inside '
             'event actions over 2-4 asset ids (family env); non-trivial = a scenario in which two events due at '
             'the same instant with different priorities were executed or an event was paused; distinct by scenario text',
        assumptions=['priorities of user events above TERMINATE; no pause/cancel of the internal asset id -1',
                     'times on the dyadic grid k/16 (exact float arithmetic)'],
    ),
    'C07': dict(
        modules=['SimProc.Props.C07'],
        prop_files=['SimProc/Props/C07.lean'],
        families=[('env', 300, 6000)],
        impl_only_families=[('envdec', 150, 3000)],
        tags=ENV_TAGS,
        monitors=M.MONITORS['C07'],
        nontrivial=lambda st, s: any(l.startswith('z ') and l != 'z -' for l in st),
        stats=env_stats,
        divergence_is_witness=True,
        divergence_text='C07 fixes when each event fires (original time plus pause length; cancelled never); the '
                        'model is proved to do exactly that, so a different executed-event stream is a failing input',
        rule='family env; non-trivial = at least one event was paused during the scenario; distinct by scenario text',
        assumptions=['times on the dyadic grid k/16 (exact float arithmetic)'],
    ),
}


def tags(*names):
    return {n: None for n in names}


BASE = ('ev', 'now', 'res', 'ran', 'runbegin')


def has(prefixes):
    def f(st, s):
        return any(l.startswith(prefixes) for l in st)
    return f


def op_stats(scens, streams):
    ops = {}
    for s in scens:
        for l in s:
            k = l[0] if l[0] not in ('script', 'ext') else l[0] + ':' + l[2 if l[0] == 'script' else 1]
            ops[k] = ops.get(k, 0) + 1
    res = {}
    for st in streams:
        for l in st:
            if l.startswith('res '):
                k = ' '.join(l.split()[:3]) if l.startswith('res err') else ' '.join(l.split()[:2])
                res[k] = res.get(k, 0) + 1
    return {'ops': ops, 'results': res, 'executed_events': sum(1 for st in streams for l in st if l.startswith('ev '))}


PROPS['C09'] = dict(
    modules=['SimProc.Props.C09'], prop_files=['SimProc/Props/C09.lean'],
    families=[('rm', 400, 8000)],
    tags=tags(*BASE, 'r', 'h', 'hsum', 'rec'),
    monitors=M.MONITORS['C09'],
    nontrivial=has(('res err', 'res ret none')),
    stats=op_stats, divergence_is_witness=True,
    divergence_text='C09 fixes pools, holdings and results of every operation; the model is proved to meet it',
    rule='family rm: random add/reserve/release/merge/register sequences (zero, negative, unknown entries; before and '
         'after initialisation; callbacks that reserve/release/register); non-trivial = a scenario with at least one '
         'refused or failing operation; distinct by scenario text',
    assumptions=['request dictionaries have distinct keys; merge is given two distinct reservations',
                 'amounts are integers (no float rounding)'],
)
PROPS['C10'] = dict(
    modules=['SimProc.Props.C10', 'SimProc.Props.Facts'], prop_files=['SimProc/Props/C10.lean'],
    families=[('rm', 400, 8000)],
    tags=tags(*BASE, 'wq', 'r'),
    monitors=M.MONITORS['C10'],
    nontrivial=has(('res cb',)),
    stats=op_stats, divergence_is_witness=True,
    divergence_text='C10 fixes which callbacks run, when and in which order; the model is proved to meet it',
    rule='family rm; non-trivial = at least one waiting request was called back; distinct by scenario text',
    assumptions=['callbacks act on the manager through its API only'],
)
PROPS['C12'] = dict(
    modules=['SimProc.Props.C12'], prop_files=['SimProc/Props/C12.lean'],
    families=[('maint', 300, 6000)],
    tags=tags(*BASE, 'm', 'rec'),
    monitors=M.MONITORS['C12'],
    nontrivial=has(('rec start_work_order',)),
    stats=op_stats, divergence_is_witness=True,
    divergence_text='C12 fixes acceptance, start order, durations, hooks and costs; the model is proved to meet the '
                    'bookkeeping part and mirrors the event glue',
    rule='family maint: random request streams over fake Maintainable targets (duplicates, bursts, needed 0 / above '
         'total, duration 0, requests from inside hooks); non-trivial = at least one order started; distinct by text',
    assumptions=['needed capacities >= 0', 'only the maintainer\'s own events carry its asset id'],
    partial=['duration_exact / hooks_once: the event glue (World.startWork/finishWork) is mirrored and checked by '
             'correspondence and monitor, not stated as a theorem'],
)
PROPS['C18'] = dict(
    modules=['SimProc.Props.C18'], prop_files=['SimProc/Props/C18.lean'],
    families=[('sched', 300, 6000)],
    tags=tags(*BASE, 's', 'rec'),
    monitors=M.MONITORS['C18'],
    nontrivial=has(('res act',)),
    stats=op_stats, divergence_is_witness=True,
    divergence_text='C18 fixes every transition time, state and action call; the model is proved to meet it',
    rule='family sched: random timetables (repeated states, zero durations), cyclical / not / defaulted, '
         'register/unregister before and during the run; non-trivial = at least one action was invoked',
    assumptions=['actions do not (un)register objects on the scheduler they run under', 'exact time arithmetic'],
)
PROPS['C19'] = dict(
    modules=['SimProc.Props.C19'], prop_files=['SimProc/Props/C19.lean'],
    families=[('sensor', 300, 6000)],
    tags=tags(*BASE, 'n'),
    monitors=M.MONITORS['C19'],
    nontrivial=has(('res sense',)),
    stats=op_stats, divergence_is_witness=True,
    divergence_text='C19 fixes measurement times, stored series and callback calls; the model is proved to meet it',
    rule='family sensor: periodic sensors (intervals, capacities, 1-3 probes over changing variables, callbacks), cms '
         'with duplicate add_sensor; output-part sensors are exercised by the floor family; non-trivial = a callback ran',
    assumptions=['exact time arithmetic', 'integer data capacity'],
)
