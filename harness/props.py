"""Per-property configuration: proof modules, scenario families, projection, monitors."""
import monitors as M

ENV_TAGS = {'ev': None, 'now': None, 'res': None, 'ran': None, 'runbegin': None}


def env_nontrivial(stream, scen):
    """equal-time events with different priorities executed, or a pause at a non-zero time."""
    evs = [l.split() for l in stream if l.startswith('ev ')]
    same_time = any(a[1] == b[1] and a[2] != b[2] for a, b in zip(evs, evs[1:]))
    paused = any(l.startswith('z ') and l != 'z -' for l in stream)
    return same_time or paused


def env_stats(scens, streams):
    ops = {}
    for s in scens:
        for l in s:
            k = l[0] if l[0] not in ('script', 'ext') else l[0] + ':' + l[2 if l[0] == 'script' else 1]
            ops[k] = ops.get(k, 0) + 1
    evs = sum(1 for st in streams for l in st if l.startswith('ev '))
    rej = sum(1 for st in streams for l in st if l == 'res err ValueError')
    canc = sum(1 for st in streams for l in st if l.startswith('ev ') and l.endswith('cancelled'))
    return {'ops': ops, 'executed_events': evs, 'rejected_past_requests': rej, 'cancelled_events_popped': canc}


PROPS = {
    'C01': dict(
        modules=['SimProc.Props.C01', 'SimProc.Props.Facts', 'SimProc.Props.C01W'],
        prop_files=['SimProc/Props/C01.lean', 'SimProc/Props/Facts.lean', 'SimProc/Props/C01W.lean'],
        # whole simulations too: C01W lifts the queue theorems to every reachable world
        families=[('env', 300, 6000), ('floor', 40, 800), ('floorm', 40, 800)],
        impl_only_families=[('envdec', 150, 3000)],
        tags=ENV_TAGS,
        monitors=M.MONITORS['C01'],
        nontrivial=env_nontrivial,
        stats=env_stats,
        divergence_is_witness=False,
        rule='random schedule/pause/unpause/cancel/step/run sequences issued from outside and from inside '
             'event actions over 2-4 asset ids (family env); non-trivial = a scenario in which two events due at '
             'the same instant with different priorities were executed or an event was paused; distinct by scenario text',
        assumptions=['priorities of user events above TERMINATE; no pause/cancel of the internal asset id -1',
                     'times on the dyadic grid k/16 (exact float arithmetic)'],
    ),
    'C07': dict(
        modules=['SimProc.Props.C07', 'SimProc.Props.C07R', 'SimProc.Props.C01W'],
        prop_files=['SimProc/Props/C07.lean', 'SimProc/Props/C07R.lean', 'SimProc/Props/C01W.lean'],
        # machines that are shut down / restored / fail pause, resume and cancel their own events
        families=[('env', 300, 6000), ('floorm', 60, 1200), ('floorpf', 20, 400)],
        impl_only_families=[('envdec', 150, 3000)],
        tags=ENV_TAGS,
        monitors=M.MONITORS['C07'],
        nontrivial=lambda st, s: any(l.startswith('z ') and l != 'z -' for l in st),
        stats=env_stats,
        divergence_is_witness=True,
        divergence_text='C07 fixes when each event fires (original time plus pause length; cancelled never); the '
                        'model is proved to do exactly that, so a different executed-event stream is a failing input',
        rule='family env; non-trivial = at least one event was paused during the scenario; distinct by scenario text',
        assumptions=['times on the dyadic grid k/16 (exact float arithmetic)'],
    ),
}


def tags(*names):
    return {n: None for n in names}


BASE = ('ev', 'now', 'res', 'ran', 'runbegin')


def has(prefixes):
    def f(st, s):
        return any(l.startswith(prefixes) for l in st)
    return f


def op_stats(scens, streams):
    ops = {}
    for s in scens:
        for l in s:
            k = l[0] if l[0] not in ('script', 'ext') else l[0] + ':' + l[2 if l[0] == 'script' else 1]
            ops[k] = ops.get(k, 0) + 1
    res = {}
    for st in streams:
        for l in st:
            if l.startswith('res '):
                k = ' '.join(l.split()[:3]) if l.startswith('res err') else ' '.join(l.split()[:2])
                res[k] = res.get(k, 0) + 1
    return {'ops': ops, 'results': res, 'executed_events': sum(1 for st in streams for l in st if l.startswith('ev '))}


PROPS['C01']['exhaustive'] = [('envx', 4)]
PROPS['C07']['exhaustive'] = [('envx', 4)]
PROPS['C09'] = dict(
    exhaustive=[('rmx', 4)],
    modules=['SimProc.Props.C09', 'SimProc.Props.C11W', 'SimProc.Props.C09W'], prop_files=['SimProc/Props/C09.lean', 'SimProc/Props/C11W.lean', 'SimProc/Props/C09W.lean'],
    families=[('rm', 400, 8000)],
    tags=tags(*BASE, 'r', 'h', 'hsum', 'rec'),
    monitors=M.MONITORS['C09'],
    nontrivial=has(('res err', 'res ret none')),
    stats=op_stats, divergence_is_witness=True,
    divergence_text='C09 fixes pools, holdings and results of every operation; the model is proved to meet it',
    rule='family rm: random add/reserve/release/merge/register sequences (zero, negative, unknown entries; before and '
         'after initialisation; callbacks that reserve/release/register); non-trivial = a scenario with at least one '
         'refused or failing operation; distinct by scenario text',
    assumptions=['request dictionaries have distinct keys (WFOp); merging a reservation with itself is a no-op (F11)',
                 'amounts are integers (no float rounding)'],
)
PROPS['C10'] = dict(
    exhaustive=[('rmx', 4)],
    modules=['SimProc.Props.C10', 'SimProc.Props.Facts', 'SimProc.Props.C11W', 'SimProc.Props.C10W'], prop_files=['SimProc/Props/C10.lean', 'SimProc/Props/C11W.lean', 'SimProc/Props/C10W.lean'],
    families=[('rm', 400, 8000)],
    tags=tags(*BASE, 'wq', 'r'),
    monitors=M.MONITORS['C10'],
    nontrivial=has(('res cb',)),
    stats=op_stats, divergence_is_witness=True,
    divergence_text='C10 fixes which callbacks run, when and in which order; the model is proved to meet it',
    rule='family rm; non-trivial = at least one waiting request was called back; distinct by scenario text',
    assumptions=['callbacks act on the manager through its API only'],
)
PROPS['C12'] = dict(
    modules=['SimProc.Props.C12', 'SimProc.Props.C12W'], prop_files=['SimProc/Props/C12.lean', 'SimProc/Props/C12W.lean'],
    families=[('maint', 300, 6000)],
    tags=tags(*BASE, 'm', 'rec'),
    monitors=M.MONITORS['C12'],
    nontrivial=has(('rec start_work_order',)),
    stats=op_stats, divergence_is_witness=True,
    divergence_text='C12 fixes acceptance, start order, durations, hooks and costs; the model is proved to meet it '
                    '(C12.lean: bookkeeping for every operation sequence; C12W.lean: exact_duration, hookLog_reachable, '
                    'hook_counts, nothing_startable_reachable in every reachable world)',
    rule='family maint: random request streams over fake Maintainable targets (duplicates, bursts, needed 0 / above '
         'total, duration 0, requests from inside hooks); non-trivial = at least one order started; distinct by text',
    assumptions=['needed capacities >= 0', 'only the maintainer\'s own events carry its asset id'],
)
import c12 as _c12
PROPS['C12']['extra'] = _c12.prestart_orders
PROPS['C18'] = dict(
    modules=['SimProc.Props.C18', 'SimProc.Props.C18W', 'SimProc.Props.C18D'], prop_files=['SimProc/Props/C18.lean', 'SimProc/Props/C18W.lean', 'SimProc/Props/C18D.lean'],
    # sys: schedulers constructed while the simulation runs (timetable anchored at the construction time)
    families=[('sched', 300, 6000), ('sys', 80, 1500)],
    tags=tags(*BASE, 's', 'rec'),
    monitors=M.MONITORS['C18'],
    nontrivial=has(('res act',)),
    stats=op_stats, divergence_is_witness=True,
    divergence_text='C18 fixes every transition time, state and action call; the model is proved to meet it',
    rule='family sched: random timetables (repeated states, zero durations), cyclical / not / defaulted, '
         'register/unregister before and during the run; non-trivial = at least one action was invoked',
    assumptions=['actions do not (un)register objects on the scheduler they run under', 'exact time arithmetic'],
)
PROPS['C19'] = dict(
    modules=['SimProc.Props.C19', 'SimProc.Props.C19W', 'SimProc.Props.C18W', 'SimProc.Props.C19D'], prop_files=['SimProc/Props/C19.lean', 'SimProc/Props/C19W.lean', 'SimProc/Props/C18W.lean', 'SimProc/Props/C19D.lean'],
    # sys: sensors constructed while the simulation runs (first sample one interval after construction)
    families=[('sensor', 300, 6000), ('sys', 80, 1500)], impl_only_families=[('sensordec', 150, 3000)],
    tags=tags(*BASE, 'n'),
    monitors=M.MONITORS['C19'],
    nontrivial=has(('res sense',)),
    stats=op_stats, divergence_is_witness=True,
    divergence_text='C19 fixes measurement times, stored series and callback calls; the model is proved to meet it',
    rule='family sensor: periodic sensors (intervals, capacities, 1-3 probes over changing variables, callbacks), cms '
         'with duplicate add_sensor; output-part sensors are exercised by the floor family; non-trivial = a callback ran',
    assumptions=['exact time arithmetic', 'integer data capacity'],
)

import corr as _c

FLOOR_RULE = ('families floor / floorc: random topologies (sources, handlers, processors, buffers, gates, batchers, '
              'shared groups with several paths, sinks; fan-in/out; zero and positive cycle times; capacities; batches; '
              'resource pools) with scripted failures, work orders, shutdown/restore, input blocking, capacity and budget '
              'changes, cycle-time changes and callbacks; ')


def floor_stats(scens, streams):
    import collections
    kinds = collections.Counter(l[2] for s in scens for l in s if l[:2] == ['asset', 'dev'])
    ops = collections.Counter(l[2] for s in scens for l in s if l[0] == 'script')
    recs = collections.Counter(l.split()[1] for st in streams for l in st if l.startswith('rec '))
    acts = collections.Counter(int(l.split()[4]) % 16 for st in streams for l in st if l.startswith('ev '))
    flags = {
        'frames_with_waiting_for_downstream': sum(1 for st in streams for l in st if l.startswith('d ') and ' wds=1 ' in l),
        'frames_with_waiting_for_resources': sum(1 for st in streams for l in st if l.startswith('d ') and ' wres=1 ' in l),
        'frames_blocked_input': sum(1 for st in streams for l in st if l.startswith('d ') and ' blk=1 ' in l),
        'frames_machine_down': sum(1 for st in streams for l in st if l.startswith('d ') and ' down=1 ' in l),
        'aborted_runs': sum(1 for st in streams for l in st if l.startswith('abort')),
    }
    return {'device_kinds': dict(kinds), 'script_ops': dict(ops), 'records': dict(recs),
            'executed_actions_by_kind_code': {str(k): v for k, v in acts.items()}, 'state_flags': flags}


def floor_prop(pid, modules, prop_files, tagsd, nontriv_prefix, extra_rule, runner='FullRunner',
               families=None, **kw):
    d = dict(
        modules=modules, prop_files=prop_files,
        families=families or [('floor', 100, 2000), ('floorc', 50, 1000), ('floors', 150, 3000)],
        tags=tagsd, monitors=M.MONITORS[pid], runner=runner,
        nontrivial=has(nontriv_prefix), stats=floor_stats, divergence_is_witness=False,
        rule=FLOOR_RULE + extra_rule,
        assumptions=['well-posed topologies (no pass-through-only cycles, group devices connected among themselves)',
                     'times on the dyadic grid k/16, integer values/amounts'],
    )
    d.update(kw)
    return d


PROPS['C02'] = floor_prop(
    'C02', ['SimProc.Props.C02', 'SimProc.Props.C02W'], ['SimProc/Props/C02.lean', 'SimProc/Props/C02W.lean'],
    {'d': _c.fields('part', 'out', 'buf', 'inprog', 'prod', 'max', 'recv', 'lvl'), 'p': _c.fields('kids'),
     'rec': _c.only(('device_failure', 'supplied_new_part', 'received_part')), 'res': _c.only(('shut',))},
    ('rec device_failure', 'rec received_part'), 'non-trivial = at least one part was received; distinct by scenario text',
    # sys / floorl: devices created and wired while the simulation runs (C02W covers them)
    families=[('floor', 100, 2000), ('floorc', 50, 1000), ('floors', 150, 3000), ('sys', 60, 1000), ('floorl', 40, 800), ('floorq', 40, 800), ('floorb', 60, 1000)])
import c02 as _c02
PROPS['C02']['extra'] = _c02.odd_budgets
PROPS['C03'] = floor_prop(
    'C03', ['SimProc.Props.C03', 'SimProc.Props.C03W'], ['SimProc/Props/C03.lean', 'SimProc/Props/C03W.lean'],
    {'ev': None, 'now': None, 'ran': None, 'd': _c.fields('part', 'out', 'buf', 'wds', 'blk', 'down', 'wres', 'lvl')},
    ('d ',), 'implementation traces are produced with the deep-copy probe at every clock advance; non-trivial = a scenario '
             'in which some device waited for downstream space', runner='ProbeRunner',
    # floorl / sys: devices constructed mid-run behind a blocked upstream ("connection added")
    # floork: cycle times set / offset while a part is held (a slot freed at the end of a cycle whose cycle time reads 0)
    families=[('floorc', 80, 1500), ('floor', 50, 1000), ('floors', 120, 2500), ('floorq', 40, 800), ('floorl', 40, 800), ('sys', 40, 800), ('floork', 40, 800), ('floorn', 0, 0)],
    nontrivial=lambda st, s: any(l.startswith('d ') and ' wds=1 ' in l for l in st))
PROPS['C04'] = floor_prop(
    'C04', ['SimProc.Props.C04', 'SimProc.Props.C04W'], ['SimProc/Props/C04.lean', 'SimProc/Props/C04W.lean'],
    {'rec': _c.only(('received_part',)), 'ran': None},
    ('rec received_part',), 'family serial: source -> handlers/processors/buffers -> sink with constant parameters; horizons of length 0 '
                            'and horizons split over several run calls (some of length 0); family serialq: the same lines with a '
                            'small source budget that is topped up during and between runs (outside the constant-budget theorem: '
                            'correspondence and the reference recurrence with permission times only); '
                            'non-trivial = at least one part reached a station',
    # serialq: the same lines with a small source budget that is topped up during the run and between runs
    families=[('serial', 300, 6000), ('serialq', 100, 2000)])
PROPS['C05'] = floor_prop(
    'C05', ['SimProc.Props.C05', 'SimProc.Props.C05W'], ['SimProc/Props/C05.lean', 'SimProc/Props/C05W.lean'],
    {'d': _c.only(('',), None), 'rec': _c.only(('level',))},
    ('rec level',), 'non-trivial = a buffer level changed')
import c05 as _c05
PROPS['C05']['extra'] = _c05.float_delay
PROPS['C05']['tags']['d'] = lambda l: _c.fields('buf', 'lvl')(l) if ' buffer ' in l else None
PROPS['C08'] = floor_prop(
    'C08', ['SimProc.Props.C08', 'SimProc.Props.C08W', 'SimProc.Props.C08S'], ['SimProc/Props/C08.lean', 'SimProc/Props/C08W.lean', 'SimProc/Props/C08S.lean'],
    {'p': _c.fields('hist', 'stack', 'kids'), 'd': _c.fields('coll', 'blk'), 'rec': _c.only(('received_part',))},
    ('rec received_part',), 'non-trivial = a part was handed over',
    families=[('floor', 100, 2000), ('floorc', 50, 1000), ('floors', 100, 2000), ('floorg', 80, 1500), ('floorb', 40, 800), ('floori', 80, 1500), ('floorw', 40, 800), ('floorn', 0, 0)])
PROPS['C11'] = floor_prop(
    'C11', ['SimProc.Props.C11', 'SimProc.Props.C11W'], ['SimProc/Props/C11.lean', 'SimProc/Props/C11W.lean'],
    {'d': _c.fields('part', 'resv', 'wres', 'down'), 'r': None, 'rec': _c.only(('resource_update',))},
    ('rec resource_update',), 'non-trivial = a pool changed',
    families=[('floorp', 120, 2500), ('floorm', 80, 1500), ('floorc', 60, 1000)])
PROPS['C13'] = floor_prop(
    'C13', ['SimProc.Props.C13', 'SimProc.Props.C06W', 'SimProc.Props.C06T', 'SimProc.Props.C13W', 'SimProc.Props.C13Q'],
    ['SimProc/Props/C13.lean', 'SimProc/Props/C06W.lean', 'SimProc/Props/C06T.lean', 'SimProc/Props/C13W.lean', 'SimProc/Props/C13Q.lean'],
    {'d': _c.fields('part', 'out', 'down', 'up', 'use'), 'res': _c.only(('shut', 'restored', 'hook')),
     'rec': _c.only(('device_failure',)), 'now': None},
    ('rec device_failure', 'res shut'), 'implementation traces are produced with the deep-copy probe (a finished part kept through '
    'a failure must leave after restoration); non-trivial = a machine failed or was shut down', runner='ProbeRunner',
    families=[('floorm', 120, 2500), ('floor', 80, 1500), ('floorc', 40, 800), ('floorl', 60, 1000)],
    impl_only_families=[('floorr', 60, 1000)])
PROPS['C13']['monitors'] = M.MONITORS['C13'] + M.MONITORS['C03'] + M.MONITORS['C12']
PROPS['C15'] = floor_prop(
    'C15', ['SimProc.Props.C15', 'SimProc.Props.Facts', 'SimProc.Props.C15W', 'SimProc.Props.C15D'], ['SimProc/Props/C15.lean', 'SimProc/Props/C15W.lean', 'SimProc/Props/C15D.lean'],
    {'rec': None, 'd': _c.fields('lvl', 'prod', 'recv'), 'r': None, 'res': _c.only(('shut',))},
    ('rec ',), 'non-trivial = records were written',
    families=[('floor', 100, 2000), ('floors', 100, 2000), ('maint', 60, 1000), ('sched', 60, 1000), ('rm', 60, 1000)])
import c15 as _c15
PROPS['C15']['extra'] = _c15.real_code
PROPS['C16'] = floor_prop(
    'C16', ['SimProc.Props.C16', 'SimProc.Props.C16W', 'SimProc.Props.C15W', 'SimProc.Props.C16D', 'SimProc.Props.C15D'], ['SimProc/Props/C16.lean', 'SimProc/Props/C16W.lean', 'SimProc/Props/C15W.lean', 'SimProc/Props/C16D.lean', 'SimProc/Props/C15D.lean'],
    {'d': _c.fields('val', 'vh', 'cost', 'rval'), 'm': _c.fields('val', 'vh'), 'p': _c.fields('v'),
     'rec': _c.only(('supplied_new_part', 'received_part'))},
    ('d ',), 'the runner also checks value bookkeeping on the live objects after every event; non-trivial = a value changed',
    # floorv: value-changing receive callbacks on every station including the sinks themselves
    runner='ValueRunner', families=[('floor', 120, 2500), ('floors', 80, 1500), ('maint', 60, 1000), ('floorv', 60, 1000)],
    nontrivial=lambda st, s: any(l.startswith(('d ', 'm ')) and ' vh=0 ' not in l + ' ' for l in st))
import c16 as _c16
PROPS['C16']['extra'] = _c16.net_value
PROPS['C17'] = floor_prop(
    'C17', ['SimProc.Props.C17', 'SimProc.Props.C17W'], ['SimProc/Props/C17.lean', 'SimProc/Props/C17W.lean'],
    {'p': _c.fields('kids', 'hist'), 'rec': _c.only(('received_part',))},
    ('rec received_part',), 'non-trivial = a part was handed over',
    families=[('floorb', 120, 2500), ('floor', 80, 1500), ('floorc', 40, 800), ('floors', 60, 1200)])
PROPS['C17']['tags']['d'] = lambda l: _c.fields('part', 'out', 'inprog')(l) if ' batcher ' in l else None
PROPS['C20'] = dict(
    modules=['SimProc.Props.C20', 'SimProc.Props.Facts', 'SimProc.Props.C20W'], prop_files=['SimProc/Props/C20.lean', 'SimProc/Props/C20W.lean'],
    families=[('sys', 200, 4000), ('sysm', 300, 6000)], runner='SysRunner',
    impl_only_families=[('sysi', 100, 2000)],
    tags=tags('ev', 'now', 'res', 'ran', 'runbegin', 'rec', 'd', 'p', 's', 'n', 'm', 'sres', 'scount'),
    monitors=M.MONITORS['C20'], nontrivial=has(('res ok', 'sres err', 'sres found')), stats=op_stats, divergence_is_witness=True,
    divergence_text='an asset created while the simulation runs must behave like the model\'s constructor + immediate '
                    'initialisation (= the same asset created before the start, shifted)',
    rule='family sys: assets of every kind constructed before the first run, between runs and from inside events (family sysi, '
         'implementation only: also from inside another asset\'s initialize and from the start-up hook of a user\'s ResourceManager); '
         'non-trivial = a creation happened while the simulation was initialised',
    assumptions=['new devices are wired to existing devices that are not sinks'],
)


import c14 as _c14

PROPS['C14'] = dict(
    modules=['SimProc.Props.C14', 'SimProc.Props.C14Split', 'SimProc.Props.C14W'], prop_files=['SimProc/Props/C14.lean', 'SimProc/Props/C14Split.lean', 'SimProc/Props/C14W.lean'],
    # sys: models extended between two runs (at the split point) and from inside events
    families=[('env', 200, 3000), ('floor', 60, 1000), ('sys', 40, 800), ('floorl', 20, 400)],
    tags=tags(*BASE, 'rec', 'd', 'p'),
    monitors=[], nontrivial=env_nontrivial, stats=op_stats, divergence_is_witness=True,
    divergence_text='the model is a function of (scenario, weight function); the implementation must compute the same '
                    'function whatever the asset-id offset',
    extra=_c14.metamorphic,
    rule='families env and floor against the model (= determinism transfer, scenarios carry random asset-id offsets), plus '
         'metamorphic runs of the real code: same seed twice with the unpatched random weights, fresh interpreters with '
         'different PYTHONHASHSEED, split runs vs one run with keyed weights, simulate_multiple_times in-process vs worker '
         'processes, groups whose parallel input machines tie exactly re-run after varying amounts of allocated objects; non-trivial = same-time events with different priorities executed or an event paused',
    assumptions=['worker-process equality and independence from hash order / object identity are CHECKED, not proved'],
    partial=['worker processes, hash order: checked only (cannot be proved about CPython from here)'],
)

PROPS['C06'] = floor_prop(
    'C06', ['SimProc.Props.C06', 'SimProc.Props.C06W', 'SimProc.Props.C06T'], ['SimProc/Props/C06.lean', 'SimProc/Props/C06W.lean', 'SimProc/Props/C06T.lean'],
    {'ev': None, 'now': None, 'ran': None, 'd': _c.fields('part', 'out', 'down', 'cyc', 'off'),
     'rec': _c.only(('received_part', 'produced_part', 'device_failure', 'supplied_new_part'))},
    ('rec received_part',), 'non-trivial = a part was accepted by a device',
    # floork: cycle times set / one-shot offsets given while a part is held and from outside before the first run
    families=[('floor', 100, 2000), ('floorc', 50, 1000), ('floors', 150, 3000), ('floorq', 60, 1000), ('floork', 60, 1000)],
    impl_only_families=[('floorr', 80, 1500)])


# Every property whose theorems cite an event priority or a schedule site also builds and audits the obligations over
# the facts regenerated from /repo's sources (Props/Facts.lean: prio_table, lt_chain, release_pass_finish_order,
# schedule_sites, ...): a reordering of EventType in /repo then breaks a proof obligation of each of them.
for _p in ('C01', 'C03', 'C04', 'C10', 'C11', 'C15', 'C20'):
    if 'SimProc.Props.Facts' not in PROPS[_p]['modules']:
        PROPS[_p]['modules'] = PROPS[_p]['modules'] + ['SimProc.Props.Facts']
    if 'SimProc/Props/Facts.lean' not in PROPS[_p]['prop_files']:
        PROPS[_p]['prop_files'] = PROPS[_p]['prop_files'] + ['SimProc/Props/Facts.lean']
