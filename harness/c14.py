"""C14 metamorphic runs on the REAL code: same seed twice (unpatched random weights, different
asset-id offsets), different PYTHONHASHSEED in fresh interpreters, split runs vs one run (keyed
weights), simulate_multiple_times in-process vs worker processes."""
import hashlib
import json
import os
import random
import subprocess
import sys

HERE = os.path.dirname(os.path.abspath(__file__))
sys.path.insert(0, HERE)
import scen  # noqa: E402


def _strip(stream, drop_terminate=False):
    out = []
    skip = False
    for l in stream:
        t = l.split(' ', 1)[0]
        if t in ('qid', 'zid', 'evid'):
            continue
        if drop_terminate:
            if t == 'ev':
                skip = l.split()[4] == '0'
                if skip:
                    continue
            if t in ('ran', 'runbegin', 'q', 'now') or (skip and t in ('now',)):
                continue
        out.append(l)
    return out


def digest_split(stream):
    """what a split run must share with the single run: executed non-terminate events, records,
    operation results, and the final state (reconstructed from the delta lines)"""
    evs, state = [], {}
    for l in stream:
        t = l.split(' ', 2)
        if t[0] == 'ev':
            if l.split()[4] != '0':
                evs.append(l)
        elif t[0] in ('rec', 'res', 'abort', 'harness-error'):
            evs.append(l)
        elif t[0] in ('d', 'p', 'r', 'h', 'm', 's', 'n', 'hsum'):
            state[t[0] + ' ' + t[1]] = l
        elif t[0] in ('z', 'wq'):
            state[t[0]] = l
    return evs, state


def run_unkeyed(text, seed):
    """one run with the library's own random.random() weights, seeded"""
    import impl
    import implx

    class R(implx.FullRunner):
        def handle(self, toks):
            if toks[0] == 'seed':
                random.seed(seed)
            super().handle(toks)
    return impl.run_text(text, R, keyed_weights=False)


def merge_runs(lines):
    """`run a; run b` (adjacent) -> `run a+b`"""
    out = []
    changed = False
    for l in lines:
        if l[0] == 'run' and out and out[-1][0] == 'run':
            out[-1] = ['run', str(int(out[-1][1]) + int(l[1]))]
            changed = True
        else:
            out.append(list(l))
    return out, changed


def split_runs(lines, rng):
    out = []
    changed = False
    for l in lines:
        if l[0] == 'run' and int(l[1]) >= 2:
            a = rng.randrange(1, int(l[1]))
            out += [['run', str(a)], ['run', str(int(l[1]) - a)]]
            changed = True
        else:
            out.append(list(l))
    return out, changed


# ---- simulate_multiple_times --------------------------------------------------------------
def _sim(system, index, spec, seed=0, stretch=1):
    """module-level (picklable) simulation function: a merge line built from plain library objects
    (no harness closures, the returned System is pickled by worker processes)"""
    from simprocesd.model.factory_floor import Source, Sink, PartProcessor, Buffer, PartHandler
    random.seed(seed * 1000 + index)
    nsrc, cyc, stages, horizon = spec
    srcs = [Source(f'S{i}', cycle_time=cyc[i % len(cyc)] / 16.0) for i in range(nsrc)]
    prev = srcs
    for k, (kind, c) in enumerate(stages):
        if kind == 'p':
            prev = [PartProcessor(f'P{k}', prev, c / 16.0)]
        elif kind == 'h':
            prev = [PartHandler(f'H{k}a', prev, c / 16.0), PartHandler(f'H{k}b', prev, c / 16.0)]
        else:
            prev = [Buffer(f'B{k}', prev, c / 16.0, capacity=2)]
    Sink('K', prev, 0)
    system.simulate(stretch * horizon / 16.0, print_summary=False)


def canon_data(system):
    """recorded data with part ids renumbered in order of first appearance"""
    d = system.simulation_data
    ids = {}
    out = []
    for label in sorted(d, key=str):
        for sub in sorted(d[label], key=str):
            for dp in d[label][sub]:
                dp = list(dp) if isinstance(dp, tuple) else [dp]
                if label in ('received_part', 'produced_part', 'supplied_new_part', 'device_failure') and len(dp) > 1:
                    dp[1] = ids.setdefault(dp[1], len(ids))
                out.append((str(label), str(sub), tuple(dp)))
    return hashlib.sha1(repr(out).encode()).hexdigest(), len(out)


def multi(spec, seed, n, procs):
    from simprocesd.model import System
    import impl
    impl.CTX = None          # the library's own random weights: no harness runner is active
    # one extra argument positionally, two by keyword (both have other defaults in `_sim`): the
    # in-process branch and the worker branch must forward them alike
    from simprocesd.model.factory_floor.asset import Asset
    saved = Asset._id_counter
    Asset._id_counter += 1000          # ids beyond the small-integer cache: equal ids are distinct objects
    try:
        systems = System.simulate_multiple_times(_sim, n, procs, spec, seed=seed, stretch=2)
    finally:
        Asset._id_counter = saved
    out = []
    for s in systems:
        # every registered asset is found by (a freshly computed copy of) its id, whatever the id offset and
        # whether the system was pickled back from a worker process or not
        lookups = tuple(len(s.find_assets(id_=int(str(a.id)))) for a in s._assets)
        out.append((canon_data(s), lookups))
    return out


def child_main():
    """fresh interpreter (PYTHONHASHSEED varies): print the digest of unkeyed runs"""
    fam, gseed, n, rseed = sys.argv[2], sys.argv[3], int(sys.argv[4]), int(sys.argv[5])
    sc = scen.generate(fam, gseed, n)
    digs = []
    for s in sc:
        out = run_unkeyed(scen.to_text(s), rseed)
        digs.append(hashlib.sha1('\n'.join(_strip(out)).encode()).hexdigest())
    print(json.dumps(digs))


def metamorphic(seed, tier):
    """returns (evaluations, witnesses, stats)"""
    import impl
    import implx
    rng = random.Random(f'c14-{seed}-{tier}')
    n = 40 if tier == 'quick' else 400
    wit = []
    stats = {'same_seed_pairs': 0, 'hashseed_runs': 0, 'split_pairs': 0, 'merge_decided_by_tiebreak': 0,
             'multiprocess_settings': 0}
    fams = ['floor', 'floors', 'floorpf', 'env']
    evals = 0
    # 1. same seed twice, unpatched weights (asset-id counter differs between the two runs)
    for fam in fams:
        sc = scen.generate(fam, f'c14-{seed}-{tier}', n // 2)
        for s in sc:
            text = scen.to_text([l for l in s if l[0] != 'idoff'])
            from simprocesd.model.factory_floor.asset import Asset
            if rng.random() < 0.5:
                Asset._id_counter = 0        # a fresh process: the first asset gets the very first id
            a = _strip(run_unkeyed(text, 12345))
            Asset._id_counter += rng.randrange(1, 100)
            b = _strip(run_unkeyed(text, 12345))
            evals += 1
            stats['same_seed_pairs'] += 1
            if a != b:
                k = next(i for i in range(max(len(a), len(b))) if i >= len(a) or i >= len(b) or a[i] != b[i])
                wit.append({'kind': 'same-seed', 'scenario': text, 'line': k,
                            'first': a[k] if k < len(a) else None, 'second': b[k] if k < len(b) else None})
            c = _strip(run_unkeyed(text, 54321))
            if c != a:
                stats['merge_decided_by_tiebreak'] += 1
            if len(wit) > 3:
                return evals, wit, stats
    # 2. different hash seeds in fresh interpreters
    ref = None
    for hs in (['0', '1', '77'] if tier == 'quick' else ['0', '1', '2', '77', '4242']):
        env = dict(os.environ, PYTHONHASHSEED=hs)
        p = subprocess.run([sys.executable, os.path.abspath(__file__), 'child', 'floor', f'c14h-{seed}', '12' if tier == 'quick' else '60', '7'],
                           capture_output=True, text=True, env=env, timeout=600)
        try:
            digs = json.loads(p.stdout.strip().splitlines()[-1])
        except Exception:
            wit.append({'kind': 'hashseed-child-failed', 'stderr': p.stderr[-500:]})
            break
        stats['hashseed_runs'] += len(digs)
        evals += len(digs)
        if ref is None:
            ref = digs
        elif digs != ref:
            bad = [i for i, (x, y) in enumerate(zip(ref, digs)) if x != y]
            sc = scen.generate('floor', f'c14h-{seed}', 12 if tier == 'quick' else 60)
            wit.append({'kind': 'hashseed', 'PYTHONHASHSEED': hs, 'scenario': scen.to_text(sc[bad[0]])})
    # 3. split runs vs one run, keyed weights
    for fam in fams:
        sc = scen.generate(fam, f'c14s-{seed}-{tier}', n // 2)
        for s in sc:
            if any(l[0] in ('ext', 'step') for l in s[[i for i, l in enumerate(s) if l[0] == 'run'][0]:] if l[0] != 'run') if any(l[0] == 'run' for l in s) else True:
                continue        # operations between the runs: merging would reorder them
            merged, _ = merge_runs(s)
            split, ch = split_runs(merged, rng)
            if not ch:
                continue
            a, sa = digest_split(impl.run_text(scen.to_text(merged), implx.FullRunner))
            b, sb = digest_split(impl.run_text(scen.to_text(split), implx.FullRunner))
            evals += 1
            stats['split_pairs'] += 1
            if a != b:
                k = next(i for i in range(max(len(a), len(b))) if i >= len(a) or i >= len(b) or a[i] != b[i])
                wit.append({'kind': 'split', 'scenario': scen.to_text(split), 'line': k,
                            'one_run': a[k] if k < len(a) else None, 'split_runs': b[k] if k < len(b) else None})
            elif sa != sb:
                k = sorted(x for x in set(sa) | set(sb) if sa.get(x) != sb.get(x))[0]
                wit.append({'kind': 'split-final-state', 'scenario': scen.to_text(split),
                            'one_run': sa.get(k), 'split_runs': sb.get(k)})
            if len(wit) > 3:
                return evals, wit, stats
    # 4. simulate_multiple_times: in the calling process vs worker processes (merge lines, where the
    #    tie-break decides which source is served first)
    for t in range(2 if tier == 'quick' else 8):
        spec = (rng.choice([2, 3]), [rng.choice([4, 8]) for _ in range(3)],
                [(rng.choice('phb'), rng.choice([0, 4, 8, 12])) for _ in range(rng.randint(1, 3))], rng.choice([160, 320]))
        nsim = 4
        try:
            ref = multi(spec, seed, nsim, 0)
            if len(ref) != nsim:
                wit.append({'kind': 'multi-count', 'expected': nsim, 'got': len(ref)})
            if len(set(r[0] for r in ref)) > 1:
                stats['merge_decided_by_tiebreak'] += 1
            for (data, lookups) in ref:
                if any(k != 1 for k in lookups):
                    wit.append({'kind': 'lookup-by-id', 'max_processes': 0,
                                'found_per_registered_asset': list(lookups), 'expected': 'exactly 1 each'})
                    break
            for procs in ([1, 2] if tier == 'quick' else [1, 2, 4, None]):
                got = multi(spec, seed, nsim, procs)
                stats['multiprocess_settings'] += 1
                evals += 1
                if any(k != 1 for (_, lookups) in got for k in lookups):
                    wit.append({'kind': 'lookup-by-id', 'max_processes': procs,
                                'found_per_registered_asset': [list(l) for _, l in got], 'expected': 'exactly 1 each'})
                elif got != ref:
                    wit.append({'kind': 'multi', 'max_processes': procs, 'spec': repr(spec),
                                'in_process': ref, 'workers': got})
        except Exception as e:
            wit.append({'kind': 'multi-error', 'error': f'{type(e).__name__} {e}'})
    # 5. the id counter must not matter for UNNAMED devices either (default names embed the id; an upstream
    #    device may be listed twice): same seed, id counters below / across powers of ten
    try:
        ref = None
        for off in ([3, 997, 9997] if tier == "quick" else [3, 97, 997, 9997, 99997, 998, 9998]):
            got = unnamed_merge(seed, off)
            stats['unnamed_offset_runs'] = stats.get('unnamed_offset_runs', 0) + 1
            evals += 1
            if ref is None:
                ref = got
            elif got != ref:
                wit.append({'kind': 'id-offset-unnamed', 'id_counter_start': off, 'reference_start': 3,
                            'arrival_order_reference': ref[:12], 'arrival_order': got[:12]})
                break
    except Exception as e:
        wit.append({'kind': 'unnamed-error', 'error': f'{type(e).__name__} {e}'})
    # 6. exact ties between the parallel input machines of a group: the same model, the same seed, run again and
    #    again in this process; only the number (and size) of the objects allocated beforehand differs, i.e. the
    #    memory addresses and the asset ids
    try:
        for shape in range(len(GROUP_SHAPES)):
            ref = None
            for r in range(16 if tier == 'quick' else 60):
                got = group_ties(seed, shape, rng.randrange(0, 48) if r else 0, rng)
                stats['group_tie_runs'] = stats.get('group_tie_runs', 0) + 1
                evals += 1
                if ref is None:
                    ref = got
                elif got != ref:
                    k = next(i for i in range(max(len(got), len(ref))) if i >= len(got) or i >= len(ref) or got[i] != ref[i])
                    wit.append({'kind': 'same-seed-group-ties', 'model': GROUP_SHAPES[shape % len(GROUP_SHAPES)],
                                'run': r, 'first_differing_record': k,
                                'reference_run': [repr(x) for x in ref[k:k + 4]],
                                'this_run': [repr(x) for x in got[k:k + 4]],
                                'note': 'same model, same seed, one process; only the number of objects created before '
                                        'the model differs (records shown with part ids renumbered by first appearance)'})
                    break
            if wit:
                break
    except Exception as e:
        wit.append({'kind': 'group-ties-error', 'error': f'{type(e).__name__} {e}'})
    return evals, wit, stats


GROUP_SHAPES = [
    'source -> path through a group of 3 equal machines, all of them input and output devices of the group -> sink',
    'two sources -> two paths through one group of 4 equal machines (3 named as inputs, listed in reverse) -> a buffer -> sink',
    'source -> path through a group: 3 equal handlers (inputs) -> one machine (output) -> sink; part budget topped up',
]
_KEEP = []


def group_ties(seed, shape, ballast, rng):
    """A group whose `input_override` names several parallel devices which have been idle for exactly the same
    time: which of them is served is decided by the order in which the USER listed them.  `ballast` throw-away
    objects (assets and plain ones, kept alive) are allocated before and between the constructions.  Returns the
    recorded data, part ids renumbered by first appearance."""
    import impl
    impl.CTX = None
    from simprocesd.model import System
    from simprocesd.model.factory_floor import Source, Sink, PartProcessor, PartHandler, Buffer, Group, Part

    def junk(k):
        # assets move the id counter, the odd-sized plain objects move the addresses of what is allocated next
        _KEEP.append([Part() if i % 3 == 0 else (bytearray(17 * (i % 7) + 1) if i % 3 == 1 else object()) for i in range(k)])
    if len(_KEEP) > 4000:
        del _KEEP[:2000]
    junk(ballast)
    random.seed(seed * 7919 + 17)
    s = System()
    shape %= len(GROUP_SHAPES)
    if shape == 0:
        src = Source('src', cycle_time=1)
        ms = []
        for i in range(3):
            junk(ballast % (i + 2))
            ms.append(PartProcessor(f'm{i}', cycle_time=2.5))
        g = Group('cell', list(ms), input_override=list(ms), output_override=list(ms))
        Sink('sink', [g.get_new_group_path('path', [src])])
        horizon = 14
    elif shape == 1:
        srcs = [Source('a', cycle_time=1), Source('b', cycle_time=1)]
        ms = []
        for i in range(3):
            junk((ballast + i) % 5)
            ms.append(PartProcessor(f'm{i}', cycle_time=3))
        last = PartProcessor('m3', ms, cycle_time=0.5)
        g = Group('cell', ms + [last], input_override=ms[::-1], output_override=[last])
        paths = [g.get_new_group_path(f'path{i}', [x]) for i, x in enumerate(srcs)]
        Sink('sink', [Buffer('buf', paths, capacity=3)])
        horizon = 16
    else:
        src = Source('src', cycle_time=0.5, starting_parts=5)
        hs = []
        for i in range(3):
            junk((ballast * (i + 1)) % 7)
            hs.append(PartHandler(f'h{i}', cycle_time=2))
        out = PartProcessor('out', hs, cycle_time=0.25)
        g = Group('cell', hs + [out], input_override=list(hs), output_override=[out])
        Sink('sink', [g.get_new_group_path('path', [src])])
        s.simulate(6, print_summary=False)
        src.adjust_part_count(4)          # the three handlers are idle again (equally long or not, as it happens)
        horizon = 10
    s.simulate(horizon, print_summary=False)
    _KEEP.append(s)
    d = s.simulation_data
    ids, out_ = {}, []
    for label in sorted(d, key=str):
        for sub in sorted(d[label], key=str):
            for dp in d[label][sub]:
                dp = list(dp) if isinstance(dp, tuple) else [dp]
                if label in ('received_part', 'produced_part', 'supplied_new_part', 'device_failure') and len(dp) > 1:
                    dp[1] = ids.setdefault(dp[1], len(ids))
                out_.append((str(label), str(sub), tuple(dp)))
    return out_


def unnamed_merge(seed, offset):
    """three unnamed feeders (default names carry the ids) merge into a slow machine, the first feeder listed
    twice; returns which feeder (by creation order) each received part came from"""
    import impl
    impl.CTX = None
    from simprocesd.model import System
    from simprocesd.model.factory_floor import Source, Sink, PartProcessor
    from simprocesd.model.factory_floor.asset import Asset
    saved = Asset._id_counter
    Asset._id_counter = offset
    try:
        random.seed(seed)
        s = System()
        feeders = [Source(cycle_time=1) for _ in range(3)]
        m = PartProcessor(None, [feeders[0], feeders[0], feeders[1], feeders[2]], cycle_time=3)
        k = Sink(None, [m], collect_parts=True)
        s.simulate(40, print_summary=False)
        first = {f: i for i, f in enumerate(feeders)}
        return [first.get(p.routing_history[0], -1) for p in k.collected_parts]
    finally:
        Asset._id_counter = saved


if __name__ == '__main__':
    if len(sys.argv) > 1 and sys.argv[1] == 'child':
        child_main()
    else:
        print(json.dumps(metamorphic(0, 'quick'), indent=1)[:3000])
