"""C05, minimum-delay clause with times OFF the dyadic grid, on the REAL code: "no part leaves earlier
than its arrival time plus the buffer's minimum delay (up to one unit of floating-point rounding of
the clock)".  Two sources whose accumulated clocks nearly coincide (0.1 added 100 times vs 10.0) feed
one buffer, so that a part which is NOT yet ripe is looked at in the same release sweep as a ripe one.
Arrival and departure times are compared in exact rational arithmetic."""
import math
import random
from fractions import Fraction


def float_delay(seed, tier):
    """returns (evaluations, witnesses, stats)"""
    import impl          # first: puts the tree under test on sys.path
    from simprocesd.model import System
    from simprocesd.model.factory_floor import Source, Sink, Buffer
    impl.CTX = None
    rng = random.Random(f'c05-{seed}-{tier}')
    n = 24 if tier == 'quick' else 240
    wit = []
    near = 0
    parts = 0
    for t in range(n):
        s = System()
        c1 = rng.choice([0.1, 0.1, 0.3, 0.7, 1.1, 0.2])
        k = rng.choice([10, 30, 70, 100])
        c2 = round(c1 * k, 6)                      # e.g. 0.1 * 100 -> 10.0: the clocks nearly coincide there
        delay = rng.choice([1, 0.5, 2.5, 0.3])
        s1 = Source('s1', cycle_time=c1)
        s2 = Source('s2', cycle_time=c2)
        buf = Buffer('buf', [s1, s2], minimum_delay=delay)
        snk = Sink('snk', [buf])
        arr, dep = {}, {}
        buf.add_receive_part_callback(lambda d, p: arr.setdefault(p.id, s.env.now))
        snk.add_receive_part_callback(lambda d, p: dep.setdefault(p.id, s.env.now))
        s.simulate(c2 * rng.choice([1, 2, 3]) + delay + 1, print_summary=False)
        ts = sorted(arr.values())
        if any(0 < b - a < 1e-9 for a, b in zip(ts, ts[1:])):
            near += 1
        for pid, d in dep.items():
            parts += 1
            a = arr[pid]
            early = Fraction(a) + Fraction(delay) - Fraction(d)
            if early > 2 * Fraction(math.ulp(d)):
                wit.append({'kind': 'float-delay', 'model': t, 'cycle_times': [c1, c2], 'minimum_delay': delay,
                            'arrival': repr(a), 'departure': repr(d),
                            'early_by': float(early), 'ulp_of_clock': math.ulp(d)})
                break
        if len(wit) > 2:
            break
    return n, wit, {'models': n, 'models_with_arrivals_closer_than_1e-9': near, 'parts_checked': parts}
