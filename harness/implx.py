"""Extended runner: builds real simprocesd objects (resource manager, devices, groups, maintainers,
schedulers, sensors) from scenario lines and prints the same canonical state dump as the model
driver (lean/Driver.lean)."""
import functools

import impl
from impl import Runner, ScriptAction, ticks, TICK, CTX, Num  # noqa: F401

from simprocesd.model import System, EventType  # noqa: F401
from simprocesd.model.factory_floor import (Source, Sink, PartHandler, PartProcessor, Buffer, DecisionGate,
                                            PartBatcher, Group, Maintainer, ActionScheduler, Part, Batch,
                                            PartGenerator)
from simprocesd.model.factory_floor.group import GroupInput, GroupOutput, GroupPath
from simprocesd.model.factory_floor.maintainer import Maintainable
import simprocesd.model.factory_floor.maintainer as maintainer_mod
from simprocesd.model.sensors import PeriodicSensor, OutputPartSensor, Probe
from simprocesd.model.cms import Cms
from simprocesd.model.simulation import Environment

INF = float('inf')


def ival(v):
    """Canonical rendering of an amount / value (integer expected)."""
    if isinstance(v, tuple) and len(v) == 1:
        v = v[0]          # work-order tags are 1-tuples (see do_op 'wo')
    if v is None:
        return '-'
    if v == INF:
        return 'inf'
    if isinstance(v, bool):
        return '1' if v else '0'
    if float(v) == int(v):
        return str(int(v))
    return 'f' + repr(float(v))


def jn(sep, items):
    items = list(items)
    return sep.join(items) if items else '-'


# ---- instrumentation applied from outside ----------------------------------------------------
_orig_part_init = Part.__init__


def _part_init(self, *a, **kw):
    _orig_part_init(self, *a, **kw)
    r = impl.CTX
    if r is not None and hasattr(r, 'parts') and not r.probing:
        r.pid[self.id] = len(r.parts)
        r.parts.append(self)


Part.__init__ = _part_init

import simprocesd.model.resource_manager as _rmmod  # noqa: E402
_orig_rr_init = _rmmod.ReservedResources.__init__


def _rr_init(self, resource_manager, reserved_resources):
    _orig_rr_init(self, resource_manager, reserved_resources)
    r = impl.CTX
    if r is not None and hasattr(r, 'all_resv') and not r.probing:
        r.all_resv.append(self)


_rmmod.ReservedResources.__init__ = _rr_init

_orig_wo_init = maintainer_mod._WorkOrder.__init__


def _wo_init(self, target, tag, needed_capacity, info):
    _orig_wo_init(self, target, tag, needed_capacity, info)
    r = impl.CTX
    if r is not None and getattr(r, 'maint_stack', None):
        m = r.maint_stack[-1]
        self._vseq = r.wo_seq.get(id(m), 0)
        r.wo_seq[id(m)] = self._vseq + 1


maintainer_mod._WorkOrder.__init__ = _wo_init

_orig_create_wo = Maintainer.create_work_order


def _create_wo(self, target, tag=None, info=None):
    r = impl.CTX
    if r is None or not hasattr(r, 'maint_stack'):
        return _orig_create_wo(self, target, tag, info)
    r.maint_stack.append(self)
    try:
        return _orig_create_wo(self, target, tag, info)
    finally:
        r.maint_stack.pop()


Maintainer.create_work_order = _create_wo


class Pallet(Batch):
    """a user subclass of Batch (the documented way to attach data to a batch): everything the library
    does for a Batch it must do for a Pallet (isinstance, not an exact type test)"""


class Piece(Part):
    """a user subclass of Part, for the same reason"""


class GenX(PartGenerator):
    def __init__(self, prefix, value, quality, batchof, phase=0):
        super().__init__(prefix, value, quality)
        self.batchof = batchof
        self.phase = phase

    def generate_part_helper(self, part_name, part_counter):
        # every other generated object is an instance of a user subclass (invisible in the observation
        # stream: a correct library treats it like the base class)
        sub = (part_counter + self.phase) % 2 == 1
        if self.batchof == 0:
            return (Piece if sub else Part)(part_name, self.value, self.quality)
        n = max(self.batchof, 0)
        return (Pallet if sub else Batch)(
            part_name, [(Piece if (sub + i) % 2 else Part)(f'{part_name}_{i}', self.value, self.quality) for i in range(n)])


class Name(str):
    """a name that knows which object of the scenario it was given to (names need not be unique: two distinct
    devices or work-order targets may carry EQUAL names, also the empty one; the library hands the name object on
    into its records, where the harness reads the owner back from it)"""

    def __new__(cls, text, dev=None, tgt=None):
        o = str.__new__(cls, text)
        o._vdev = dev
        o._vtgt = tgt
        return o


class TargetMixin:
    """Work-order parameters from the scenario's target table; hooks are logged."""
    _vrunner = None
    _vtgt = None

    def _params(self, tag):
        tag = tag[0] if isinstance(tag, tuple) else tag
        r = self._vrunner
        if r is None or self._vtgt is None:
            return (0, 0, 0)
        return r.targets[self._vtgt]['params'].get(tag, (0, 0, 0))

    def get_work_order_duration(self, tag):
        return self._params(tag)[0] / (self._vrunner.tick if self._vrunner is not None else TICK)

    def get_work_order_capacity(self, tag):
        return self._params(tag)[1]

    def get_work_order_cost(self, tag):
        return self._params(tag)[2]


class ProcX(TargetMixin, PartProcessor):
    def start_work(self, tag):
        if self._vtgt is not None:
            self._vrunner.results.append(f'hook start {self._vtgt} {ival(tag)}')
        PartProcessor.start_work(self, tag)

    def end_work(self, tag):
        if self._vtgt is not None:
            self._vrunner.results.append(f'hook end {self._vtgt} {ival(tag)}')
        PartProcessor.end_work(self, tag)


class FakeTarget(TargetMixin, Maintainable):
    def __init__(self, runner, tgt, start, end):
        self._vrunner = runner
        self._vtgt = tgt
        # distinct targets carry EQUAL names in two of three scenarios ('T' / the empty string)
        self.name = Name([f'T{tgt}', 'T', ''][runner.scen_no % 3], tgt=tgt)
        self._start, self._end = start, end

    def start_work(self, tag):
        r = self._vrunner
        r.results.append(f'hook start {self._vtgt} {ival(tag)}')
        if self._start is not None:
            ScriptAction(r, self._start)()

    def end_work(self, tag):
        r = self._vrunner
        r.results.append(f'hook end {self._vtgt} {ival(tag)}')
        if self._end is not None:
            ScriptAction(r, self._end)()


def sstate(v):
    """rendering of a scheduler state that has been entered (None is state number 0)"""
    return '0' if v is None else ival(v)


class SchedX(ActionScheduler):
    _vrunner = None
    _vidx = None

    def default_action(self, obj, time, new_state):
        # the scheduler's own state must already be the new one while its actions run
        stale = '' if self.current_state == new_state else ' stale-state'
        self._vrunner.results.append(f'act {self._vidx} {obj.k} {ticks(time)} {sstate(new_state)} -' + stale)


class Obj:
    def __init__(self, k):
        self.k = k


class Var:
    """A probed object whose attribute is a mutable container modified in place (so that a missing copy
    is visible): a list for even indices, a deque for odd ones (a probe must copy whatever it reads)."""

    def __init__(self, k=0):
        import collections
        self.x = [[0], collections.deque([0]), Box(0)][k % 3]


class Box:
    """a mutable record of an ordinary class (hashable by identity, modified in place): a probe must copy it"""

    def __init__(self, v):
        self.v = v

    def __getitem__(self, i):
        return self.v

    def __setitem__(self, i, v):
        self.v = v


class Requester:
    """the party that registers waiting requests for script k; its bound method is the callback"""

    def __init__(self, runner, k):
        self.runner = runner
        self.k = k
        self.asked = []          # the request dictionaries handed in and not yet answered

    def on_resources(self, manager, request):
        r = self.runner
        mine = [q for q in self.asked if q == request]
        ok = manager is r.rm and bool(mine) and all(request is not q for q in self.asked)
        if mine:
            self.asked.remove(mine[0])
        r.results.append(f'cb {self.k}' + ('' if ok else ' badargs'))
        ScriptAction(r, self.k)()


class FalsyOverride:
    """a per-object override action that is a callable OBJECT with a false truth value (legal: the
    scheduler must test for None, not for truthiness)"""

    def __init__(self, fn):
        self.fn = fn

    def __len__(self):
        return 0

    def __call__(self, *a):
        return self.fn(*a)


def kvs(toks):
    d = {}
    for t in toks:
        if '=' in t:
            k, v = t.split('=', 1)
            d[k] = v
    return d


def plist(s, sep=','):
    return [] if s in ('-', '', None) else s.split(sep)


def preq(s, num=int):
    return {f'r{a}': num(b) for a, b in (e.split(':') for e in plist(s, ';'))}


class PoolsRM(_rmmod.ResourceManager):
    """a user subclass of the resource manager with a length (the number of declared pools): an object that is FALSY
    while no pool has been declared, e.g. when it is handed to System(...).  A correct library tests `is None` /
    `== None`, not truthiness."""

    def __len__(self):
        return len(getattr(self, '_resources', ()))


class FullRunner(Runner):
    probe = False        # C03: offer every ready part to its downstreams on a deep copy at clock advances
    valcheck = False     # C16: check value bookkeeping on the live objects after every event

    def make_system(self):
        """by scenario number: the default manager, a manager of a user subclass that is falsy when the System is
        built, an explicitly passed plain manager.  The harness keeps working with the object it passed in, as a
        user does (`self.rm`)."""
        k = self.scen_no % 3
        if k == 0:
            s = System()
            self.rm = s.resource_manager
        else:
            self.rm = PoolsRM() if k == 1 else _rmmod.ResourceManager()
            s = System(resource_manager=self.rm) if self.scen_no % 2 else System(self.rm)
        return s

    def reset(self):
        super().reset()
        self.probing = False
        self.devs = []
        self.dev_idx = {}        # id(object) -> device index
        self.maints = []
        self.scheds = []
        self.sensors = []
        self.cmss = []
        self.targets = []
        self.tgt_of = {}         # id(target object) -> target index
        self.parts = []
        self.pid = {}
        self.vars = []
        self.svars = []
        self.objs = {}
        self.groups = {}
        self.maint_stack = []
        self.wo_seq = {}
        self.records = []
        self.all_resv = []
        self.requesters = {}
        self.n_assets = 0
        self.names = {}
        self._sink_cb = {}
        env = self.env
        runner = self
        orig_add = env.add_datapoint

        def add_datapoint(label, sub, dp):
            if runner.probing:
                return None
            # every CALL is one occurrence: the series it names must afterwards be one entry longer and end with
            # this very datapoint (also when an equal datapoint is already its last entry)
            def series():
                return env.simulation_data.get(label, {}).get(sub, ())
            before = len(series())
            r = orig_add(label, sub, dp)
            after = series()
            ok = len(after) == before + 1 and after[-1] == dp
            runner.records.append((label, sub, dp, '' if ok else f' not-stored(series-grew-by={len(after) - before})'))
            return r
        env.add_datapoint = add_datapoint

    # ---- registration bookkeeping -----------------------------------------------------------
    def _sync_assets(self):
        """Assign asset ids (registration index + 1) to newly registered assets."""
        assets = self.system._assets
        new = assets[self.n_assets:]
        for a in new:
            self.n_assets += 1
            self.id2idx[a.id] = self.n_assets
        return new

    def canon_asset(self, asset_id):
        if asset_id not in self.id2idx and asset_id > 0:
            self._sync_assets()      # an asset registered a moment ago (events created by its initialize)
        return self.id2idx.get(asset_id, asset_id)

    def add_dev(self, obj):
        self.dev_idx[id(obj)] = len(self.devs)
        self.devs.append(obj)

    def didx(self, obj):
        return self.dev_idx.get(id(obj), -1)

    # ---- canonical action codes -------------------------------------------------------------
    def act_code_ext(self, action):
        if isinstance(action, functools.partial):
            f = action.func
            m = getattr(f, '__self__', None)
            if isinstance(m, Maintainer) and m in self.maints:
                mi = self.maints.index(m)
                o = action.keywords['request']._vseq
                kind = 7 if f.__func__.__name__ == '_start_work_order' else 8
                return kind + 16 * (mi + 256 * o)
            return 15
        f = getattr(action, '__func__', None)
        s = getattr(action, '__self__', None)
        if f is None:
            return 15
        n = f.__name__
        if isinstance(s, Environment):
            return 15
        if n == '_check_pending_requests':
            return 6
        # an object that is still being constructed (initialised on registration while the
        # simulation runs) gets the index it is about to receive
        k = {'_finish_cycle': 2, '_pass_part_downstream': 3, '_fail': 4, '_release_resources_if_idle': 5}.get(n)
        if k is not None and isinstance(s, PartHandler):
            return k + 16 * self.dev_idx.get(id(s), len(self.devs))
        if n == '_update_state' and isinstance(s, ActionScheduler):
            return 9 + 16 * (self.scheds.index(s) if s in self.scheds else len(self.scheds))
        if n == '_periodic_sense' and isinstance(s, PeriodicSensor):
            return 10 + 16 * (self.sensors.index(s) if s in self.sensors else len(self.sensors))
        return 15

    def real_asset(self, a):
        if a > 0:
            for real, idx in self.id2idx.items():
                if idx == a:
                    return self.N(real)
        return self.N(a)

    # ---- scenario lines ---------------------------------------------------------------------
    def handle_ext(self, toks):
        k = toks[0]
        if k == 'res':
            r = self.do_op(['addres', toks[1], toks[2]])
            if r != 'ok':
                self.out.append('res ' + r)
        elif k == 'asset':
            self.make_asset(toks[1:])
            self._sync_assets()
        elif k == 'target':
            kv = kvs(toks[2:])
            params = {}
            for e in plist(kv.get('params', '-')):
                t, d, n, c = e.split(':')
                params[int(t)] = (int(d), self.N(n), self.N(c))
            tgt = len(self.targets)
            dev = kv.get('dev', '-')
            start = None if kv.get('start', '-') == '-' else int(kv['start'])
            end = None if kv.get('end', '-') == '-' else int(kv['end'])
            if dev != '-':
                obj = self.devs[int(dev)]
                obj._vrunner = self
                obj._vtgt = tgt
                if isinstance(getattr(obj, 'name', None), Name):
                    obj.name._vtgt = tgt
            else:
                obj = FakeTarget(self, tgt, start, end)
            self.targets.append({'obj': obj, 'params': params})
            self.tgt_of[id(obj)] = tgt
        elif k == 'var':
            self.set_var(int(toks[1]), int(toks[2]))
        elif k == 'wire':
            ul = [self.devs[int(u)] for u in plist(toks[2])]
            self.devs[int(toks[1])].set_upstream(ul)
            ul.clear()           # the list belongs to the caller: the device must have kept its own copy
        else:
            super().handle_ext(toks)

    def set_var(self, k, v):
        while len(self.svars) <= k:
            self.svars.append(Var(len(self.svars)))
        self.svars[k].x[0] = v

    def make_part_cb(self, spec):
        c, o, v, q = spec.split(':')
        set_cycle = None if c == '-' else int(c)
        off = int(o)
        addv = int(v)
        setq = None if q == '-' else int(q)

        def cb(dev, part):
            if isinstance(dev, Sink):
                self.sink_cb_check(dev, part)
            if set_cycle is not None:
                dev.cycle_time = set_cycle / self.tick
            dev.offset_next_cycle_time(off / self.tick)
            if not isinstance(part, Batch):
                if addv != 0:
                    part.add_value('cb', addv)
                if setq is not None:
                    part.quality = setq
        return cb

    def sink_cb_check(self, sink, part):
        """what a receive callback registered on a SINK sees: the sink's public counters already contain the part it
        is being told about (count, summed value at receipt, own value); checked at the first callback of each receipt,
        before any callback has changed the part"""
        if self.probing:
            return
        st = self._sink_cb.setdefault(id(sink), {'n': 0, 'v': 0, 'last': None})
        if st['last'] is part:
            return
        st['last'] = part
        st['n'] += len(part.parts) if isinstance(part, Batch) else 1
        st['v'] += part.value
        seen = (sink.received_parts_count, sink.value_of_received_parts, sink.value)
        if seen != (st['n'], st['v'], st['v']):
            self.results.append(f'sinkcb-unbooked {self.didx(sink)} part={self.pidx(part)} inside its receive callback the sink reports '
                                f'count={ival(seen[0])} received-value={ival(seen[1])} value={ival(seen[2])}, '
                                f'with this part it has received count={st["n"]} value={ival(st["v"])}')

    def make_asset(self, toks):
        t = toks[0]
        if t == 'dev':
            self.make_dev(toks[1], kvs(toks[2:]))
        elif t == 'group':
            gid = int(toks[1])
            kv = kvs(toks[2:])
            devs = [self.devs[int(i)] for i in plist(kv.get('devs', '-'))]
            ins = None if kv.get('in', '-') == '-' else [self.devs[int(i)] for i in plist(kv['in'])]
            outs = None if kv.get('out', '-') == '-' else [self.devs[int(i)] for i in plist(kv['out'])]
            g = Group(f'G{gid}', devs, ins, outs)
            self.groups[gid] = g
            self.add_dev(g._input_device)
            self.add_dev(g._output_device)
        elif t == 'maint':
            kv = kvs(toks[1:])
            i = len(self.maints)
            args = {}
            if kv.get('cap', 'def') not in ('def',):
                args['capacity'] = INF if kv['cap'] == 'inf' else self.N(kv['cap'])
            m = Maintainer(f'M{i}', value=self.N(kv.get('value', '0')), **args)
            self.maints.append(m)
        elif t == 'sched':
            kv = kvs(toks[1:])
            i = len(self.scheds)
            # state number 0 is the object None (a legal state: a state can be any object)
            tt = [(int(a) / self.tick, (None if int(b) == 0 else int(b))) for a, b in (e.split(':') for e in plist(kv.get('tt', '-')))]
            args = {}
            if kv.get('cyc', 'def') != 'def':
                args['is_cyclical'] = kv['cyc'] == '1'
            s = SchedX(tt, f'S{i}', **args)
            s._vrunner = self
            s._vidx = i
            self.scheds.append(s)
        elif t == 'sensor':
            kind = toks[1]
            kv = kvs(toks[2:])
            i = len(self.sensors)
            args = {}
            if kv.get('cap', 'def') not in ('def',):
                args['data_capacity'] = INF if kv['cap'] == 'inf' else self.N(kv['cap'])
            if kind == 'per':
                probes = []
                for v in plist(kv.get('vars', '-')):
                    self.set_var(int(v), self.svars[int(v)].x[0] if int(v) < len(self.svars) else 0)
                    probes.append(Probe(lambda tgt: tgt.x, self.svars[int(v)]))
                s = PeriodicSensor(int(kv.get('interval', '16')) / self.tick, probes, f'N{i - i % 2}', **args)
            else:
                probes = [Probe((lambda tgt: tgt.quality) if a == '0' else (lambda tgt: tgt.value), None)
                          for a in plist(kv.get('attrs', '-'))]
                if kv.get('n', 'def') != 'def':
                    args['sensing_interval'] = self.N(kv['n'])
                s = OutputPartSensor(self.devs[int(kv['proc'])], probes, name=f'N{i - i % 2}', **args)
            runner = self
            for c in range(int(kv.get('cbs', '0'))):
                def on_sense(sensor, time, data, c=c, i=i):
                    ok = sensor is runner.sensors[i]
                    # what an observer sees DURING the callback: all stored series equally long and within capacity
                    lens = {len(v) for v in sensor.data.values()}
                    cap = getattr(sensor, '_data_capacity', None)
                    aligned = len(lens) <= 1 and (cap is None or all(x <= cap for x in lens))
                    runner.results.append(f'sense {i} {c} {ticks(time)} {jn(";", (runner.sval(x) for x in data))}'
                                          + ('' if ok else ' badargs') + ('' if aligned else ' misaligned-series'))
                s.add_on_sense_callback(on_sense)
            self.sensors.append(s)
        elif t == 'cms':
            i = len(self.cmss)
            runner = self

            class CmsX(Cms):
                def on_sense(self, sensor, time, data):
                    si = runner.sensors.index(sensor)
                    runner.results.append(f'sense {si} {1000 + i} {ticks(time)} {jn(";", (runner.sval(x) for x in data))}')
            self.cmss.append(CmsX(None, f'C{i}'))
        else:
            self.out.append('harness-error bad-asset ' + ' '.join(toks))

    def sval(self, x):
        import collections
        if isinstance(x, (list, collections.deque, Box)):
            return ival(x[0])
        return ival(x)

    def make_dev(self, kind, kv):
        i = len(self.devs)
        # distinct devices carry EQUAL names in two of five scenarios
        name = Name({1: 'D', 3: ''}.get(self.scen_no % 5, f'D{i}'), dev=i)
        ups = [self.devs[int(u)] for u in plist(kv.get('up', '-'))]
        cyc = int(kv.get('cyc', '0')) / self.tick
        value = self.N(kv.get('value', '0'))
        if kind == 'source':
            args = {}
            if kv.get('budget', 'def') != 'def':
                args['starting_parts'] = INF if kv['budget'] == 'inf' else self.N(kv['budget'])
            gen = GenX(f'P{i}', self.N(kv.get('pval', '0')), self.N(kv.get('pqual', '1')), int(kv.get('batchof', '0')), phase=i)
            d = Source(name, gen, cyc, **args)
        elif kind == 'handler':
            d = PartHandler(name, ups, cyc, value)
        elif kind == 'processor':
            res = preq(kv['res'], self.N) if 'res' in kv else None
            d = ProcX(name, ups, cyc, value, res)
            for spec in plist(kv.get('fincb', '-')):
                d.add_finish_processing_callback(self.make_part_cb(spec))
            runner = self

            def failobs(dev, is_failure, lost, i=i):
                # what an observer sees at the moment a FAILURE is announced (first shutdown callback): the failed
                # machine has lost its part and must already have given its resources back.  Silent when it has.
                if not is_failure or getattr(dev, '_part', None) is not None:
                    return
                rr = getattr(dev, '_reserved_resources', None)
                held = {k: v for k, v in (rr.reserved_resources.items() if rr is not None else ()) if v != 0}
                if held:
                    use = jn(';', (f'{runner.rid(k)}:{ival(runner.rm.get_resource_usage(k))}' for k in held))
                    runner.results.append(f'failobs {i} holds-at-failure [{runner.req_str(held)}] usage={use}')
            d.add_shutdown_callback(failobs)
            for c in range(int(kv.get('nshut', '0'))):
                def shut(dev, is_failure, lost, c=c, i=i):
                    runner.results.append(f'shut {i} {c} {1 if is_failure else 0} '
                                          f'{runner.pid.get(lost.id, "?") if lost is not None else "-"}')
                d.add_shutdown_callback(shut)
            if kv.get('shutrestore', '0') in ('1', '2'):
                # 1: a zero-time repair: the machine is restored from inside its own failure
                # 2: additionally the first maintenance shutdown is vetoed the same way (later ones stand)
                veto = [kv['shutrestore'] == '2']

                def repair(dev, is_failure, lost, veto=veto):
                    if is_failure:
                        dev.restore_functionality()
                    elif veto[0]:
                        veto[0] = False
                        dev.restore_functionality()
                d.add_shutdown_callback(repair)
            for c in range(int(kv.get('nrest', '0'))):
                def rest(dev, c=c, i=i):
                    runner.results.append(f'restored {i} {c}')
                d.add_restored_callback(rest)
        elif kind == 'buffer':
            args = {}
            if kv.get('cap', 'def') != 'def':
                args['capacity'] = None if kv['cap'] == 'inf' else self.N(kv['cap'])
            d = Buffer(name, ups, int(kv.get('delay', '0')) / self.tick, value=value, **args)
        elif kind == 'gate':
            pred = kv.get('pred', 'always').split(':')

            def decider(gate, part, pred=pred):
                if pred[0] == 'always':
                    return True
                if pred[0] == 'never':
                    return False
                x = part.quality if pred[0][0] == 'q' else part.value
                return x >= int(pred[1]) if pred[0].endswith('ge') else x < int(pred[1])
            d = DecisionGate(name, ups, decider)
        elif kind == 'batcher':
            bsz = kv.get('bsz', '-')
            d = PartBatcher(name, ups, value, None if bsz in ('-', 'def', 'inf') else self.N(bsz))
        elif kind == 'sink':
            d = Sink(name, ups, cyc, kv.get('collect', '0') == '1')
        elif kind == 'gpath':
            d = self.groups[int(kv['group'])].get_new_group_path(name, ups)
        else:
            self.out.append('harness-error bad-kind ' + kind)
            return
        if kind in ('handler', 'processor', 'sink', 'buffer', 'batcher'):
            for spec in plist(kv.get('recvcb', '-')):
                d.add_receive_part_callback(self.make_part_cb(spec))
        ups.clear()              # the upstream list belongs to the caller: the device keeps its own copy
        self.add_dev(d)

    # ---- scripted operations ----------------------------------------------------------------
    def get_var(self, h):
        return self.vars[h] if h < len(self.vars) else None

    def set_hvar(self, h, v):
        while len(self.vars) <= h:
            self.vars.append(None)
        self.vars[h] = v

    def do_op_ext(self, toks):
        op = toks[0]
        rm = self.rm
        env = self.env
        if op == 'addres':
            rm.add_resources(f'r{toks[1]}', self.N(toks[2]))
            return 'ok'
        if op == 'reserve':
            # the SAME dictionary object is passed for equal requests (callers reuse their request
            # dictionaries; a reservation must not share its holdings table with the caller)
            cache = self.__dict__.setdefault('_req_cache', {})
            req = cache.get(toks[2])
            if req is None or req != preq(toks[2]):
                req = cache[toks[2]] = preq(toks[2], self.N)
            r = rm.reserve_resources(req)
            self.set_hvar(int(toks[1]), r)
            return 'ret none' if r is None else 'ret some'
        if op == 'release':
            v = self.get_var(int(toks[1]))
            if len(toks) > 2:
                v.release(preq(toks[2], self.N))
            else:
                v.release()
            return 'ok'
        if op == 'merge':
            a, b = self.get_var(int(toks[1])), self.get_var(int(toks[2]))
            a.merge(b)
            return 'ok'
        if op == 'register':
            # the callback is a BOUND METHOD of the requester object of script k (one object per k): two
            # registrations of one requester have equal, not identical, callbacks -- and each is an entry of its own
            k = int(toks[1])
            req = preq(toks[2], self.N)
            who = self.requesters.get(k)
            if who is None:
                who = self.requesters[k] = Requester(self, k)
            who.asked.append(req)
            rm.reserve_resources_with_callback(req, who.on_resources)
            return 'ok'
        if op in ('schedfail', 'schedfailrel'):
            t = int(toks[2]) / self.tick
            if op == 'schedfailrel':
                t = env.now + t
            self.devs[int(toks[1])].schedule_failure(t)
            return 'ok'
        if op == 'shutdown':
            self.devs[int(toks[1])].shutdown()
            return 'ok'
        if op == 'restore':
            self.devs[int(toks[1])].restore_functionality()
            return 'ok'
        if op == 'block':
            self.devs[int(toks[1])].block_input = toks[2] == '1'
            return 'ok'
        if op == 'adjust':
            self.devs[int(toks[1])].adjust_part_count(self.N(toks[2]))
            return 'ok'
        if op == 'setcycle':
            self.devs[int(toks[1])].cycle_time = int(toks[2]) / self.tick
            return 'ok'
        if op == 'offset':
            self.devs[int(toks[1])].offset_next_cycle_time(int(toks[2]) / self.tick)
            return 'ok'
        if op == 'rewire':
            ul = [self.devs[int(u)] for u in plist(toks[2])]
            self.devs[int(toks[1])].set_upstream(ul)
            ul.clear()           # as above
            return 'ok'
        if op == 'wo':
            m = self.maints[int(toks[1])]
            # the tag is a freshly built tuple: equal to, but never the same object as, earlier tags
            r = m.create_work_order(self.targets[int(toks[2])]['obj'], tuple([int(toks[3])]), int(toks[4]))
            return 'ret 1' if r else 'ret 0'
        if op == 'setparams':
            self.targets[int(toks[1])]['params'][int(toks[2])] = (int(toks[3]), self.N(toks[4]), self.N(toks[5]))
            return 'ok'
        if op == 'regobj':
            s = self.scheds[int(toks[1])]
            k = int(toks[2])
            obj = self.objs.setdefault(k, Obj(k))
            ovr = None
            if toks[3] != '-':
                o = int(toks[3])
                runner = self

                def ovr(sched, ob, time, state, o=o):
                    ok = sched is s
                    runner.results.append(f'act {s._vidx} {ob.k} {ticks(time)} {sstate(state)} {o}'
                                          + ('' if ok else ' badargs')
                                          + ('' if sched.current_state == state else ' stale-state'))
            if ovr is not None and k % 2 == 1:
                ovr = FalsyOverride(ovr)
            r = s.register_object(obj, ovr)
            return 'ret 1' if r else 'ret 0'
        if op == 'unregobj':
            s = self.scheds[int(toks[1])]
            k = int(toks[2])
            obj = self.objs.setdefault(k, Obj(k))
            r = s.unregister_object(obj)
            return 'ret 1' if r else 'ret 0'
        if op == 'setvar':
            self.set_var(int(toks[1]), int(toks[2]))
            return 'ok'
        if op == 'addsensor':
            self.cmss[int(toks[1])].add_sensor(self.sensors[int(toks[2])])
            return 'ok'
        if op == 'create':
            self.make_asset(toks[1:])
            self._sync_assets()
            return 'ok'
        return super().do_op_ext(toks)

    # ---- state dump -------------------------------------------------------------------------
    def rid(self, name):
        return name[1:]

    def req_str(self, d):
        return jn(';', (f'{self.rid(k)}:{ival(v)}' for k, v in d.items()))

    def pidx(self, p):
        return str(self.pid.get(p.id, '?')) if p is not None else '-'

    def rec_line(self, label, sub, dp):
        if label == 'resource_update':
            return f'rec resource_update {self.rid(sub)} {ticks(dp[0])} {ival(dp[1])} {ival(dp[2])}'
        names = self.name_map()
        if label in ('level', 'received_part', 'produced_part', 'device_failure', 'supplied_new_part'):
            dev = self.owner_of(sub, '_vdev', [getattr(d, 'name', None) for d in self.devs])
        if label == 'level':
            return f'rec level {dev} {ticks(dp[0])} {ival(dp[1])}'
        if label in ('received_part', 'produced_part'):
            return f'rec {label} {dev} {ticks(dp[0])} {self.pid.get(dp[1], "?")} {ival(dp[2])} {ival(dp[3])}'
        if label == 'device_failure':
            return f'rec device_failure {dev} {ticks(dp[0])} {self.pid.get(dp[1], "?") if dp[1] is not None else "-"}'
        if label == 'supplied_new_part':
            return f'rec supplied_new_part {dev} {ticks(dp[0])} {self.pid.get(dp[1], "?")}'
        if label in ('enter_queue', 'start_work_order', 'finish_work_order'):
            tgt = self.owner_of(dp[1], '_vtgt', [getattr(t['obj'], 'name', 'N/A') for t in self.targets])
            return f'rec {label} {names.get(sub, "?")} {ticks(dp[0])} {tgt} {ival(dp[2])} {ival(dp[3])}'
        if label == 'schedule_update':
            return f'rec schedule_update {names.get(sub, "?")} {ticks(dp[0])} {sstate(dp[1])}'
        return f'rec {label} ? {dp}'

    @staticmethod
    def owner_of(name, attr, all_names):
        """index of the object a name in a record belongs to: read from the name object itself (see Name); a library
        that hands on a copy of the text is understood as long as the text is unambiguous"""
        k = getattr(name, attr, None)
        if k is not None:
            return k
        hits = [i for i, n in enumerate(all_names) if n == name]
        return hits[0] if len(hits) == 1 else '?'

    def name_map(self):
        m = {}
        for i, d in enumerate(self.maints):
            m[d.name] = i
        for i, d in enumerate(self.scheds):
            m[d.name] = i
        return m

    def kind_of(self, d):
        for cls, k in ((Source, 'source'), (Sink, 'sink'), (Buffer, 'buffer'), (PartBatcher, 'batcher'),
                       (PartProcessor, 'processor'), (PartHandler, 'handler'), (DecisionGate, 'gate'),
                       (GroupPath, 'gpath'), (GroupInput, 'ginput'), (GroupOutput, 'goutput')):
            if isinstance(d, cls):
                return k
        return '?'

    def dev_line(self, i, d):
        """one state line per device; every field is read defensively ('?' if the attribute is gone)
        so that a renamed private field only affects the projections that contain it"""
        k = self.kind_of(d)
        now = self.env.now

        def g(a, dflt=None):
            return getattr(d, a, dflt)

        def safe(f):
            try:
                return f()
            except Exception:
                return '?'
        handler = isinstance(d, PartHandler)
        if k == 'processor':
            # the PUBLIC accounting (what a user reads), not the private accumulators
            # (before the device has an environment the properties cannot be evaluated: private formula)
            def _pub(prop, acc, start):
                if getattr(d, '_env', None) is not None:
                    return ticks(getattr(d, prop))
                return ticks(getattr(d, acc) + ((now - getattr(d, start)) if getattr(d, start) is not None else 0))
            up = safe(lambda: _pub('uptime', '_uptime', '_last_restore'))
            use = safe(lambda: _pub('utilization_time', '_time_in_use', '_last_use_start'))
            down = safe(lambda: ival(d._is_shut_down))
            resv = safe(lambda: '-' if d._reserved_resources is None else '[' + self.req_str(d._reserved_resources._reserved_resources) + ']')
            wres = safe(lambda: ival(d._waiting_for_resources))
        else:
            up = use = '0'
            down = '0'
            resv = '-'
            wres = '0'
        fields = [
            ('part', lambda: self.pidx(g('_part'))), ('out', lambda: self.pidx(g('_output'))),
            ('wds', lambda: ival(bool(g('_waiting_for_downstream_space', False)))),
            ('since', lambda: ticks(d._waiting_for_part_since) if handler else '-'),
            ('blk', lambda: ival(d._block_input)), ('down', lambda: down), ('resv', lambda: resv), ('wres', lambda: wres),
            ('up', lambda: up), ('use', lambda: use), ('val', lambda: ival(d.value)), ('vh', lambda: str(len(d.value_history))),
            ('prod', lambda: ival(g('produced_parts', 0))), ('cost', lambda: ival(g('cost_of_produced_parts', 0))),
            ('max', lambda: ival(g('_max_produced_parts', INF))), ('recv', lambda: ival(g('received_parts_count', 0))),
            ('rval', lambda: ival(g('value_of_received_parts', 0))),
            ('lvl', lambda: ival(d.level() if hasattr(d, 'level') else 0)),
            ('buf', lambda: jn(';', (f'{ticks(t)}:{self.pidx(p)}' for t, p in g('_buffer', [])))),
            ('inprog', lambda: self.pidx(g('_in_progress_batch'))),
            ('coll', lambda: jn(';', (self.pidx(p) for p in g('collected_parts', [])))),
            ('cyc', lambda: ticks(g('_cycle_time', 0))), ('off', lambda: ticks(g('_next_cycle_time_offset', 0))),
            ('dn', lambda: jn(';', (str(self.didx(x)) for x in d._downstream))),
            ('ups', lambda: jn(';', (str(self.didx(x)) for x in d._upstream))),
        ]
        return f'd {i} {k} ' + ' '.join(f'{name}={safe(f)}' for name, f in fields)

    def live_parts(self):
        acc = []

        def add(p):
            if p is None:
                return
            if p not in acc:
                acc.append(p)
            if isinstance(p, Batch):
                for k in p.parts:
                    if k not in acc:
                        acc.append(k)
        for d in self.devs:
            add(getattr(d, '_part', None))
            add(getattr(d, '_output', None))
            for _, p in getattr(d, '_buffer', []):
                add(p)
            add(getattr(d, '_in_progress_batch', None))
            for p in getattr(d, 'collected_parts', []):
                add(p)
        return acc

    def part_line(self, p):
        kids = '[' + jn(';', (self.pidx(k) for k in p.parts)) + ']' if isinstance(p, Batch) else '-'
        return (f'p {self.pidx(p)} q={ival(p.quality)} v={ival(p.value)} '
                f'hist={jn(";", (str(self.didx(x)) for x in p._routing_history))} '
                f'stack={jn(";", (str(self.didx(x)) for x in p._group_pathing))} kids={kids}')

    def order_str(self, o):
        return f'{getattr(o, "_vseq", "?")}:{self.tgt_of.get(id(o.target), "?")}:{ival(o.tag)}:{ival(o.needed_capacity)}'

    def flush_results(self):
        super().flush_results()
        for label, sub, dp, marker in self.records:
            self.out.append(self.rec_line(label, sub, dp) + marker)
        self.records = []

    def dump_ext(self):
        rm = self.rm
        o = self.out
        if self.valcheck:
            self.dump_ext_values()
        for name in rm._resources:
            # the PUBLIC getters (what a user reads)
            o.append(f'r {self.rid(name)} use={ival(rm.get_resource_usage(name))} cap={ival(rm.get_resource_capacity(name))}')
        if rm._waiting_requests:
            items = []
            for req, cb in rm._waiting_requests:
                s = getattr(cb, '__self__', None)
                tag = f's{s.k}' if isinstance(s, Requester) else (f'p{self.didx(s)}' if s is not None else '?')
                items.append(self.req_str(req) + '@' + tag)
            o.append('wq ' + ','.join(items))
        else:
            o.append('wq -')
        sums = {name: 0 for name in rm._resources}
        for rr in self.all_resv:
            for name, a in rr.reserved_resources.items():
                sums[name] = sums.get(name, 0) + a
        o.append('hsum 0 ' + jn(';', (f'{self.rid(n)}:{ival(sums[n])}' for n in rm._resources)))
        for h, v in enumerate(self.vars):
            o.append(f'h {h} ' + ('none' if v is None else '[' + self.req_str(v.reserved_resources) + ']'))
        for i, d in enumerate(self.devs):
            o.append(self.dev_line(i, d))
        for p in self.live_parts():
            o.append(self.part_line(p))
        for i, m in enumerate(self.maints):
            o.append(f'm {i} util={ival(m._utilization)} avail={ival(m.available_capacity)} '
                     f'queue={jn(";", (self.order_str(x) for x in m._request_queue))} '
                     f'active={jn(";", (self.order_str(x) for x in m._active_requests))} '
                     f'val={ival(m.value)} vh={len(m.value_history)}')
        for i, s in enumerate(self.scheds):
            reg = jn(';', (f'{ob.k}:{"-" if a is None else getattr(a, "fn", a).__defaults__[0]}' for ob, a in s._registered_objects.items()))
            started = getattr(s, '_env', None) is not None
            o.append(f's {i} state={sstate(s.current_state) if started else ival(s.current_state)} reg={reg}')
        for i, s in enumerate(self.sensors):
            data = jn('|', (jn(';', (self.sval(x) for x in s.data[p])) for p in s._probes))
            tm = jn(';', (ticks(x) for x in s.data.get('time', [])))
            o.append(f'n {i} data={data} time={tm} last={jn(";", (self.sval(x) for x in s.last_sense))}')


    # ---- C03 observer: lost wake-ups (deep-copy probe at every clock advance) -----------------
    def pre_step(self, ev):
        if not self.probe or ev is None or self.probing:
            return
        if not (ev.time > self.env.now):
            return
        try:
            self.run_probe()
        except impl.StepLimit:
            raise
        except Exception as e:
            self.out.append(f'harness-error probe {type(e).__name__} {e}')

    def ready_parts(self):
        out = []
        now = self.env.now
        for i, d in enumerate(self.devs):
            if not isinstance(d, PartHandler) or isinstance(d, Sink) or not d.is_operational():
                continue
            if isinstance(d, Buffer):
                if d._buffer and d._minimum_delay - (now - d._buffer[0][0]) <= 0:
                    out.append((i, 'buf'))
            elif isinstance(d, Source):
                if d._output is not None and d.remaining_parts >= 1:
                    out.append((i, 'out'))
            elif d._output is not None:
                out.append((i, 'out'))
        return out

    def run_probe(self):
        import copy
        ready = self.ready_parts()
        if not ready:
            return
        self.probing = True
        saved_ctx = impl.CTX
        try:
            for i, where in ready:
                n = len(self.devs[i].get_sorted_downstream_list())
                for j in range(n):
                    impl.CTX = None
                    devs2 = copy.deepcopy(self.devs)
                    d2 = devs2[i]
                    p2 = d2._buffer[0][1] if where == 'buf' else d2._output
                    tgt = d2.get_sorted_downstream_list()[j]
                    ok = False
                    try:
                        ok = tgt.give_part(p2)
                    except Exception as e:
                        self.out.append(f'probe-error {i} {type(e).__name__}')
                    if ok:
                        orig_tgt = self.devs[i].get_sorted_downstream_list()[j]
                        self.out.append(f'lostwake {ticks(self.env.now)} dev={i} downstream={self.didx(orig_tgt)} '
                                        f'part={self.pidx(self.devs[i]._buffer[0][1] if where == "buf" else self.devs[i]._output)}')
        finally:
            impl.CTX = saved_ctx
            self.probing = False

    # ---- C16: value bookkeeping on the live objects -------------------------------------------
    def dump_ext_values(self):
        bad = []
        assets = list(self.system._assets)
        for a in assets:
            tot = a._initial_value
            for e in a.value_history:
                if len(e) != 4 or e[2] == 0:
                    bad.append(f'{a.name}: malformed or zero entry {e}')
                    continue
                tot += e[2]
                if e[3] != tot:
                    bad.append(f'{a.name}: running total {e[3]} != {tot}')
            if a.value != tot:
                bad.append(f'{a.name}: value {a.value} != initial + history {tot}')
            if isinstance(a, Source) and a.value != -a.cost_of_produced_parts:
                bad.append(f'{a.name}: source value {a.value} != -cost of supplied parts {a.cost_of_produced_parts}')
            if isinstance(a, Sink) and a.value != a.value_of_received_parts:
                bad.append(f'{a.name}: sink value {a.value} != value of received parts {a.value_of_received_parts}')
        net = self.system.get_net_value_of_assets()
        if net != sum(a.value for a in assets):
            bad.append(f'net value {net} != sum of asset values')
        for p in self.live_parts():
            if isinstance(p, Batch):
                if p.value != sum(x.value for x in p.parts):
                    bad.append(f'batch {self.pidx(p)} value')
            else:
                tot = p._initial_value + sum(e[2] for e in p.value_history)
                if p._env is not None and p.value != tot:
                    bad.append(f'part {self.pidx(p)}: value {p.value} != initial + history {tot}')
        for b in bad[:3]:
            self.out.append('valbad ' + b)


class ProbeRunner(FullRunner):
    probe = True


class ValueRunner(FullRunner):
    valcheck = True


# ---- C20: system lifecycle (registration, single initialisation, look-up) ----------------------
from simprocesd.model.factory_floor.asset import Asset as _Asset  # noqa: E402

_orig_asset_initialize = _Asset.initialize


def _asset_initialize(self, env):
    r = impl.CTX
    if r is not None and hasattr(r, 'init_counts'):
        r.init_counts[id(self)] = r.init_counts.get(id(self), 0) + 1
    return _orig_asset_initialize(self, env)


_Asset.initialize = _asset_initialize


class MakerX(PartHandler):
    """a device that builds `n` more assets while it is being initialised (like a scheduler whose first
    action sets up part of the line); with depth > 1 the last child is a maker again"""

    def __init__(self, runner, n, depth):
        super().__init__(name=f'M{len(runner.sassets)}')
        self._mk = (runner, n, depth)
        self._made = False

    def initialize(self, env):
        super().initialize(env)
        if self._made:
            return
        self._made = True
        runner, n, depth = self._mk
        for j in range(n):
            if depth > 1 and j == n - 1:
                runner.sassets.append(MakerX(runner, n, depth - 1))
            else:
                cls = [PartHandler, Buffer, Sink, Source][j % 4]
                runner.sassets.append(cls(name=f'K{len(runner.sassets)}'))


class MakerRM(_rmmod.ResourceManager):
    """a user ResourceManager whose start-up hook (`initialize`, called when the simulation starts for the first
    time) constructs `n` assets -- like a manager that sets up the monitoring of its pools once it knows the
    environment; the last one is a maker itself when depth > 1"""

    def __init__(self, runner, n, depth):
        super().__init__()
        self._mk = (runner, n, depth)
        self._made = False

    def initialize(self, env):
        super().initialize(env)
        if self._made:
            return
        self._made = True
        runner, n, depth = self._mk
        for j in range(n):
            if depth > 1 and j == n - 1:
                runner.sassets.append(MakerX(runner, n, depth - 1))
            else:
                cls = [Sink, PartHandler, Source, Buffer][j % 4]
                runner.sassets.append(cls(name=f'R{len(runner.sassets)}'))


def _multi_sim(system, index):
    system.simulate(0, print_summary=False)


class NesterX(PartHandler):
    """a device that constructs helper assets inside its own constructor (like a machine that makes its
    own sensor): the helpers get later ids but are registered first"""

    def __init__(self, runner, n):
        super().__init__(name=f'N{len(runner.sassets)}')
        for j in range(n):
            cls = [Buffer, Sink, PartHandler][j % 3]
            runner.sassets.append(cls(name=f'H{len(runner.sassets)}'))


class SysRunner(FullRunner):
    CLS = {'handler': PartHandler, 'processor': PartProcessor, 'sink': Sink, 'buffer': Buffer, 'source': Source,
           'maint': Maintainer}

    def reset(self):
        super().reset()
        self.smode = False
        self.systems = []
        self.sassets = []
        self.init_counts = {}

    @staticmethod
    def _sname(n):
        # name number 0 is the empty string (a legal asset name that is falsy)
        return '' if n == '0' else f'A{n}'

    def handle_ext(self, toks):
        if toks[0] != 'S':
            return super().handle_ext(toks)
        if not self.smode:
            # lifecycle scenarios start without any System
            System._instance = None
            self.smode = True
        op = toks[1]
        try:
            if op == 'new':
                self.systems.append(System())
                self.out.append('sres ok')
            elif op == 'newrm':
                # a System with a user's ResourceManager whose start-up hook constructs assets
                self.systems.append(System(resource_manager=MakerRM(self, int(toks[2]), int(toks[3]))))
                self.out.append('sres ok')
            elif op == 'asset' and toks[2] == 'nester':
                a = NesterX(self, int(toks[3]))
                self.sassets.append(a)
                self.out.append('sres ok')
            elif op == 'asset' and toks[2] == 'maker':
                # an asset whose start-up (initialize) constructs further assets, `depth` levels deep
                a = MakerX(self, int(toks[3]), int(toks[4]))
                self.sassets.append(a)
                self.out.append('sres ok')
            elif op == 'asset':
                cls = self.CLS[toks[2]]
                a = cls(name=self._sname(toks[3]))
                self.sassets.append(a)
                self.out.append('sres ok')
            elif op == 'simulate':
                self.systems[int(toks[2])].simulate(0, print_summary=False)
                self.out.append('sres ok')
            elif op == 'multi':
                # in-thread repetitions: each creates a System (which becomes the current one) and simulates it
                got = System.simulate_multiple_times(_multi_sim, int(toks[2]), 0)
                self.systems.extend(got)
                self.out.append('sres ok')
            elif op == 'find':
                sysm = self.systems[int(toks[2])]
                kw = {}
                if toks[3] != '-':
                    kw['name'] = self._sname(toks[3])
                if toks[4] != '-':
                    kw['id_'] = self.sassets[int(toks[4])].id if int(toks[4]) < len(self.sassets) else -12345
                if toks[5] != '-':
                    kw['type_'] = self.CLS[toks[5]]
                if toks[6] != '-':
                    kw['subtype'] = self.CLS[toks[6]]
                found = sysm.find_assets(**kw)
                self.out.append('sres found ' + jn(';', (str(self.sassets.index(x)) for x in found)))
                found.clear()          # the returned list belongs to the caller
            elif op == 'counts':
                self.out.append('scount ' + jn(';', (str(self.init_counts.get(id(a), 0)) for a in self.sassets)))
        except Exception as e:
            self.out.append(f'sres err {type(e).__name__}')
