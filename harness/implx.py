"""Extended runner: components and factory floor (built on impl.Runner)."""
from impl import *  # noqa
import impl


class FullRunner(impl.Runner):
    pass
