"""Run a scenario (protocol lines) on the REAL simprocesd code from /repo and print the canonical
observation stream (same format as lean/Driver.lean).

All instrumentation is applied from here by wrapping methods; /repo needs no hooks.
"""
import functools
import io
import re
import os
import sys
import contextlib

REPO = os.environ.get('SIMPROCESD_REPO', '/repo')
if REPO not in sys.path:
    sys.path.insert(0, REPO)

import simprocesd.model.simulation as simulation  # noqa: E402
from simprocesd.model.simulation import Environment, Event, EventType  # noqa: E402
from simprocesd.model import System  # noqa: E402
import simprocesd.model.resource_manager as resource_manager  # noqa: E402
from simprocesd.model.factory_floor.asset import Asset  # noqa: E402

TICK = 16.0
_tick = [16.0]
STEP_LIMIT = 8000


class StepLimit(Exception):
    pass


class Num(int):
    """an integer as a user gets it from a configuration reader or a numeric library: EQUAL to the plain int,
    hashable like it, but never the same object as the interpreter's cached small ints or as the number stored
    elsewhere (arithmetic on it yields plain ints again).  A correct library compares numbers by value, never by
    identity or exact type."""
    __slots__ = ()


def weight_of(seed, wmod, t, asset, act, prio):
    if wmod == 0:
        return 0
    return ((seed * 7919 + max(t, 0) * 40503 + max(asset + 7, 0) * 9973 + act * 101 + max(prio, 0) * 17)
            % 1000003) % wmod


def ticks(t):
    """Canonical rendering of a time value: integer ticks when exact, else the float repr."""
    if t is None:
        return '-'
    v = t * TICK
    if v == int(v):
        return str(int(v))
    return 'f' + repr(float(t))


def qprio(et):
    v = float(et) * 4
    if v == int(v):
        return str(int(v))
    return 'f' + repr(float(et))


CTX = None  # the Runner currently executing (Event.__init__ wrapper needs it)

_orig_event_init = Event.__init__
_orig_step = Environment.step


def _event_init(self, time, asset_id, action, event_type, message=''):
    _orig_event_init(self, time, asset_id, action, event_type, message)
    r = CTX
    if r is None or not r.keyed_weights or r.in_bystander:
        return
    try:
        t = time * TICK
        p = float(event_type) * 4
        if t == int(t) and p == int(p):
            self.random_weight = weight_of(r.seed, r.wmod, int(t), r.canon_asset(asset_id),
                                           r.act_code(action), int(p))
        else:
            self.random_weight = 0
    except Exception as e:  # pragma: no cover
        r.out.append(f'harness-error weight {type(e).__name__} {e}')


def _step(self):
    r = CTX
    if r is None or self is not r.env:
        return _orig_step(self)
    ev = self._events[0] if self._events else None
    r.steps += 1
    if r.steps > STEP_LIMIT:
        raise StepLimit()
    r.pre_step(ev)
    try:
        with contextlib.redirect_stdout(io.StringIO()):
            _orig_step(self)
    except StepLimit:
        raise
    except Exception as e:
        r.emit_event(ev)
        r.flush_results()
        r.out.append(f'abort {type(e).__name__}')
        r.aborted = True
        raise
    r.emit_event(ev)
    r.flush_results()
    r.dump()


_orig_run = Environment.run


def _run(self, simulation_duration, trace=False):
    r = CTX
    if r is not None and self is r.env:
        # state after System.simulate's initialisation, before the first event of this run
        r.flush_results()
        r.dump()
    return _orig_run(self, simulation_duration, trace)


# ---- bystander environments ------------------------------------------------------------------------------------
# Other Environment objects live next to the one under test (a second model in the same process, a copy kept for
# comparison).  Whenever the environment under test pauses, resumes or cancels the events of an asset, the SAME
# operation with an EQUAL id is first performed on every bystander (each holds events of its own for that id), and
# after a pause one more bystander is constructed.  None of this may be visible in the environment under test:
# instances share no state.  (Nothing is printed; a library that shares state shows a different event stream.)
_orig_pause = Environment.pause_matching_events
_orig_unpause = Environment.unpause_matching_events
_orig_cancel = Environment.cancel_matching_events


def _nothing():
    pass


def _bystander_op(orig, after_pause=False):
    @functools.wraps(orig)
    def f(self, asset_id=None):
        r = CTX
        if r is None or self is not getattr(r, 'env', None) or r.in_bystander or asset_id is None \
                or not isinstance(asset_id, int):
            return orig(self, asset_id)
        r.in_bystander = True
        try:
            for b in r.bystanders:
                if after_pause:
                    b.schedule_event(b.now + 1, Num(asset_id), _nothing)
                orig(b, Num(asset_id))
        except Exception as e:  # pragma: no cover
            r.out.append(f'harness-error bystander {type(e).__name__} {e}')
        finally:
            r.in_bystander = False
        res = orig(self, asset_id)
        if after_pause:
            r.in_bystander = True
            try:
                r.bystanders = r.bystanders[-2:] + [Environment()]
            finally:
                r.in_bystander = False
        return res
    return f


Event.__init__ = _event_init
Environment.step = _step
Environment.run = _run
Environment.pause_matching_events = _bystander_op(_orig_pause, after_pause=True)
Environment.unpause_matching_events = _bystander_op(_orig_unpause)
Environment.cancel_matching_events = _bystander_op(_orig_cancel)
# ReservedResources.__del__ prints and dereferences a possibly missing env: silence it.
resource_manager.ReservedResources.__del__ = lambda self: None


class ScriptAction:
    """Action of a scripted event: runs the ops of script k, recording each op's result."""

    def __init__(self, runner, k):
        self.runner = runner
        self.k = k
        self.__name__ = f'script_{k}'

    def __call__(self):
        r = self.runner
        for op in r.scripts.get(self.k, []):
            r.results.append(r.do_op(op))


class Runner:
    def __init__(self, keyed_weights=True):
        self.keyed_weights = keyed_weights
        self.out = []
        self.scen_no = 0
        self.reset()

    # ---- scenario state -------------------------------------------------------------------
    def reset(self):
        self.seed = 0
        self.wmod = 0
        self.tick = TICK
        self.scripts = {}
        self.results = []
        self.steps = 0
        self.aborted = False
        self.system = self.make_system()
        self.env = self.system.env
        self.in_bystander = True
        self.bystanders = [Environment('bystander')]
        self.in_bystander = False
        self.id2idx = {}
        self.eids = {}
        self.keep = []
        self.lastline = {}
        self._numc = 0

    def N(self, v):
        """integer PARAMETER or asset id handed to the library: two out of three are fresh `Num` instances (see
        there); nothing of this shows in the observation stream of a correct library"""
        v = int(v)
        self._numc += 1
        return v if self._numc % 3 == 0 else Num(v)

    def make_system(self):
        return System()

    # ---- canonicalisation -----------------------------------------------------------------
    def canon_asset(self, asset_id):
        if asset_id in self.id2idx:
            return self.id2idx[asset_id]
        return asset_id

    def real_asset(self, a):
        # the id given to schedule / pause / unpause / cancel is equal to, but mostly not the same object as,
        # the id stored in the events it has to match
        return self.N(a)

    def act_code(self, action):
        if isinstance(action, ScriptAction):
            return 1 + 16 * action.k
        f = getattr(action, '__func__', None)
        s = getattr(action, '__self__', None)
        if f is not None and isinstance(s, Environment) and f.__name__ == '_terminate':
            return 0
        return self.act_code_ext(action)

    def act_code_ext(self, action):
        return 15

    def eid(self, e):
        k = id(e)
        if k not in self.eids:
            self.eids[k] = len(self.eids)
            self.keep.append(e)
        return self.eids[k]

    def ev_str(self, e):
        return ':'.join([ticks(e.time), qprio(e.event_type), str(self.canon_asset(e.asset_id)),
                         str(self.act_code(e.action)), str(e.random_weight if self.keyed_weights else 0),
                         ticks(e.paused_at), '1' if e.cancelled else '0'])

    # ---- output ---------------------------------------------------------------------------
    def pre_step(self, ev):
        pass

    def emit_event(self, e):
        if e is None:
            return
        st = 'cancelled' if e.cancelled and e.status == 'cancelled' else 'ran'
        self.out.append(f'ev {ticks(self.env.now)} {qprio(e.event_type)} {self.canon_asset(e.asset_id)} '
                        f'{self.act_code(e.action)} {st}')
        self.out.append(f'evid {self.eid(e)} {ticks(e.time)}')

    def flush_results(self):
        for r in self.results:
            self.out.append('res ' + r)
        self.results = []

    def dump(self):
        """State lines that changed since they were last printed (`now` always: frame delimiter)."""
        env = self.env
        full = self.out
        self.out = []
        self.out.append(f'now {ticks(env.now)} {1 if env._terminated else 0}')
        self.out.append('q ' + (','.join(self.ev_str(e) for e in env._events) or '-'))
        self.out.append('z ' + (','.join(self.ev_str(e) for e in env._paused_events) or '-'))
        # identities (implementation side only; never compared with the model)
        self.out.append('qid ' + (','.join(str(self.eid(e)) for e in env._events) or '-'))
        self.out.append('zid ' + (','.join(str(self.eid(e)) for e in env._paused_events) or '-'))
        self.dump_ext()
        lines = self.out
        self.out = full
        for l in lines:
            t = l.split(' ', 2)
            k = t[0] if t[0] in ('now', 'q', 'z', 'wq', 'qid', 'zid') else t[0] + ' ' + t[1]
            if k == 'now' or self.lastline.get(k) != l:
                self.out.append(l)
                self.lastline[k] = l

    def dump_ext(self):
        pass

    # ---- operations -----------------------------------------------------------------------
    def do_op(self, toks):
        try:
            with contextlib.redirect_stdout(io.StringIO()):
                return self.do_op_raw(toks)
        except StepLimit:
            raise
        except Exception as e:
            return 'err ' + type(e).__name__

    def do_op_raw(self, toks):
        op = toks[0]
        env = self.env
        if op in ('sched', 'schedrel'):
            t = int(toks[1]) / self.tick
            if op == 'schedrel':
                t = env.now + t
            env.schedule_event(t, self.real_asset(int(toks[2])), ScriptAction(self, int(toks[3])),
                               int(toks[4]) / 4.0)
            return 'ok'
        if op == 'pause':
            env.pause_matching_events(self.real_asset(int(toks[1])))
            return 'ok'
        if op == 'unpause':
            env.unpause_matching_events(self.real_asset(int(toks[1])))
            return 'ok'
        if op == 'cancel':
            env.cancel_matching_events(self.real_asset(int(toks[1])))
            return 'ok'
        return self.do_op_ext(toks)

    def do_op_ext(self, toks):
        raise RuntimeError('bad op ' + ' '.join(toks))

    # ---- lines ----------------------------------------------------------------------------
    def handle(self, toks):
        global CTX
        CTX = self
        k = toks[0]
        if k == 'scenario':
            try:
                self.scen_no = int(toks[1])
            except (IndexError, ValueError):
                self.scen_no = 0
            self.reset()
            self.out.append(f'scenario {toks[1]}')
        elif k == 'seed':
            self.seed, self.wmod = int(toks[1]), int(toks[2])
        elif k == 'tick':
            self.tick = float(toks[1])
        elif k == 'idoff':
            Asset._id_counter += int(toks[1])
        elif k == 'script':
            self.scripts.setdefault(int(toks[1]), []).append(toks[2:])
        elif k == 'ext':
            self.results.append(self.do_op(toks[1:]))
            self.flush_results()
            self.dump()
        elif k == 'step':
            if not self.env._events:
                self.out.append('res err IndexError')
            else:
                try:
                    self.env.step()
                except StepLimit:
                    self.out.append('abort StepLimit')
                except Exception:
                    pass
        elif k == 'run':
            d = int(toks[1]) / self.tick
            self.steps = 0
            try:
                self.out.append(f'runbegin {ticks(self.env.now)} {ticks(d)}')
                # the printed summary is public behaviour: "Parts received by sink(s)" must count every registered
                # sink, also those constructed while this run was in progress
                before = _sink_total(self.system)
                buf = io.StringIO()
                try:
                    with contextlib.redirect_stdout(buf):
                        self.system.simulate(d, print_summary=True)
                finally:
                    m = re.search(r'Parts received by sink\(s\): (-?\d+)', buf.getvalue())
                    after = _sink_total(self.system)
                    if m and before is not None and after is not None and int(m.group(1)) != after - before:
                        self.out.append(f'summary-mismatch printed={m.group(1)} received-by-registered-sinks={after - before}')
            except StepLimit:
                self.out.append('abort StepLimit')
            except Exception as e:
                if not self.aborted:
                    self.out.append(f'abort-run {type(e).__name__}')
            self.out.append(f'ran {ticks(self.env.now)}')
        elif k == 'end':
            self.out.append('end')
        else:
            self.handle_ext(toks)

    def handle_ext(self, toks):
        self.out.append('harness-error bad-line ' + ' '.join(toks))


def _sink_total(system):
    try:
        from simprocesd.model.factory_floor.sink import Sink
        return sum(a.received_parts_count for a in list(system._assets) if isinstance(a, Sink))
    except Exception:
        return None


def run_text(text, runner_cls=Runner, **kw):
    r = runner_cls(**kw)
    for line in text.splitlines():
        toks = line.split()
        if toks:
            r.handle(toks)
    return r.out


if __name__ == '__main__':
    sys.stdout.write('\n'.join(run_text(sys.stdin.read())) + '\n')
