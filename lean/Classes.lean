/-
Class membership of an INITIAL world: for every closed-world file `SimProc/Props/*W.lean`, `*D.lean`,
`*T.lean`, `*S.lean`, the (decidable) hypotheses that the file's main reachability theorem puts on
the initial world, evaluated by `decide`.

`classReport w` is the table printed by the executable `spclass` (`ClassDriver.lean`).

Every flag `X` is `decide (HX w)` where `HX w : Prop` is a conjunction defined below, and for every
flag there is a theorem `HX_sound` (or `HX_iff`) that derives the hypotheses of the named theorem,
literally as that theorem states them, from `HX w`.

* Where all hypotheses are decidable with the project's instances, `HX w` IS their conjunction
  (`…_iff : HX w ↔ …` by `Iff.rfl` or a structure eta).
* Missing `Decidable` instances (`C03W.EvOK`, `C03W.FreshA`, `C07.PInv`, `C01.UserState`,
  `C06W.TargetsProc`, `C06W.NoBadFail`, `C17W.NoFailNonProc`, `C02.Budget`, `C02V.ScriptsStatic`,
  `C02V.HasBad`, `w.env = {}` — `Env` has no `DecidableEq`: Bool function `envEmpty` with
  `envEmpty_iff`) are written here (section "instances").  Hypotheses that are `structure`s without
  an instance (`C06W.Static'`, `C06W.Init`, `C08S.Start`, `C18W.Static`, `C18W.Fresh`, `C05W.Init`,
  `C17W.Init`) are spelled out field by field, with the equivalence / implication as a theorem
  (`HC06W_sound`, `HC08S_iff`, `HC18W_iff`, `HC05W_sound`, `HC17W_sound`).
* `classReport_spec` collects, for every printed flag, what a `1` means.
* Hypotheses that are NOT decidable on a world as stated are replaced by the decidable sufficient
  condition the file provides:
  - `C02V.Static w` (= `C02.Static`; files C02, C08W, C05W, C06W/C06T, C17W): its middle conjunct
    `TopoOK w` quantifies over all paths of the wiring.  Replaced by `StaticD w` = `ScriptsStatic w` ∧
    (`w.devs = []` ∨ `C08W.WiredOK w`) ∧ the third conjunct of `Static` verbatim (no pending failure of
    a sink).  `staticD_sound : StaticD w → C02V.Static w` uses `C08W.topoOK_of_wired`, the lemma behind
    the file's `C08W.static_of_wired`; `staticD_of_wired` shows that `StaticD` is implied by the
    hypotheses of `static_of_wired` (so it is at least as permissive), the disjunct `w.devs = []`
    (worlds without devices: resource / maintainer / scheduler scenarios) is proved here.
  - `∃ cl, C03W.S5 cl w` (C03W, stages D–F): the computed certificate `C03Z.ctxInfer w`
    (`C03W.no_lost_wakeup5_infer`).
  - `∃ need, C02W.Dyn need w` (C02W, C15D, C16D): `C02W.DynAuto w`; this one is exact
    (`C02W.dynAuto_iff`).
  - `C09.Inv w.rm` (C09W; its clause `usageEq` quantifies over all resource names): the bounded form
    `C09W.InvD w.rm`; exact (`C09W.invD_iff`, `HC09W_iff`).
* C13Q (`Static' ∧ Init ∧ InitQ`): the class of C06W (`HC06W`, with `StaticD`) and `C13Q.InitQ`, which
  has its own instance.  C18D (`C18D.SD`): a `structure` of `C18W.Static (noScr w)`, `C18W.Fresh w`,
  `C20W.Reg w` and a clause over the operations of the scripts; spelled out field by field, exact
  (`HC18D_iff`).  C19D (`C19D.SDS`): the same structure with the clause over the scripts stated with
  `C19D.opDS`; spelled out field by field, exact (`HC19D_iff`).
-/
import SimProc.Props.C01W
import SimProc.Props.C02
import SimProc.Props.C02W
import SimProc.Props.C03W
import SimProc.Props.C05W
import SimProc.Props.C06W
import SimProc.Props.C06T
import SimProc.Props.C08W
import SimProc.Props.C08S
import SimProc.Props.C09W
import SimProc.Props.C10W
import SimProc.Props.C11W
import SimProc.Props.C12W
import SimProc.Props.C13Q
import SimProc.Props.C14W
import SimProc.Props.C15W
import SimProc.Props.C15D
import SimProc.Props.C16W
import SimProc.Props.C16D
import SimProc.Props.C17W
import SimProc.Props.C18W
import SimProc.Props.C18D
import SimProc.Props.C19W
import SimProc.Props.C19D
import SimProc.Props.C20W

namespace SimProc
namespace Classes
open World

/-! ## instances that the project does not provide -/

section instances

/-- `∀ d, o = some d → Q d` for an option `o`. -/
instance decForallEqSome {α : Type} (o : Option α) (Q : α → Prop) [DecidablePred Q] :
    Decidable (∀ d, o = some d → Q d) :=
  match o with
  | none => isTrue (fun _ h => by cases h)
  | some a =>
    if h : Q a then isTrue (fun d hd => by cases hd; exact h)
    else isFalse (fun hq => h (hq a rfl))

/-- `∃ d, o = some d ∧ Q d` for an option `o`. -/
instance decExistsEqSome {α : Type} (o : Option α) (Q : α → Prop) [DecidablePred Q] :
    Decidable (∃ d, o = some d ∧ Q d) :=
  match o with
  | none => isFalse (fun ⟨_, h, _⟩ => by cases h)
  | some a =>
    if h : Q a then isTrue ⟨a, rfl, h⟩
    else isFalse (fun ⟨d, hd, hq⟩ => by cases hd; exact h hq)

/-- The device an action fails, if it is a failure. -/
def failOf : Action → Option Nat
  | .fail d => some d
  | _ => none

theorem failOf_iff (a : Action) (d : Nat) : a = .fail d ↔ failOf a = some d := by
  cases a <;> simp [failOf]

instance decForallFail (a : Action) (Q : Nat → Prop) [DecidablePred Q] :
    Decidable (∀ d, a = .fail d → Q d) :=
  decidable_of_iff (∀ d, failOf a = some d → Q d)
    ⟨fun h d hd => h d ((failOf_iff a d).1 hd), fun h d hd => h d ((failOf_iff a d).2 hd)⟩

instance decExistsFail (a : Action) (Q : Nat → Prop) [DecidablePred Q] :
    Decidable (∃ d, a = .fail d ∧ Q d) :=
  decidable_of_iff (∃ d, failOf a = some d ∧ Q d)
    ⟨fun ⟨d, hd, hq⟩ => ⟨d, (failOf_iff a d).2 hd, hq⟩, fun ⟨d, hd, hq⟩ => ⟨d, (failOf_iff a d).1 hd, hq⟩⟩

instance decBadAct (P : Nat → Prop) [DecidablePred P] (n : Nat) : Decidable (C02V.badAct P n) := by
  unfold C02V.badAct; infer_instance

instance decHasBad (bad : Nat → Prop) [DecidablePred bad] (w : World) : Decidable (C02V.HasBad bad w) := by
  unfold C02V.HasBad; infer_instance

/-- `w.env = {}` (`Env` has no `DecidableEq`): field by field. -/
def envEmpty (e : Env) : Bool :=
  e.now == 0 && e.events.isEmpty && e.paused.isEmpty && e.terminated && e.nextUid == 0

theorem envEmpty_iff (e : Env) : envEmpty e = true ↔ e = {} := by
  obtain ⟨n, ev, pa, t, u⟩ := e
  simp only [envEmpty, Bool.and_eq_true, beq_iff_eq, List.isEmpty_iff, Env.mk.injEq]
  constructor
  · rintro ⟨⟨⟨⟨h1, h2⟩, h3⟩, h4⟩, h5⟩; exact ⟨h1, h2, h3, h4, h5⟩
  · rintro ⟨h1, h2, h3, h4, h5⟩; exact ⟨⟨⟨⟨h1, h2⟩, h3⟩, h4⟩, h5⟩

instance (e : Env) : Decidable (e = {}) := decidable_of_iff _ (envEmpty_iff e)

instance (w : World) : Decidable (C03W.EvOK w) := by unfold C03W.EvOK; infer_instance

instance (w : World) : Decidable (C03W.FreshA w) := by unfold C03W.FreshA; infer_instance

instance (s : Env) : Decidable (C07.PInv s) := by unfold C07.PInv; infer_instance

instance (s : Env) : Decidable (C01.UserState s) := by unfold C01.UserState; infer_instance

instance (w : World) : Decidable (C02.Budget w) := by unfold C02.Budget; infer_instance

instance (w : World) : Decidable (C06W.TargetsProc w) := by unfold C06W.TargetsProc; infer_instance

instance (w : World) : DecidablePred (C06W.np w) := fun d => by unfold C06W.np; infer_instance

instance (w : World) : Decidable (C06W.NoBadFail w) := by unfold C06W.NoBadFail; infer_instance

instance (w : World) : Decidable (C17W.NoFailNonProc w) := by unfold C17W.NoFailNonProc; infer_instance

end instances

/-! ## the sufficient condition for `C02V.Static` -/

/-- Decidable sufficient condition for `C02V.Static w` (= `C02.Static w`, `C08W`'s / `C05W`'s /
`C06W`'s / `C17W`'s `Static`): static scripts; no device at all, or every configured downstream
device and every group input exists (`C08W.WiredOK`); no failure of a sink pending (the third
conjunct of `Static`, verbatim). -/
def StaticD (w : World) : Prop :=
  C02V.ScriptsStatic w ∧ (w.devs = [] ∨ C08W.WiredOK w) ∧
    ¬ C02V.HasBad (C02V.badAct (fun d => (w.dev d).kind = .sink)) w

instance (w : World) (op : Op) : Decidable (C02V.OpStatic w op) := by
  cases op <;> (simp only [C02V.OpStatic]; infer_instance)

instance (w : World) : Decidable (C02V.ScriptsStatic w) := by unfold C02V.ScriptsStatic; infer_instance

instance (w : World) : Decidable (StaticD w) := by unfold StaticD; infer_instance

theorem topoOK_of_nodevs {w : World} (h : w.devs = []) : C02V.TopoOK w := by
  intro x y hy
  have : w.dev x = default := C02V.dev_of_ge w x (by simp [h])
  rw [this] at hy
  cases hy

/-- `StaticD` implies `Static` (with `C08W.topoOK_of_wired`, the lemma behind `C08W.static_of_wired`). -/
theorem staticD_sound {w : World} (h : StaticD w) : C02V.Static w :=
  ⟨h.1, h.2.1.elim topoOK_of_nodevs C08W.topoOK_of_wired, h.2.2⟩

/-- `StaticD` is implied by the hypotheses of the file's own criterion `C08W.static_of_wired`. -/
theorem staticD_of_wired {w : World} (h1 : C02V.ScriptsStatic w) (h2 : C08W.WiredOK w)
    (h3 : w.env.events = [] ∧ w.env.paused = []) : StaticD w :=
  ⟨h1, Or.inr h2, (C08W.static_of_wired h1 h2 h3).2.2⟩

/-! ## the classes -/

/-- **C01W** (also C07 in the closed world): `C01W.Reach.init` — the hypotheses under which a world is
the start of `C01W.Reach` / `C01W.ReachI` (`envInv_reachable`, `dispatch_order_world`,
`clock_monotone_world`, `executed_once_world`, `run_ends_world`, …). -/
def HC01W (w : World) : Prop := w.env = {} ∧ C01W.Good w
instance (w : World) : Decidable (HC01W w) := by unfold HC01W; infer_instance
theorem HC01W_sound {w : World} (h : HC01W w) : C01W.Reach w [] ∧ C01W.ReachI w [] :=
  ⟨.init w h.1 h.2, .init w h.1 h.2⟩

/-- **C14W**: `C14W.world_run_split` (`Good w`, `C01.Inv w.env`, `C01.UserState w.env`). -/
def HC14W (w : World) : Prop := C01W.Good w ∧ C01.Inv w.env ∧ C01.UserState w.env
instance (w : World) : Decidable (HC14W w) := by unfold HC14W; infer_instance

/-- **C02**: `C02.conservation_reachable` (`Fresh w`, `Static w`; `Static` through `StaticD`). -/
def HC02 (w : World) : Prop := C02.Fresh w ∧ StaticD w
instance (w : World) : Decidable (HC02 w) := by unfold HC02; infer_instance
theorem HC02_sound {w : World} (h : HC02 w) : C02.Fresh w ∧ C02V.Static w := ⟨h.1, staticD_sound h.2⟩

/-- **C08W**: `C08W.route_reachable` (`C02.Fresh w`, `Static w`): the class of C02. -/
abbrev HC08W := HC02

/-- **C02W**: `C02W.conservation_reachable_auto` (`C02.Fresh w0`, `DynAuto w0`); equivalently
`conservation_reachable_dyn` for some `need` (`C02W.dynAuto_iff`). -/
def HC02W (w : World) : Prop := C02.Fresh w ∧ C02W.DynAuto w
instance (w : World) : Decidable (HC02W w) := by unfold HC02W; infer_instance
theorem HC02W_iff (w : World) : HC02W w ↔ C02.Fresh w ∧ ∃ need, C02W.Dyn need w := by
  unfold HC02W; rw [C02W.dynAuto_iff]

/-- **C02W, budget**: `C02W.budget_reachable_dyn` (`C02.Budget w0`, `BudScripts w0`). -/
def HC02WB (w : World) : Prop := C02.Budget w ∧ C02W.BudScripts w
instance (w : World) : Decidable (HC02WB w) := by unfold HC02WB; infer_instance

/-- **C03W, stage S1**: `C03W.no_lost_wakeup_reachable`
(`S1 w`, `C01.Inv w.env`, `0 ≤ w.now`, `EvOK w`, `C02.Fresh w`). -/
def HC03W_S1 (w : World) : Prop :=
  C03W.S1 w ∧ C01.Inv w.env ∧ 0 ≤ w.now ∧ C03W.EvOK w ∧ C02.Fresh w
instance (w : World) : Decidable (HC03W_S1 w) := by unfold HC03W_S1; infer_instance

/-- **C03W, stages A–C** (resources, batchers, one shared group; re-wiring from outside):
`C03W.no_lost_wakeupC_reachable` / `no_lost_wakeupC_rewire_reachable`
(`S4 w`, `C01.Inv w.env`, `0 ≤ w.now`, `EvOK w`, `FreshA w`; the second also `C20W.Reg w`: flag
`C03W_S4` ∧ `C20W`). -/
def HC03W_S4 (w : World) : Prop :=
  C03W.S4 w ∧ C01.Inv w.env ∧ 0 ≤ w.now ∧ C03W.EvOK w ∧ C03W.FreshA w
instance (w : World) : Decidable (HC03W_S4 w) := by unfold HC03W_S4; infer_instance

/-- **C03W, stages D–F** (several groups): `C03W.no_lost_wakeup5_infer`
(`S5 (C03Z.ctxInfer w) w`, `C01.Inv w.env`, `0 ≤ w.now`, `EvOK w`, `FreshA w`) — the computed
certificate in the place of `∃ cl, S5 cl w` of `no_lost_wakeup5_reachable`. -/
def HC03W_S5 (w : World) : Prop :=
  C03W.S5 (C03Z.ctxInfer w) w ∧ C01.Inv w.env ∧ 0 ≤ w.now ∧ C03W.EvOK w ∧ C03W.FreshA w
instance (w : World) : Decidable (HC03W_S5 w) := by unfold HC03W_S5; infer_instance
theorem HC03W_S5_sound {w : World} (h : HC03W_S5 w) :
    ∃ cl, C03W.S5 cl w ∧ C01.Inv w.env ∧ 0 ≤ w.now ∧ C03W.EvOK w ∧ C03W.FreshA w := ⟨_, h⟩

/-- **C03W, several groups and re-wiring from outside**: `C03W.no_lost_wakeup5_rewire_reachable`
(as `C03W_S5`, and `C20W.Reg w0`). -/
def HC03W_S5R (w : World) : Prop := HC03W_S5 w ∧ C20W.Reg w
instance (w : World) : Decidable (HC03W_S5R w) := by unfold HC03W_S5R; infer_instance

/-- **C03W, stage RF** (the whole one-group scope and re-wiring in scripts):
`C03W.no_lost_wakeup_rewire_all_reachable`
(`S4R w0`, `C01.Inv w0.env`, `0 ≤ w0.now`, `EvOK w0`, `FreshA w0`, `C20W.Reg w0`). -/
def HC03W_S4R (w : World) : Prop :=
  C03W.S4R w ∧ C01.Inv w.env ∧ 0 ≤ w.now ∧ C03W.EvOK w ∧ C03W.FreshA w ∧ C20W.Reg w
instance (w : World) : Decidable (HC03W_S4R w) := by unfold HC03W_S4R; infer_instance

/-- **C05W**: `C05W.bufOK_reachable` (`C05W.Init w`: `C02.Fresh`, `Static`, `C01.Inv w.env`,
`LevelZero`; `Static` through `StaticD`). -/
def HC05W (w : World) : Prop := C02.Fresh w ∧ StaticD w ∧ C01.Inv w.env ∧ C05W.LevelZero w
instance (w : World) : Decidable (HC05W w) := by unfold HC05W; infer_instance
theorem HC05W_sound {w : World} (h : HC05W w) : C05W.Init w :=
  ⟨h.1, staticD_sound h.2.1, h.2.2.1, h.2.2.2⟩

/-- **C06W** (and C06T, C13 in the closed world): `C06W.timer_reachable`,
`C06T.cycle_time_exact_reachable` (`C06W.Static' w`, `C06W.Init w`; `Static` through `StaticD`). -/
def HC06W (w : World) : Prop :=
  (StaticD w ∧ (w.devs.map (·.aid)).Nodup ∧ C06W.TargetsProc w ∧ C06W.ScriptsNoPause w ∧
    C06W.NoBadFail w) ∧
  ((∀ d ∈ w.devs, d.part = none ∧ d.output = none) ∧
   (∀ d ∈ w.devs, d.kind = .processor →
      d.shutDown = false ∧ d.lastRestore.isSome = true ∧ d.lastUseStart = none) ∧
   (∀ e ∈ w.env.events ++ w.env.paused, e.live = true → e.act % 16 ≠ 2) ∧
   C01.Inv w.env ∧ C07.PInv w.env ∧ w.error = none)
instance (w : World) : Decidable (HC06W w) := by unfold HC06W; infer_instance
theorem HC06W_sound {w : World} (h : HC06W w) : C06W.Static' w ∧ C06W.Init w :=
  ⟨⟨staticD_sound h.1.1, h.1.2.1, h.1.2.2.1, h.1.2.2.2.1, h.1.2.2.2.2⟩,
   ⟨h.2.1, h.2.2.1, h.2.2.2.1, h.2.2.2.2.1, h.2.2.2.2.2.1, h.2.2.2.2.2.2⟩⟩

/-- **C08S**: `C08S.idle_clock_sound` … for `C08S.Reachable w0` (`C08S.Start w0`). -/
def HC08S (w : World) : Prop :=
  C08S.ScriptsOK w ∧ C01W.Good w ∧ C01.Inv w.env ∧
    ∀ d ∈ w.devs, C08S.isS d.kind = true →
      d.part = none ∧ d.output = none ∧ d.since = none ∧ d.inited = false
instance (w : World) : Decidable (HC08S w) := by unfold HC08S; infer_instance
theorem HC08S_iff (w : World) : HC08S w ↔ C08S.Start w :=
  ⟨fun h => ⟨h.1, h.2.1, h.2.2.1, h.2.2.2⟩, fun h => ⟨h.scripts, h.good, h.queue, h.fresh⟩⟩

/-- **C09W**: `C09W.rmInv_reachable` (also `before_init`, `rmInv_reach`, `usage_eq_sum`, …)
(`C09W.ReqWF w0`, `C09.Inv w0.rm`; the pool invariant of the initial pools in its bounded, decidable
form `C09W.InvD`, exact by `C09W.invD_iff`). -/
def HC09W (w : World) : Prop := C09W.ReqWF w ∧ C09W.InvD w.rm
instance (w : World) : Decidable (HC09W w) := by unfold HC09W; infer_instance
theorem HC09W_iff (w : World) : HC09W w ↔ C09W.ReqWF w ∧ C09.Inv w.rm := by
  unfold HC09W; rw [C09W.invD_iff]
theorem HC09W_sound {w : World} (h : HC09W w) : C09W.ReqWF w ∧ C09.Inv w.rm := (HC09W_iff w).1 h

/-- **C10W**: `C10W.inv0_reachable`, `inv_reachable` (`Cls w0`, `Fresh w0`). -/
def HC10W (w : World) : Prop := C10W.Cls w ∧ C10W.Fresh w
instance (w : World) : Decidable (HC10W w) := by unfold HC10W; infer_instance

/-- **C10W, fuel**: `C10W.cbQuiet_reachable` / `stepDone_of_class` (additionally `RegQuiet w0`,
`CbQuiet w0`). -/
def HC10WQ (w : World) : Prop := HC10W w ∧ C10W.RegQuiet w ∧ C10W.CbQuiet w
instance (w : World) : Decidable (HC10WQ w) := by unfold HC10WQ; infer_instance

/-- **C11W**: `C11W.inv_reachable` (`S w0`, `FreshR w0`). -/
def HC11W (w : World) : Prop := C11W.S w ∧ C11W.FreshR w
instance (w : World) : Decidable (HC11W w) := by unfold HC11W; infer_instance

/-- **C12W**: `C12W.inv_of_fresh` + `C12W.inv_reachable` (`S w`, `Fresh w`). -/
def HC12W (w : World) : Prop := C12W.S w ∧ C12W.Fresh w
instance (w : World) : Decidable (HC12W w) := by unfold HC12W; infer_instance

/-- **C13Q**: `C13Q.qi_run`, `down_is_quiet`, `reservation_kept_run` (`C06W.Static' w0`, `C06W.Init w0`,
`C13Q.InitQ w0`: the class of C06W — through `HC06W`, hence `StaticD` — and the clause on the initial
queue / the part budgets of processors). -/
def HC13Q (w : World) : Prop := HC06W w ∧ C13Q.InitQ w
instance (w : World) : Decidable (HC13Q w) := by unfold HC13Q; infer_instance
theorem HC13Q_sound {w : World} (h : HC13Q w) : C06W.Static' w ∧ C06W.Init w ∧ C13Q.InitQ w :=
  ⟨(HC06W_sound h.1).1, (HC06W_sound h.1).2, h.2⟩

/-- **C15W / C16W**: `C15W.supplied_count_reachable`, …, `C16W.vinv_reachable`, …
(`C15W.Fresh w0`, `NoCreate w0`). -/
def HC15W (w : World) : Prop := C15W.Fresh w ∧ C15W.NoCreate w
instance (w : World) : Decidable (HC15W w) := by unfold HC15W; infer_instance

/-- **C15W, sorted log**: `C15W.log_sorted_reachable` (additionally `C01.Inv w0.env`). -/
def HC15WL (w : World) : Prop := HC15W w ∧ C01.Inv w.env
instance (w : World) : Decidable (HC15WL w) := by unfold HC15WL; infer_instance

/-- **C15D / C16D, arbitrary payloads**: `C15D.last_resource_reachable_dyn`,
`C16D.vinv_reachable_dyn`, … for `ReachableAny` (`C15W.Fresh w0` only). -/
def HC15DA (w : World) : Prop := C15W.Fresh w
instance (w : World) : Decidable (HC15DA w) := by unfold HC15DA; infer_instance

/-- **C15D / C16D**: `C15D.supplied_count_reachable_dyn`, `received_count_reachable_dyn`,
`last_level_reachable_dyn`, `C16D.valueInv_reachable_dyn` (`C15W.Fresh w0`, `ScriptsNew w0`). -/
def HC15D (w : World) : Prop := C15W.Fresh w ∧ C15D.ScriptsNew w
instance (w : World) : Decidable (HC15D w) := by unfold HC15D; infer_instance

/-- **C15D, no batches**: `C15D.no_batches_reachable_dyn`, `received_count_per_sink_initial_dyn`
(additionally `ScriptsNB w0`, `NoBatch w0`). -/
def HC15DNB (w : World) : Prop := HC15D w ∧ C15D.ScriptsNB w ∧ C15W.NoBatch w
instance (w : World) : Decidable (HC15DNB w) := by unfold HC15DNB; infer_instance

/-- **C15D / C16D, closed wiring**: `C15D.received_value_reachable_dyn`,
`C16D.sink_value_records_dyn` (additionally `C02W.Dyn need w0` for some `need`: `DynAuto`, exact). -/
def HC15DW (w : World) : Prop := HC15D w ∧ C02W.DynAuto w
instance (w : World) : Decidable (HC15DW w) := by unfold HC15DW; infer_instance
theorem HC15DW_iff (w : World) :
    HC15DW w ↔ (C15W.Fresh w ∧ C15D.ScriptsNew w) ∧ ∃ need, C02W.Dyn need w := by
  unfold HC15DW HC15D; rw [C02W.dynAuto_iff]

/-- **C15D, per sink**: `C15D.received_count_per_sink_dyn` (all of the above). -/
def HC15DWB (w : World) : Prop := HC15DNB w ∧ C02W.DynAuto w
instance (w : World) : Decidable (HC15DWB w) := by unfold HC15DWB; infer_instance

/-- **C17W**: `C17W.batcher_wf_reachable`, `sizes_reachable` (`C17W.Init w`: `C02.Fresh`, `Static`,
`SizesPos`; `Static` through `StaticD`). -/
def HC17W (w : World) : Prop := C02.Fresh w ∧ StaticD w ∧ C17W.SizesPos w
instance (w : World) : Decidable (HC17W w) := by unfold HC17W; infer_instance
theorem HC17W_sound {w : World} (h : HC17W w) : C17W.Init w := ⟨h.1, staticD_sound h.2.1, h.2.2⟩

/-- **C17W, order**: `C17W.order_reachable_closed` (additionally `NoFailNonProc w0`). -/
def HC17WO (w : World) : Prop := HC17W w ∧ C17W.NoFailNonProc w
instance (w : World) : Decidable (HC17WO w) := by unfold HC17WO; infer_instance

/-- **C18W / C19W**: `C18W.si_reachable`, `acts_reachable`, `C19W.periodic_sensor_reachable`,
`output_sensor_reachable` (`C18W.Static w0`, `C18W.Fresh w0`). -/
def HC18W (w : World) : Prop :=
  ((∀ a ∈ (C18W.tk w).ta, a ≠ 0 ∧ ∀ d ∈ w.devs, d.aid ≠ a) ∧
   (∀ l ∈ w.scripts, ∀ op ∈ l, C18W.opOK (C18W.tk w).ta op = true) ∧
   (∀ sw ∈ w.scheds, ∀ p ∈ sw.s.tt, 0 ≤ p.1) ∧
   (∀ sw ∈ w.sensors, sw.s.kind = .periodic → 0 ≤ sw.s.interval) ∧
   w.assets.Nodup ∧ (∀ a ∈ w.assets, C18W.refOK w a = true)) ∧
  (w.started = false ∧ C01.Inv w.env ∧
   (∀ e ∈ w.env.events ++ w.env.paused, C18W.tracked e = false) ∧
   (∀ sw ∈ w.scheds, sw.s.idx = 0) ∧ (∀ sw ∈ w.sensors, sw.registered = false) ∧
   (∀ d ∈ w.devs, d.finSensors = []) ∧ (∀ r ∈ w.recs, C18W.trackedRec r = false) ∧
   (∀ r ∈ w.results, C18W.trackedRes r = false))
instance (w : World) : Decidable (HC18W w) := by unfold HC18W; infer_instance
theorem HC18W_iff (w : World) : HC18W w ↔ C18W.Static w ∧ C18W.Fresh w :=
  ⟨fun ⟨⟨a, b, c, d, e, f⟩, ⟨g, h, i, j, k, l, m, n⟩⟩ => ⟨⟨a, b, c, d, e, f⟩, ⟨g, h, i, j, k, l, m, n⟩⟩,
   fun ⟨s, f⟩ => ⟨⟨s.aids, s.scr, s.dur, s.ivl, s.nodup, s.refs⟩,
     ⟨f.notStarted, f.queue, f.noTracked, f.idx, f.unreg, f.noFin, f.recs, f.results⟩⟩⟩

/-- **C18D**: `C18D.pending_transition_dyn`, `records_timetable_prefix_dyn`, `transition_step_dyn`,
`late_equals_early_shifted`, … (`C18D.SD w0`: `C18W.Static` of the world without its scripts,
`C18W.Fresh w0`, `C20W.Reg w0`, the scripts in the dynamic class `opD`); field by field, exact. -/
def HC18D (w : World) : Prop :=
  ((∀ a ∈ (C18W.tk (C03W.noScr w)).ta, a ≠ 0 ∧ ∀ d ∈ (C03W.noScr w).devs, d.aid ≠ a) ∧
   (∀ l ∈ (C03W.noScr w).scripts, ∀ op ∈ l, C18W.opOK (C18W.tk (C03W.noScr w)).ta op = true) ∧
   (∀ sw ∈ (C03W.noScr w).scheds, ∀ p ∈ sw.s.tt, 0 ≤ p.1) ∧
   (∀ sw ∈ (C03W.noScr w).sensors, sw.s.kind = .periodic → 0 ≤ sw.s.interval) ∧
   (C03W.noScr w).assets.Nodup ∧ (∀ a ∈ (C03W.noScr w).assets, C18W.refOK (C03W.noScr w) a = true)) ∧
  (w.started = false ∧ C01.Inv w.env ∧
   (∀ e ∈ w.env.events ++ w.env.paused, C18W.tracked e = false) ∧
   (∀ sw ∈ w.scheds, sw.s.idx = 0) ∧ (∀ sw ∈ w.sensors, sw.registered = false) ∧
   (∀ d ∈ w.devs, d.finSensors = []) ∧ (∀ r ∈ w.recs, C18W.trackedRec r = false) ∧
   (∀ r ∈ w.results, C18W.trackedRes r = false)) ∧
  C20W.Reg w ∧
  (∀ l ∈ w.scripts, ∀ op ∈ l, C18D.opD (C18W.tk w).ta w.assets.length op = true)
instance (w : World) : Decidable (HC18D w) := by unfold HC18D; infer_instance
theorem HC18D_iff (w : World) : HC18D w ↔ C18D.SD w :=
  ⟨fun ⟨⟨a, b, c, d, e, f⟩, ⟨g, h, i, j, k, l, m, n⟩, r, s⟩ =>
     ⟨⟨a, b, c, d, e, f⟩, ⟨g, h, i, j, k, l, m, n⟩, r, s⟩,
   fun ⟨s, f, r, c⟩ => ⟨⟨s.aids, s.scr, s.dur, s.ivl, s.nodup, s.refs⟩,
     ⟨f.notStarted, f.queue, f.noTracked, f.idx, f.unreg, f.noFin, f.recs, f.results⟩, r, c⟩⟩
theorem HC18D_sound {w : World} (h : HC18D w) : C18D.SD w := (HC18D_iff w).1 h

/-- **C19D**: `C19D.periodic_sensor_dyn`, `sample_step_dyn`, `series_dyn`,
`late_sensor_equals_early_shifted`, … (`C19D.SDS w0`: `C18W.Static` of the world without its scripts,
`C18W.Fresh w0`, `C20W.Reg w0`, the scripts in the dynamic class `opDS`); field by field, exact. -/
def HC19D (w : World) : Prop :=
  ((∀ a ∈ (C18W.tk (C03W.noScr w)).ta, a ≠ 0 ∧ ∀ d ∈ (C03W.noScr w).devs, d.aid ≠ a) ∧
   (∀ l ∈ (C03W.noScr w).scripts, ∀ op ∈ l, C18W.opOK (C18W.tk (C03W.noScr w)).ta op = true) ∧
   (∀ sw ∈ (C03W.noScr w).scheds, ∀ p ∈ sw.s.tt, 0 ≤ p.1) ∧
   (∀ sw ∈ (C03W.noScr w).sensors, sw.s.kind = .periodic → 0 ≤ sw.s.interval) ∧
   (C03W.noScr w).assets.Nodup ∧ (∀ a ∈ (C03W.noScr w).assets, C18W.refOK (C03W.noScr w) a = true)) ∧
  (w.started = false ∧ C01.Inv w.env ∧
   (∀ e ∈ w.env.events ++ w.env.paused, C18W.tracked e = false) ∧
   (∀ sw ∈ w.scheds, sw.s.idx = 0) ∧ (∀ sw ∈ w.sensors, sw.registered = false) ∧
   (∀ d ∈ w.devs, d.finSensors = []) ∧ (∀ r ∈ w.recs, C18W.trackedRec r = false) ∧
   (∀ r ∈ w.results, C18W.trackedRes r = false)) ∧
  C20W.Reg w ∧
  (∀ l ∈ w.scripts, ∀ op ∈ l, C19D.opDS (C18W.tk w).ta w.assets.length op = true)
instance (w : World) : Decidable (HC19D w) := by unfold HC19D; infer_instance
theorem HC19D_iff (w : World) : HC19D w ↔ C19D.SDS w :=
  ⟨fun ⟨⟨a, b, c, d, e, f⟩, ⟨g, h, i, j, k, l, m, n⟩, r, s⟩ =>
     ⟨⟨a, b, c, d, e, f⟩, ⟨g, h, i, j, k, l, m, n⟩, r, s⟩,
   fun ⟨s, f, r, c⟩ => ⟨⟨s.aids, s.scr, s.dur, s.ivl, s.nodup, s.refs⟩,
     ⟨f.notStarted, f.queue, f.noTracked, f.idx, f.unreg, f.noFin, f.recs, f.results⟩, r, c⟩⟩
theorem HC19D_sound {w : World} (h : HC19D w) : C19D.SDS w := (HC19D_iff w).1 h

/-- **C20W**: `C20W.reg_reachable`, `count_reachable` (`C20W.Reg w0`). -/
def HC20W (w : World) : Prop := C20W.Reg w
instance (w : World) : Decidable (HC20W w) := by unfold HC20W; infer_instance

/-! ## the table -/

/-- `decide` as a function of a decidable proposition (keeps the table readable). -/
@[inline] def flag (p : Prop) [Decidable p] : Bool := decide p

theorem flag_iff (p : Prop) [Decidable p] : flag p = true ↔ p := by simp [flag]

end Classes

open Classes in
/-- **The class table of an initial world.**  One entry per class; the entry `(X, b)` has
`b = decide (HX w)`, and `HX` (above, with the theorem it belongs to in its doc comment) is the
conjunction of the hypotheses which that theorem puts on the initial world (`classReport_spec`). -/
def classReport (w : World) : List (String × Bool) :=
  [ -- `C01W.Reach.init` (`envInv_reachable`, `dispatch_order_world`, …): `w.env = {} ∧ C01W.Good w`
    ("C01W", flag (HC01W w)),
    -- `C02.conservation_reachable`: `C02.Fresh w ∧ Static w` (through `StaticD`)
    ("C02", flag (HC02 w)),
    -- `C02W.conservation_reachable_auto`: `C02.Fresh w ∧ C02W.DynAuto w`
    ("C02W", flag (HC02W w)),
    -- `C02W.budget_reachable_dyn`: `C02.Budget w ∧ C02W.BudScripts w`
    ("C02W_B", flag (HC02WB w)),
    -- `C03W.no_lost_wakeup_reachable` (stage S1)
    ("C03W_S1", flag (HC03W_S1 w)),
    -- `C03W.no_lost_wakeupC_reachable` (stages A, B, C)
    ("C03W_S4", flag (HC03W_S4 w)),
    -- `C03W.no_lost_wakeup5_infer` (stages D, E, F; certificate `C03Z.ctxInfer w`)
    ("C03W_S5", flag (HC03W_S5 w)),
    -- `C03W.no_lost_wakeup5_rewire_reachable` (several groups, re-wiring from outside)
    ("C03W_S5R", flag (HC03W_S5R w)),
    -- `C03W.no_lost_wakeup_rewire_all_reachable` (stage RF: re-wiring in scripts)
    ("C03W_S4R", flag (HC03W_S4R w)),
    -- `C05W.bufOK_reachable`: `C05W.Init w`
    ("C05W", flag (HC05W w)),
    -- `C06W.timer_reachable`, `C06T.cycle_time_exact_reachable`: `C06W.Static' w ∧ C06W.Init w`
    ("C06W", flag (HC06W w)),
    -- `C08W.route_reachable`: `C02.Fresh w ∧ Static w` (the class of C02)
    ("C08W", flag (HC08W w)),
    -- `C08S.idle_clock_sound` … : `C08S.Start w`
    ("C08S", flag (HC08S w)),
    -- `C09W.rmInv_reachable`: `C09W.ReqWF w ∧ C09.Inv w.rm` (through `C09W.InvD`, exact)
    ("C09W", flag (HC09W w)),
    -- `C10W.inv0_reachable`: `C10W.Cls w ∧ C10W.Fresh w`
    ("C10W", flag (HC10W w)),
    -- `C10W.cbQuiet_reachable`: … `∧ RegQuiet w ∧ CbQuiet w`
    ("C10W_Q", flag (HC10WQ w)),
    -- `C11W.inv_reachable`: `C11W.S w ∧ C11W.FreshR w`
    ("C11W", flag (HC11W w)),
    -- `C12W.inv_of_fresh`, `C12W.inv_reachable`: `C12W.S w ∧ C12W.Fresh w`
    ("C12W", flag (HC12W w)),
    -- `C13Q.qi_run`, `down_is_quiet`, `reservation_kept_run`: `C06W.Static' w ∧ C06W.Init w ∧ C13Q.InitQ w`
    ("C13Q", flag (HC13Q w)),
    -- `C14W.world_run_split`: `C01W.Good w ∧ C01.Inv w.env ∧ C01.UserState w.env`
    ("C14W", flag (HC14W w)),
    -- `C15W.supplied_count_reachable` …, `C16W.vinv_reachable` …: `C15W.Fresh w ∧ NoCreate w`
    ("C15W", flag (HC15W w)),
    -- `C15W.log_sorted_reachable`: … `∧ C01.Inv w.env`
    ("C15W_L", flag (HC15WL w)),
    -- `C15D.last_resource_reachable_dyn`, `C16D.vinv_reachable_dyn` (`ReachableAny`): `C15W.Fresh w`
    ("C15D_A", flag (HC15DA w)),
    -- `C15D.supplied_count_reachable_dyn` …, `C16D.valueInv_reachable_dyn`: `Fresh w ∧ ScriptsNew w`
    ("C15D", flag (HC15D w)),
    -- `C15D.no_batches_reachable_dyn`: … `∧ ScriptsNB w ∧ NoBatch w`
    ("C15D_NB", flag (HC15DNB w)),
    -- `C15D.received_value_reachable_dyn`, `C16D.sink_value_records_dyn`: … `∧ ∃ need, Dyn need w`
    ("C15D_W", flag (HC15DW w)),
    -- `C15D.received_count_per_sink_dyn`: all of the C15D conditions
    ("C15D_WB", flag (HC15DWB w)),
    -- C16W: the class of C15W; C16D: the class of C15D
    ("C16W", flag (HC15W w)),
    ("C16D", flag (HC15D w)),
    -- `C17W.batcher_wf_reachable`, `sizes_reachable`: `C17W.Init w`
    ("C17W", flag (HC17W w)),
    -- `C17W.order_reachable_closed`: … `∧ NoFailNonProc w`
    ("C17W_O", flag (HC17WO w)),
    -- `C18W.si_reachable` …, `C19W.periodic_sensor_reachable` …: `C18W.Static w ∧ C18W.Fresh w`
    ("C18W", flag (HC18W w)),
    -- `C18D.pending_transition_dyn` …: `C18D.SD w` (field by field, exact)
    ("C18D", flag (HC18D w)),
    ("C19W", flag (HC18W w)),
    -- `C19D.periodic_sensor_dyn`, `series_dyn` …: `C19D.SDS w` (field by field, exact)
    ("C19D", flag (HC19D w)),
    -- `C20W.reg_reachable`: `C20W.Reg w`
    ("C20W", flag (HC20W w)) ]

namespace Classes

/-- The value of a flag in the table. -/
def flagOf (w : World) (name : String) : Option Bool := (classReport w).lookup name

/-- What the printed flags mean: each `1` gives the hypotheses of the theorem it names, as that
theorem states them (for `Static`: through the sufficient condition `StaticD`). -/
theorem classReport_spec (w : World) :
    (flagOf w "C01W" = some true → w.env = {} ∧ C01W.Good w) ∧
    (flagOf w "C02" = some true → C02.Fresh w ∧ C02V.Static w) ∧
    (flagOf w "C02W" = some true → C02.Fresh w ∧ ∃ need, C02W.Dyn need w) ∧
    (flagOf w "C02W_B" = some true → C02.Budget w ∧ C02W.BudScripts w) ∧
    (flagOf w "C03W_S1" = some true →
      C03W.S1 w ∧ C01.Inv w.env ∧ 0 ≤ w.now ∧ C03W.EvOK w ∧ C02.Fresh w) ∧
    (flagOf w "C03W_S4" = some true →
      C03W.S4 w ∧ C01.Inv w.env ∧ 0 ≤ w.now ∧ C03W.EvOK w ∧ C03W.FreshA w) ∧
    (flagOf w "C03W_S5" = some true →
      C03W.S5 (C03Z.ctxInfer w) w ∧ C01.Inv w.env ∧ 0 ≤ w.now ∧ C03W.EvOK w ∧ C03W.FreshA w) ∧
    (flagOf w "C03W_S5R" = some true →
      (C03W.S5 (C03Z.ctxInfer w) w ∧ C01.Inv w.env ∧ 0 ≤ w.now ∧ C03W.EvOK w ∧ C03W.FreshA w) ∧
        C20W.Reg w) ∧
    (flagOf w "C03W_S4R" = some true →
      C03W.S4R w ∧ C01.Inv w.env ∧ 0 ≤ w.now ∧ C03W.EvOK w ∧ C03W.FreshA w ∧ C20W.Reg w) ∧
    (flagOf w "C05W" = some true → C05W.Init w) ∧
    (flagOf w "C06W" = some true → C06W.Static' w ∧ C06W.Init w) ∧
    (flagOf w "C08W" = some true → C02.Fresh w ∧ C02V.Static w) ∧
    (flagOf w "C08S" = some true → C08S.Start w) ∧
    (flagOf w "C09W" = some true → C09W.ReqWF w ∧ C09.Inv w.rm) ∧
    (flagOf w "C10W" = some true → C10W.Cls w ∧ C10W.Fresh w) ∧
    (flagOf w "C10W_Q" = some true → (C10W.Cls w ∧ C10W.Fresh w) ∧ C10W.RegQuiet w ∧ C10W.CbQuiet w) ∧
    (flagOf w "C11W" = some true → C11W.S w ∧ C11W.FreshR w) ∧
    (flagOf w "C12W" = some true → C12W.S w ∧ C12W.Fresh w) ∧
    (flagOf w "C13Q" = some true → C06W.Static' w ∧ C06W.Init w ∧ C13Q.InitQ w) ∧
    (flagOf w "C14W" = some true → C01W.Good w ∧ C01.Inv w.env ∧ C01.UserState w.env) ∧
    (flagOf w "C15W" = some true → C15W.Fresh w ∧ C15W.NoCreate w) ∧
    (flagOf w "C15W_L" = some true → (C15W.Fresh w ∧ C15W.NoCreate w) ∧ C01.Inv w.env) ∧
    (flagOf w "C15D_A" = some true → C15W.Fresh w) ∧
    (flagOf w "C15D" = some true → C15W.Fresh w ∧ C15D.ScriptsNew w) ∧
    (flagOf w "C15D_NB" = some true →
      (C15W.Fresh w ∧ C15D.ScriptsNew w) ∧ C15D.ScriptsNB w ∧ C15W.NoBatch w) ∧
    (flagOf w "C15D_W" = some true →
      (C15W.Fresh w ∧ C15D.ScriptsNew w) ∧ ∃ need, C02W.Dyn need w) ∧
    (flagOf w "C15D_WB" = some true →
      ((C15W.Fresh w ∧ C15D.ScriptsNew w) ∧ C15D.ScriptsNB w ∧ C15W.NoBatch w) ∧
        ∃ need, C02W.Dyn need w) ∧
    (flagOf w "C16W" = some true → C15W.Fresh w ∧ C15W.NoCreate w) ∧
    (flagOf w "C16D" = some true → C15W.Fresh w ∧ C15D.ScriptsNew w) ∧
    (flagOf w "C17W" = some true → C17W.Init w) ∧
    (flagOf w "C17W_O" = some true → C17W.Init w ∧ C17W.NoFailNonProc w) ∧
    (flagOf w "C18W" = some true → C18W.Static w ∧ C18W.Fresh w) ∧
    (flagOf w "C18D" = some true → C18D.SD w) ∧
    (flagOf w "C19W" = some true → C18W.Static w ∧ C18W.Fresh w) ∧
    (flagOf w "C19D" = some true → C19D.SDS w) ∧
    (flagOf w "C20W" = some true → C20W.Reg w) := by
  simp only [flagOf, classReport, List.lookup, String.reduceBEq, Option.some.injEq, flag_iff]
  refine ⟨id, HC02_sound, (HC02W_iff w).1, id, id, id, id, id, id, HC05W_sound, HC06W_sound,
    HC02_sound, (HC08S_iff w).1, HC09W_sound, id, id, id, id, HC13Q_sound, id, id, id, id, id, id, (HC15DW_iff w).1, ?_, id, id,
    HC17W_sound, fun h => ⟨HC17W_sound h.1, h.2⟩, (HC18W_iff w).1, HC18D_sound, (HC18W_iff w).1, HC19D_sound, id⟩
  intro h
  exact ⟨h.1, (C02W.dynAuto_iff w).1 h.2⟩

end Classes
end SimProc
