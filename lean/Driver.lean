/-
Line-protocol driver for the executable world model (`spdriver`).
Reads scenarios from stdin, prints the canonical observation stream to stdout.
-/
import SimProc.Model.World
open SimProc

def SimProc.Err.str : Err → String
  | .value => "ValueError" | .key => "KeyError" | .attribute => "AttributeError"
  | .runtime => "RuntimeError" | .assertion => "AssertionError" | .index => "IndexError"
  | .type_ => "TypeError" | .notImplemented => "NotImplementedError" | .other => "Exception"

def SimProc.Res.str : Res → String
  | .ok => "ok" | .err e => "err " ++ e.str | .bool true => "ret 1" | .bool false => "ret 0"
  | .none_ => "ret none" | .some_ => "ret some"

def optInt : Option Int → String
  | none => "-" | some v => toString v

def evStr (e : Event) : String :=
  s!"{e.time}:{e.prio}:{e.asset}:{e.act}:{e.weight}:{optInt e.pausedAt}:{if e.cancelled then 1 else 0}"

def joinC (l : List String) : String := if l.isEmpty then "-" else ",".intercalate l

/-- State dump (everything the correspondence may compare). -/
def dump (w : World) : List String :=
  [ s!"now {w.env.now} {if w.env.terminated then 1 else 0}",
    "q " ++ joinC (w.env.events.map evStr),
    "z " ++ joinC (w.env.paused.map evStr) ]

def parseInt (s : String) : Int := s.toInt?.getD 0
def parseNat (s : String) : Nat := s.toNat?.getD 0

def parseOp : List String → Option Op
  | ["sched", t, a, k, p] => some (.sched (parseInt t) (parseInt a) (parseNat k) (parseInt p))
  | ["schedrel", t, a, k, p] => some (.schedRel (parseInt t) (parseInt a) (parseNat k) (parseInt p))
  | ["pause", a] => some (.pause (parseInt a))
  | ["unpause", a] => some (.unpause (parseInt a))
  | ["cancel", a] => some (.cancel (parseInt a))
  | _ => none

def listSetApp {α} (l : List (List α)) (k : Nat) (x : α) : List (List α) :=
  let l := if l.length ≤ k then l ++ List.replicate (k + 1 - l.length) [] else l
  l.set k (l.getD k [] ++ [x])

def flushResults (w : World) : IO World := do
  for r in w.results do IO.println ("res " ++ r.str)
  return { w with results := [] }

def afterEvent (e : Event) (w : World) : IO World := do
  IO.println s!"ev {e.time} {e.prio} {e.asset} {e.act} {if e.live then "ran" else "cancelled"}"
  let w ← flushResults w
  for l in dump w do IO.println l
  match w.error with
  | some m => IO.println ("model-error " ++ m)
  | none => pure ()
  return w

partial def runIO (w : World) (n : Nat) : IO World := do
  if n ≥ 20000 then
    IO.println "abort StepLimit"; return w
  if w.error.isSome then return w
  if w.env.running then
    match w.step with
    | none => return w
    | some (e, w') =>
      let w' ← afterEvent e w'
      runIO w' (n + 1)
  else return w

def handle (w : World) (toks : List String) : IO World := do
  match toks with
  | ["scenario", n] => IO.println s!"scenario {n}"; return {}
  | ["seed", s, r] => return { w with seed := parseNat s, wmod := parseNat r }
  | "script" :: k :: rest =>
    match parseOp rest with
    | some op => return { w with scripts := listSetApp w.scripts (parseNat k) op }
    | none => IO.println "model-error bad-op"; return w
  | "ext" :: rest =>
    match parseOp rest with
    | some op =>
      let w := w.applyOps [op]
      let w ← flushResults w
      for l in dump w do IO.println l
      return w
    | none => IO.println "model-error bad-op"; return w
  | ["step"] =>
    match w.step with
    | none => IO.println "res err IndexError"; return w
    | some (e, w') => afterEvent e w'
  | ["run", d] =>
    IO.println s!"runbegin {w.env.now} {parseInt d}"
    let (w, r) := w.runBegin (parseInt d)
    if r != .ok then IO.println ("res " ++ r.str)
    let w ← runIO w 0
    IO.println s!"ran {w.env.now}"
    return w
  | ["end"] => IO.println "end"; return w
  | [] => return w
  | [""] => return w
  | "idoff" :: _ => return w
  | _ => IO.println ("model-error bad-line " ++ " ".intercalate toks); return w

partial def loop (h : IO.FS.Stream) (w : World) : IO Unit := do
  let line ← h.getLine
  if line.isEmpty then return ()
  let toks := (line.trimAscii.toString.splitOn " ").filter (· ≠ "")
  let w ← handle w toks
  loop h w

def main : IO Unit := do
  loop (← IO.getStdin) {}
