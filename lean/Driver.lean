import SimProc.Model.Env
def main : IO Unit := IO.println "spdriver"
