/-
Line-protocol driver for the executable world model (`spdriver`).
Reads scenarios from stdin, prints the canonical observation stream to stdout.
(The code lives in `DriverLib.lean`, shared with `spclass`.)
-/
import DriverLib
open SimProc

def main : IO Unit := do
  loop (← IO.getStdin) {}
