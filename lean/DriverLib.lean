/-
Shared code of the line-protocol executables (`spdriver`, `spclass`): printing, parsing of scenario
lines, world building (`handle`).  Moved here verbatim from `Driver.lean`; `Driver.lean` keeps `main`.
-/
import SimProc.Model.World
import SimProc.Model.System
import Std.Data.HashMap
open SimProc

def SimProc.Err.str : Err → String
  | .value => "ValueError" | .key => "KeyError" | .attribute => "AttributeError"
  | .runtime => "RuntimeError" | .assertion => "AssertionError" | .index => "IndexError"
  | .type_ => "TypeError" | .notImplemented => "NotImplementedError" | .other => "Exception"

def optInt : Option Int → String
  | none => "-" | some v => toString v
def optNat : Option Nat → String
  | none => "-" | some v => toString v

def joinWith (sep : String) (l : List String) : String := if l.isEmpty then "-" else sep.intercalate l
def joinC := joinWith ","
def joinS := joinWith ";"

def SimProc.Res.str : Res → String
  | .ok => "ok" | .err e => "err " ++ e.str | .bool true => "ret 1" | .bool false => "ret 0"
  | .none_ => "ret none" | .some_ => "ret some"
  | .cb k => s!"cb {k}"
  | .hook st t tag => s!"hook {if st then "start" else "end"} {t} {tag}"
  | .act s o now st ovr => s!"act {s} {o} {now} {st} {optNat ovr}"
  | .sense s c now vals => s!"sense {s} {c} {now} {joinS (vals.map toString)}"
  | .shut d k f lost => s!"shut {d} {k} {if f then 1 else 0} {optNat lost}"
  | .restored d k => s!"restored {d} {k}"

def evStr (e : Event) : String :=
  s!"{e.time}:{e.prio}:{e.asset}:{e.act}:{e.weight}:{optInt e.pausedAt}:{if e.cancelled then 1 else 0}"

def reqStr (r : Req) : String := joinS (r.map (fun (a, b) => s!"{a}:{b}"))
def b01 (b : Bool) : String := if b then "1" else "0"

def kindStr : Kind → String
  | .source => "source" | .handler => "handler" | .processor => "processor" | .buffer => "buffer"
  | .gate => "gate" | .batcher => "batcher" | .sink => "sink" | .gpath => "gpath"
  | .ginput => "ginput" | .goutput => "goutput"

def devStr (w : World) (i : Nat) (d : Dev) : String :=
  let up := if d.kind != .processor then 0 else match d.lastRestore with
    | none => d.uptime | some t => d.uptime + (w.now - t)
  let use := if d.kind != .processor then 0 else match d.lastUseStart with
    | none => d.timeInUse | some t => d.timeInUse + (w.now - t)
  let resv := match d.reserved with
    | none => "-" | some id => "[" ++ reqStr ((w.rm.held id).getD []) ++ "]"
  let mx := match d.maxParts with | none => "inf" | some m => toString m
  s!"d {i} {kindStr d.kind} part={optNat d.part} out={optNat d.output} wds={b01 d.waitingDS} " ++
  s!"since={optInt d.since} blk={b01 d.blockInput} down={b01 d.shutDown} resv={resv} " ++
  s!"wres={b01 d.waitingRes} up={up} use={use} val={d.val.value} vh={d.val.hist.length} " ++
  s!"prod={d.produced} cost={d.costProduced} max={mx} recv={d.recvCount} rval={d.recvValue} " ++
  s!"lvl={d.level} buf={joinS (d.buf.map (fun (t, p) => s!"{t}:{p}"))} inprog={optNat d.inprog} " ++
  s!"coll={joinS (d.collected.map toString)} cyc={d.cycle} off={d.offset} " ++
  s!"dn={joinS (d.down.map toString)} ups={joinS (d.up.map toString)}"

def partStr (w : World) (p : Nat) : String :=
  let r := w.part p
  let kids := match r.kids with | none => "-" | some l => "[" ++ joinS (l.map toString) ++ "]"
  s!"p {p} q={r.quality} v={w.partValue p} hist={joinS (r.hist.map toString)} " ++
  s!"stack={joinS (r.stack.map toString)} kids={kids}"

/-- The parts currently held by devices (and collected by sinks), with the parts they contain. -/
def liveParts (w : World) : List Nat :=
  let add (acc : List Nat) (p : Nat) : List Nat :=
    let acc := if acc.contains p then acc else acc ++ [p]
    match (w.part p).kids with
    | some l => l.foldl (fun acc k => if acc.contains k then acc else acc ++ [k]) acc
    | none => acc
  w.devs.foldl (fun acc d =>
    let acc := match d.part with | some p => add acc p | none => acc
    let acc := match d.output with | some p => add acc p | none => acc
    let acc := d.buf.foldl (fun acc (_, p) => add acc p) acc
    let acc := match d.inprog with | some p => add acc p | none => acc
    d.collected.foldl add acc) []

def recStr : Rec → String
  | .resUpdate r t u c => s!"rec resource_update {r} {t} {u} {c}"
  | .level d t n => s!"rec level {d} {t} {n}"
  | .received d t p q v => s!"rec received_part {d} {t} {p} {q} {v}"
  | .produced d t p q v => s!"rec produced_part {d} {t} {p} {q} {v}"
  | .failure d t l => s!"rec device_failure {d} {t} {optNat l}"
  | .supplied d t p => s!"rec supplied_new_part {d} {t} {p}"
  | .workOrder k m t tgt tag info =>
    let n := match k with | 0 => "enter_queue" | 1 => "start_work_order" | _ => "finish_work_order"
    s!"rec {n} {m} {t} {tgt} {tag} {info}"
  | .schedUpdate s t st => s!"rec schedule_update {s} {t} {st}"

def orderStr (o : Order) : String := s!"{o.seq}:{o.target}:{o.tag}:{o.needed}"

def idxMap {α} (l : List α) (f : Nat → α → String) : List String :=
  (List.range l.length).zip l |>.map (fun (i, x) => f i x)

/-- State dump (everything the correspondence may compare). -/
def dump (w : World) : List String :=
  [ s!"now {w.env.now} {if w.env.terminated then 1 else 0}",
    "q " ++ joinC (w.env.events.map evStr),
    "z " ++ joinC (w.env.paused.map evStr) ] ++
  w.rm.pools.map (fun (r, u, c) => s!"r {r} use={u} cap={c}") ++
  (if w.rm.waiting.isEmpty then ["wq -"] else
    ["wq " ++ joinC (w.rm.waiting.map (fun (rq, cb) => reqStr rq ++ "@" ++
      (match cb with | .script k => s!"s{k}" | .proc d => s!"p{d}")))]) ++
  [ "hsum 0 " ++ joinS (w.rm.pools.map (fun (r, _, _) =>
      s!"{r}:{(w.rm.resv.map (fun p => ((RM.heldAmt p.2 r).getD 0))).foldl (· + ·) 0}")) ] ++
  idxMap w.vars (fun h v => s!"h {h} " ++ match v with
    | none => "none" | some id => "[" ++ reqStr ((w.rm.held id).getD []) ++ "]") ++
  idxMap w.devs (devStr w) ++
  (liveParts w).map (partStr w) ++
  idxMap w.maints (fun i mw =>
    let av := match mw.m.cap with | none => "inf" | some c => toString (c - mw.m.util)
    s!"m {i} util={mw.m.util} avail={av} queue={joinS (mw.m.queue.map orderStr)} " ++
    s!"active={joinS (mw.m.active.map orderStr)} val={mw.m.val.value} vh={mw.m.val.hist.length}") ++
  idxMap w.scheds (fun i sw =>
    s!"s {i} state={optInt sw.s.state} reg={joinS (sw.s.reg.map (fun (o, v) => s!"{o}:{optNat v}"))}") ++
  idxMap w.sensors (fun i sw =>
    s!"n {i} data={joinWith "|" (sw.s.data.map (fun l => joinS (l.map toString)))} " ++
    s!"time={joinS (sw.s.time.map toString)} last={joinS (sw.s.last.map toString)}")

/-! ### parsing -/

def parseInt (s : String) : Int := s.toInt?.getD 0
def parseNat (s : String) : Nat := s.toNat?.getD 0
def splitList (sep : String) (s : String) : List String :=
  if s == "-" || s == "" then [] else s.splitOn sep
def parseNats (s : String) : List Nat := (splitList "," s).map parseNat
def parseReq (s : String) : Req :=
  (splitList ";" s).map (fun e => match e.splitOn ":" with
    | [a, b] => (parseNat a, parseInt b) | _ => (0, 0))
def parseOptInt (s : String) : Option Int := if s == "-" || s == "inf" || s == "def" then none else some (parseInt s)
def parseOptNat (s : String) : Option Nat := if s == "-" || s == "inf" || s == "def" then none else some (parseNat s)

def parseOp : List String → Option Op
  | ["sched", t, a, k, p] => some (.sched (parseInt t) (parseInt a) (parseNat k) (parseInt p))
  | ["schedrel", t, a, k, p] => some (.schedRel (parseInt t) (parseInt a) (parseNat k) (parseInt p))
  | ["pause", a] => some (.pause (parseInt a))
  | ["unpause", a] => some (.unpause (parseInt a))
  | ["cancel", a] => some (.cancel (parseInt a))
  | ["addres", r, a] => some (.addRes (parseNat r) (parseInt a))
  | ["reserve", h, rq] => some (.reserve (parseNat h) (parseReq rq))
  | ["release", h] => some (.release (parseNat h) none)
  | ["release", h, rq] => some (.release (parseNat h) (some (parseReq rq)))
  | ["merge", a, b] => some (.merge (parseNat a) (parseNat b))
  | ["register", k, rq] => some (.register (parseNat k) (parseReq rq))
  | ["schedfail", d, t] => some (.schedFail (parseNat d) (parseInt t))
  | ["schedfailrel", d, t] => some (.schedFailRel (parseNat d) (parseInt t))
  | ["shutdown", d] => some (.shutdown (parseNat d))
  | ["restore", d] => some (.restore (parseNat d))
  | ["block", d, b] => some (.block (parseNat d) (b == "1"))
  | ["adjust", d, n] => some (.adjust (parseNat d) (parseInt n))
  | ["setcycle", d, c] => some (.setCycle (parseNat d) (parseInt c))
  | ["offset", d, o] => some (.offsetNext (parseNat d) (parseInt o))
  | ["rewire", d, ups] => some (.rewire (parseNat d) (parseNats ups))
  | ["wo", m, t, tag, info] => some (.workOrder (parseNat m) (parseNat t) (parseInt tag) (parseInt info))
  | ["setparams", t, tag, d, n, c] =>
    some (.setParams (parseNat t) (parseInt tag) (parseInt d) (parseInt n) (parseInt c))
  | ["regobj", s, o, v] => some (.regObj (parseNat s) (parseNat o) (parseOptNat v))
  | ["unregobj", s, o] => some (.unregObj (parseNat s) (parseNat o))
  | ["setvar", k, v] => some (.setVar (parseNat k) (parseInt v))
  | ["addsensor", c, s] => some (.addSensor (parseNat c) (parseNat s))
  | _ => none

def listSetApp {α} (l : List (List α)) (k : Nat) (x : α) : List (List α) :=
  let l := if l.length ≤ k then l ++ List.replicate (k + 1 - l.length) [] else l
  l.set k (l.getD k [] ++ [x])

def kv (toks : List String) (key : String) : Option String :=
  toks.findSome? (fun t => match t.splitOn "=" with
    | [k, v] => if k == key then some v else none
    | _ => none)

def parseKind : String → Kind
  | "source" => .source | "handler" => .handler | "processor" => .processor | "buffer" => .buffer
  | "gate" => .gate | "batcher" => .batcher | "sink" => .sink | "gpath" => .gpath
  | "ginput" => .ginput | _ => .goutput

def parsePred (s : String) : Pred :=
  match s.splitOn ":" with
  | ["never"] => .never
  | ["qge", v] => .qualityGe (parseInt v) | ["qlt", v] => .qualityLt (parseInt v)
  | ["vge", v] => .valueGe (parseInt v) | ["vlt", v] => .valueLt (parseInt v)
  | _ => .always

/-- callback spec `cyc:off:addv:setq` with `-` for absent -/
def parseCb (s : String) : PartCb :=
  match s.splitOn ":" with
  | [c, o, v, q] => { setCycle := parseOptInt c, offset := parseInt o, addValue := parseInt v,
                      setQuality := parseOptInt q }
  | _ => {}

/-- Parse the tokens after `asset` / `create` into a constructor call. -/
def parseSpec (toks : List String) : Option AssetSpec :=
  match toks with
  | "dev" :: kind :: rest =>
    let g := fun k => kv rest k
    some (.dev {
      kind := parseKind kind
      up := (g "up").map parseNats |>.getD []
      cycle := (g "cyc").map parseInt |>.getD 0
      val := { init := (g "value").map parseInt |>.getD 0, value := (g "value").map parseInt |>.getD 0 }
      cap := (g "cap").bind parseOptNat
      delay := (g "delay").map parseInt |>.getD 0
      bsize := (g "bsz").bind parseOptNat
      pred := (g "pred").map parsePred |>.getD .always
      resReq := (g "res").map parseReq
      maxParts := (g "budget").bind parseOptInt
      genValue := (g "pval").map parseInt |>.getD 0
      genQuality := (g "pqual").map parseInt |>.getD 1
      genBatch := (g "batchof").map parseInt |>.getD 0
      collect := (g "collect") == some "1"
      recvCbs := ((g "recvcb").map (splitList ",") |>.getD []).map parseCb
      finCbs := ((g "fincb").map (splitList ",") |>.getD []).map parseCb
      nShutCbs := (g "nshut").map parseNat |>.getD 0
      nRestCbs := (g "nrest").map parseNat |>.getD 0
      group := (g "group").map parseNat |>.getD 0 })
  | "group" :: gid :: rest =>
    let g := fun k => kv rest k
    some (.group (parseNat gid) ((g "devs").map parseNats |>.getD [])
      ((g "in").map parseNats |>.getD []) ((g "out").map parseNats |>.getD []))
  | "maint" :: rest =>
    some (.maint ((kv rest "cap").bind parseOptInt) ((kv rest "value").map parseInt |>.getD 0))
  | "sched" :: rest =>
    let tt := ((kv rest "tt").map (splitList ",") |>.getD []).map (fun e => match e.splitOn ":" with
      | [a, b] => (parseInt a, parseInt b) | _ => (0, 0))
    some (.sched tt (match kv rest "cyc" with | some "0" => false | _ => true))
  | "sensor" :: kind :: rest =>
    let g := fun k => kv rest k
    let vars := (g "vars").map parseNats |>.getD []
    let attrs := (g "attrs").map parseNats |>.getD []
    let isOut := kind == "out"
    let np := if isOut then attrs.length else vars.length
    let s : Sensor := {
      kind := if isOut then .output else .periodic
      interval := (if isOut then g "n" else g "interval").map parseInt |>.getD (if isOut then 0 else 1)
      cap := (g "cap").bind parseOptNat
      nprobes := np
      data := List.replicate np []
      cbs := List.range ((g "cbs").map parseNat |>.getD 0) }
    some (.sensor { s := s, vars := vars, attrs := attrs, proc := (g "proc").map parseNat |>.getD 0 })
  | "cms" :: _ => some .cms
  | _ => none

def handleAsset (w : World) (toks : List String) : World :=
  match parseSpec toks with
  | some spec => w.addAsset spec
  | none => w.setErr "bad-asset"

def flushResults (w : World) : IO World := do
  for r in w.results do IO.println ("res " ++ r.str)
  return { w with results := [] }

structure DState where
  w : World := {}
  nrec : Nat := 0
  last : Std.HashMap String String := {}
  sysm : SysM := {}

def parseCls : String → Cls
  | "processor" => .processor | "sink" => .sink | "buffer" => .buffer | "source" => .source
  | "maint" => .maint | _ => .handler

def parseOptCls (s : String) : Option Cls := if s == "-" then none else some (parseCls s)

/-- Key of a state line for delta printing: tag, plus the index for indexed lines. -/
def lineKey (l : String) : String :=
  match l.splitOn " " with
  | t :: i :: _ => if t == "now" || t == "q" || t == "z" || t == "wq" then t else t ++ " " ++ i
  | _ => l

/-- Print the results, the new records and the state lines that changed since they were last
printed (`now` is always printed: it delimits the frames). -/
def printState (s : DState) : IO DState := do
  let w ← flushResults s.w
  for r in w.recs do IO.println (recStr r)
  -- the driver drains the data log after printing it (nothing in the model reads it)
  let w := { w with recs := [] }
  let mut last := s.last
  let lines := dump w
  for l in lines do
    let k := lineKey l
    if k == "now" || last.get? k != some l then
      IO.println l
      last := last.insert k l
  match w.error with
  | some m => IO.println ("model-error " ++ m)
  | none => pure ()
  return { w := w, nrec := 0, last := last }

def afterEvent (e : Event) (s : DState) : IO DState := do
  IO.println s!"ev {e.time} {e.prio} {e.asset} {e.act} {if e.live then "ran" else "cancelled"}"
  printState s

partial def runIO (s : DState) (n : Nat) : IO DState := do
  if n ≥ 8000 then
    IO.println "abort StepLimit"; return s
  if s.w.error.isSome then return s
  if s.w.env.running then
    match s.w.step with
    | none => return s
    | some (e, w') =>
      let s ← afterEvent e { s with w := w' }
      runIO s (n + 1)
  else return s

def handle (s : DState) (toks : List String) : IO DState := do
  let w := s.w
  match toks with
  | ["scenario", n] => IO.println s!"scenario {n}"; return {}
  | ["seed", sd, r] => return { s with w := { w with seed := parseNat sd, wmod := parseNat r } }
  | ["res", r, a] =>
    let (w', res) := w.applyOp (.addRes (parseNat r) (parseInt a))
    if res != .ok then IO.println ("res " ++ res.str)
    return { s with w := w' }
  | "asset" :: rest => return { s with w := handleAsset w rest }
  | "target" :: _ :: rest =>
    let g := fun k => kv rest k
    let ps := ((g "params").map (splitList ",") |>.getD []).map (fun e => match e.splitOn ":" with
      | [t, d, n, c] => (parseInt t, parseInt d, parseInt n, parseInt c) | _ => (0, 0, 0, 0))
    let t : Target := { dev := (g "dev").bind parseOptNat, params := ps,
                        startScript := (g "start").bind parseOptNat, endScript := (g "end").bind parseOptNat }
    return { s with w := { w with targets := w.targets ++ [t] } }
  | ["var", k, v] =>
    let (w', _) := w.applyOp (.setVar (parseNat k) (parseInt v))
    return { s with w := w' }
  | ["wire", d, ups] => return { s with w := w.rewire (parseNat d) (parseNats ups) }
  | "script" :: k :: "create" :: rest =>
    match parseSpec rest with
    | some spec => return { s with w := { w with scripts := listSetApp w.scripts (parseNat k) (.create spec) } }
    | none => IO.println "model-error bad-op"; return s
  | "ext" :: "create" :: rest =>
    match parseSpec rest with
    | some spec => printState { s with w := w.applyOps [.create spec] }
    | none => IO.println "model-error bad-op"; return s
  | "script" :: k :: rest =>
    match parseOp rest with
    | some op => return { s with w := { w with scripts := listSetApp w.scripts (parseNat k) op } }
    | none => IO.println "model-error bad-op"; return s
  | "ext" :: rest =>
    match parseOp rest with
    | some op => printState { s with w := w.applyOps [op] }
    | none => IO.println "model-error bad-op"; return s
  | ["step"] =>
    match w.step with
    | none => IO.println "res err IndexError"; return s
    | some (e, w') => afterEvent e { s with w := w' }
  | ["run", d] =>
    let w := w.simulateInit
    IO.println s!"runbegin {w.env.now} {parseInt d}"
    let s ← printState { s with w := w }
    let (w, r) := s.w.runBegin (parseInt d)
    if r != .ok then IO.println ("res " ++ r.str)
    let s ← runIO { s with w := w } 0
    IO.println s!"ran {s.w.env.now}"
    return s
  | "S" :: rest =>
    let op : Option SOp := match rest with
      | ["new"] => some .new
      | ["asset", c, n] => some (.asset (parseCls c) (parseNat n))
      | ["simulate", i] => some (.simulate (parseNat i))
      | ["find", i, n, id, t, st] =>
        some (.find (parseNat i) (parseOptNat n) (parseOptNat id) (parseOptCls t) (parseOptCls st))
      | _ => none
    match op with
    | none =>
      if let ["multi", n] := rest then
        -- `System.simulate_multiple_times(f, n, 0)` with `f = simulate(0)`: n times (System(); simulate)
        let m := (List.range (parseNat n)).foldl (fun (m : SysM) _ =>
          let m1 := (m.apply .new).1
          (m1.apply (.simulate (m1.systems.length - 1))).1) s.sysm
        IO.println "sres ok"
        return { s with sysm := m }
      else if rest == ["counts"] then
        IO.println ("scount " ++ joinS (s.sysm.infos.map (fun a => toString a.initCount)))
        return s
      else IO.println "model-error bad-op"; return s
    | some op =>
      let (m, r) := s.sysm.apply op
      IO.println (match r with
        | .ok => "sres ok" | .err => "sres err RuntimeError"
        | .found l => "sres found " ++ joinS (l.map toString))
      return { s with sysm := m }
  | ["end"] => IO.println "end"; return s
  | [] => return s
  | "idoff" :: _ => return s
  | "tick" :: _ => return s
  | _ => IO.println ("model-error bad-line " ++ " ".intercalate toks); return s

partial def loop (h : IO.FS.Stream) (s : DState) : IO Unit := do
  let line ← h.getLine
  if line.isEmpty then return ()
  let toks := (line.trimAscii.toString.splitOn " ").filter (· ≠ "")
  let s ← handle s toks
  loop h s
