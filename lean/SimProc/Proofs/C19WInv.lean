/-
C19W — machinery, part 5: the invariants of one sensor.

* `PI t0 e c s`: periodic sensor `s`, initialised at `t0`: its state is its reset state after the
  samples of a log `(time, values, callbacks)`, taken at `t0 + interval, t0 + 2·interval, …`; its
  `.sense` results are one per sample and callback registered at that moment; exactly one
  `.periodicSense s` event is pending, due one interval after the last sample.
* `OI e c s`: output-part sensor `s` attached to processor `proc`: its state is its reset state
  after `outStep` on every `produced` record of `proc`; its results are one per sampled part and
  callback; it sits exactly once in the sensor list of `proc` and nowhere else.
* `SensU`: a sensor that has not been initialised.
All depend on the queue only through the tracked events, and are kept by every abstract step.
-/
import SimProc.Proofs.C18WInv
import SimProc.Props.C19

namespace SimProc
namespace C19W
open World FloorCoreL C18W

/-! ### events, records, results of one sensor -/

/-- `e` carries the action `.periodicSense s` -/
def psEv (s : Nat) (e : Event) : Bool := e.act == 10 + 16 * s

theorem psEv_tracked {s : Nat} {e : Event} (h : psEv s e = true) : tracked e = true := by
  have : e.act = 10 + 16 * s := by simpa [psEv] using h
  simp [tracked, trackedNat, this]

/-- the `.sense` results of sensor `s` -/
def senseLog (res : List Res) (s : Nat) : List Res :=
  res.filter (fun r => match r with
    | .sense s' .. => s' == s
    | _ => false)

/-- the `produced` records of device `x`: (time stamp, quality, value) -/
def prodLog (recs : List Rec) (x : Nat) : List (Int × Int × Int) :=
  recs.filterMap (fun r => match r with
    | .produced x' t _ q v => if x' = x then some (t, q, v) else none
    | _ => none)

theorem senseLog_filter (res : List Res) (s : Nat) :
    senseLog (res.filter trackedRes) s = senseLog res s := by
  unfold senseLog
  rw [List.filter_filter]
  apply List.filter_congr
  intro r _
  cases r <;> simp [trackedRes]

theorem prodLog_filter (recs : List Rec) (x : Nat) :
    prodLog (recs.filter trackedRec) x = prodLog recs x := by
  unfold prodLog
  rw [List.filterMap_filter]
  congr 1
  funext r
  cases r <;> simp [trackedRec]

theorem senseLog_append (l1 l2 : List Res) (s : Nat) :
    senseLog (l1 ++ l2) s = senseLog l1 s ++ senseLog l2 s := by
  unfold senseLog; rw [List.filter_append]

theorem prodLog_append (l1 l2 : List Rec) (x : Nat) :
    prodLog (l1 ++ l2) x = prodLog l1 x ++ prodLog l2 x := by
  unfold prodLog; rw [List.filterMap_append]

theorem senseLog_self (l : List Nat) (s : Nat) (t : Int) (vals : List Int) :
    senseLog (l.map (fun cb => Res.sense s cb t vals)) s = l.map (fun cb => Res.sense s cb t vals) := by
  unfold senseLog
  apply List.filter_eq_self.mpr
  intro r hr
  obtain ⟨c, _, rfl⟩ := List.mem_map.mp hr
  simp

theorem senseLog_other (l : List Nat) {s s' : Nat} (h : s' ≠ s) (t : Int) (vals : List Int) :
    senseLog (l.map (fun cb => Res.sense s' cb t vals)) s = [] := by
  unfold senseLog
  apply filter_eq_nil_of_forall
  intro r hr
  obtain ⟨c, _, rfl⟩ := List.mem_map.mp hr
  simp [h]

/-- A sample log: (time, values, callbacks registered at that moment). -/
abbrev SLog := List (Int × List Int × List Nat)

/-- the results a log stands for: one per sample and callback -/
def logRes (s : Nat) (log : SLog) : List Res :=
  log.flatMap (fun x => x.2.2.map (fun c => Res.sense s c x.1 x.2.1))

/-- the samples of a log -/
def samples (log : SLog) : List (Int × List Int) := log.map (fun x => (x.1, x.2.1))

theorem logRes_snoc (s : Nat) (log : SLog) (x : Int × List Int × List Nat) :
    logRes s (log ++ [x]) = logRes s log ++ x.2.2.map (fun c => Res.sense s c x.1 x.2.1) := by
  simp [logRes, List.flatMap_append]

theorem samples_snoc (log : SLog) (x : Int × List Int × List Nat) :
    samples (log ++ [x]) = samples log ++ [(x.1, x.2.1)] := by
  simp [samples]

/-! ### sensors: reset, callbacks, measurements -/

theorem reset_reset (s : Sensor) : s.reset.reset = s.reset := rfl

theorem reset_addCb (s : Sensor) (cb : Nat) : (s.addCb cb).reset = s.reset.addCb cb := rfl

theorem overCap_congr (s s' : Sensor) (h : s'.cap = s.cap) (n : Nat) : s'.overCap n = s.overCap n := by
  unfold Sensor.overCap; rw [h]

theorem collect_addCb (s : Sensor) (cb : Nat) (vals : List Int) :
    (s.addCb cb).collect vals = (s.collect vals).addCb cb := rfl

theorem periodic_addCb (s : Sensor) (cb : Nat) (t : Int) (vals : List Int) :
    (s.addCb cb).periodic t vals = (s.periodic t vals).addCb cb := by
  unfold Sensor.periodic
  dsimp only
  have e : ({ s.addCb cb with time := (s.addCb cb).time ++ [t] } : Sensor) =
      ({ s with time := s.time ++ [t] } : Sensor).addCb cb := rfl
  rw [e, collect_addCb]
  by_cases h : (({ s with time := s.time ++ [t] } : Sensor).collect vals).overCap
      (({ s with time := s.time ++ [t] } : Sensor).collect vals).time.length = true
  · have h' : ((({ s with time := s.time ++ [t] } : Sensor).collect vals).addCb cb).overCap
        ((({ s with time := s.time ++ [t] } : Sensor).collect vals).addCb cb).time.length = true := h
    rw [if_pos h, if_pos h']; rfl
  · have h' : ¬ ((({ s with time := s.time ++ [t] } : Sensor).collect vals).addCb cb).overCap
        ((({ s with time := s.time ++ [t] } : Sensor).collect vals).addCb cb).time.length = true := h
    rw [if_neg h, if_neg h']

theorem periodic_reset (s : Sensor) (t : Int) (vals : List Int) :
    (s.periodic t vals).reset = s.reset := by
  unfold Sensor.periodic
  dsimp only
  split <;> rfl

theorem periodic_static (s : Sensor) (t : Int) (vals : List Int) :
    (s.periodic t vals).kind = s.kind ∧ (s.periodic t vals).interval = s.interval ∧
    (s.periodic t vals).cap = s.cap ∧ (s.periodic t vals).nprobes = s.nprobes ∧
    (s.periodic t vals).cbs = s.cbs := by
  unfold Sensor.periodic
  dsimp only
  split <;> exact ⟨rfl, rfl, rfl, rfl, rfl⟩
theorem runPeriodic_addCb (s : Sensor) (cb : Nat) (l : List (Int × List Int)) :
    C19.runPeriodic (s.addCb cb) l = (C19.runPeriodic s l).addCb cb := by
  unfold C19.runPeriodic
  induction l generalizing s with
  | nil => rfl
  | cons x l ih => rw [List.foldl_cons, List.foldl_cons, periodic_addCb, ih]

theorem runPeriodic_snoc (s : Sensor) (l : List (Int × List Int)) (x : Int × List Int) :
    C19.runPeriodic s (l ++ [x]) = (C19.runPeriodic s l).periodic x.1 x.2 := by
  simp [C19.runPeriodic, List.foldl_append]

/-- One finished part seen by an output-part sensor: count it, measure it if it is its turn. -/
def outStep (attrs : List Nat) (s : Sensor) (q v : Int) : Sensor :=
  if s.countPart.2 then s.countPart.1.collect (outVals attrs q v) else s.countPart.1

/-- The finished parts `(time, quality, value)` seen one after the other. -/
def outRun (attrs : List Nat) (s : Sensor) (l : List (Int × Int × Int)) : Sensor :=
  l.foldl (fun s x => outStep attrs s x.2.1 x.2.2) s

/-- The measurements taken on a list of finished parts: (time, values). -/
def outSamples (attrs : List Nat) : Sensor → List (Int × Int × Int) → List (Int × List Int)
  | _, [] => []
  | s, x :: l =>
    (if s.countPart.2 then [(x.1, outVals attrs x.2.1 x.2.2)] else []) ++
      outSamples attrs (outStep attrs s x.2.1 x.2.2) l

theorem outRun_snoc (attrs : List Nat) (s : Sensor) (l : List (Int × Int × Int)) (x : Int × Int × Int) :
    outRun attrs s (l ++ [x]) = outStep attrs (outRun attrs s l) x.2.1 x.2.2 := by
  simp [outRun, List.foldl_append]

theorem outSamples_snoc (attrs : List Nat) (s : Sensor) (l : List (Int × Int × Int))
    (x : Int × Int × Int) :
    outSamples attrs s (l ++ [x]) = outSamples attrs s l ++
      (if (outRun attrs s l).countPart.2 then [(x.1, outVals attrs x.2.1 x.2.2)] else []) := by
  induction l generalizing s with
  | nil => simp [outSamples, outRun]; rfl
  | cons y l ih =>
    simp only [List.cons_append, outSamples, ih, List.append_assoc]
    rfl

theorem countPart_addCb (s : Sensor) (cb : Nat) :
    (s.addCb cb).countPart = (s.countPart.1.addCb cb, s.countPart.2) := by
  unfold Sensor.countPart
  dsimp only
  have e : (s.addCb cb).counter = s.counter := rfl
  rw [e]
  split <;> rfl

theorem outStep_addCb (attrs : List Nat) (s : Sensor) (cb : Nat) (q v : Int) :
    outStep attrs (s.addCb cb) q v = (outStep attrs s q v).addCb cb := by
  unfold outStep
  rw [countPart_addCb]
  dsimp only
  split
  · rw [collect_addCb]
  · rfl

theorem outRun_addCb (attrs : List Nat) (s : Sensor) (cb : Nat) (l : List (Int × Int × Int)) :
    outRun attrs (s.addCb cb) l = (outRun attrs s l).addCb cb := by
  unfold outRun
  induction l generalizing s with
  | nil => rfl
  | cons x l ih => rw [List.foldl_cons, List.foldl_cons, outStep_addCb, ih]

theorem outSamples_addCb (attrs : List Nat) (s : Sensor) (cb : Nat) (l : List (Int × Int × Int)) :
    outSamples attrs (s.addCb cb) l = outSamples attrs s l := by
  induction l generalizing s with
  | nil => rfl
  | cons x l ih =>
    simp only [outSamples, outStep_addCb, ih, countPart_addCb]

theorem outStep_reset (attrs : List Nat) (s : Sensor) (q v : Int) :
    (outStep attrs s q v).reset = s.reset := by
  unfold outStep
  simp only [Sensor.countPart]
  repeat' split
  all_goals rfl

theorem outStep_static (attrs : List Nat) (s : Sensor) (q v : Int) :
    (outStep attrs s q v).kind = s.kind ∧ (outStep attrs s q v).interval = s.interval ∧
    (outStep attrs s q v).cap = s.cap ∧ (outStep attrs s q v).nprobes = s.nprobes ∧
    (outStep attrs s q v).cbs = s.cbs := by
  unfold outStep
  simp only [Sensor.countPart]
  repeat' split
  all_goals exact ⟨rfl, rfl, rfl, rfl, rfl⟩


/-! ### the invariants -/

/-- Periodic sensor `s`, initialised at time `t0`. -/
structure PI (t0 : Int) (e : Env) (c : TK) (s : Nat) : Prop where
  ex : ∃ log : SLog,
    (c.sensors.getD s default).s =
      C19.runPeriodic (c.sensors.getD s default).s.reset (samples log) ∧
    log.map (·.1) = (List.range log.length).map
      (fun (k : Nat) => t0 + ((k : Int) + 1) * (c.sensors.getD s default).s.interval) ∧
    (∀ x ∈ log, x.2.1.length = (c.sensors.getD s default).vars.length) ∧
    senseLog c.resT s = logRes s log ∧
    (∀ x ∈ log, x.2.2 <+: (c.sensors.getD s default).s.cbs) ∧
    (∀ x ∈ log, x.1 ≤ e.now) ∧
    Pending (e.events.filter (psEv s)) (e.paused.filter (psEv s))
      (t0 + ((log.length : Int) + 1) * (c.sensors.getD s default).s.interval)
      (c.sensors.getD s default).aid pSensor
  reg : (c.sensors.getD s default).registered = true
  nofin : ∀ x, (c.finS x).count s = 0

/-- Output-part sensor `s` (attached to `proc`). -/
structure OI (e : Env) (c : TK) (s : Nat) : Prop where
  ex : ∃ log : SLog,
    (c.sensors.getD s default).s =
      outRun (c.sensors.getD s default).attrs (c.sensors.getD s default).s.reset
        (prodLog c.recsT (c.sensors.getD s default).proc) ∧
    samples log = outSamples (c.sensors.getD s default).attrs (c.sensors.getD s default).s.reset
        (prodLog c.recsT (c.sensors.getD s default).proc) ∧
    senseLog c.resT s = logRes s log ∧
    (∀ x ∈ log, x.2.2 <+: (c.sensors.getD s default).s.cbs)
  ev : e.events.filter (psEv s) = []
  pa : e.paused.filter (psEv s) = []
  reg : (c.sensors.getD s default).registered = true
  fin : (c.sensors.getD s default).proc < c.dk.length →
    (c.finS (c.sensors.getD s default).proc).count s = 1
  nofin : ∀ x, x ≠ (c.sensors.getD s default).proc → (c.finS x).count s = 0
  norec : c.dk.length ≤ (c.sensors.getD s default).proc →
    prodLog c.recsT (c.sensors.getD s default).proc = []

/-- A sensor that has not been initialised. -/
structure SensU (e : Env) (c : TK) (s : Nat) : Prop where
  ev : e.events.filter (psEv s) = []
  pa : e.paused.filter (psEv s) = []
  log : senseLog c.resT s = []
  reg : (c.sensors.getD s default).registered = false
  nofin : ∀ x, (c.finS x).count s = 0

/-! ### `outSense` and the sensors -/

theorem getD_set_self_lt {α} (l : List α) (i : Nat) (a d : α) (h : i < l.length) :
    (l.set i a).getD i d = a := getD_set_same l i a d h

theorem outSense_other (c : TK) {s s' : Nat} (h : s' ≠ s) (t q v : Int) :
    (c.outSense s' t q v).sensors.getD s default = c.sensors.getD s default ∧
    senseLog (c.outSense s' t q v).resT s = senseLog c.resT s := by
  unfold TK.outSense
  dsimp only
  split
  · exact ⟨getD_set_ne _ _ _ _ _ h, by rw [senseLog_append, senseLog_other _ h, List.append_nil]⟩
  · exact ⟨getD_set_ne _ _ _ _ _ h, rfl⟩

theorem outSense_self (c : TK) {s : Nat} (hs : s < c.sensors.length) (t q v : Int) :
    (c.outSense s t q v).sensors.getD s default =
      { c.sensors.getD s default with
        s := outStep (c.sensors.getD s default).attrs (c.sensors.getD s default).s q v } ∧
    senseLog (c.outSense s t q v).resT s = senseLog c.resT s ++
      (if (c.sensors.getD s default).s.countPart.2 then
        (c.sensors.getD s default).s.cbs.map
          (fun cb => Res.sense s cb t (outVals (c.sensors.getD s default).attrs q v))
       else []) := by
  unfold TK.outSense outStep
  dsimp only
  split
  · refine ⟨getD_set_same _ _ _ _ hs, ?_⟩
    rw [senseLog_append, senseLog_self]
    have : ((c.sensors.getD s default).s.countPart.1.collect
        (outVals (c.sensors.getD s default).attrs q v)).cbs = (c.sensors.getD s default).s.cbs :=
      (countPart_stat _).2.2.2.2.1
    rw [this]
  · exact ⟨getD_set_same _ _ _ _ hs, by simp⟩

theorem outSense_length (c : TK) (s : Nat) (t q v : Int) :
    (c.outSense s t q v).sensors.length = c.sensors.length := by
  unfold TK.outSense
  dsimp only
  split <;> simp

theorem foldl_outSense_notin (l : List Nat) (c : TK) {s : Nat} (h : l.count s = 0) (t q v : Int) :
    (l.foldl (fun c s => c.outSense s t q v) c).sensors.getD s default = c.sensors.getD s default ∧
    senseLog (l.foldl (fun c s => c.outSense s t q v) c).resT s = senseLog c.resT s := by
  induction l generalizing c with
  | nil => exact ⟨rfl, rfl⟩
  | cons s' l ih =>
    have hne : s' ≠ s := by
      intro he; subst he; simp at h
    have hl : l.count s = 0 := by
      rw [List.count_cons] at h; omega
    rw [List.foldl_cons]
    obtain ⟨h1, h2⟩ := outSense_other c hne t q v
    obtain ⟨i1, i2⟩ := ih (c.outSense s' t q v) hl
    exact ⟨i1.trans h1, i2.trans h2⟩

theorem foldl_outSense_once (l : List Nat) (c : TK) {s : Nat} (h : l.count s = 1)
    (hs : s < c.sensors.length) (t q v : Int) :
    (l.foldl (fun c s => c.outSense s t q v) c).sensors.getD s default =
      { c.sensors.getD s default with
        s := outStep (c.sensors.getD s default).attrs (c.sensors.getD s default).s q v } ∧
    senseLog (l.foldl (fun c s => c.outSense s t q v) c).resT s = senseLog c.resT s ++
      (if (c.sensors.getD s default).s.countPart.2 then
        (c.sensors.getD s default).s.cbs.map
          (fun cb => Res.sense s cb t (outVals (c.sensors.getD s default).attrs q v))
       else []) := by
  induction l generalizing c with
  | nil => simp at h
  | cons s' l ih =>
    rw [List.foldl_cons]
    by_cases he : s' = s
    · subst he
      have hl : l.count s' = 0 := by
        rw [List.count_cons] at h; simp at h; exact h
      obtain ⟨h1, h2⟩ := outSense_self c hs t q v
      obtain ⟨i1, i2⟩ := foldl_outSense_notin l (c.outSense s' t q v) hl t q v
      exact ⟨i1.trans h1, i2.trans h2⟩
    · have hl : l.count s = 1 := by
        rw [List.count_cons] at h
        have : (s' == s) = false := by simpa using he
        simpa [this] using h
      obtain ⟨h1, h2⟩ := outSense_other c he t q v
      have hs' : s < (c.outSense s' t q v).sensors.length := by rw [outSense_length]; exact hs
      obtain ⟨i1, i2⟩ := ih (c.outSense s' t q v) hl hs'
      rw [h1] at i1
      rw [h1, h2] at i2
      exact ⟨i1, i2⟩

theorem foldl_outSense_rest (l : List Nat) (c : TK) (t q v : Int) :
    (l.foldl (fun c s => c.outSense s t q v) c).dk = c.dk := by
  induction l generalizing c with
  | nil => rfl
  | cons s l ih => rw [List.foldl_cons, ih, (outSense_scheds c s t q v).2.2.1]


/-! ### congruence: what the invariants look at -/

theorem PI.congr {t0 : Int} {e e' : Env} {c c' : TK} {s : Nat} (h : PI t0 e c s)
    (hsw : c'.sensors.getD s default = c.sensors.getD s default)
    (hlog : senseLog c'.resT s = senseLog c.resT s)
    (hev : e'.events.filter (psEv s) = e.events.filter (psEv s))
    (hpa : e'.paused.filter (psEv s) = e.paused.filter (psEv s)) (hnow : e.now ≤ e'.now)
    (hfin : ∀ x, (c'.finS x).count s = (c.finS x).count s) : PI t0 e' c' s := by
  obtain ⟨log, h1, h2, h3, h4, h5, h6, h7⟩ := h.ex
  refine ⟨⟨log, ?_, ?_, ?_, ?_, ?_, ?_, ?_⟩, ?_, ?_⟩
  · rw [hsw]; exact h1
  · rw [hsw]; exact h2
  · rw [hsw]; exact h3
  · rw [hlog]; exact h4
  · rw [hsw]; exact h5
  · intro x hx; exact Int.le_trans (h6 x hx) hnow
  · rw [hsw, hev, hpa]; exact h7
  · rw [hsw]; exact h.reg
  · intro x; rw [hfin]; exact h.nofin x

theorem OI.congr {e e' : Env} {c c' : TK} {s : Nat} (h : OI e c s)
    (hsw : c'.sensors.getD s default = c.sensors.getD s default)
    (hlog : senseLog c'.resT s = senseLog c.resT s)
    (hprod : prodLog c'.recsT (c.sensors.getD s default).proc =
      prodLog c.recsT (c.sensors.getD s default).proc)
    (hev : e'.events.filter (psEv s) = e.events.filter (psEv s))
    (hpa : e'.paused.filter (psEv s) = e.paused.filter (psEv s))
    (hfin : ∀ x, (c'.finS x).count s = (c.finS x).count s) (hdk : c'.dk.length = c.dk.length) :
    OI e' c' s := by
  obtain ⟨log, h1, h2, h3, h4⟩ := h.ex
  refine ⟨⟨log, ?_, ?_, ?_, ?_⟩, hev.trans h.ev, hpa.trans h.pa, ?_, ?_, ?_, ?_⟩
  · rw [hsw, hprod]; exact h1
  · rw [hsw, hprod]; exact h2
  · rw [hlog]; exact h3
  · rw [hsw]; exact h4
  · rw [hsw]; exact h.reg
  · rw [hsw, hfin, hdk]; exact h.fin
  · rw [hsw]; intro x hx; rw [hfin]; exact h.nofin x hx
  · rw [hsw, hprod, hdk]; exact h.norec

theorem SensU.congr {e e' : Env} {c c' : TK} {s : Nat} (h : SensU e c s)
    (hreg : (c'.sensors.getD s default).registered = (c.sensors.getD s default).registered)
    (hlog : senseLog c'.resT s = senseLog c.resT s)
    (hev : e'.events.filter (psEv s) = e.events.filter (psEv s))
    (hpa : e'.paused.filter (psEv s) = e.paused.filter (psEv s))
    (hfin : ∀ x, (c'.finS x).count s = (c.finS x).count s) : SensU e' c' s :=
  ⟨hev.trans h.ev, hpa.trans h.pa, hlog.trans h.log, hreg.trans h.reg,
    fun x => (hfin x).trans (h.nofin x)⟩

/-! ### abstract steps keep the invariants -/

theorem prodLog_single_ne {x y : Nat} (h : x ≠ y) (t : Int) (p : Nat) (q v : Int) :
    prodLog [Rec.produced x t p q v] y = [] := by
  simp [prodLog, h]

theorem prodLog_single (x : Nat) (t : Int) (p : Nat) (q v : Int) :
    prodLog [Rec.produced x t p q v] x = [(t, q, v)] := by
  simp [prodLog]

theorem prod_finS (c : TK) (x : Nat) (t : Int) (p : Nat) (q v : Int) (y : Nat) :
    (c.prod x t p q v).finS y = c.finS y := by
  unfold TK.finS TK.prod
  dsimp only
  rw [foldl_outSense_rest]

theorem prod_dk (c : TK) (x : Nat) (t : Int) (p : Nat) (q v : Int) :
    (c.prod x t p q v).dk = c.dk := by
  unfold TK.prod
  dsimp only
  rw [foldl_outSense_rest]

theorem prod_recsT (c : TK) (x : Nat) (t : Int) (p : Nat) (q v : Int) :
    (c.prod x t p q v).recsT = c.recsT ++ [Rec.produced x t p q v] := by
  unfold TK.prod
  dsimp only
  rw [(foldl_outSense_scheds _ _ _ _ _).2]

theorem CStep.pi {a b : TK} (h : CStep a b) {t0 : Int} {e : Env} {s : Nat}
    (hs : s < a.sensors.length) (hi : PI t0 e a s) : PI t0 e b s := by
  cases h with
  | reg => exact hi.congr rfl rfl rfl rfl (Int.le_refl _) (fun _ => rfl)
  | unreg => exact hi.congr rfl rfl rfl rfl (Int.le_refl _) (fun _ => rfl)
  | addCb s' cb =>
    by_cases he : s' = s
    · subst he
      obtain ⟨log, h1, h2, h3, h4, h5, h6, h7⟩ := hi.ex
      have hsw : (a.addCb s' cb).sensors.getD s' default =
          { a.sensors.getD s' default with s := (a.sensors.getD s' default).s.addCb cb } :=
        getD_set_same _ _ _ _ hs
      refine ⟨⟨log, ?_, ?_, ?_, h4, ?_, h6, ?_⟩, ?_, hi.nofin⟩
      · rw [hsw]
        show (a.sensors.getD s' default).s.addCb cb = _
        rw [reset_addCb, runPeriodic_addCb, ← h1]
      · rw [hsw]; exact h2
      · rw [hsw]; exact h3
      · rw [hsw]
        intro x hx
        exact List.IsPrefix.trans (h5 x hx) (List.prefix_append _ _)
      · rw [hsw]; exact h7
      · rw [hsw]; exact hi.reg
    · exact hi.congr (getD_set_ne _ _ _ _ _ he) rfl rfl rfl (Int.le_refl _) (fun _ => rfl)
  | prod x t p q v hx =>
    have h0 := hi.nofin x
    obtain ⟨f1, f2⟩ := foldl_outSense_notin (a.finS x) a h0 t q v
    refine hi.congr ?_ ?_ rfl rfl (Int.le_refl _) (fun y => by rw [prod_finS])
    · exact f1
    · exact f2

theorem CStep.sensU {a b : TK} (h : CStep a b) {e : Env} {s : Nat} (hi : SensU e a s) :
    SensU e b s := by
  cases h with
  | reg => exact hi.congr rfl rfl rfl rfl (fun _ => rfl)
  | unreg => exact hi.congr rfl rfl rfl rfl (fun _ => rfl)
  | addCb s' cb =>
    refine hi.congr ?_ rfl rfl rfl (fun _ => rfl)
    by_cases he : s' = s
    · subst he
      by_cases hs : s' < a.sensors.length
      · have hsw : (a.addCb s' cb).sensors.getD s' default =
            { a.sensors.getD s' default with s := (a.sensors.getD s' default).s.addCb cb } :=
          getD_set_same _ _ _ _ hs
        rw [hsw]
      · have : (a.addCb s' cb).sensors = a.sensors := by
          unfold TK.addCb
          exact set_of_length_le _ _ _ (Nat.le_of_not_lt hs)
        rw [this]
    · rw [show (a.addCb s' cb).sensors.getD s default = a.sensors.getD s default from
        getD_set_ne _ _ _ _ _ he]
  | prod x t p q v hx =>
    have h0 := hi.nofin x
    obtain ⟨f1, f2⟩ := foldl_outSense_notin (a.finS x) a h0 t q v
    exact hi.congr (by rw [show (a.prod x t p q v).sensors.getD s default = a.sensors.getD s default from f1])
      f2 rfl rfl (fun y => by rw [prod_finS])

theorem CStep.oi {a b : TK} (h : CStep a b) {e : Env} {s : Nat}
    (hs : s < a.sensors.length) (hi : OI e a s) : OI e b s := by
  cases h with
  | reg => exact hi.congr rfl rfl rfl rfl rfl (fun _ => rfl) rfl
  | unreg => exact hi.congr rfl rfl rfl rfl rfl (fun _ => rfl) rfl
  | addCb s' cb =>
    by_cases he : s' = s
    · subst he
      obtain ⟨log, h1, h2, h3, h4⟩ := hi.ex
      have hsw : (a.addCb s' cb).sensors.getD s' default =
          { a.sensors.getD s' default with s := (a.sensors.getD s' default).s.addCb cb } :=
        getD_set_same _ _ _ _ hs
      refine ⟨⟨log, ?_, ?_, h3, ?_⟩, hi.ev, hi.pa, ?_, ?_, ?_, ?_⟩
      · rw [hsw]
        show (a.sensors.getD s' default).s.addCb cb = _
        rw [reset_addCb, outRun_addCb]
        exact congrArg (fun z => Sensor.addCb z cb) h1
      · rw [hsw]
        show _ = outSamples _ (Sensor.reset (Sensor.addCb _ cb)) _
        rw [reset_addCb, outSamples_addCb]
        exact h2
      · rw [hsw]
        intro x hx
        exact List.IsPrefix.trans (h4 x hx) (List.prefix_append _ _)
      · rw [hsw]; exact hi.reg
      · rw [hsw]; exact hi.fin
      · rw [hsw]; exact hi.nofin
      · rw [hsw]; exact hi.norec
    · exact hi.congr (getD_set_ne _ _ _ _ _ he) rfl rfl rfl rfl (fun _ => rfl) rfl
  | prod x t p q v hx =>
    by_cases hxp : x = (a.sensors.getD s default).proc
    · -- the sensor's own processor finishes a part
      have hc : (a.finS x).count s = 1 := by rw [hxp]; exact hi.fin (by rw [← hxp]; exact hx)
      obtain ⟨f1, f2⟩ := foldl_outSense_once (a.finS x) a hc hs t q v
      have hsw : (a.prod x t p q v).sensors.getD s default =
          { a.sensors.getD s default with
            s := outStep (a.sensors.getD s default).attrs (a.sensors.getD s default).s q v } := f1
      obtain ⟨log, h1, h2, h3, h4⟩ := hi.ex
      have hpl : prodLog (a.prod x t p q v).recsT (a.sensors.getD s default).proc =
          prodLog a.recsT (a.sensors.getD s default).proc ++ [(t, q, v)] := by
        rw [prod_recsT, prodLog_append, ← hxp, prodLog_single]
      have hcbs : (outStep (a.sensors.getD s default).attrs (a.sensors.getD s default).s q v).cbs =
          (a.sensors.getD s default).s.cbs := (outStep_static _ _ _ _).2.2.2.2
      refine ⟨⟨log ++ (if (a.sensors.getD s default).s.countPart.2 then
          [(t, outVals (a.sensors.getD s default).attrs q v, (a.sensors.getD s default).s.cbs)]
          else []), ?_, ?_, ?_, ?_⟩, hi.ev, hi.pa, ?_, ?_, ?_, ?_⟩
      · rw [hsw]
        dsimp only
        rw [hpl, outStep_reset, outRun_snoc, ← h1]
      · rw [hsw]
        dsimp only
        rw [hpl, outStep_reset, outSamples_snoc, ← h1, ← h2]
        split <;> simp [samples]
      · show senseLog (a.prod x t p q v).resT s = _
        unfold TK.prod
        dsimp only
        rw [f2, h3]
        split
        · rw [logRes_snoc]
        · simp
      · rw [hsw]
        dsimp only
        rw [hcbs]
        intro y hy
        rcases List.mem_append.mp hy with hy | hy
        · exact h4 y hy
        · split at hy
          · simp only [List.mem_singleton] at hy
            subst hy
            exact List.prefix_refl _
          · cases hy
      · rw [hsw]; exact hi.reg
      · rw [hsw, prod_finS, prod_dk]; exact hi.fin
      · rw [hsw]; intro y hy; rw [prod_finS]; exact hi.nofin y hy
      · rw [hsw, prod_dk]
        intro hle
        dsimp only at hle
        rw [← hxp] at hle
        exact absurd hx (Nat.not_lt.mpr hle)
    · have h0 := hi.nofin x hxp
      obtain ⟨f1, f2⟩ := foldl_outSense_notin (a.finS x) a h0 t q v
      refine hi.congr f1 f2 ?_ rfl rfl (fun y => by rw [prod_finS]) (by rw [prod_dk])
      rw [prod_recsT, prodLog_append, prodLog_single_ne hxp, List.append_nil]

/-! ### the transitions of a sensor on (queue, key) -/

/-- `_periodic_sense` of sensor `s` with the probed values `vals`. -/
inductive APSense (e : Env) (c : TK) (s : Nat) (vals : List Int) : Env → TK → Prop
  | mk (wt : Nat) : 0 ≤ (c.sensors.getD s default).s.interval →
      APSense e c s vals
        (Env.withEvent e (e.now + (c.sensors.getD s default).s.interval)
          (c.sensors.getD s default).aid (10 + 16 * s) pSensor wt)
        { c with
          sensors := c.sensors.set s { (c.sensors.getD s default) with
            s := (c.sensors.getD s default).s.periodic e.now vals },
          resT := c.resT ++ (c.sensors.getD s default).s.cbs.map (fun cb => Res.sense s cb e.now vals) }

/-- `initialize` of sensor `s`. -/
inductive AInitSens (e : Env) (c : TK) (s : Nat) : Env → TK → Prop
  | periodic (wt : Nat) : (c.sensors.getD s default).s.kind = .periodic →
      0 ≤ (c.sensors.getD s default).s.interval →
      AInitSens e c s
        (Env.withEvent e (e.now + (c.sensors.getD s default).s.interval)
          (c.sensors.getD s default).aid (10 + 16 * s) pSensor wt)
        { c with sensors := c.sensors.set s { (c.sensors.getD s default) with
            s := (c.sensors.getD s default).s.reset, registered := true } }
  | output : (c.sensors.getD s default).s.kind = .output →
      AInitSens e c s e
        { c with
          sensors := c.sensors.set s { (c.sensors.getD s default) with
            s := (c.sensors.getD s default).s.reset, registered := true },
          dk := if (c.sensors.getD s default).registered then c.dk
            else c.dk.set (c.sensors.getD s default).proc
              ((c.dk.getD (c.sensors.getD s default).proc (0, [])).1,
               (c.dk.getD (c.sensors.getD s default).proc (0, [])).2 ++ [s]) }

theorem APSense.of_eq {e : Env} {c : TK} {s : Nat} {vals : List Int} {e1 e2 : Env} {c1 c2 : TK}
    (h : APSense e c s vals e1 c1) (he : e2 = e1) (hc : c2 = c1) : APSense e c s vals e2 c2 := by
  subst he hc; exact h

theorem AInitSens.of_eq {e : Env} {c : TK} {s : Nat} {e1 e2 : Env} {c1 c2 : TK}
    (h : AInitSens e c s e1 c1) (he : e2 = e1) (hc : c2 = c1) : AInitSens e c s e2 c2 := by
  subst he hc; exact h

theorem filter_sense' (l : List Nat) (s : Nat) (t : Int) (vals : List Int) :
    (l.map (fun c => Res.sense s c t vals)).filter trackedRes = l.map (fun c => Res.sense s c t vals) :=
  filter_sense l s t vals

theorem dk_getD (w : World) (x : Nat) : (w.devs.map dkey).getD x (0, []) = dkey (w.dev x) := by
  unfold World.dev
  simp only [List.getD_eq_getElem?_getD, List.getElem?_map]
  cases w.devs[x]? <;> rfl

/-- `World.periodicSense` refines `APSense` (the interval is not negative). -/
theorem periodicSense_refines (w : World) (s : Nat)
    (hi : 0 ≤ (w.sensors.getD s default).s.interval) :
    APSense w.env (tk w) s ((w.sensors.getD s default).vars.map (fun k => w.svars.getD k 0))
      (w.periodicSense s).env (tk (w.periodicSense s)) := by
  unfold periodicSense
  dsimp only
  obtain ⟨_, h2, _, _, h5⟩ := periodic_static (w.sensors.getD s default).s w.now
    ((w.sensors.getD s default).vars.map (fun k => w.svars.getD k 0))
  rw [foldl_addRes_sense, h2, h5]
  rw [schedLib_ok _ _ _ _ _ (by show w.env.now ≤ w.env.now + _; omega)]
  have := APSense.mk (e := w.env) (c := tk w) (s := s)
    (vals := (w.sensors.getD s default).vars.map (fun k => w.svars.getD k 0))
    (weightOf w.seed w.wmod (w.now + (w.sensors.getD s default).s.interval)
      (w.sensors.getD s default).aid (Action.periodicSense s).toNat pSensor) hi
  refine APSense.of_eq this rfl ?_
  simp only [tk, List.filter_append, filter_sense']
  rfl

/-- `World.initAsset (.sensor s)` refines `AInitSens`. -/
theorem initSensor_refines (w : World) (s : Nat)
    (hi : (w.sensors.getD s default).s.kind = .periodic → 0 ≤ (w.sensors.getD s default).s.interval) :
    AInitSens w.env (tk w) s (w.initAsset (.sensor s)).env (tk (w.initAsset (.sensor s))) := by
  unfold initAsset
  dsimp only
  cases hk : (w.sensors.getD s default).s.kind with
  | periodic =>
    dsimp only
    rw [schedLib_ok _ _ _ _ _ (by show w.env.now ≤ w.env.now + _; have := hi hk; omega)]
    have := AInitSens.periodic (e := w.env) (c := tk w) (s := s)
      (weightOf w.seed w.wmod (w.now + (w.sensors.getD s default).s.interval)
        (w.sensors.getD s default).aid (Action.periodicSense s).toNat pSensor) hk (hi hk)
    exact AInitSens.of_eq this rfl rfl
  | output =>
    dsimp only
    have := AInitSens.output (e := w.env) (c := tk w) (s := s) hk
    cases hr : (w.sensors.getD s default).registered with
    | true =>
      refine AInitSens.of_eq this rfl ?_
      simp only [tk, hr, Bool.not_true, Bool.false_eq_true, if_false, if_true]
    | false =>
      refine AInitSens.of_eq this rfl ?_
      simp only [Bool.not_false, if_true, tk, World.modDev, World.setDev, List.map_set, hr,
        Bool.false_eq_true, if_false, dk_getD]
      rfl


/-! ### the transitions of `PI` -/

/-- Periodic sensor `s` right after its event was taken from the queue. -/
structure PMid (t0 : Int) (e : Env) (c : TK) (s : Nat) : Prop where
  ex : ∃ log : SLog,
    (c.sensors.getD s default).s =
      C19.runPeriodic (c.sensors.getD s default).s.reset (samples log) ∧
    log.map (·.1) = (List.range log.length).map
      (fun (k : Nat) => t0 + ((k : Int) + 1) * (c.sensors.getD s default).s.interval) ∧
    (∀ x ∈ log, x.2.1.length = (c.sensors.getD s default).vars.length) ∧
    senseLog c.resT s = logRes s log ∧
    (∀ x ∈ log, x.2.2 <+: (c.sensors.getD s default).s.cbs) ∧
    (∀ x ∈ log, x.1 ≤ e.now) ∧
    e.now = t0 + ((log.length : Int) + 1) * (c.sensors.getD s default).s.interval
  ev : e.events.filter (psEv s) = []
  pa : e.paused.filter (psEv s) = []
  reg : (c.sensors.getD s default).registered = true
  nofin : ∀ x, (c.finS x).count s = 0

theorem PI.pop {t0 : Int} {e : Env} {c : TK} {s : Nat} (h : PI t0 e c s) {ev : Event}
    {es : List Event} (he : e.events = ev :: es) (hs : psEv s ev = true) (hnow : e.now ≤ ev.time)
    (b : Bool) :
    PMid t0 { e with now := ev.time, events := es, terminated := b } c s ∧ ev.cancelled = false ∧
    ev.asset = (c.sensors.getD s default).aid := by
  obtain ⟨log, h1, h2, h3, h4, h5, h6, ⟨e0, h7, h8, h9, h10, _⟩, h11⟩ := h.ex
  have hf : e.events.filter (psEv s) = ev :: es.filter (psEv s) := by
    rw [he, List.filter_cons, if_pos hs]
  rw [hf] at h7
  simp only [List.cons.injEq] at h7
  obtain ⟨rfl, h12⟩ := h7
  exact ⟨⟨⟨log, h1, h2, h3, h4, h5, fun x hx => Int.le_trans (h6 x hx) hnow, h8⟩, h12, h11, h.reg,
    h.nofin⟩, h9, h10⟩

theorem range_succ_map' {α} (f : Nat → α) (n : Nat) :
    (List.range (n + 1)).map f = (List.range n).map f ++ [f n] := by
  rw [List.range_succ, List.map_append]; rfl

/-- The measurement. -/
theorem PI_advance {t0 : Int} {e e' : Env} {c c' : TK} {s : Nat} {vals : List Int}
    (h : PMid t0 e c s) (hs : s < c.sensors.length)
    (hv : vals.length = (c.sensors.getD s default).vars.length)
    (ha : APSense e c s vals e' c') : PI t0 e' c' s := by
  obtain ⟨log, h1, h2, h3, h4, h5, h6, h7⟩ := h.ex
  cases ha with
  | mk wt hi =>
    have hsw : (c.sensors.set s { (c.sensors.getD s default) with
        s := (c.sensors.getD s default).s.periodic e.now vals }).getD s default =
        { (c.sensors.getD s default) with s := (c.sensors.getD s default).s.periodic e.now vals } :=
      getD_set_same _ _ _ _ hs
    obtain ⟨_, p2, _, _, p5⟩ := periodic_static (c.sensors.getD s default).s e.now vals
    refine ⟨⟨log ++ [(e.now, vals, (c.sensors.getD s default).s.cbs)], ?_, ?_, ?_, ?_, ?_, ?_, ?_⟩, ?_, ?_⟩
    · show (List.getD (c.sensors.set s _) s default).s = C19.runPeriodic (List.getD (c.sensors.set s _) s default).s.reset _
      rw [hsw]
      dsimp only
      rw [periodic_reset, samples_snoc, runPeriodic_snoc, ← h1]
    · show _ = List.map (fun (k : Nat) => t0 + ((k : Int) + 1) * (List.getD (c.sensors.set s _) s default).s.interval) _
      rw [hsw]
      dsimp only
      rw [p2, List.map_append, h2, List.length_append, List.length_singleton, range_succ_map', h7]
      rfl
    · show ∀ x ∈ _, _ = (List.getD (c.sensors.set s _) s default).vars.length
      rw [hsw]
      intro x hx
      rcases List.mem_append.mp hx with hx | hx
      · exact h3 x hx
      · simp only [List.mem_singleton] at hx; subst hx; exact hv
    · show senseLog (c.resT ++ _) s = _
      rw [senseLog_append, senseLog_self, logRes_snoc, h4]
    · show ∀ x ∈ _, _ <+: (List.getD (c.sensors.set s _) s default).s.cbs
      rw [hsw]
      dsimp only
      rw [p5]
      intro x hx
      rcases List.mem_append.mp hx with hx | hx
      · exact h5 x hx
      · simp only [List.mem_singleton] at hx; subst hx; exact List.prefix_refl _
    · intro x hx
      rcases List.mem_append.mp hx with hx | hx
      · exact h6 x hx
      · simp only [List.mem_singleton] at hx; subst hx; exact Int.le_refl _
    · show Pending _ _ (t0 + _ * (List.getD (c.sensors.set s _) s default).s.interval)
        (List.getD (c.sensors.set s _) s default).aid pSensor
      rw [hsw]
      dsimp only
      rw [p2]
      have hf := C06W.filter_insort_pos_nil (psEv s)
        (e.newEvent (e.now + (c.sensors.getD s default).s.interval)
          (c.sensors.getD s default).aid (10 + 16 * s) pSensor wt) e.events
        (by simp [psEv, Env.newEvent]) h.ev
      refine ⟨⟨_, hf, ?_, rfl, rfl, rfl⟩, h.pa⟩
      show e.now + _ = _
      rw [h7, List.length_append, List.length_singleton]
      push_cast
      simp only [Int.add_mul]
      omega
    · show (List.getD (c.sensors.set s _) s default).registered = true
      rw [hsw]; exact h.reg
    · exact h.nofin

/-- Initialisation of a periodic sensor. -/
theorem PI_start {e e' : Env} {c c' : TK} {s : Nat} (h : SensU e c s) (hs : s < c.sensors.length)
    (hk : (c.sensors.getD s default).s.kind = .periodic) (ha : AInitSens e c s e' c') :
    PI e.now e' c' s := by
  cases ha with
  | output hk' => rw [hk] at hk'; cases hk'
  | periodic wt _ hi =>
    have hsw : (c.sensors.set s { (c.sensors.getD s default) with
        s := (c.sensors.getD s default).s.reset, registered := true }).getD s default =
        { (c.sensors.getD s default) with s := (c.sensors.getD s default).s.reset, registered := true } :=
      getD_set_same _ _ _ _ hs
    refine ⟨⟨[], ?_, rfl, by simp, h.log, by simp, by simp, ?_⟩, ?_, h.nofin⟩
    · show (List.getD (c.sensors.set s _) s default).s = _
      rw [hsw]; rfl
    · show Pending _ _ (e.now + _ * (List.getD (c.sensors.set s _) s default).s.interval)
        (List.getD (c.sensors.set s _) s default).aid pSensor
      rw [hsw]
      have hf := C06W.filter_insort_pos_nil (psEv s)
        (e.newEvent (e.now + (c.sensors.getD s default).s.interval)
          (c.sensors.getD s default).aid (10 + 16 * s) pSensor wt) e.events
        (by simp [psEv, Env.newEvent]) h.ev
      refine ⟨⟨_, hf, ?_, rfl, rfl, rfl⟩, h.pa⟩
      show e.now + _ = _
      simp [Sensor.reset]
    · show (List.getD (c.sensors.set s _) s default).registered = true
      rw [hsw]


theorem finS_set (sch : List SchedW) (sens : List SensorW) (recs : List Rec) (res : List Res)
    (dk : List (Int × List Nat)) (scr : List (List Op)) (x : Nat) (k : Int × List Nat) (y : Nat) :
    (TK.mk sch sens recs res (dk.set x k) scr).finS y =
      if y = x ∧ x < dk.length then k.2 else (dk.getD y (0, [])).2 := by
  unfold TK.finS
  dsimp only
  by_cases hy : y = x
  · subst hy
    by_cases hl : y < dk.length
    · rw [getD_set_same _ _ _ _ hl]; simp [hl]
    · rw [set_of_length_le _ _ _ (Nat.le_of_not_lt hl)]; simp [hl]
  · rw [getD_set_ne _ _ _ _ _ (Ne.symm hy)]; simp [hy]

/-- Initialisation of an output-part sensor (no part has been produced yet). -/
theorem OI_start {e e' : Env} {c c' : TK} {s : Nat} (h : SensU e c s) (hs : s < c.sensors.length)
    (hk : (c.sensors.getD s default).s.kind = .output)
    (hp : prodLog c.recsT (c.sensors.getD s default).proc = []) (ha : AInitSens e c s e' c') :
    OI e' c' s := by
  cases ha with
  | periodic wt hk' _ => rw [hk] at hk'; cases hk'
  | output _ =>
    have hsw : (c.sensors.set s { (c.sensors.getD s default) with
        s := (c.sensors.getD s default).s.reset, registered := true }).getD s default =
        { (c.sensors.getD s default) with s := (c.sensors.getD s default).s.reset, registered := true } :=
      getD_set_same _ _ _ _ hs
    simp only [h.reg, Bool.false_eq_true, if_false]
    refine ⟨⟨[], ?_, ?_, h.log, by simp⟩, h.ev, h.pa, ?_, ?_, ?_, ?_⟩
    · show (List.getD (c.sensors.set s _) s default).s = outRun (List.getD (c.sensors.set s _) s default).attrs
        (List.getD (c.sensors.set s _) s default).s.reset (prodLog c.recsT (List.getD (c.sensors.set s _) s default).proc)
      rw [hsw]
      dsimp only
      rw [hp]; rfl
    · show samples [] = outSamples (List.getD (c.sensors.set s _) s default).attrs
        (List.getD (c.sensors.set s _) s default).s.reset (prodLog c.recsT (List.getD (c.sensors.set s _) s default).proc)
      rw [hsw]
      dsimp only
      rw [hp]; rfl
    · show (List.getD (c.sensors.set s _) s default).registered = true
      rw [hsw]
    · show (List.getD (c.sensors.set s _) s default).proc < (c.dk.set _ _).length → _
      rw [hsw]
      dsimp only
      intro hlt
      rw [List.length_set] at hlt
      rw [finS_set]
      simp only [true_and, hlt, if_true]
      have := h.nofin (c.sensors.getD s default).proc
      unfold TK.finS at this
      rw [List.count_append, this]
      simp
    · show ∀ x, x ≠ (List.getD (c.sensors.set s _) s default).proc → _
      rw [hsw]
      dsimp only
      intro x hx
      rw [finS_set]
      simp only [hx, false_and, if_false]
      exact h.nofin x
    · show (c.dk.set _ _).length ≤ (List.getD (c.sensors.set s _) s default).proc → prodLog c.recsT
        (List.getD (c.sensors.set s _) s default).proc = []
      rw [hsw]
      intro _
      exact hp

/-- What a transition of sensor `s` does to everything else. -/
structure SensFrame (s : Nat) (e : Env) (c : TK) (e' : Env) (c' : TK) : Prop where
  now : e'.now = e.now
  pa : e'.paused = e.paused
  ev : ∀ p : Event → Bool, (∀ x, psEv s x = true → p x = false) →
    e'.events.filter p = e.events.filter p
  inv : C01.Inv e → C01.Inv e'
  scheds : c'.scheds = c.scheds
  scripts : c'.scripts = c.scripts
  sstat : sstat c' = sstat c
  sensors : ∀ s', s' ≠ s → c'.sensors.getD s' default = c.sensors.getD s' default
  recs : c'.recsT = c.recsT
  res : ∃ l, c'.resT = c.resT ++ l ∧ ∀ r ∈ l, ∃ cb t vals, r = Res.sense s cb t vals
  fin : ∀ s', s' ≠ s → ∀ x, (c'.finS x).count s' = (c.finS x).count s'
  dklen : c'.dk.length = c.dk.length

theorem APSense.frame {e : Env} {c : TK} {s : Nat} {vals : List Int} {e' : Env} {c' : TK}
    (h : APSense e c s vals e' c') : SensFrame s e c e' c' := by
  cases h with
  | mk wt hi =>
    refine ⟨rfl, rfl, fun p hp => ?_, fun h0 => withEvent_inv h0 (by omega), rfl, rfl, ?_,
      fun s' hne => getD_set_ne _ _ _ _ _ (Ne.symm hne), rfl, ⟨_, rfl, ?_⟩, fun _ _ _ => rfl, rfl⟩
    · exact C06W.filter_insort_neg _ _ _ (hp _ (by simp [psEv, Env.newEvent]))
    · obtain ⟨p1, p2, p3, p4, _⟩ := periodic_static (c.sensors.getD s default).s e.now vals
      simp only [C18W.sstat]
      congr 2
      refine map_set_of_eq sensS _ _ _ default ?_
      simp only [sensS, p1, p2, p3, p4]
    · intro r hr
      obtain ⟨x, _, rfl⟩ := List.mem_map.mp hr
      exact ⟨_, _, _, rfl⟩

theorem AInitSens.frame {e : Env} {c : TK} {s : Nat} {e' : Env} {c' : TK}
    (h : AInitSens e c s e' c') : SensFrame s e c e' c' := by
  have hss : C18W.sstat { c with sensors := c.sensors.set s { (c.sensors.getD s default) with
      s := (c.sensors.getD s default).s.reset, registered := true } } = C18W.sstat c := by
    simp only [C18W.sstat]
    congr 2
    exact map_set_of_eq sensS _ _ _ default rfl
  cases h with
  | periodic wt hk hi =>
    refine ⟨rfl, rfl, fun p hp => ?_, fun h0 => withEvent_inv h0 (by omega), rfl, rfl, hss,
      fun s' hne => getD_set_ne _ _ _ _ _ (Ne.symm hne), rfl, ⟨[], by simp, by simp⟩,
      fun _ _ _ => rfl, rfl⟩
    exact C06W.filter_insort_neg _ _ _ (hp _ (by simp [psEv, Env.newEvent]))
  | output hk =>
    refine ⟨rfl, rfl, fun _ _ => rfl, id, rfl, rfl, ?_,
      fun s' hne => getD_set_ne _ _ _ _ _ (Ne.symm hne), rfl, ⟨[], by simp, by simp⟩, ?_, ?_⟩
    · split
      · exact hss
      · have h2 : (c.dk.set (c.sensors.getD s default).proc
            ((c.dk.getD (c.sensors.getD s default).proc (0, [])).1,
              (c.dk.getD (c.sensors.getD s default).proc (0, [])).2 ++ [s])).map (·.1) =
            c.dk.map (·.1) :=
          map_set_of_eq (fun k : Int × List Nat => k.1) c.dk _ _ (0, []) rfl
        have := hss
        simp only [C18W.sstat, Prod.mk.injEq] at this ⊢
        exact ⟨this.1, this.2.1, h2, trivial⟩
    · intro s' hne x
      split
      · rfl
      · rw [finS_set]
        split
        · rename_i hx
          rw [hx.1]
          show List.count s' ((c.dk.getD _ (0, [])).2 ++ [s]) = List.count s' (c.dk.getD _ (0, [])).2
          rw [List.count_append]
          have : (s == s') = false := by simpa using Ne.symm hne
          simp [List.count_cons, this]
        · rfl
    · split
      · rfl
      · exact List.length_set ..


/-! ### transitions of one entity leave the others alone -/

theorem suEv_not_psEv {s s' : Nat} {x : Event} (h : psEv s x = true) : suEv s' x = false := by
  have h1 : x.act = 10 + 16 * s := by simpa [psEv] using h
  simp only [suEv, h1, beq_eq_false_iff_ne, ne_eq]
  omega

theorem psEv_not_suEv {s s' : Nat} {x : Event} (h : suEv s x = true) : psEv s' x = false := by
  have h1 : x.act = 9 + 16 * s := by simpa [suEv] using h
  simp only [psEv, h1, beq_eq_false_iff_ne, ne_eq]
  omega

theorem psEv_ne {s s' : Nat} (hne : s' ≠ s) {x : Event} (h : psEv s x = true) : psEv s' x = false := by
  have h1 : x.act = 10 + 16 * s := by simpa [psEv] using h
  simp only [psEv, h1, beq_eq_false_iff_ne, ne_eq]
  omega

theorem SensFrame.si {s : Nat} {e : Env} {c : TK} {e' : Env} {c' : TK}
    (h : SensFrame s e c e' c') {t0 : Int} {s' : Nat} (hi : SI t0 e c s') : SI t0 e' c' s' := by
  unfold SI at hi ⊢
  rw [h.scheds, h.recs, h.ev (suEv s') (fun x hx => suEv_not_psEv hx), h.pa, h.now]
  exact hi

theorem SensFrame.su {s : Nat} {e : Env} {c : TK} {e' : Env} {c' : TK}
    (h : SensFrame s e c e' c') {s' : Nat} (hi : SU e c s') : SU e' c' s' :=
  ⟨by rw [h.scheds]; exact hi.idx, by rw [h.recs]; exact hi.log,
    (h.ev (suEv s') (fun x hx => suEv_not_psEv hx)).trans hi.ev, by rw [h.pa]; exact hi.pa⟩

theorem sensFrame_senseLog {s : Nat} {e : Env} {c : TK} {e' : Env} {c' : TK}
    (h : SensFrame s e c e' c') {s' : Nat} (hne : s' ≠ s) :
    senseLog c'.resT s' = senseLog c.resT s' := by
  obtain ⟨l, hl, hr⟩ := h.res
  rw [hl, senseLog_append]
  have : senseLog l s' = [] := by
    unfold senseLog
    apply filter_eq_nil_of_forall
    intro r hm
    obtain ⟨cb, t, vals, rfl⟩ := hr r hm
    simp [Ne.symm hne]
  rw [this, List.append_nil]

theorem SensFrame.pi {s : Nat} {e : Env} {c : TK} {e' : Env} {c' : TK}
    (h : SensFrame s e c e' c') {t0 : Int} {s' : Nat} (hne : s' ≠ s) (hi : PI t0 e c s') :
    PI t0 e' c' s' :=
  hi.congr (h.sensors s' hne) (sensFrame_senseLog h hne) (h.ev _ (fun _ hx => psEv_ne hne hx))
    (by rw [h.pa]) (by rw [h.now]; exact Int.le_refl _) (h.fin s' hne)

theorem SensFrame.oi {s : Nat} {e : Env} {c : TK} {e' : Env} {c' : TK}
    (h : SensFrame s e c e' c') {s' : Nat} (hne : s' ≠ s) (hi : OI e c s') : OI e' c' s' :=
  hi.congr (h.sensors s' hne) (sensFrame_senseLog h hne) (by rw [h.recs])
    (h.ev _ (fun _ hx => psEv_ne hne hx)) (by rw [h.pa]) (h.fin s' hne) h.dklen

theorem SensFrame.sensU {s : Nat} {e : Env} {c : TK} {e' : Env} {c' : TK}
    (h : SensFrame s e c e' c') {s' : Nat} (hne : s' ≠ s) (hi : SensU e c s') : SensU e' c' s' :=
  hi.congr (by rw [h.sensors s' hne]) (sensFrame_senseLog h hne) (h.ev _ (fun _ hx => psEv_ne hne hx))
    (by rw [h.pa]) (h.fin s' hne)

theorem schedFrame_senseLog {s : Nat} {e : Env} {c : TK} {e' : Env} {c' : TK}
    (h : SchedFrame s e c e' c') (s' : Nat) : senseLog c'.resT s' = senseLog c.resT s' := by
  obtain ⟨l, hl, hr⟩ := h.res
  rw [hl, senseLog_append]
  have : senseLog l s' = [] := by
    unfold senseLog
    apply filter_eq_nil_of_forall
    intro r hm
    obtain ⟨o, t, st, ovr, rfl⟩ := hr r hm
    rfl
  rw [this, List.append_nil]

theorem schedFrame_prodLog {s : Nat} {e : Env} {c : TK} {e' : Env} {c' : TK}
    (h : SchedFrame s e c e' c') (x : Nat) : prodLog c'.recsT x = prodLog c.recsT x := by
  obtain ⟨l, hl, hr⟩ := h.recs
  rw [hl, prodLog_append]
  have : prodLog l x = [] := by
    unfold prodLog
    apply List.filterMap_eq_nil_iff.mpr
    intro r hm
    obtain ⟨t, st, rfl⟩ := hr r hm
    rfl
  rw [this, List.append_nil]

theorem schedFrame_finS {s : Nat} {e : Env} {c : TK} {e' : Env} {c' : TK}
    (h : SchedFrame s e c e' c') (x : Nat) : c'.finS x = c.finS x := by
  unfold TK.finS; rw [h.dk]

theorem schedFrame_pi {s : Nat} {e : Env} {c : TK} {e' : Env} {c' : TK}
    (h : SchedFrame s e c e' c') {t0 : Int} {s' : Nat} (hi : PI t0 e c s') : PI t0 e' c' s' :=
  hi.congr (by rw [h.sensors]) (schedFrame_senseLog h s') (h.ev _ (fun _ hx => psEv_not_suEv hx))
    (by rw [h.pa]) (by rw [h.now]; exact Int.le_refl _) (fun x => by rw [schedFrame_finS h])

theorem schedFrame_oi {s : Nat} {e : Env} {c : TK} {e' : Env} {c' : TK}
    (h : SchedFrame s e c e' c') {s' : Nat} (hi : OI e c s') : OI e' c' s' :=
  hi.congr (by rw [h.sensors]) (schedFrame_senseLog h s') (schedFrame_prodLog h _) (h.ev _ (fun _ hx => psEv_not_suEv hx))
    (by rw [h.pa]) (fun x => by rw [schedFrame_finS h]) (by rw [h.dk])

theorem schedFrame_sensU {s : Nat} {e : Env} {c : TK} {e' : Env} {c' : TK}
    (h : SchedFrame s e c e' c') {s' : Nat} (hi : SensU e c s') : SensU e' c' s' :=
  hi.congr (by rw [h.sensors]) (schedFrame_senseLog h s') (h.ev _ (fun _ hx => psEv_not_suEv hx))
    (by rw [h.pa]) (fun x => by rw [schedFrame_finS h])

end C19W
end SimProc
