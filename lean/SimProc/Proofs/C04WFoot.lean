/-
C04 (general serial line) — footprints of the model functions (which devices, events and log
entries they touch).
-/
import SimProc.Proofs.C04WInv

set_option linter.unusedSimpArgs false
set_option linter.unusedVariables false

namespace SimProc
namespace C04W
open World C04
open SS (Key key cls)

theorem Good.aid {P : Par} {s : S} (h : Good P s) {j : Nat} (hj : j ≤ P.L.n) :
    (dv s j).aid = (j : Int) + 1 := (h.stat.facts hj).aid

theorem Good.cycle_nonneg {P : Par} {s : S} (h : Good P s) (hL : P.L.WF) {j : Nat} (hj : j ≤ P.L.n) :
    0 ≤ (dv s j).cycle := by
  rw [(h.stat.facts hj).cycle]
  split
  · exact Int.le_refl _
  · exact c_nonneg hL hj

theorem Good.delay_nonneg {P : Par} {s : S} (h : Good P s) (hL : P.L.WF) {j : Nat} (hj : j ≤ P.L.n) :
    0 ≤ (dv s j).delay := by
  rw [(h.stat.facts hj).delay]
  split
  · exact c_nonneg hL hj
  · exact Int.le_refl _

theorem Foot.passS {P : Par} {s : S} (hG : Good P s) {j : Nat} (hj : j ≤ P.L.n) (off : Int) (ho : 0 ≤ off) :
    Foot P.L [j] s (passS P s j off) := by
  unfold C04W.passS
  rw [hG.aid hj]
  exact (Foot.setD P.L s j _).trans (Foot.push P _ j _ _ _ hj (by simp; omega))

theorem Foot.wakeS {P : Par} {s : S} (hG : Good P s) {u : Nat} (hu : u ≤ P.L.n) :
    Foot P.L [u] s (wakeS P s u) := by
  unfold C04W.wakeS
  split
  · exact Foot.passS hG hu 0 (Int.le_refl _)
  · exact Foot.refl _ _ _

theorem Foot.waitS (L : Line) (s : S) (j : Nat) : Foot L [j] s (waitS s j) := by
  unfold C04W.waitS C04W.waitS0
  split
  · split
    · exact Foot.refl _ _ _
    · exact Foot.setD L s j _
  · exact Foot.refl _ _ _

theorem Foot.notifyS {P : Par} {s : S} (hG : Good P s) {j : Nat} (hj : j ≤ P.L.n) :
    Foot P.L [j - 1, j] s (notifyS P s j) := by
  unfold C04W.notifyS
  split
  · exact Foot.refl _ _ _
  · split
    · exact (Foot.waitS P.L s j).mono (by simp)
    · exact ((Foot.waitS P.L s j).mono (by simp)).trans
        ((Foot.wakeS (hG.waitS j) (by omega : j - 1 ≤ P.L.n)).mono (by simp))

theorem Foot.finishHS {P : Par} {s : S} (hG : Good P s) {j : Nat} (hj : j ≤ P.L.n) (p : Nat) :
    Foot P.L [j] s (finishHS P s j p) := by
  unfold C04W.finishHS
  exact (Foot.setD P.L s j _).trans (Foot.passS (hG.setD (by rfl)) hj 0 (Int.le_refl _))

theorem Foot.finishPS {P : Par} {s : S} (hG : Good P s) {j : Nat} (hj : j ≤ P.L.n) (p : Nat) :
    Foot P.L [j] s (finishPS P s j p) := by
  unfold C04W.finishPS
  exact ((Foot.finishHS hG hj p).trans (Foot.setD P.L _ j _)).trans (Foot.addR _ _ _ _ trivial)

theorem Foot.finishKS {P : Par} {s : S} (hG : Good P s) {j : Nat} (hj : j ≤ P.L.n) :
    Foot P.L [j - 1, j] s (finishKS P s j) := by
  unfold C04W.finishKS
  exact ((Foot.setD P.L s j _).mono (by simp)).trans (Foot.notifyS (hG.setD (by rfl)) hj)

theorem Foot.finishS {P : Par} {s : S} (hG : Good P s) {j : Nat} (hj : j ≤ P.L.n) (p : Nat) :
    Foot P.L [j - 1, j] s (finishS P s j p) := by
  unfold C04W.finishS
  split
  · exact (Foot.finishPS hG hj p).mono (by simp)
  · exact Foot.finishKS hG hj
  · exact (Foot.finishHS hG hj p).mono (by simp)

theorem Foot.schedFinS {P : Par} {s : S} (hG : Good P s) (hL : P.L.WF) {j : Nat} (hj : j ≤ P.L.n) (p : Nat) :
    Foot P.L [j - 1, j] s (schedFinS P s j p) := by
  unfold C04W.schedFinS
  split
  · exact Foot.finishS hG hj p
  · rw [hG.aid hj]
    exact (Foot.push P s j _ _ _ hj (by have := hG.cycle_nonneg hL hj; omega)).mono (by simp)

theorem Foot.takeS (L : Line) (s : S) (i p : Nat) : Foot L [i] s (takeS s i p) := by
  unfold C04W.takeS
  exact ((Foot.setD L s i _).trans (Foot.setParts L _ _ _ (SS.histAdd_length _ _ _))).trans
    (Foot.setD L _ i _)

theorem Foot.acceptHS {P : Par} {s : S} (hG : Good P s) (hL : P.L.WF) {i : Nat} (hi : i ≤ P.L.n) (p : Nat) :
    Foot P.L [i - 1, i] s (acceptHS P s i p) := by
  unfold C04W.acceptHS
  exact (((Foot.takeS P.L s i p).mono (by simp)).trans (Foot.addR _ _ _ _ (by simp [RecIn]))).trans
    (Foot.schedFinS ((hG.takeS i p).addR _) hL hi p)

theorem Foot.acceptPS {P : Par} {s : S} (hG : Good P s) (hL : P.L.WF) {i : Nat} (hi : i ≤ P.L.n) (p : Nat) :
    Foot P.L [i - 1, i] s (acceptPS P s i p) := by
  unfold C04W.acceptPS
  exact ((((Foot.takeS P.L s i p).mono (by simp)).trans (Foot.addR _ _ _ _ (by simp [RecIn]))).trans
    ((Foot.setD P.L _ i _).mono (by simp))).trans
    (Foot.schedFinS (((hG.takeS i p).addR _).setD (by rfl)) hL hi p)

theorem Foot.acceptKS {P : Par} {s : S} (hG : Good P s) (hL : P.L.WF) {i : Nat} (hi : i ≤ P.L.n) (p : Nat) :
    Foot P.L [i - 1, i] s (acceptKS P s i p) := by
  unfold C04W.acceptKS
  exact (((((Foot.addDel P.L _ s p).trans ((Foot.takeS P.L _ i p).mono (by simp))).trans
    ((Foot.setD P.L _ i _).mono (by simp))).trans (Foot.addR _ _ _ _ (by simp [RecIn])))).trans
    (Foot.schedFinS ((((hG.addDel p).takeS i p).setD (by rfl)).addR _) hL hi p)

theorem Foot.moveBS {P : Par} {s : S} (hG : Good P s) (hL : P.L.WF) {i : Nat} (hi : i ≤ P.L.n) (p : Nat) :
    Foot P.L [i - 1, i] s (moveBS P s i p) := by
  unfold C04W.moveBS
  simp only []
  have h1 : Foot P.L [i - 1, i] s (C04W.notifyS P (C04W.setD s i _) i) :=
    ((Foot.setD P.L s i { C04W.dv s i with buf := (C04W.dv s i).buf ++ [(s.now, p)], part := none }).mono (by simp)).trans
      (Foot.notifyS (hG.setD (by rfl)) hi)
  split
  · exact h1.trans ((Foot.passS ((hG.setD (by rfl)).notifyS i) hi _ (hG.delay_nonneg hL hi)).mono (by simp))
  · exact h1

theorem Foot.acceptBS {P : Par} {s : S} (hG : Good P s) (hL : P.L.WF) {i : Nat} (hi : i ≤ P.L.n) (p : Nat) :
    Foot P.L [i - 1, i] s (acceptBS P s i p) := by
  unfold C04W.acceptBS
  exact (((((Foot.takeS P.L s i p).mono (by simp)).trans ((Foot.setD P.L _ i _).mono (by simp))).trans
    (Foot.addR _ _ _ _ (by simp [RecIn]))).trans (Foot.addR _ _ _ _ (by simp [RecIn]))).trans
    (Foot.moveBS ((((hG.takeS i p).setD (by rfl)).addR _).addR _) hL hi p)

theorem Foot.acceptS {P : Par} {s : S} (hG : Good P s) (hL : P.L.WF) {i : Nat} (hi : i ≤ P.L.n) (p : Nat) :
    Foot P.L [i - 1, i] s (acceptS P s i p) := by
  unfold C04W.acceptS
  split
  · exact Foot.acceptHS hG hL hi p
  · exact Foot.acceptPS hG hL hi p
  · exact Foot.acceptBS hG hL hi p
  · exact Foot.acceptKS hG hL hi p
  · exact Foot.refl _ _ _

theorem Foot.giveS {P : Par} {s : S} (hG : Good P s) (hL : P.L.WF) {i : Nat} (hi : i ≤ P.L.n) (p : Nat) :
    Foot P.L [i - 1, i] s (giveS P s i p).1 := by
  unfold C04W.giveS
  split
  · exact Foot.acceptS hG hL hi p
  · exact Foot.refl _ _ _

theorem Foot.passHS {P : Par} {s : S} (hG : Good P s) (hL : P.L.WF) {j : Nat} (hj : j < P.L.n) (p : Nat) :
    Foot P.L [j - 1, j, j + 1] s (passHS P s j p) := by
  have h1 : Foot P.L [j - 1, j, j + 1] s (C04W.giveS P s (j + 1) p).1 :=
    (Foot.giveS hG hL (by omega : j + 1 ≤ P.L.n) p).mono (by simp)
  unfold C04W.passHS
  simp only []
  split
  · exact (h1.trans ((Foot.setD P.L _ j _).mono (by simp))).trans
      ((Foot.notifyS ((hG.giveS _ _).setD (by rfl)) (Nat.le_of_lt hj)).mono (by simp))
  · exact h1.trans ((Foot.setD P.L _ j _).mono (by simp))

theorem Foot.genS {P : Par} {s : S} (hG : Good P s) : Foot P.L [0] s (genS P s) := by
  unfold C04W.genS
  have h1 : Foot P.L [0] s
      { C04W.setD s 0 { C04W.dv s 0 with output := some s.parts.length } with
        parts := SS.histAdd (s.parts ++ [{ quality := 1, value := 0 }]) s.parts.length 0
        gen := s.gen ++ [s.parts.length] } :=
    ⟨rfl, rfl, fun i hi => dv_setD_ne s 0 i _ (by simpa using hi), fun _ _ => rfl, rfl, id, id, id,
      fun _ _ => rfl, fun h => absurd (List.mem_singleton.2 rfl) h⟩
  refine h1.trans (Foot.passS ?_ (Nat.zero_le _) 0 (Int.le_refl _))
  exact ⟨(hG.setD (j := 0) (by rfl)).stat, SS.PartsOK_histAdd (SS.PartsOK_append hG.pok 1) _ _, hG.now0⟩

theorem Good.genS {P : Par} {s : S} (hG : Good P s) : Good P (genS P s) := by
  unfold C04W.genS
  refine Good.passS ?_ 0 0
  exact ⟨(hG.setD (j := 0) (by rfl)).stat, SS.PartsOK_histAdd (SS.PartsOK_append hG.pok 1) _ _, hG.now0⟩

theorem Foot.schedFin0S {P : Par} {s : S} (hG : Good P s) (hL : P.L.WF) :
    Foot P.L [0] s (schedFin0S P s) := by
  unfold C04W.schedFin0S
  split
  · exact Foot.genS hG
  · rw [hG.aid (Nat.zero_le _)]
    exact Foot.push P s 0 _ _ _ (Nat.zero_le _) (by have := hG.cycle_nonneg hL (Nat.zero_le _); omega)

theorem Good.schedFin0S {P : Par} {s : S} (hG : Good P s) : Good P (schedFin0S P s) := by
  unfold C04W.schedFin0S
  split
  · exact hG.genS
  · exact hG.push _ _ _ _

theorem Foot.passSrcS {P : Par} {s : S} (hG : Good P s) (hL : P.L.WF) (p : Nat) :
    Foot P.L [0, 1] s (passSrcS P s p) := by
  have hn : 0 < P.L.n := by unfold Line.n; omega
  have h1 : Foot P.L [0, 1] s (C04W.passHS P s 0 p) := (Foot.passHS hG hL hn p).mono (by simp)
  unfold C04W.passSrcS
  split
  · exact Foot.refl _ _ _
  · simp only []
    split
    · exact ((h1.trans ((Foot.setD P.L _ 0 _).mono (by simp))).trans
        (Foot.addR _ _ _ (.supplied 0 s.now p) trivial)).trans
        ((Foot.schedFin0S (((hG.passHS 0 p).setD (by rfl)).addR _) hL).mono (by simp))
    · exact h1

theorem Good.passSrcS {P : Par} {s : S} (hG : Good P s) (p : Nat) : Good P (passSrcS P s p) := by
  unfold C04W.passSrcS
  split
  · exact hG
  · simp only []
    split
    · exact (((hG.passHS 0 p).setD (by rfl)).addR _).schedFin0S
    · exact hG.passHS 0 p

theorem Foot.bufLoopS {P : Par} (hL : P.L.WF) (f : Nat) {s : S} (hG : Good P s) {j : Nat} (hj : j < P.L.n) :
    Foot P.L [j, j + 1] s (bufLoopS P f s j) := by
  induction f generalizing s with
  | zero => exact Foot.refl _ _ _
  | succ f ih =>
    unfold C04W.bufLoopS
    split
    · exact Foot.refl _ _ _
    · next t p _ _ =>
      split
      · exact Foot.refl _ _ _
      · simp only []
        have h1 : Foot P.L [j, j + 1] s (C04W.giveS P s (j + 1) p).1 :=
          (Foot.giveS hG hL (by omega : j + 1 ≤ P.L.n) p).mono (by simp)
        split
        · exact ((h1.trans ((Foot.setD P.L _ j _).mono (by simp))).trans
            (Foot.addR _ _ _ (.level j s.now _) trivial)).trans (ih (((hG.giveS _ _).setD (by rfl)).addR _))
        · exact h1

theorem Good.passBufS {P : Par} {s : S} (hG : Good P s) (j : Nat) : Good P (passBufS P s j) := by
  unfold C04W.passBufS
  simp only []
  refine Good.notifyS ?_ j
  split
  · exact hG.bufLoopS _ j
  · split
    · exact (hG.bufLoopS _ j).passS _ _
    · exact (hG.bufLoopS _ j).setD (by rfl)

theorem Foot.passBufS {P : Par} {s : S} (hG : Good P s) (hL : P.L.WF) {j : Nat} (hj : j < P.L.n) :
    Foot P.L [j - 1, j, j + 1] s (passBufS P s j) := by
  have h1 : Foot P.L [j - 1, j, j + 1] s (C04W.bufLoopS P ((C04W.dv s j).buf.length + 1) s j) :=
    (Foot.bufLoopS hL _ hG hj).mono (by simp)
  have hG1 := hG.bufLoopS ((C04W.dv s j).buf.length + 1) j
  unfold C04W.passBufS
  simp only []
  split
  · exact h1.trans ((Foot.notifyS hG1 (Nat.le_of_lt hj)).mono (by simp))
  · split
    · next hd =>
      exact (h1.trans ((Foot.passS hG1 (Nat.le_of_lt hj) _ (by omega)).mono (by simp))).trans
        ((Foot.notifyS (hG1.passS _ _) (Nat.le_of_lt hj)).mono (by simp))
    · exact (h1.trans ((Foot.setD P.L _ j _).mono (by simp))).trans
        ((Foot.notifyS (hG1.setD (by rfl)) (Nat.le_of_lt hj)).mono (by simp))

end C04W
end SimProc
