/-
C03W with re-wiring — the world functions are BLIND to the scripts (except `runScript`).

`es w s` is the world `w` with its scripts replaced by `s`.  For every function `f` of the model
that can run inside an event action (other than running a script), `f (es w s) = es (f w) s`.
Method and tactics as in `Proofs/C14WBase.lean` (blindness to the event queue).
-/
import SimProc.Proofs.C14WBase
import SimProc.Proofs.C03YEsAttr

namespace SimProc
namespace C03W
open World

/-- marker: the replaced scripts -/
def sc (_w : World) (s : List (List Op)) : List (List Op) := s

/-- the world `w` with the scripts `s` -/
def es (w : World) (s : List (List Op)) : World := { w with scripts := sc w s }

/-- a world without its scripts -/
def noScr (w : World) : World := { w with scripts := [] }

/-- what blindness compares -/
def ekey (w : World) : World × List (List Op) := (noScr w, w.scripts)

@[c03es] theorem ekey_es (w : World) (s : List (List Op)) : ekey (es w s) = (noScr w, s) := rfl

theorem eq_es_of_key {W' X : World} {s : List (List Op)} (h : ekey W' = (noScr X, s)) :
    W' = es X s := by
  cases W'
  cases X
  simp only [ekey, noScr, Prod.mk.injEq, World.mk.injEq] at h
  simp only [es, sc, World.mk.injEq]
  obtain ⟨⟨h1, h2, h3, -, h5⟩, h6⟩ := h
  exact ⟨h1, h2, h3, h6, h5⟩

@[c03es] theorem ekey_ite (c : Prop) [Decidable c] (a b : World) :
    ekey (if c then a else b) = if c then ekey a else ekey b := by
  split <;> rfl

@[c03es] theorem noScr_ite (c : Prop) [Decidable c] (a b : World) (s : List (List Op)) :
    (noScr (if c then a else b), s) = if c then (noScr a, s) else (noScr b, s) := by
  split <;> rfl

/-- `G` does not look at the scripts -/
def EBlind (G : World → World) : Prop := ∀ w s, ekey (G (es w s)) = (noScr (G w), s)

theorem EBlind.eq {G : World → World} (h : EBlind G) (w : World) (s : List (List Op)) :
    G (es w s) = es (G w) s := eq_es_of_key (h w s)

/-- pair-valued functions -/
def EBlind2 {α : Type} (G : World → World × α) : Prop :=
  ∀ w s, ekey (G (es w s)).1 = (noScr (G w).1, s) ∧ (G (es w s)).2 = (G w).2

theorem EBlind2.eq {α : Type} {G : World → World × α} (h : EBlind2 G) (w : World)
    (s : List (List Op)) : G (es w s) = (es (G w).1 s, (G w).2) :=
  Prod.ext (eq_es_of_key (h w s).1) (h w s).2

/-! ### reads -/

@[c03es] theorem es_env (w : World) (s : List (List Op)) : (es w s).env = w.env := rfl
@[c03es] theorem es_now (w : World) (s : List (List Op)) : (es w s).now = w.now := rfl
@[c03es] theorem es_seed (w : World) (s : List (List Op)) : (es w s).seed = w.seed := rfl
@[c03es] theorem es_wmod (w : World) (s : List (List Op)) : (es w s).wmod = w.wmod := rfl
@[c03es] theorem es_scripts (w : World) (s : List (List Op)) : (es w s).scripts = sc w s := rfl
@[c03es] theorem es_results (w : World) (s : List (List Op)) : (es w s).results = w.results := rfl
@[c03es] theorem es_error (w : World) (s : List (List Op)) : (es w s).error = w.error := rfl
@[c03es] theorem es_recs (w : World) (s : List (List Op)) : (es w s).recs = w.recs := rfl
@[c03es] theorem es_rm (w : World) (s : List (List Op)) : (es w s).rm = w.rm := rfl
@[c03es] theorem es_vars (w : World) (s : List (List Op)) : (es w s).vars = w.vars := rfl
@[c03es] theorem es_devs (w : World) (s : List (List Op)) : (es w s).devs = w.devs := rfl
@[c03es] theorem es_parts (w : World) (s : List (List Op)) : (es w s).parts = w.parts := rfl
@[c03es] theorem es_groups (w : World) (s : List (List Op)) : (es w s).groups = w.groups := rfl
@[c03es] theorem es_maints (w : World) (s : List (List Op)) : (es w s).maints = w.maints := rfl
@[c03es] theorem es_targets (w : World) (s : List (List Op)) : (es w s).targets = w.targets := rfl
@[c03es] theorem es_scheds (w : World) (s : List (List Op)) : (es w s).scheds = w.scheds := rfl
@[c03es] theorem es_sensors (w : World) (s : List (List Op)) : (es w s).sensors = w.sensors := rfl
@[c03es] theorem es_cmsSensors (w : World) (s : List (List Op)) :
    (es w s).cmsSensors = w.cmsSensors := rfl
@[c03es] theorem es_svars (w : World) (s : List (List Op)) : (es w s).svars = w.svars := rfl
@[c03es] theorem es_assets (w : World) (s : List (List Op)) : (es w s).assets = w.assets := rfl
@[c03es] theorem es_started (w : World) (s : List (List Op)) : (es w s).started = w.started := rfl
@[c03es] theorem es_generated (w : World) (s : List (List Op)) :
    (es w s).generated = w.generated := rfl
@[c03es] theorem es_delivered (w : World) (s : List (List Op)) :
    (es w s).delivered = w.delivered := rfl
@[c03es] theorem es_lost (w : World) (s : List (List Op)) : (es w s).lost = w.lost := rfl

@[c03es] theorem es_dev (w : World) (s : List (List Op)) (x : Nat) : (es w s).dev x = w.dev x := rfl
@[c03es] theorem es_part (w : World) (s : List (List Op)) (p : Nat) : (es w s).part p = w.part p := rfl
@[c03es] theorem es_fuel (w : World) (s : List (List Op)) : (es w s).fuel = w.fuel := rfl
@[c03es] theorem es_operational (w : World) (s : List (List Op)) (x : Nat) :
    (es w s).operational x = w.operational x := rfl
@[c03es] theorem es_cycleTime (w : World) (s : List (List Op)) (x : Nat) :
    (es w s).cycleTime x = w.cycleTime x := rfl
@[c03es] theorem es_isBatch (w : World) (s : List (List Op)) (p : Nat) :
    (es w s).isBatch p = w.isBatch p := rfl
@[c03es] theorem es_leavesOf (w : World) (s : List (List Op)) (p : Nat) :
    (es w s).leavesOf p = w.leavesOf p := rfl
@[c03es] theorem es_leafCount (w : World) (s : List (List Op)) (p : Nat) :
    (es w s).leafCount p = w.leafCount p := rfl
@[c03es] theorem es_partValue (w : World) (s : List (List Op)) (p : Nat) :
    (es w s).partValue p = w.partValue p := rfl
@[c03es] theorem es_gatePred (w : World) (s : List (List Op)) (pr : Pred) (p : Nat) :
    (es w s).gatePred pr p = w.gatePred pr p := rfl
@[c03es] theorem es_canAcceptBasic (w : World) (s : List (List Op)) (x p : Nat) :
    (es w s).canAcceptBasic x p = w.canAcceptBasic x p := rfl
@[c03es] theorem es_targetParams (w : World) (s : List (List Op)) (tgt : Nat) (tag : Int) :
    (es w s).targetParams tgt tag = w.targetParams tgt tag := rfl
@[c03es] theorem es_maint (w : World) (s : List (List Op)) (m : Nat) : (es w s).maint m = w.maint m := rfl
@[c03es] theorem es_getVar (w : World) (s : List (List Op)) (h : Nat) :
    (es w s).getVar h = w.getVar h := rfl

@[c03es] theorem es_waitingSince (n : Nat) (w : World) (s : List (List Op)) (x : Nat) :
    waitingSince n (es w s) x = waitingSince n w x := by
  induction n generalizing x with
  | zero => rfl
  | succ n ih =>
    rw [waitingSince, waitingSince]
    simp only [es_dev, ih]

@[c03es] theorem es_sortedDown (w : World) (s : List (List Op)) (x : Nat) :
    (es w s).sortedDown x = w.sortedDown x := by
  unfold sortedDown
  simp only [es_dev, es_fuel, es_waitingSince]

/-! ### updates -/

/-- Any world whose scripts are replaced scripts is an `es` world. -/
@[c03es] theorem mk_es (w : World) (s : List (List Op)) (env seed wmod results error recs rm vars devs
    parts groups maints targets scheds sensors cmsSensors svars assets started generated delivered
    lost) :
    World.mk env seed wmod (sc w s) results error recs rm vars devs parts groups maints targets scheds
      sensors cmsSensors svars assets started generated delivered lost =
    es (World.mk env seed wmod w.scripts results error recs rm vars devs parts groups maints
      targets scheds sensors cmsSensors svars assets started generated delivered lost) s := rfl

@[c03es] theorem es_setDev (w : World) (s : List (List Op)) (x : Nat) (d : Dev) :
    (es w s).setDev x d = es (w.setDev x d) s := rfl
@[c03es] theorem es_modDev (w : World) (s : List (List Op)) (x : Nat) (f : Dev → Dev) :
    (es w s).modDev x f = es (w.modDev x f) s := rfl
@[c03es] theorem es_modPart (w : World) (s : List (List Op)) (p : Nat) (f : PartRec → PartRec) :
    (es w s).modPart p f = es (w.modPart p f) s := rfl
@[c03es] theorem es_addRec (w : World) (s : List (List Op)) (r : Rec) :
    (es w s).addRec r = es (w.addRec r) s := rfl
@[c03es] theorem es_addRes (w : World) (s : List (List Op)) (r : Res) :
    (es w s).addRes r = es (w.addRes r) s := rfl
@[c03es] theorem es_newPart (w : World) (s : List (List Op)) (r : PartRec) :
    (es w s).newPart r = (es (w.newPart r).1 s, (w.newPart r).2) := rfl
@[c03es] theorem es_modMaint (w : World) (s : List (List Op)) (m : Nat) (f : Maint → Maint) :
    (es w s).modMaint m f = es (w.modMaint m f) s := rfl
@[c03es] theorem es_setVar (w : World) (s : List (List Op)) (h : Nat) (v : Option Nat) :
    (es w s).setVar h v = es (w.setVar h v) s := rfl
@[c03es] theorem es_setErr (w : World) (s : List (List Op)) (m : String) :
    (es w s).setErr m = es (w.setErr m) s := by
  unfold setErr
  simp only [es_error]
  split <;> rfl
@[c03es] theorem es_envOp (w : World) (s : List (List Op)) (op : EnvOp) :
    (es w s).envOp op = es (w.envOp op) s := rfl

/-! ### tactics (as in `C14WBase`) -/

syntax "eb_norm" " [" Lean.Parser.Tactic.simpLemma,* "]" : tactic
macro_rules
  | `(tactic| eb_norm [$args,*]) =>
    `(tactic| simp -implicitDefEqProofs only [c03es, implies_true, $args,*])

syntax "eb_go" (" [" Lean.Parser.Tactic.simpLemma,* "]")? : tactic
macro_rules
  | `(tactic| eb_go) => `(tactic| repeat' (first | eb_norm [] | destruct_pair | split_ite | split_match))
  | `(tactic| eb_go [$args,*]) => `(tactic| repeat' (first | eb_norm [$args,*] | destruct_pair | split_ite | split_match))

syntax "eb_close" (" [" Lean.Parser.Tactic.simpLemma,* "]")? : tactic
macro_rules
  | `(tactic| eb_close) =>
    `(tactic| (eb_go <;> bl_fin))
  | `(tactic| eb_close [$args,*]) =>
    `(tactic| (eb_go [$args,*] <;> bl_fin))

/-! ### the primitives that touch the queue -/

theorem be_sched (τ a : Int) (act : Action) (p : Int) : EBlind2 (fun w => w.sched τ a act p) := by
  intro w s
  simp only [World.sched, Env.apply, Env.schedule, c03es]
  by_cases h : τ < w.env.now
  · simp only [h, if_true]; exact ⟨rfl, trivial⟩
  · simp only [h, if_false]; exact ⟨rfl, trivial⟩

@[c03es] theorem es_sched (w : World) (s : List (List Op)) (τ a : Int) (act : Action) (p : Int) :
    (es w s).sched τ a act p = (es (w.sched τ a act p).1 s, (w.sched τ a act p).2) :=
  (be_sched τ a act p).eq w s

theorem be_schedLib (τ a : Int) (act : Action) (p : Int) : EBlind (fun w => w.schedLib τ a act p) := by
  intro w s
  simp only [schedLib, c03es]
  destruct_pair <;> simp only [c03es] <;> rfl

@[c03es] theorem es_schedLib (w : World) (s : List (List Op)) (τ a : Int) (act : Action) (p : Int) :
    (es w s).schedLib τ a act p = es (w.schedLib τ a act p) s :=
  (be_schedLib τ a act p).eq w s

/-- folds -/
@[c03es] theorem es_foldl {α : Type} (g : World → α → World)
    (hg : ∀ w s a, g (es w s) a = es (g w a) s) (l : List α) (w : World) (s : List (List Op)) :
    l.foldl g (es w s) = es (l.foldl g w) s := by
  induction l generalizing w with
  | nil => rfl
  | cons a l ih => simp only [List.foldl_cons, hg, ih]

theorem be_rmEffects (recs : List ResRec) (chk : Bool) : EBlind (fun w => w.rmEffects recs chk) := by
  intro w s
  eb_close [rmEffects]

@[c03es] theorem es_rmEffects (w : World) (s : List (List Op)) (recs : List ResRec) (chk : Bool) :
    (es w s).rmEffects recs chk = es (w.rmEffects recs chk) s :=
  (be_rmEffects recs chk).eq w s

end C03W
end SimProc
