/-
The batcher's loop on the world and on the slot view.
-/
import SimProc.Proofs.FloorSteps
import SimProc.Proofs.SVBatcher
namespace SimProc
namespace C02V
open World

theorem sv_dev (w : World) (x : Nat) : (sv w).dev x = sdev (w.dev x) := by
  simp only [SV.dev, sv, World.dev, List.getD_eq_getElem?_getD, List.getElem?_map]
  cases w.devs[x]? <;> rfl

theorem sv_modDev_hom (w : World) (x : Nat) (f : Dev → Dev) (F : SDev → SDev)
    (h : ∀ d, sdev (f d) = F (sdev d)) : sv (w.modDev x f) = (sv w).modDev x F := by
  unfold World.modDev SV.modDev
  rw [sv_setDev, sv_dev, h]

theorem sv_modPart_hom (w : World) (p : Nat) (f : PartRec → PartRec) :
    sv (w.modPart p f) = (sv w).setKids p (f (w.part p)).kids := by
  simp [sv, World.modPart, SV.setKids, List.map_set]

theorem sv_kidsOf (w : World) (p : Nat) : (sv w).kidsOf p = (w.part p).kids := kids_get w p

theorem sv_batchGet (w : World) (x p : Nat) :
    sv (batchGet w x p).1 = (getV (sv w) x p).1 ∧ (batchGet w x p).2 = (getV (sv w) x p).2 := by
  unfold batchGet getV
  rw [sv_kidsOf]
  rcases (w.part p).kids with _ | (_ | ⟨k, rest⟩)
  · simp only []
    exact ⟨sv_modDev_hom _ _ _ (fun d => { d with part := none }) (fun _ => rfl), trivial⟩
  · simp only []
    exact ⟨sv_modDev_hom _ _ _ (fun d => { d with part := none }) (fun _ => rfl), trivial⟩
  · simp only []
    refine ⟨?_, trivial⟩
    split
    · rw [sv_modDev_hom _ _ _ (fun d => { d with part := none }) (fun _ => rfl), sv_modPart_hom]
    · rw [sv_modPart_hom]

theorem sv_batchShell (w : World) (x : Nat) :
    sv (batchShell w x).1 = (shellV (sv w) x).1 ∧ (batchShell w x).2 = (shellV (sv w) x).2 := by
  unfold batchShell shellV
  rw [sv_dev]
  have : (sdev (w.dev x)).inprog = (w.dev x).inprog := rfl
  rw [this]
  rcases (w.dev x).inprog with _ | b
  · simp only [World.newPart]
    rw [sv_modDev_hom _ _ _ (fun d => { d with inprog := some w.parts.length }) (fun _ => rfl)]
    simp [sv]
  · exact ⟨rfl, rfl⟩

theorem sv_batchAdd (w : World) (x t : Nat) : sv (batchAdd w x t) = addV (sv w) x t (w.dev x).bsize := by
  unfold batchAdd addV
  split
  · rename_i h; rw [h]
    exact sv_modDev_hom _ _ _ (fun d => { d with output := some t }) (fun _ => rfl)
  · rename_i n h; rw [h]
    simp only []
    have hs := sv_batchShell w x
    rw [← hs.1, ← hs.2]
    have h2 : sv ((batchShell w x).1.modPart (batchShell w x).2
        (fun r => { r with kids := some ((r.kids.getD []) ++ [t]) })) =
        (sv (batchShell w x).1).setKids (batchShell w x).2
          (some (((sv (batchShell w x).1).kidsOf (batchShell w x).2).getD [] ++ [t])) := by
      rw [sv_modPart_hom, sv_kidsOf]
    rw [← h2, sv_kidsOf]
    split
    · exact sv_modDev_hom _ _ _ (fun d => { d with output := some _, inprog := none }) (fun _ => rfl)
    · rfl


theorem lt_of_kids {w : World} {p : Nat} {l : List Nat} (h : (w.part p).kids = some l) : p < w.parts.length := by
  by_cases hp : p < w.parts.length
  · exact hp
  · simp [World.part, List.getD_eq_getElem?_getD, List.getElem?_eq_none (Nat.le_of_not_lt hp)] at h
    cases h

theorem steps_batcherLoop (f : Nat) : ∀ (w : World) (x : Nat), (w.dev x).kind ≠ .sink →
    (∀ p, (w.dev x).part = some p → p < w.parts.length ∧ (w.part p).kids ≠ some []) →
    Steps x (sv w) (sv (batcherLoop f w x)) := by
  induction f with
  | zero => intro w x _ _; exact Steps.refl _
  | succ f ih =>
    intro w x hk hv
    rw [batcherLoop_succ]
    split
    · rename_i p ho hp
      have hx : x < w.devs.length := lt_of_part hp
      have hsv : sv (batchAdd (batchGet w x p).1 x (batchGet w x p).2) =
          addV (getV (sv w) x p).1 x (getV (sv w) x p).2 (((batchGet w x p).1).dev x).bsize := by
        rw [sv_batchAdd, (sv_batchGet w x p).1, (sv_batchGet w x p).2]
      have key := steps_iterV' (sv w) x p (((batchGet w x p).1).dev x).bsize (sdev (w.dev x))
        (sv_get w x hx) hp ho hk (by rw [sv_kidsOf]; exact (hv p hp).2) (by simpa [sv] using (hv p hp).1)
      rw [← hsv] at key
      refine key.1.trans (ih _ x ?_ ?_)
      · have h3 : ((batchAdd (batchGet w x p).1 x (batchGet w x p).2).dev x).kind = (w.dev x).kind := by
          have := key.2.2; rw [sv_dev] at this; exact this
        rw [h3]; exact hk
      · intro p' hp'
        have := key.2.1 p' (by rw [sv_dev]; exact hp')
        obtain ⟨k, l, hkl⟩ := this
        rw [sv_kidsOf] at hkl
        exact ⟨lt_of_kids hkl, by rw [hkl]; simp⟩
    · exact Steps.refl _

end C02V
end SimProc
