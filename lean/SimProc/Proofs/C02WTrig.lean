/-
C02W machinery, part 1: the *trigger view* of a world — which failure / script actions are waiting
in the event queue, which scripts are registered as resource callbacks, which scripts are the hooks
of maintenance targets — and the frame lemmas: no function of `Model/Floor.lean` changes it.
-/
import SimProc.Proofs.StaticWorld
import SimProc.Proofs.C10Lemmas
namespace SimProc
namespace C02W
open World C02V

/-! ### sensitive action codes -/

/-- Action codes whose execution needs a precondition: failures and scripts. -/
def Sens (n : Nat) : Prop := (∃ d, Action.ofNat n = .fail d) ∨ (∃ k, Action.ofNat n = .script k)

theorem ofNat_toNat_script (a : Action) (d : Nat) (h : Action.ofNat a.toNat = .script d) :
    a = .script d := by
  cases a with
  | terminate => simp [Action.toNat, Action.ofNat] at h
  | script k =>
    have h1 : (1 + 16 * k) % 16 = 1 := by omega
    have h2 : (1 + 16 * k) / 16 = k := by omega
    simp [Action.toNat, Action.ofNat, h1, h2] at h
    rw [h]
  | finishCycle k =>
    have : (2 + 16 * k) % 16 = 2 := by omega
    simp [Action.toNat, Action.ofNat, this] at h
  | passPart k =>
    have : (3 + 16 * k) % 16 = 3 := by omega
    simp [Action.toNat, Action.ofNat, this] at h
  | fail k =>
    have h1 : (4 + 16 * k) % 16 = 4 := by omega
    simp [Action.toNat, Action.ofNat, h1] at h
  | releaseIfIdle k =>
    have : (5 + 16 * k) % 16 = 5 := by omega
    simp [Action.toNat, Action.ofNat, this] at h
  | rmCheck => simp [Action.toNat, Action.ofNat] at h
  | startWork m o =>
    have : (7 + 16 * (m + 256 * o)) % 16 = 7 := by omega
    simp [Action.toNat, Action.ofNat, this] at h
  | finishWork m o =>
    have : (8 + 16 * (m + 256 * o)) % 16 = 8 := by omega
    simp [Action.toNat, Action.ofNat, this] at h
  | schedUpdate k =>
    have : (9 + 16 * k) % 16 = 9 := by omega
    simp [Action.toNat, Action.ofNat, this] at h
  | periodicSense k =>
    have : (10 + 16 * k) % 16 = 10 := by omega
    simp [Action.toNat, Action.ofNat, this] at h
  | unknown k =>
    have : (15 + 16 * k) % 16 = 15 := by omega
    simp [Action.toNat, Action.ofNat, this] at h

theorem ofNat_script (k : Nat) : Action.ofNat (Action.script k).toNat = .script k := by
  have h1 : (1 + 16 * k) % 16 = 1 := by omega
  have h2 : (1 + 16 * k) / 16 = k := by omega
  simp [Action.toNat, Action.ofNat, h1, h2]

theorem ofNat_fail (k : Nat) : Action.ofNat (Action.fail k).toNat = .fail k := by
  have h1 : (4 + 16 * k) % 16 = 4 := by omega
  have h2 : (4 + 16 * k) / 16 = k := by omega
  simp [Action.toNat, Action.ofNat, h1, h2]

/-- The library's own actions are not sensitive. -/
theorem not_sens (a : Action) (h1 : ∀ d, a ≠ .fail d) (h2 : ∀ k, a ≠ .script k) : ¬ Sens a.toNat := by
  rintro (⟨d, hd⟩ | ⟨k, hk⟩)
  · exact h1 d (ofNat_toNat_fail a d hd)
  · exact h2 k (ofNat_toNat_script a k hk)

/-! ### the trigger view -/

def cbScript : Cb → Option Nat
  | .script k => some k
  | .proc _ => none

/-- the scripts registered as resource callbacks -/
def rmScripts (rm : RM) : List Nat := rm.waiting.filterMap (fun e => cbScript e.2)

structure TV where
  /-- sensitive action codes among the pending and paused events -/
  pend : Nat → Prop
  rms : List Nat
  hooks : List (Option Nat × Option Nat)

def trig (w : World) : TV :=
  ⟨fun n => n ∈ acts w.env ∧ Sens n, rmScripts w.rm, w.targets.map (fun t => (t.startScript, t.endScript))⟩

theorem trig_ext {w w' : World} (h1 : ∀ n, Sens n → (n ∈ acts w'.env ↔ n ∈ acts w.env))
    (h2 : rmScripts w'.rm = rmScripts w.rm) (h3 : w'.targets = w.targets) : trig w' = trig w := by
  unfold trig
  rw [h2, h3]
  congr 1
  funext n
  apply propext
  constructor
  · rintro ⟨a, b⟩; exact ⟨(h1 n b).1 a, b⟩
  · rintro ⟨a, b⟩; exact ⟨(h1 n b).2 a, b⟩

/-! ### primitives -/

theorem acts_sched (w : World) (t a : Int) (act : Action) (p : Int) (n : Nat) :
    n ∈ acts (w.sched t a act p).1.env → n = act.toNat ∨ n ∈ acts w.env := by
  unfold World.sched
  simp only []
  split
  · rename_i e he
    simp only [Env.apply] at he
    split at he
    · cases he
    · rename_i s' hs
      cases he
      intro h
      exact (acts_schedule hs n).1 h
  · exact Or.inr

theorem acts_sched_old (w : World) (t a : Int) (act : Action) (p : Int) (n : Nat) :
    n ∈ acts w.env → n ∈ acts (w.sched t a act p).1.env := by
  unfold World.sched
  simp only []
  split
  · rename_i e he
    simp only [Env.apply] at he
    split at he
    · cases he
    · rename_i s' hs
      cases he
      intro h
      exact (acts_schedule hs n).2 (Or.inr h)
  · exact id

theorem rm_sched (w : World) (t a : Int) (act : Action) (p : Int) : (w.sched t a act p).1.rm = w.rm := by
  unfold World.sched; simp only []; split <;> rfl
theorem targets_sched (w : World) (t a : Int) (act : Action) (p : Int) :
    (w.sched t a act p).1.targets = w.targets := by
  unfold World.sched; simp only []; split <;> rfl

section
variable (w : World)

theorem tg_sched (t a : Int) (act : Action) (p : Int) (h : ¬ Sens act.toNat) :
    trig (w.sched t a act p).1 = trig w := by
  apply trig_ext
  · intro n hn
    constructor
    · intro h'
      rcases acts_sched w t a act p n h' with rfl | h''
      · exact absurd hn h
      · exact h''
    · exact acts_sched_old w t a act p n
  · rw [rm_sched]
  · rw [targets_sched]

theorem tg_setErr (m : String) : trig (w.setErr m) = trig w := by
  unfold World.setErr; split <;> rfl

theorem tg_schedLib (t a : Int) (act : Action) (p : Int) (h : ¬ Sens act.toNat) :
    trig (w.schedLib t a act p) = trig w := by
  have := tg_sched w t a act p h
  unfold World.schedLib
  split
  · simp_all
  · rw [tg_setErr]; simp_all

theorem tg_pause (a : Int) : trig (w.envOp (.pause a)) = trig w := by
  apply trig_ext
  · intro n _; unfold World.envOp; simp only [Env.apply, acts_pause]
  · rfl
  · rfl
theorem tg_unpause (a : Int) : trig (w.envOp (.unpause a)) = trig w := by
  apply trig_ext
  · intro n _; unfold World.envOp; simp only [Env.apply, acts_unpause]
  · rfl
  · rfl
theorem tg_cancel (a : Int) : trig (w.envOp (.cancel a)) = trig w := by
  apply trig_ext
  · intro n _; unfold World.envOp; simp only [Env.apply, acts_cancel]
  · rfl
  · rfl

theorem tg_addRec (r : Rec) : trig (w.addRec r) = trig w := rfl
theorem tg_addRes (r : Res) : trig (w.addRes r) = trig w := rfl
theorem tg_setDev (x : Nat) (d : Dev) : trig (w.setDev x d) = trig w := rfl
theorem tg_modDev (x : Nat) (f : Dev → Dev) : trig (w.modDev x f) = trig w := rfl
theorem tg_modPart (p : Nat) (f : PartRec → PartRec) : trig (w.modPart p f) = trig w := rfl

/-- replacing the resource manager by one with the same script callbacks -/
theorem tg_withRm (rm : RM) (h : rmScripts rm = rmScripts w.rm) : trig { w with rm := rm } = trig w := by
  unfold trig; simp only [h]

end

/-! ### the resource manager's operations keep the waiting list (except `register`) -/

theorem rms_reserve (rm : RM) (req : Req) : rmScripts (rm.reserve req).1 = rmScripts rm := by
  unfold rmScripts; rw [(C10.reserve_spec rm req).1]

theorem rms_release (rm : RM) (id : Nat) (part : Option Req) :
    rmScripts (rm.release id part).1 = rmScripts rm := by
  unfold rmScripts
  rcases C10.release_cases rm id part with ⟨h, _⟩ | ⟨_, _, hw, _⟩
  · rw [h]
  · rw [hw]

theorem rms_add (rm : RM) (r : Nat) (amt : Int) : rmScripts (rm.add r amt).1 = rmScripts rm := by
  unfold rmScripts
  rcases C10.add_cases rm r amt with ⟨h, _⟩ | ⟨_, _, _, v, hv⟩
  · rw [h]
  · rw [hv]; simp

theorem rms_merge (rm : RM) (a b : Nat) : rmScripts (rm.merge a b).1 = rmScripts rm := by
  unfold rmScripts; rw [(C10.merge_spec rm a b).1]

theorem rms_init (rm : RM) : rmScripts rm.init.1 = rmScripts rm := rfl

theorem rms_register_proc (rm : RM) (req : Req) (x : Nat) :
    rmScripts (rm.register req (.proc x)).1 = rmScripts rm := by
  simp [rmScripts, RM.register, cbScript]

theorem rms_register_script (rm : RM) (req : Req) (k : Nat) :
    rmScripts (rm.register req (.script k)).1 = rmScripts rm ++ [k] := by
  simp [rmScripts, RM.register, cbScript]

/-! ### the `frame` tactic, extended to the trigger view -/

macro_rules | `(tactic| fr_step) => `(tactic| first
  | rw [tg_setErr] | rw [tg_addRec] | rw [tg_addRes] | rw [tg_setDev] | rw [tg_modDev] | rw [tg_modPart]
  | rw [tg_pause] | rw [tg_unpause] | rw [tg_cancel]
  | rw [tg_schedLib]
  | (apply not_sens <;> (intro _ h; cases h))
  | rw [foldl_proj trig])

/-- declare a frame lemma as a rewrite step of `frame` -/
macro "tg_lemma" a:ident : command =>
  `(macro_rules | `(tactic| fr_step) => `(tactic| rw [$a:ident]))

section
variable (w : World)

theorem tg_rmEffects (recs : List ResRec) (c : Bool) : trig (w.rmEffects recs c) = trig w := by
  unfold World.rmEffects; frame
tg_lemma tg_rmEffects

theorem tg_setWaiting (x : Nat) (a b : Bool) : trig (w.setWaiting x a b) = trig w := by
  unfold World.setWaiting; frame
tg_lemma tg_setWaiting

theorem tg_schedulePass (x : Nat) (o : Int) : trig (w.schedulePass x o) = trig w := by
  unfold World.schedulePass; frame
tg_lemma tg_schedulePass

theorem tg_notify (x : Nat) : trig (w.notify x) = trig w :=
  (notify_proj _ tg_setWaiting tg_schedulePass tg_setErr _ w x).1
theorem tg_spaceAvailable (x : Nat) : trig (w.spaceAvailable x) = trig w :=
  (notify_proj _ tg_setWaiting tg_schedulePass tg_setErr _ w x).2
tg_lemma tg_notify
tg_lemma tg_spaceAvailable

theorem tg_releaseReserved (x : Nat) : trig (w.releaseReserved x) = trig w := by
  unfold World.releaseReserved
  split
  · rfl
  · rename_i id _
    simp only []
    rw [tg_modDev, tg_rmEffects]
    exact tg_withRm w _ (rms_release ..)
tg_lemma tg_releaseReserved

theorem tg_procAcquire (x : Nat) : trig (w.procAcquire x).1 = trig w := by
  unfold World.procAcquire
  simp only []
  split
  · rfl
  · split
    · rfl
    · rename_i req _ _
      split
      · rename_i rm r id recs heq
        simp only []
        rw [tg_modDev, tg_rmEffects]
        refine tg_withRm w _ ?_
        have := rms_reserve w.rm req
        rw [heq] at this
        exact this
      · rw [tg_setErr]
      · split
        · rfl
        · simp only []
          rw [tg_modDev, tg_rmEffects]
          exact tg_withRm w _ (rms_register_proc ..)
tg_lemma tg_procAcquire

theorem tg_applyPartCb (x p : Nat) (c : PartCb) : trig (w.applyPartCb x p c) = trig w := by
  unfold World.applyPartCb; frame
tg_lemma tg_applyPartCb
theorem tg_senseOutput (s p : Nat) : trig (w.senseOutput s p) = trig w := by
  unfold World.senseOutput; frame
tg_lemma tg_senseOutput
theorem tg_addHist (p d : Nat) : trig (w.addHist p d) = trig w := by
  unfold World.addHist; frame
tg_lemma tg_addHist
theorem tg_dropHist (p : Nat) : trig (w.dropHist p) = trig w := by
  unfold World.dropHist; frame
tg_lemma tg_dropHist
theorem tg_shutdownDev (x : Nat) (f : Bool) (l : Option Nat) : trig (w.shutdownDev x f l) = trig w := by
  unfold World.shutdownDev; frame
tg_lemma tg_shutdownDev
theorem tg_restoreDev (x : Nat) : trig (w.restoreDev x) = trig w := by
  unfold World.restoreDev; frame
tg_lemma tg_restoreDev
theorem tg_releaseIfIdle (x : Nat) : trig (w.releaseIfIdle x) = trig w := by
  unfold World.releaseIfIdle; frame
tg_lemma tg_releaseIfIdle
theorem tg_procResourceCb (x : Nat) : trig (w.procResourceCb x) = trig w := by
  unfold World.procResourceCb; frame
tg_lemma tg_procResourceCb
theorem tg_setBlock (x : Nat) (b : Bool) : trig (w.setBlock x b) = trig w := by
  unfold World.setBlock; frame
tg_lemma tg_setBlock
theorem tg_adjustParts (x : Nat) (v : Int) : trig (w.adjustParts x v) = trig w := by
  unfold World.adjustParts; frame
tg_lemma tg_adjustParts

theorem tg_finishCycleHandler (x : Nat) : trig (w.finishCycleHandler x) = trig w := by
  unfold World.finishCycleHandler; frame
tg_lemma tg_finishCycleHandler
theorem tg_genPart (x : Nat) : trig (w.genPart x).1 = trig w := by
  cases h : ((w.dev x).genBatch == 0)
  · rw [genPart_batch w x h]; rfl
  · rw [genPart_leaf w x h]; rfl
tg_lemma tg_genPart
theorem tg_finishCycle (x : Nat) : trig (w.finishCycle x) = trig w := by
  unfold World.finishCycle; frame
tg_lemma tg_finishCycle
theorem tg_scheduleFinish (x : Nat) : trig (w.scheduleFinish x) = trig w := by
  unfold World.scheduleFinish; frame
tg_lemma tg_scheduleFinish
theorem tg_newPart (r : PartRec) : trig (w.newPart r).1 = trig w := rfl
tg_lemma tg_newPart
theorem tg_batchGet (x p : Nat) : trig (batchGet w x p).1 = trig w := by
  unfold batchGet; frame
tg_lemma tg_batchGet
theorem tg_batchShell (x : Nat) : trig (batchShell w x).1 = trig w := by
  unfold batchShell; frame
tg_lemma tg_batchShell
theorem tg_batchAdd (x t : Nat) : trig (batchAdd w x t) = trig w := by
  unfold batchAdd; frame
tg_lemma tg_batchAdd

end

theorem tg_batcherLoop (f : Nat) : ∀ (w : World) (x : Nat), trig (batcherLoop f w x) = trig w := by
  induction f with
  | zero => intro w x; rfl
  | succ f ih =>
    intro w x; rw [batcherLoop_succ]
    split
    · rw [ih]; frame
    · rfl
tg_lemma tg_batcherLoop

section
variable (w : World)

theorem tg_tryMove (x : Nat) : trig (w.tryMove x) = trig w := by
  unfold World.tryMove; frame
tg_lemma tg_tryMove
theorem tg_onReceived (x p : Nat) : trig (w.onReceived x p) = trig w := by
  unfold World.onReceived; frame
tg_lemma tg_onReceived
theorem tg_acceptPart (x p : Nat) : trig (w.acceptPart x p) = trig w := by
  unfold World.acceptPart; frame
tg_lemma tg_acceptPart

theorem tg_give (f : Nat) (x p : Nat) : trig (give f w x p).1 = trig w :=
  give_proj _ tg_acceptPart tg_procAcquire tg_setErr tg_addHist tg_dropHist
    (fun _ _ _ => rfl) f w x p
theorem tg_tryGive (l : List Nat) (p : Nat) : trig (tryList givePart w l p).1 = trig w :=
  tryList_proj _ _ (fun w y p => tg_give w _ y p) l w p
theorem tg_passHandler (x : Nat) : trig (w.passHandler x) = trig w :=
  passHandler_proj _ tg_tryGive (fun _ _ => rfl) (fun _ _ => rfl) tg_notify w x
theorem tg_bufferLoop (f : Nat) (x : Nat) : trig (bufferLoop f w x) = trig w :=
  bufferLoop_proj _ tg_tryGive (fun _ _ _ => rfl) (fun _ _ => rfl) f w x
tg_lemma tg_passHandler
tg_lemma tg_bufferLoop

theorem tg_passPart (x : Nat) : trig (w.passPart x) = trig w := by
  unfold World.passPart; frame
theorem tg_failDev (x : Nat) : trig (w.failDev x) = trig w := by
  unfold World.failDev; frame
theorem tg_initDev (x : Nat) : trig (w.initDev x) = trig w := by
  unfold World.initDev; frame
tg_lemma tg_initDev

theorem tg_rewire (x : Nat) (ups : List Nat) : trig (w.rewire x ups) = trig w := by
  unfold World.rewire; frame'
tg_lemma tg_rewire

/-! ### `Model/World.lean` -/

theorem tg_startOrders (m : Nat) (l : List Order) : trig (w.startOrders m l) = trig w := by
  unfold World.startOrders; frame
tg_lemma tg_startOrders
theorem tg_schedUpdate (s : Nat) (b : Bool) : trig (w.schedUpdate s b) = trig w := by
  unfold World.schedUpdate; frame
tg_lemma tg_schedUpdate
theorem tg_periodicSense (s : Nat) : trig (w.periodicSense s) = trig w := by
  unfold World.periodicSense; frame
theorem tg_modMaint (m : Nat) (f : Maint → Maint) : trig (w.modMaint m f) = trig w := rfl
tg_lemma tg_modMaint
theorem tg_setVar (h : Nat) (v : Option Nat) : trig (w.setVar h v) = trig w := rfl
tg_lemma tg_setVar
theorem tg_initAsset (a : AssetRef) : trig (w.initAsset a) = trig w := by
  unfold World.initAsset; frame

end
end C02W
end SimProc
