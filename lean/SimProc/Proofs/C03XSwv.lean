/-
C03W — frame lemmas for the projection `swv` (static part of every device, which device a
maintenance target shuts down), generated like those of `Proofs/C11WStatic.lean`: no function of
the floor changes it.
-/
import SimProc.Proofs.C03WDefs
import SimProc.Proofs.C11WStatic

namespace SimProc
namespace C02V
open World C11W

/-- the static part of the devices and of the maintenance targets -/
def swv (w : World) : List Dev × List (Option Nat) × List Group :=
  (w.devs.map C03W.stat1, w.targets.map (·.dev), w.groups)

section prim
variable (w : World)

theorem swv_setErr (m : String) : swv (w.setErr m) = swv w := by
  unfold World.setErr; split <;> rfl
theorem swv_addRec (r : Rec) : swv (w.addRec r) = swv w := rfl
theorem swv_addRes (r : Res) : swv (w.addRes r) = swv w := rfl
theorem swv_sched (t a : Int) (act : Action) (p : Int) : swv (w.sched t a act p).1 = swv w := by
  unfold World.sched; simp only []; split <;> rfl
theorem swv_schedLib (t a : Int) (act : Action) (p : Int) : swv (w.schedLib t a act p) = swv w := by
  have := swv_sched w t a act p
  unfold World.schedLib; split <;> simp_all [swv_setErr]
theorem swv_envOp (op : EnvOp) : swv (w.envOp op) = swv w := rfl
theorem swv_rmEffects (recs : List ResRec) (c : Bool) : swv (w.rmEffects recs c) = swv w := by
  unfold World.rmEffects
  have h : swv (recs.foldl (fun w r => w.addRec (.resUpdate r.res w.now r.inUse r.cap)) w) = swv w :=
    foldl_proj swv _ _ _ (fun _ _ => rfl)
  simp only []; split <;> simp [h, swv_schedLib]
theorem swv_setDev_same (x : Nat) (d : Dev) (h : C03W.stat1 d = C03W.stat1 (w.dev x)) : swv (w.setDev x d) = swv w := by
  simp only [swv, World.setDev]
  rw [map_set_getD_self C03W.stat1 w.devs x default d h]
theorem swv_modDev_same (x : Nat) (f : Dev → Dev) (h : ∀ d, C03W.stat1 (f d) = C03W.stat1 d) :
    swv (w.modDev x f) = swv w := swv_setDev_same w x _ (h _)
theorem swv_modPart (p : Nat) (f : PartRec → PartRec) : swv (w.modPart p f) = swv w := rfl
theorem swv_newPart (r : PartRec) : swv (w.newPart r).1 = swv w := rfl

end prim

macro_rules | `(tactic| fr_step) => `(tactic| first
  | rw [swv_setErr] | rw [swv_addRec] | rw [swv_addRes] | rw [swv_schedLib] | rw [swv_sched]
  | rw [swv_envOp] | rw [swv_rmEffects] | rw [swv_setDev_same] | rw [swv_modDev_same] | rw [swv_modPart]
  | rw [swv_newPart] | rw [foldl_proj swv])

section
variable (w : World)

theorem swv_setWaiting (x : Nat) (a b : Bool) : swv (w.setWaiting x a b) = swv w := by
  unfold World.setWaiting; frame
frame_lemma1 swv_setWaiting
theorem swv_schedulePass (x : Nat) (o : Int) : swv (w.schedulePass x o) = swv w := by
  unfold World.schedulePass; frame
frame_lemma1 swv_schedulePass
theorem swv_notify (x : Nat) : swv (w.notify x) = swv w :=
  (notify_proj _ swv_setWaiting swv_schedulePass swv_setErr _ w x).1
theorem swv_spaceAvailable (x : Nat) : swv (w.spaceAvailable x) = swv w :=
  (notify_proj _ swv_setWaiting swv_schedulePass swv_setErr _ w x).2
frame_lemma1 swv_notify
frame_lemma1 swv_spaceAvailable
theorem swv_releaseReserved (x : Nat) : swv (w.releaseReserved x) = swv w := by
  unfold World.releaseReserved; frame
frame_lemma1 swv_releaseReserved
theorem swv_procAcquire (x : Nat) : swv (w.procAcquire x).1 = swv w := by
  unfold World.procAcquire; frame
frame_lemma1 swv_procAcquire
theorem swv_applyPartCb (x p : Nat) (c : PartCb) : swv (w.applyPartCb x p c) = swv w := by
  unfold World.applyPartCb; frame
frame_lemma1 swv_applyPartCb
theorem swv_senseOutput (s p : Nat) : swv (w.senseOutput s p) = swv w := by
  unfold World.senseOutput; frame
frame_lemma1 swv_senseOutput
theorem swv_addHist (p d : Nat) : swv (w.addHist p d) = swv w := by
  unfold World.addHist; frame
frame_lemma1 swv_addHist
theorem swv_dropHist (p : Nat) : swv (w.dropHist p) = swv w := by
  unfold World.dropHist; frame
frame_lemma1 swv_dropHist
theorem swv_shutdownDev (x : Nat) (f : Bool) (l : Option Nat) : swv (w.shutdownDev x f l) = swv w := by
  unfold World.shutdownDev; frame
frame_lemma1 swv_shutdownDev
theorem swv_restoreDev (x : Nat) : swv (w.restoreDev x) = swv w := by
  unfold World.restoreDev; frame
frame_lemma1 swv_restoreDev
theorem swv_releaseIfIdle (x : Nat) : swv (w.releaseIfIdle x) = swv w := by
  unfold World.releaseIfIdle; frame
frame_lemma1 swv_releaseIfIdle
theorem swv_procResourceCb (x : Nat) : swv (w.procResourceCb x) = swv w := by
  unfold World.procResourceCb; frame
frame_lemma1 swv_procResourceCb
theorem swv_setBlock (x : Nat) (b : Bool) : swv (w.setBlock x b) = swv w := by
  unfold World.setBlock; frame
frame_lemma1 swv_setBlock
theorem swv_adjustParts (x : Nat) (v : Int) : swv (w.adjustParts x v) = swv w := by
  unfold World.adjustParts; frame
frame_lemma1 swv_adjustParts
theorem swv_finishCycleHandler (x : Nat) : swv (w.finishCycleHandler x) = swv w := by
  unfold World.finishCycleHandler; frame
frame_lemma1 swv_finishCycleHandler
theorem swv_genPart (x : Nat) : swv (w.genPart x).1 = swv w := by
  cases h : ((w.dev x).genBatch == 0)
  · rw [genPart_batch w x h]; rfl
  · rw [genPart_leaf w x h]; rfl
frame_lemma1 swv_genPart
theorem swv_finishCycle (x : Nat) : swv (w.finishCycle x) = swv w := by
  unfold World.finishCycle; frame
frame_lemma1 swv_finishCycle
theorem swv_scheduleFinish (x : Nat) : swv (w.scheduleFinish x) = swv w := by
  unfold World.scheduleFinish; frame
frame_lemma1 swv_scheduleFinish
theorem swv_batchGet (x p : Nat) : swv (batchGet w x p).1 = swv w := by
  unfold batchGet; frame
frame_lemma1 swv_batchGet
theorem swv_batchShell (x : Nat) : swv (batchShell w x).1 = swv w := by
  unfold batchShell; frame
frame_lemma1 swv_batchShell
theorem swv_batchAdd (x t : Nat) : swv (batchAdd w x t) = swv w := by
  unfold batchAdd; frame
frame_lemma1 swv_batchAdd

end

theorem swv_batcherLoop (f : Nat) : ∀ (w : World) (x : Nat), swv (batcherLoop f w x) = swv w := by
  induction f with
  | zero => intro w x; rfl
  | succ f ih =>
    intro w x; rw [batcherLoop_succ]
    split
    · rw [ih]; frame
    · rfl
frame_lemma1 swv_batcherLoop

section
variable (w : World)

theorem swv_tryMove (x : Nat) : swv (w.tryMove x) = swv w := by
  unfold World.tryMove; frame
frame_lemma1 swv_tryMove
theorem swv_onReceived (x p : Nat) : swv (w.onReceived x p) = swv w := by
  unfold World.onReceived; frame
frame_lemma1 swv_onReceived
theorem swv_acceptPart (x p : Nat) : swv (w.acceptPart x p) = swv w := by
  unfold World.acceptPart; frame
frame_lemma1 swv_acceptPart

theorem swv_give (f : Nat) (x p : Nat) : swv (give f w x p).1 = swv w :=
  give_proj _ swv_acceptPart swv_procAcquire swv_setErr swv_addHist swv_dropHist (fun _ _ _ => rfl) f w x p
theorem swv_tryGive (l : List Nat) (p : Nat) : swv (tryList givePart w l p).1 = swv w :=
  tryList_proj _ _ (fun w y p => swv_give w _ y p) l w p
theorem swv_passHandler (x : Nat) : swv (w.passHandler x) = swv w :=
  passHandler_proj _ swv_tryGive (fun w x => swv_modDev_same w x _ (fun _ => rfl))
    (fun w x => swv_modDev_same w x _ (fun _ => rfl)) swv_notify w x
theorem swv_bufferLoop (f : Nat) (x : Nat) : swv (bufferLoop f w x) = swv w :=
  bufferLoop_proj _ swv_tryGive (fun w x _ => swv_modDev_same w x _ (fun _ => rfl)) (fun _ _ => rfl) f w x
frame_lemma1 swv_passHandler
frame_lemma1 swv_bufferLoop

theorem swv_passPart (x : Nat) : swv (w.passPart x) = swv w := by
  unfold World.passPart; frame
theorem swv_failDev (x : Nat) : swv (w.failDev x) = swv w := by
  unfold World.failDev; frame
theorem swv_initDev (x : Nat) : swv (w.initDev x) = swv w := by
  unfold World.initDev; frame
frame_lemma1 swv_initDev

theorem swv_startOrders (m : Nat) (l : List Order) : swv (w.startOrders m l) = swv w := by
  unfold World.startOrders; frame
frame_lemma1 swv_startOrders
theorem swv_schedUpdate (s : Nat) (b : Bool) : swv (w.schedUpdate s b) = swv w := by
  unfold World.schedUpdate; frame
frame_lemma1 swv_schedUpdate
theorem swv_periodicSense (s : Nat) : swv (w.periodicSense s) = swv w := by
  unfold World.periodicSense; frame
theorem swv_modMaint (m : Nat) (f : Maint → Maint) : swv (w.modMaint m f) = swv w := rfl
frame_lemma1 swv_modMaint
theorem swv_setVar (h : Nat) (v : Option Nat) : swv (w.setVar h v) = swv w := rfl
frame_lemma1 swv_setVar
theorem swv_initAsset (a : AssetRef) : swv (w.initAsset a) = swv w := by
  unfold World.initAsset; frame

end

/-- Operations other than `rewire` and `create` keep the static data. -/
theorem swv_applyOp (w : World) (op : Op) (h1 : ∀ d ups, op ≠ .rewire d ups) (h2 : ∀ s, op ≠ .create s) :
    swv (w.applyOp op).1 = swv w := by
  cases op
  case rewire d ups => exact absurd rfl (h1 d ups)
  case create s => exact absurd rfl (h2 s)
  case setParams tgt tag dur need cost =>
    unfold World.applyOp
    simp only [swv]
    congr 2
    exact map_set_getD_self (fun t : Target => t.dev) w.targets tgt default _ rfl
  all_goals (unfold World.applyOp; frame')


end C02V
end SimProc

namespace SimProc
namespace C03W
open World C02V

theorem noBatch_of_swv {w w' : World} (h : swv w' = swv w) : NoBatch w' ↔ NoBatch w := by
  have h1 : w'.devs.map stat1 = w.devs.map stat1 := congrArg Prod.fst h
  have key : ∀ v : World, NoBatch v ↔ ∀ d ∈ v.devs.map stat1, d.kind ≠ .batcher ∧ d.genBatch = 0 ∧
      d.kind ≠ .gpath ∧ d.kind ≠ .ginput ∧ d.kind ≠ .goutput := by
    intro v
    unfold NoBatch
    simp only [List.mem_map]
    constructor
    · rintro hv d ⟨d0, hd0, rfl⟩; exact hv d0 hd0
    · intro hv d hd; exact hv (stat1 d) ⟨d, hd, rfl⟩
  rw [key, key, h1]

end C03W
end SimProc
