/-
Machinery for `Props/C11W.lean`, part 6: hand-overs, scripts, the events and the event loop
preserve the closed-world invariant.
-/
import SimProc.Proofs.C11WDev
import SimProc.Proofs.FloorSteps

namespace SimProc
namespace C11W
open World FloorCoreL

theorem inv_of_eq {g : World × Bool} {W : World} {b : Bool} (heq : g = (W, b)) (h : Inv g.1) :
    Inv W := by
  subst heq; exact h

/-! ### hand-overs -/

theorem inv_tryList (g : World → Nat → Nat → World × Bool)
    (hg : ∀ w y p, Inv w → Inv (g w y p).1) (l : List Nat) :
    ∀ (w : World) (p : Nat), Inv w → Inv (tryList g w l p).1 := by
  induction l with
  | nil => intro w p h; exact h
  | cons y ys ih =>
    intro w p h
    unfold tryList
    split
    · rename_i w' heq
      exact inv_of_eq heq (hg w y p h)
    · rename_i w' heq
      exact ih w' p (inv_of_eq heq (hg w y p h))

theorem inv_give (f : Nat) : ∀ (w : World) (x p : Nat), Inv w → Inv (give f w x p).1 := by
  induction f with
  | zero => intro w x p h; exact h.mono (monoS_setErr _ _).toMono
  | succ f ih =>
    intro w x p h
    by_cases hk : (w.dev x).kind = .processor
    · exact inv_give_proc f w x p h hk
    have hl : ∀ (w : World) (l : List Nat), Inv w → Inv (tryList (give f) w l p).1 :=
      fun w l hw => inv_tryList _ (fun w y p => ih w y p) l w p hw
    unfold give
    simp only []
    split
    iterate 5
      split
      · dsimp only; exact h.mono (mono_acceptPart w x p hk)
      · exact h
    · -- processor
      next hkp => exact absurd hkp hk
    · -- gate
      split
      · exact h
      · split
        · exact h
        · have h1 : Inv (w.addHist p x) := h.mono (monoS_addHist w p x).toMono
          split
          · rename_i w' heq
            exact inv_of_eq heq (hl _ _ h1)
          · rename_i w' heq
            exact (inv_of_eq heq (hl _ _ h1)).mono (monoS_dropHist _ _).toMono
    · -- ginput
      split
      · exact h
      · exact hl _ _ h
    · -- gpath
      split
      · exact h
      · have h1 : Inv ((w.modPart p (fun r => { r with stack := r.stack ++ [x] })).addHist p x) :=
          h.mono ((monoS_modPart w p _).trans (monoS_addHist _ p x)).toMono
        split
        · rename_i w' heq
          exact inv_of_eq heq (ih _ _ _ h1)
        · rename_i w' heq
          exact (inv_of_eq heq (ih _ _ _ h1)).mono
            ((monoS_modPart w' p _).trans (monoS_dropHist _ _)).toMono
    · -- goutput
      split
      · exact h.mono (monoS_setErr _ _).toMono
      · have h1 : Inv (w.modPart p (fun r => { r with stack := r.stack.dropLast })) :=
          h.mono (monoS_modPart w p _).toMono
        split
        · rename_i w' heq
          exact inv_of_eq heq (hl _ _ h1)
        · rename_i w' heq
          refine Inv.mono (inv_of_eq heq (hl _ _ h1)) (MonoS.toMono ?_)
          dsimp only
          exact monoS_modPart _ _ _

theorem inv_givePart (w : World) (x p : Nat) (h : Inv w) : Inv (givePart w x p).1 :=
  inv_give _ w x p h

theorem inv_tryGive (w : World) (l : List Nat) (p : Nat) (h : Inv w) :
    Inv (tryList givePart w l p).1 :=
  inv_tryList _ inv_givePart l w p h

theorem inv_passHandler (w : World) (x : Nat) (h : Inv w) : Inv (w.passHandler x) := by
  unfold passHandler
  dsimp only
  repeat' split
  all_goals first
    | exact h
    | (rename_i w' heq
       exact (inv_of_eq heq (inv_tryGive _ _ _ h)).mono (MonoS.toMono (by repeat monoS_peel)))

theorem inv_bufferLoop (f : Nat) : ∀ (w : World) (x : Nat), Inv w → Inv (bufferLoop f w x) := by
  induction f with
  | zero => intro w x h; exact h
  | succ f ih =>
    intro w x h
    unfold bufferLoop
    dsimp only
    repeat' split
    all_goals first
      | exact h
      | (rename_i w' heq
         exact inv_of_eq heq (inv_tryGive _ _ _ h))
      | (rename_i w' heq
         exact ih _ x ((inv_of_eq heq (inv_tryGive _ _ _ h)).mono
           (MonoS.toMono (by repeat monoS_peel))))

theorem kind_passHandler (w : World) (x y : Nat) : ((w.passHandler x).dev y).kind = (w.dev y).kind :=
  C02V.kind_of_st (C02V.st_passHandler w x) y

theorem kind_modDev (w : World) (x : Nat) (f : Dev → Dev) (hf : ∀ d, (f d).kind = d.kind) (y : Nat) :
    ((w.modDev x f).dev y).kind = (w.dev y).kind :=
  modDev_dev_field (fun d => d.kind) w x f (hf _) y

theorem inv_passPart (w : World) (x : Nat) (h : Inv w) : Inv (w.passPart x) := by
  unfold passPart
  dsimp only
  split
  · -- source
    next hk =>
    repeat' split
    all_goals first
      | exact h
      | exact inv_passHandler w x h
      | skip
    all_goals
      refine Inv.mono (w := _) ?_ (mono_scheduleFinish _ x ?_)
      · exact (inv_passHandler w x h).mono (MonoS.toMono (by repeat monoS_peel))
      · intro hkp
        exfalso
        simp only [dev_addRec] at hkp
        rw [dev_modDev] at hkp
        have hk1 := kind_passHandler w x x
        split at hkp <;> (try simp only [] at hkp) <;> (rw [hk1, hk] at hkp; cases hkp)
  · -- buffer
    have h1 := inv_bufferLoop ((w.dev x).buf.length + 1) w x h
    generalize bufferLoop ((w.dev x).buf.length + 1) w x = w1 at h1
    refine Inv.mono ?_ (monoS_notify _ x).toMono
    repeat' split
    all_goals first
      | exact h1
      | exact h1.mono (MonoS.toMono (by repeat monoS_peel))
  · -- batcher
    split
    · exact (inv_passHandler w x h).mono (mono_tryMove _ x)
    · exact inv_passHandler w x h
  · exact h
  · exact inv_passHandler w x h

end C11W
end SimProc
