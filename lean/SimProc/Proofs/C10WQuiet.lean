/-
C10W — machinery for the fuel theorems.

* The relation `W w w'` ("the waiting list and the scripts are unchanged") for every function that
  a scripted operation other than `register` can reach; hence a callback script without `register`
  (`quietScript`) and the resource callback of a processor leave the waiting list alone (`W_call`).
* `scanDone_of_quiet`: if every waiting callback is quiet (`CbQuiet`), the scan started at index `i`
  reaches the end of the list within `length − i + 1` iterations.
* The static class `RegQuiet` ("callbacks do not register") and the invariant `QInv` it yields in
  every state (`QInv.step`, `QInv.scan`, `QInv.applyOp`, …), from the `RegBy` clause of `U.wapp`.
-/
import SimProc.Proofs.C10WUWorld

namespace SimProc
namespace C10W
open World FloorCoreL
open Lean Elab Tactic Meta

/-- What `W` observes of a world. -/
def KW (w : World) : List (Req × Cb) × List (List Op) := (w.rm.waiting, w.scripts)

/-- The waiting list and the scripts are unchanged. -/
def W (w w' : World) : Prop := KW w' = KW w

theorem W.refl (w : World) : W w w := rfl
theorem W.trans {a b c : World} (h1 : W a b) (h2 : W b c) : W a c := Eq.trans h2 h1
theorem W.of_KW {w w' : World} (h : KW w' = KW w) : W w w' := h
theorem W.trans_KW {a b c : World} (h1 : W a b) (h : KW c = KW b) : W a c := h1.trans h
theorem W.of_KW_trans {a b c : World} (h : KW b = KW a) (h2 : W b c) : W a c := W.trans h h2

theorem W.foldl {α} (g : World → α → World) (l : List α) (w : World)
    (h : ∀ w a, W w (g w a)) : W w (l.foldl g w) := by
  induction l generalizing w with
  | nil => exact W.refl w
  | cons a l ih => exact (h w a).trans (ih _)

theorem KW_foldl {α} (g : World → α → World) (l : List α) (w : World)
    (h : ∀ w a, KW (g w a) = KW w) : KW (l.foldl g w) = KW w :=
  foldl_preserve KW g l w h

@[simp] theorem KW_setErr (w : World) (m : String) : KW (w.setErr m) = KW w := by
  unfold setErr; split <;> rfl
@[simp] theorem KW_addRec (w : World) (r : Rec) : KW (w.addRec r) = KW w := rfl
@[simp] theorem KW_addRes (w : World) (r : Res) : KW (w.addRes r) = KW w := rfl
@[simp] theorem KW_modPart (w : World) (p : Nat) (f : PartRec → PartRec) :
    KW (w.modPart p f) = KW w := rfl
@[simp] theorem KW_newPart (w : World) (r : PartRec) : KW (w.newPart r).1 = KW w := rfl
@[simp] theorem KW_setDev (w : World) (x : Nat) (d : Dev) : KW (w.setDev x d) = KW w := rfl
@[simp] theorem KW_modDev (w : World) (x : Nat) (f : Dev → Dev) : KW (w.modDev x f) = KW w := rfl
@[simp] theorem KW_envOp (w : World) (op : EnvOp) : KW (w.envOp op) = KW w := rfl

theorem KW_of_KU {w w' : World} (h : KU w' = KU w) : KW w' = KW w := by
  unfold KW; rw [KU_rm h, KU_scr h]

theorem KW_sched (w : World) (t a : Int) (act : Action) (p : Int) :
    KW (w.sched t a act p).1 = KW w := KW_of_KU (KU_sched w t a act p)
theorem KW_schedLib (w : World) (t a : Int) (act : Action) (p : Int) :
    KW (w.schedLib t a act p) = KW w := KW_of_KU (KU_schedLib w t a act p)
theorem KW_rmEffects (w : World) (recs : List ResRec) (chk : Bool) :
    KW (w.rmEffects recs chk) = KW w := KW_of_KU (KU_rmEffects w recs chk)

theorem W_rmSet (w : World) (rm' : RM) (h : rm'.waiting = w.rm.waiting) :
    W w { w with rm := rm' } := by
  show (rm'.waiting, w.scripts) = _
  rw [h]; rfl

elab "w_struct" : tactic => do
  let g ← getMainGoal
  g.withContext do
    let t ← instantiateMVars (← g.getType)
    let_expr W a b := t.consumeMData | throwError "w_struct: not a W goal"
    let b := b.consumeMData
    unless b.isAppOfArity ``World.mk 23 do throwError "w_struct: not a structure instance"
    let r := b.getArg! 1
    let w0 ← match r with
      | .proj _ _ w0 => pure w0
      | _ =>
        if r.isAppOfArity ``World.seed 1 then pure (r.getArg! 0)
        else throwError "w_struct: the seed is changed"
    let newGoal ← mkFreshExprSyntheticOpaqueMVar (← mkAppM ``W #[a, w0])
    let eq ← mkEq (← mkAppM ``KW #[b]) (← mkAppM ``KW #[w0])
    let pf ← mkFreshExprMVar eq
    pf.mvarId!.refl
    g.assign (mkApp5 (mkConst ``W.trans_KW) a w0 b newGoal pf)
    replaceMainGoal [newGoal.mvarId!]

syntax "w_step" : tactic
macro "w_auto" : tactic => `(tactic| repeat' first | w_step | split)

macro_rules | `(tactic| w_step) => `(tactic| w_struct)
macro_rules | `(tactic| w_step) => `(tactic|
  ((with_reducible apply W.trans (h2 := W.foldl _ _ _ ?hs)); case hs => (intro _ _; w_auto; done)))
macro_rules | `(tactic| w_step) => `(tactic| with_reducible apply W.trans_KW (h := KW_rmEffects _ _ _))
macro_rules | `(tactic| w_step) => `(tactic| with_reducible apply W.trans_KW (h := KW_envOp _ _))
macro_rules | `(tactic| w_step) => `(tactic| with_reducible apply W.trans_KW (h := KW_schedLib _ _ _ _ _))
macro_rules | `(tactic| w_step) => `(tactic| with_reducible apply W.trans_KW (h := KW_sched _ _ _ _ _))
macro_rules | `(tactic| w_step) => `(tactic| with_reducible apply W.trans_KW (h := KW_setErr _ _))
macro_rules | `(tactic| w_step) => `(tactic| with_reducible apply W.trans_KW (h := KW_addRes _ _))
macro_rules | `(tactic| w_step) => `(tactic| with_reducible apply W.trans_KW (h := KW_addRec _ _))
macro_rules | `(tactic| w_step) => `(tactic| with_reducible apply W.trans_KW (h := KW_modPart _ _ _))
macro_rules | `(tactic| w_step) => `(tactic| with_reducible apply W.trans_KW (h := KW_newPart _ _))
macro_rules | `(tactic| w_step) => `(tactic| with_reducible apply W.trans_KW (h := KW_modDev _ _ _))
macro_rules | `(tactic| w_step) => `(tactic| with_reducible apply W.trans_KW (h := KW_setDev _ _ _))
macro_rules | `(tactic| w_step) => `(tactic| with_reducible exact W.refl _)

/-! ### notifications -/

theorem W_setWaiting (w : World) (x : Nat) (a b : Bool) : W w (w.setWaiting x a b) := by
  unfold setWaiting
  dsimp only
  w_auto

macro_rules | `(tactic| w_step) => `(tactic| with_reducible apply W.trans (h2 := W_setWaiting _ _ _ _))

theorem W_schedulePass (w : World) (x : Nat) (o : Int) : W w (w.schedulePass x o) := by
  unfold schedulePass
  dsimp only
  w_auto

macro_rules | `(tactic| w_step) => `(tactic| with_reducible apply W.trans (h2 := W_schedulePass _ _ _))

theorem W_notifyUp_spaceAvail (n : Nat) :
    ∀ w x, W w (notifyUp n w x) ∧ W w (spaceAvail n w x) := by
  induction n with
  | zero =>
    intro w x
    constructor
    · rw [notifyUp]; exact W.of_KW (KW_setErr _ _)
    · rw [spaceAvail]; exact W.of_KW (KW_setErr _ _)
  | succ n ih =>
    intro w x
    have hN : ∀ w x, W w (notifyUp n w x) := fun w x => (ih w x).1
    have hS : ∀ w x, W w (spaceAvail n w x) := fun w x => (ih w x).2
    constructor
    · rw [notifyUp]
      dsimp only
      repeat' first
        | with_reducible exact W.refl _
        | with_reducible apply W.trans (h2 := W.foldl _ _ _ hS)
        | with_reducible apply W.trans (h2 := W.foldl _ _ _ hN)
        | with_reducible apply W.trans (h2 := W_setWaiting _ _ _ _)
        | split
    · rw [spaceAvail]
      try dsimp only
      repeat' first
        | with_reducible exact W.refl _
        | exact hN _ _
        | exact hS _ _
        | exact W_schedulePass _ _ _
        | split

theorem W_notifyUp (n : Nat) (w : World) (x : Nat) : W w (notifyUp n w x) :=
  (W_notifyUp_spaceAvail n w x).1
theorem W_spaceAvail (n : Nat) (w : World) (x : Nat) : W w (spaceAvail n w x) :=
  (W_notifyUp_spaceAvail n w x).2
theorem W_notify (w : World) (x : Nat) : W w (w.notify x) := W_notifyUp _ _ _
theorem W_spaceAvailable (w : World) (x : Nat) : W w (w.spaceAvailable x) := W_spaceAvail _ _ _

macro_rules | `(tactic| w_step) => `(tactic| with_reducible apply W.trans (h2 := W_notify _ _))
macro_rules | `(tactic| w_step) => `(tactic| with_reducible apply W.trans (h2 := W_spaceAvailable _ _))

/-! ### parts, callbacks -/

theorem W_addHist (w : World) (p d : Nat) : W w (w.addHist p d) := by
  unfold addHist
  dsimp only
  w_auto

theorem W_dropHist (w : World) (p : Nat) : W w (w.dropHist p) := by
  unfold dropHist
  dsimp only
  w_auto

theorem W_applyPartCb (w : World) (x p : Nat) (c : PartCb) : W w (w.applyPartCb x p c) := by
  unfold applyPartCb
  dsimp only
  w_auto

theorem W_senseOutput (w : World) (s p : Nat) : W w (w.senseOutput s p) := by
  unfold senseOutput
  dsimp only
  w_auto

theorem W_finishCycleHandler (w : World) (x : Nat) : W w (w.finishCycleHandler x) := by
  unfold finishCycleHandler
  dsimp only
  w_auto

macro_rules | `(tactic| w_step) => `(tactic| with_reducible apply W.trans (h2 := W_addHist _ _ _))
macro_rules | `(tactic| w_step) => `(tactic| with_reducible apply W.trans (h2 := W_dropHist _ _))
macro_rules | `(tactic| w_step) => `(tactic| with_reducible apply W.trans (h2 := W_applyPartCb _ _ _ _))
macro_rules | `(tactic| w_step) => `(tactic| with_reducible apply W.trans (h2 := W_senseOutput _ _ _))
macro_rules | `(tactic| w_step) => `(tactic| with_reducible apply W.trans (h2 := W_finishCycleHandler _ _))

theorem KW_genPart_fold (d : Dev) (l : List Nat) (acc : World × List Nat) :
    KW (l.foldl (fun (acc : World × List Nat) _ =>
      let (w', k) := acc.1.newPart { quality := d.genQuality, value := d.genValue }
      (w', acc.2 ++ [k])) acc).1 = KW acc.1 := by
  induction l generalizing acc with
  | nil => rfl
  | cons a l ih => rw [List.foldl_cons, ih]; rfl

theorem KW_genPart (w : World) (x : Nat) : KW (w.genPart x).1 = KW w := by
  unfold genPart
  dsimp only
  split
  · rfl
  · exact KW_genPart_fold _ _ _

theorem W_genPart (w : World) (x : Nat) : W w (w.genPart x).1 := W.of_KW (KW_genPart w x)

macro_rules | `(tactic| w_step) => `(tactic| with_reducible apply W.trans (h2 := W_genPart _ _))

/-! ### finishing a cycle -/

theorem W_finishCycle (w : World) (x : Nat) : W w (w.finishCycle x) := by
  unfold finishCycle
  dsimp only
  split
  · -- source
    w_step
    split
    · w_step
      w_step
      have := W_genPart w x
      revert this
      generalize w.genPart x = q
      intro this
      exact this
    · exact W.refl _
  · w_auto
  · -- processor
    split
    · w_auto
    · w_auto
  · w_auto

macro_rules | `(tactic| w_step) => `(tactic| with_reducible apply W.trans (h2 := W_finishCycle _ _))

theorem W_scheduleFinish (w : World) (x : Nat) : W w (w.scheduleFinish x) := by
  unfold scheduleFinish
  dsimp only
  w_auto

macro_rules | `(tactic| w_step) => `(tactic| with_reducible apply W.trans (h2 := W_scheduleFinish _ _))

/-! ### processors: failure, shutdown, restore -/

theorem W_shutdownDev (w : World) (x : Nat) (f : Bool) (lost : Option Nat) :
    W w (w.shutdownDev x f lost) := by
  unfold shutdownDev
  dsimp only
  w_auto

theorem W_restoreDev (w : World) (x : Nat) : W w (w.restoreDev x) := by
  unfold restoreDev
  dsimp only
  w_auto

macro_rules | `(tactic| w_step) => `(tactic| with_reducible apply W.trans (h2 := W_shutdownDev _ _ _ _))
macro_rules | `(tactic| w_step) => `(tactic| with_reducible apply W.trans (h2 := W_restoreDev _ _))

/-! ### scripted operations on devices -/

theorem W_setBlock (w : World) (x : Nat) (b : Bool) : W w (w.setBlock x b) := by
  unfold setBlock
  dsimp only
  w_auto

theorem W_adjustParts (w : World) (x : Nat) (v : Int) : W w (w.adjustParts x v) := by
  unfold adjustParts
  dsimp only
  w_auto

theorem W_rewire (w : World) (x : Nat) (ups : List Nat) : W w (w.rewire x ups) := by
  unfold rewire
  dsimp only
  w_auto

theorem W_initDev (w : World) (x : Nat) : W w (w.initDev x) := by
  unfold initDev
  dsimp only
  w_auto

macro_rules | `(tactic| w_step) => `(tactic| with_reducible apply W.trans (h2 := W_setBlock _ _ _))
macro_rules | `(tactic| w_step) => `(tactic| with_reducible apply W.trans (h2 := W_adjustParts _ _ _))
macro_rules | `(tactic| w_step) => `(tactic| with_reducible apply W.trans (h2 := W_rewire _ _ _))
macro_rules | `(tactic| w_step) => `(tactic| with_reducible apply W.trans (h2 := W_initDev _ _))

@[simp] theorem KW_modMaint (w : World) (m : Nat) (f : Maint → Maint) :
    KW (w.modMaint m f) = KW w := rfl
@[simp] theorem KW_setVar (w : World) (h : Nat) (v : Option Nat) : KW (w.setVar h v) = KW w := rfl

macro_rules | `(tactic| w_step) => `(tactic| with_reducible apply W.trans_KW (h := KW_modMaint _ _ _))
macro_rules | `(tactic| w_step) => `(tactic| with_reducible apply W.trans_KW (h := KW_setVar _ _ _))

theorem W_startOrders (w : World) (m : Nat) (st : List Order) : W w (w.startOrders m st) := by
  unfold startOrders
  w_auto

macro_rules | `(tactic| w_step) => `(tactic| with_reducible apply W.trans (h2 := W_startOrders _ _ _))

theorem W_schedUpdate (w : World) (s : Nat) (advance : Bool) :
    W w (w.schedUpdate s advance) := by
  unfold schedUpdate
  dsimp only
  w_auto

macro_rules | `(tactic| w_step) => `(tactic| with_reducible apply W.trans (h2 := W_schedUpdate _ _ _))

theorem W_initAsset (w : World) (a : AssetRef) : W w (w.initAsset a) := by
  unfold initAsset
  split <;> (try dsimp only) <;> w_auto

macro_rules | `(tactic| w_step) => `(tactic| with_reducible apply W.trans (h2 := W_initAsset _ _))

/-! ### constructors -/

theorem W_addDev (w : World) (d : Dev) : W w (w.addDev d) := by
  unfold addDev
  dsimp only
  w_auto

macro_rules | `(tactic| w_step) => `(tactic| with_reducible apply W.trans (h2 := W_addDev _ _))

theorem W_addAsset (w : World) (spec : AssetSpec) : W w (w.addAsset spec) := by
  unfold addAsset
  split <;> (try dsimp only)
  all_goals w_auto

macro_rules | `(tactic| w_step) => `(tactic| with_reducible apply W.trans (h2 := W_addAsset _ _))

/-! ### scripted operations -/


/-- A `register` operation. -/
def isReg : Op → Bool
  | .register _ _ => true
  | _ => false

theorem apply_waiting_same (rm : RM) (op : RMOp) (h : ∀ req cb, op ≠ .register req cb) :
    (rm.apply op).1.waiting = rm.waiting := by
  cases op with
  | init => rfl
  | add r amt =>
    simp only [RM.apply]
    rcases C10.add_cases rm r amt with ⟨h, _⟩ | ⟨_, _, _, v, hv⟩
    · rw [h]
    · rw [hv]; simp
  | reserve req => simp [RM.apply, (C10.reserve_spec rm req).1]
  | release id part =>
    simp only [RM.apply]
    rcases C10.release_cases rm id part with ⟨h, _⟩ | ⟨_, _, hw, _⟩
    · rw [h]
    · exact hw
  | merge a b => simp [RM.apply, (C10.merge_spec rm a b).1]
  | register req cb => exact absurd rfl (h req cb)

macro "w_ops" : tactic => `(tactic| repeat' first | w_step | split | dsimp only)

/-- A scripted operation other than `register` leaves the waiting list alone. -/
theorem W_applyOp (w : World) (op : Op) (hop : isReg op = false) : W w (w.applyOp op).1 := by
  cases op with
  | sched t a k p => exact W.of_KW (KW_sched _ _ _ _ _)
  | schedRel dt a k p => exact W.of_KW (KW_sched _ _ _ _ _)
  | pause a => exact W.of_KW rfl
  | unpause a => exact W.of_KW rfl
  | cancel a => exact W.of_KW rfl
  | addRes r amt =>
    have h := apply_waiting_same w.rm (.add r amt) (fun _ _ h => by cases h)
    simp only [applyOp]
    rcases hr : w.rm.add r amt with ⟨rm, res, recs, chk⟩
    have h' : rm.waiting = w.rm.waiting := by
      have : (w.rm.apply (.add r amt)).1 = rm := by show (w.rm.add r amt).1 = rm; rw [hr]
      rw [← this]; exact h
    dsimp only
    w_step
    exact W_rmSet w rm h'
  | reserve hd req =>
    have h := apply_waiting_same w.rm (.reserve req) (fun _ _ h => by cases h)
    simp only [applyOp]
    rcases hr : w.rm.reserve req with ⟨rm, res, id, recs⟩
    have h' : rm.waiting = w.rm.waiting := by
      have : (w.rm.apply (.reserve req)).1 = rm := by show (w.rm.reserve req).1 = rm; rw [hr]
      rw [← this]; exact h
    dsimp only
    split
    · exact W.refl _
    · w_step
      w_step
      exact W_rmSet w rm h'
  | release hd part =>
    simp only [applyOp]
    cases w.getVar hd with
    | none => exact W.refl _
    | some id =>
      dsimp only
      w_step
      exact W_rmSet w _ (apply_waiting_same w.rm (.release id part) (fun _ _ h => by cases h))
  | merge h1 h2 =>
    simp only [applyOp]
    cases w.getVar h1 with
    | none => exact W.refl _
    | some a =>
      cases w.getVar h2 with
      | none => exact W.refl _
      | some b =>
        dsimp only
        exact W_rmSet w _ (apply_waiting_same w.rm (.merge a b) (fun _ _ h => by cases h))
  | register k req => cases hop
  | schedFail d t => simp only [applyOp]; w_ops
  | schedFailRel d dt => simp only [applyOp]; w_ops
  | shutdown d => simp only [applyOp]; w_ops
  | restore d => simp only [applyOp]; w_ops
  | block d b => simp only [applyOp]; w_ops
  | adjust d n => simp only [applyOp]; w_ops
  | setCycle d c => simp only [applyOp]; w_ops
  | offsetNext d o => simp only [applyOp]; w_ops
  | rewire d ups => simp only [applyOp]; w_ops
  | workOrder m tgt tag info => simp only [applyOp]; w_ops
  | setParams tgt tag dur need cost => simp only [applyOp]; w_ops
  | regObj s obj ovr => simp only [applyOp]; w_ops
  | unregObj s obj => simp only [applyOp]; w_ops
  | setVar k v => simp only [applyOp]; w_ops
  | addSensor c s => simp only [applyOp]; w_ops
  | create spec => simp only [applyOp]; w_ops

theorem W_applyOps (w : World) (ops : List Op) (h : ∀ op ∈ ops, isReg op = false) :
    W w (w.applyOps ops) := by
  unfold applyOps
  induction ops generalizing w with
  | nil => exact W.refl _
  | cons op ops ih =>
    rw [List.foldl_cons]
    refine W.trans ?_ (ih _ (fun o ho => h o (List.mem_cons_of_mem _ ho)))
    exact (W_applyOp w op (h op List.mem_cons_self)).trans_KW (KW_addRes _ _)

/-- Script `k` contains no `register` operation. -/
def quietScript (w : World) (k : Nat) : Prop := ∀ op ∈ w.scripts.getD k [], isReg op = false

instance (w : World) (k : Nat) : Decidable (quietScript w k) := by
  unfold quietScript; infer_instance

theorem W_runScript (w : World) (k : Nat) (h : quietScript w k) : W w (w.runScript k) :=
  W_applyOps _ _ h

theorem W_procResourceCb (w : World) (x : Nat) : W w (w.procResourceCb x) := by
  unfold procResourceCb
  dsimp only
  w_auto

/-! ### the fuel of the model's scan -/

/-- The callback, if it is a script, contains no `register` operation. -/
def quietCb (w : World) : Cb → Prop
  | .script k => quietScript w k
  | .proc _ => True

instance (w : World) (cb : Cb) : Decidable (quietCb w cb) := by
  cases cb <;> unfold quietCb <;> infer_instance

/-- Every script that is waiting for a callback contains no `register` operation. -/
def CbQuiet (w : World) : Prop := ∀ e ∈ w.rm.waiting, quietCb w e.2

instance (w : World) : Decidable (CbQuiet w) := by unfold CbQuiet; infer_instance

theorem W_call (w : World) (cb : Cb) (req : Req) (h : quietCb w cb) :
    W w (scanOps.call w cb req) := by
  cases cb with
  | script k =>
    have hq : quietScript (w.addRes (.cb k)) k := h
    exact W.trans (W.of_KW (KW_addRes w _)) (W_runScript _ k hq)
  | proc d => exact W_procResourceCb w d

/-- **Fuel.**  If no waiting callback script registers again, the scan started at index `i` reaches
the end of the list within `length − i + 1` iterations. -/
theorem scanDone_of_quiet (f : Nat) (w : World) (i : Nat) (hq : CbQuiet w)
    (hf : w.rm.waiting.length - i < f) : C10.scanDone scanOps f w i = true := by
  induction f generalizing w i with
  | zero => omega
  | succ f ih =>
    cases hw : w.rm.waiting[i]? with
    | none =>
      have hw' : (scanOps.rm w).waiting[i]? = none := hw
      simp [C10.scanDone, hw']
    | some e =>
      obtain ⟨req, cb⟩ := e
      have hw' : (scanOps.rm w).waiting[i]? = some (req, cb) := hw
      obtain ⟨hi, hget⟩ := List.getElem?_eq_some_iff.mp hw
      by_cases hc : (scanOps.rm w).canFulfill req = true
      · simp only [C10.scanDone, hw', hc, if_true]
        have hmem : (req, cb) ∈ w.rm.waiting := List.mem_of_getElem? hw
        have hW := W_call w cb req (hq _ hmem)
        have h1 : (scanOps.call w cb req).rm.waiting = w.rm.waiting := congrArg Prod.fst hW
        have h2 : (scanOps.call w cb req).scripts = w.scripts := congrArg Prod.snd hW
        have h3 : (scanOps.erase (scanOps.call w cb req) i).rm.waiting = w.rm.waiting.eraseIdx i := by
          show (scanOps.call w cb req).rm.waiting.eraseIdx i = _
          rw [h1]
        refine ih _ _ ?_ ?_
        · intro e he
          rw [h3] at he
          have := hq e ((List.eraseIdx_sublist _ _).subset he)
          cases hcb : e.2 with
          | proc d => trivial
          | script k =>
            rw [hcb] at this
            show ∀ op ∈ (scanOps.call w cb req).scripts.getD k [], _
            rw [h2]; exact this
        · rw [h3, List.length_eraseIdx_of_lt hi]
          omega
      · simp only [C10.scanDone, hw', hc]
        exact ih _ _ hq (by omega)

/-! ### the static class of quiet callbacks -/

/-- A `register` operation names a quiet callback script. -/
def regQuietOp (w : World) : Op → Prop
  | .register k _ => quietScript w k
  | _ => True

instance (w : World) (op : Op) : Decidable (regQuietOp w op) := by
  cases op <;> unfold regQuietOp <;> infer_instance

/-- **Callbacks do not register**: every script that some script registers as a callback contains
no `register` operation (static, decidable). -/
def RegQuiet (w : World) : Prop := ∀ s ∈ w.scripts, ∀ op ∈ s, regQuietOp w op

instance (w : World) : Decidable (RegQuiet w) := by unfold RegQuiet; infer_instance

theorem RegQuiet.of_regBy {w : World} (h : RegQuiet w) {k : Nat} (hk : RegBy w k) :
    quietScript w k := by
  obtain ⟨s, hs, req, hm⟩ := hk
  exact h s hs _ hm

/-- The quiet class together with its consequence for the waiting list. -/
structure QInv (w : World) : Prop where
  cb : CbQuiet w
  reg : RegQuiet w

theorem QInv.of_eq {w w' : World} (h : QInv w) (hw : w'.rm.waiting = w.rm.waiting)
    (hs : w'.scripts = w.scripts) : QInv w' := by
  refine ⟨?_, ?_⟩
  · intro e he
    rw [hw] at he
    have := h.cb e he
    cases hcb : e.2 with
    | proc d => trivial
    | script k =>
      rw [hcb] at this
      show ∀ op ∈ w'.scripts.getD k [], _
      rw [hs]; exact this
  · intro s hs' op hop
    rw [hs] at hs'
    have := h.reg s hs' op hop
    cases op <;> first | trivial | (show ∀ o ∈ w'.scripts.getD _ [], _; rw [hs]; exact this)

theorem QInv.step_U {w w' : World} (h : QInv w) (u : U w w') : QInv w' := by
  obtain ⟨l, hl, hq⟩ := u.wapp
  have h1 : QInv ({ w with rm := { w.rm with waiting := w'.rm.waiting } } : World) := by
    refine ⟨?_, fun s hs op hop => h.reg s hs op hop⟩
    intro e he
    have he' : e ∈ w.rm.waiting ++ l := by rw [← hl]; exact he
    rcases List.mem_append.1 he' with he' | he'
    · exact h.cb e he'
    · cases hcb : e.2 with
      | proc d => trivial
      | script k => exact h.reg.of_regBy (hq e he' k hcb)
  exact h1.of_eq rfl u.scr

theorem QInv.erase {w : World} (h : QInv w) (i : Nat) : QInv (scanOps.erase w i) :=
  ⟨fun e he => h.cb e ((List.eraseIdx_sublist _ _).subset he), h.reg⟩

theorem QInv.serve {w : World} (h : QInv w) (i : Nat) (req : Req) (cb : Cb) :
    QInv (scanOps.erase (scanOps.call w cb req) i) := by
  refine QInv.erase ?_ i
  cases cb with
  | script k =>
    have h0 : QInv (w.addRes (.cb k)) := h.of_eq rfl rfl
    exact h0.step_U (U_runScript _ k)
  | proc d => exact h.step_U (U_procResourceCb w d)

theorem scan_induct' {σ : Type} (o : ScanOps σ) (I : σ → Prop)
    (hstep : ∀ s i req cb, I s → I (o.erase (o.call s cb req) i))
    (f : Nat) (s : σ) (i : Nat) (h : I s) : I (scanWaiting o f s i) := by
  induction f generalizing s i with
  | zero => exact h
  | succ f ih =>
    rw [scanWaiting]
    split
    · exact h
    · split
      · exact ih _ _ (hstep s i _ _ h)
      · exact ih _ _ h

theorem QInv.scan {w : World} (h : QInv w) (f i : Nat) : QInv (scanWaiting scanOps f w i) :=
  scan_induct' scanOps QInv (fun _ i req cb h => h.serve i req cb) f w i h

theorem QInv.exec {w : World} (h : QInv w) (a : Action) : QInv (w.exec a) := by
  by_cases ha : a = .rmCheck
  · subst ha; exact h.scan 10000 0
  · exact h.step_U (U_exec w a ha)

theorem QInv.step {w w' : World} {e : Event} (h : QInv w) (hst : w.step = some (e, w')) :
    QInv w' := by
  obtain ⟨env1, _, _, hdead, hlive⟩ := C01W.step_via hst
  have h0 : QInv ({ w with env := env1 } : World) := h.of_eq rfl rfl
  cases hl : e.live with
  | true => rw [hlive hl]; exact h0.exec _
  | false => rw [hdead hl]; exact h0

theorem QInv.runLoop (n : Nat) : ∀ {w : World}, QInv w → QInv (World.runLoop n w) := by
  induction n with
  | zero => intro w h; exact h.step_U (U.of_KU (KU_setErr _ _))
  | succ n ih =>
    intro w h
    unfold World.runLoop
    split
    · split
      · exact h
      · rename_i e w' hst
        exact ih (h.step hst)
    · exact h

theorem QInv.runBegin {w : World} (h : QInv w) (d : Int) : QInv (w.runBegin d).1 :=
  h.step_U (U_runBegin w d)

theorem QInv.simulateInit {w : World} (h : QInv w) : QInv w.simulateInit :=
  h.step_U (U_simulateInit w)

/-- An operation issued from outside that registers only a quiet callback. -/
theorem QInv.applyOp {w : World} (h : QInv w) (o : Op) (ho : regQuietOp w o) :
    QInv (w.applyOp o).1 := by
  by_cases hr : ∃ k req, o = .register k req
  · obtain ⟨k, req, rfl⟩ := hr
    have u := U0_applyOp w (.register k req)
    have hk := KU_rmEffects ({ w with rm := (w.rm.register req (.script k)).1 } : World) []
      (w.rm.register req (.script k)).2
    have hw : (w.applyOp (.register k req)).1.rm.waiting = w.rm.waiting ++ [(req, .script k)] := by
      simp only [World.applyOp]
      rw [KU_rm hk]; rfl
    have h1 : QInv ({ w with rm := { w.rm with waiting := (w.applyOp (.register k req)).1.rm.waiting } } : World) := by
      refine ⟨?_, fun s hs op hop => h.reg s hs op hop⟩
      intro e he
      have he' : e ∈ w.rm.waiting ++ [(req, .script k)] := by rw [← hw]; exact he
      rcases List.mem_append.1 he' with he' | he'
      · exact h.cb e he'
      · have : e = (req, .script k) := by simpa using he'
        subst this
        exact ho
    exact h1.of_eq rfl u.scr
  · exact h.step_U (U_applyOp w o (fun k req hk => absurd ⟨k, req, hk⟩ hr))

end C10W
end SimProc
