/-
C03V, part 2 — several groups AND re-wiring in scripts: the machinery's hand-over step
(`G.passPartG`, the only place where the condition "one group, or typed stacks" `C03Z.GC` is used)
for worlds whose scripts re-wire.

`C03Z.GC w` contains `NR w` (no script re-wires) as baggage — nothing in the machinery reads it.  The
wake-up invariant `G` does not read the scripts except for the scope `SC` (`G.esG`), and `passPart`
is blind to the scripts (`es_passPart`): the hand-over step is taken in the world WITHOUT its
scripts, `es w []`, where `NR` holds trivially (`G.passPartV`, `G.execV`, `G.stepV`).
-/
import SimProc.Proofs.C03VFrame

namespace SimProc
namespace C03V
open World C02V C03W C03 FloorCoreL

/-- putting the scripts back -/
theorem es_es (w : World) (s : List (List Op)) : es (es w s) w.scripts = w := by
  cases w; rfl

theorem wouldAcceptN_es (w : World) (s : List (List Op)) (N A : List Nat) (f y p : Nat) :
    wouldAcceptN f (es w s) N A y p = wouldAcceptN f w N A y p :=
  wouldAcceptN_congr (w := w) (w' := es w s) ⟨fun _ => rfl, fun _ => rfl, fun _ => rfl, fun _ => rfl, rfl⟩
    (fun _ => rfl) rfl (fun _ => rfl) f y

/-- **The wake-up invariant reads the scripts through the scope only.** -/
theorem G.esG {E N A : List Nat} {w : World} (h : G E N A w) (s : List (List Op))
    (hsc : SC (es w s)) : G E N A (es w s) := by
  refine ⟨hsc, h.pl, h.inv, h.now0, h.ev, h.valid, h.kv, h.stk, h.wr, h.aok, fun d p hd hdE => ?_⟩
  rcases h.wake d p hd hdE with ha | hb
  · exact Or.inl ha
  · refine Or.inr ⟨hb.1, fun y hy => ?_⟩
    have := hb.2 y hy
    rw [← wouldAcceptN_es w s] at this
    exact this

/-- **The hand-over step in a world whose scripts may re-wire.** -/
theorem G.passPartV {E N : List Nat} {w : World} {x : Nat} (h : G (x :: E) N [] w)
    (hI : InvB w) (hset : Settled w) (hgc : C03Z.GC (es w [])) : G E N [] (w.passPart x) := by
  have hI' : InvB (es w []) := fun hnb => (hI hnb).of_sv rfl
  have hset' : Settled (es w []) := hset
  have h1 := (G.esG h [] h.sc.es_nil).passPartG hI' hset' hgc
  rw [es_passPart] at h1
  have hsc : SC (w.passPart x) := h.sc.of_sw (SW.sw_eq ⟨swv_passPart w x, scr_passPart w x⟩)
  have e : es (es (w.passPart x) []) w.scripts = w.passPart x := by
    have := es_es (w.passPart x) []
    rw [scr_passPart] at this
    exact this
  have h2 := G.esG h1 w.scripts (by rw [e]; exact hsc)
  rw [e] at h2
  exact h2

/-- **Every event action preserves the invariant** (scripts may re-wire). -/
theorem G.execV {w : World} (a : Action) (h : G (exemptA a) [] [] w)
    (ha : ∀ d, a = .fail d → (w.dev d).kind = .processor) (hI : InvB w) (hset : Settled w)
    (hio : IOK w) (hgc : C03Z.GC (es w [])) : G [] [] [] (w.exec a) := by
  cases a with
  | passPart d => exact G.passPartV h hI hset hgc
  | terminate => exact h
  | script k => exact h.runScriptG hio k
  | finishCycle d => exact h.finishCycle d
  | fail d => exact h.failDevG d (ha d rfl)
  | releaseIfIdle d => exact h.releaseIfIdleG d
  | rmCheck => exact h.rmCheckG hio
  | startWork m o => exact h.startWorkG hio m o
  | finishWork m o => exact h.finishWorkG hio m o
  | schedUpdate s => exact h.schedUpdateG s true
  | periodicSense s => exact h.periodicSenseG s
  | unknown n => exact h.setErr _

/-- **One step of the event loop preserves the invariant** (scripts may re-wire). -/
theorem G.stepV {w w' : World} {e : Event} (h : G [] [] [] w) (hI : InvB w) (hset : Settled w)
    (hio : IOK w) (hgc : C03Z.GC (es w [])) (hst : w.step = some (e, w')) : G [] [] [] w' := by
  unfold World.step at hst
  split at hst
  · cases hst
  · next e0 env' henv =>
    simp only [Option.some.injEq, Prod.mk.injEq] at hst
    obtain ⟨rfl, rfl⟩ := hst
    have hpop := h.pop henv
    have hmem : e0 ∈ w.env.events := (C01.step_min h.inv henv).1
    split
    · next hl =>
      rw [exemptOf_live hl] at hpop
      refine G.execV _ hpop (fun d hd => ?_) (invB_env hI env') (settled_env hset env')
        (hio.step (istep_env w env')) (hgc.frame rfl rfl rfl)
      exact h.ev e0.act ((C02V.mem_acts _ _).mpr ⟨e0, Or.inl hmem, rfl⟩) d hd
    · next hl =>
      rw [exemptOf_dead (by simpa using hl)] at hpop
      exact hpop

end C03V
end SimProc
