/-
C14W, pass 1 (continued) — the functions of `Model/World.lean`.
-/
import SimProc.Proofs.C14WBlind

namespace SimProc
namespace C14W
open World

theorem bl_startOrders (m : Nat) (st : List Order) : Blind (fun w => w.startOrders m st) := by
  intro w t
  bl_close [startOrders]
@[c14w] theorem sw_startOrders (w : World) (t : Twin) (m : Nat) (st : List Order) :
    (sw w t).startOrders m st = sw (w.startOrders m st) (NX (fun v => v.startOrders m st) w t) :=
  (bl_startOrders m st).eq w t

theorem bl_schedUpdate (s : Nat) (adv : Bool) : Blind (fun w => w.schedUpdate s adv) := by
  intro w t
  have h : ∀ (st : Int) (w : World) (t : Twin) (a : Nat × Option Nat),
      (match a with | (o, ovr) => (sw w t).addRes (.act s o (sw w t).now st ovr)) =
        sw (match a with | (o, ovr) => w.addRes (.act s o w.now st ovr)) t := by
    intro st w t a; rfl
  bl_close [schedUpdate, h]
@[c14w] theorem sw_schedUpdate (w : World) (t : Twin) (s : Nat) (adv : Bool) :
    (sw w t).schedUpdate s adv = sw (w.schedUpdate s adv) (NX (fun v => v.schedUpdate s adv) w t) :=
  (bl_schedUpdate s adv).eq w t

theorem bl_initAsset (a : AssetRef) : Blind (fun w => w.initAsset a) := by
  intro w t
  bl_close [initAsset]
@[c14w] theorem sw_initAsset (w : World) (t : Twin) (a : AssetRef) :
    (sw w t).initAsset a = sw (w.initAsset a) (NX (fun v => v.initAsset a) w t) :=
  (bl_initAsset a).eq w t

theorem bl_addDev (d : Dev) : Blind (fun w => w.addDev d) := by
  intro w t
  bl_close [addDev]
@[c14w] theorem sw_addDev (w : World) (t : Twin) (d : Dev) :
    (sw w t).addDev d = sw (w.addDev d) (NX (fun v => v.addDev d) w t) := (bl_addDev d).eq w t

theorem bl_addAsset (spec : AssetSpec) : Blind (fun w => w.addAsset spec) := by
  intro w t
  bl_close [addAsset]
@[c14w] theorem sw_addAsset (w : World) (t : Twin) (spec : AssetSpec) :
    (sw w t).addAsset spec = sw (w.addAsset spec) (NX (fun v => v.addAsset spec) w t) :=
  (bl_addAsset spec).eq w t

/-! ### scripted operations -/

theorem bl_applyOp (op : Op) : Blind2 (fun w => w.applyOp op) := by
  intro w t
  cases op <;> bl_close [applyOp]

@[c14w] theorem sw_applyOp (w : World) (t : Twin) (op : Op) :
    (sw w t).applyOp op =
      (sw (w.applyOp op).1 (NX (fun v => (v.applyOp op).1) w t), (w.applyOp op).2) :=
  (bl_applyOp op).eq w t

theorem bl_applyOps (ops : List Op) : Blind (fun w => w.applyOps ops) := by
  intro w t
  bl_close [applyOps]

@[c14w] theorem sw_applyOps (w : World) (t : Twin) (ops : List Op) :
    (sw w t).applyOps ops = sw (w.applyOps ops) (NX (fun v => v.applyOps ops) w t) :=
  (bl_applyOps ops).eq w t

theorem bl_runScript (k : Nat) : Blind (fun w => w.runScript k) := by
  intro w t
  bl_close [runScript]
@[c14w] theorem sw_runScript (w : World) (t : Twin) (k : Nat) :
    (sw w t).runScript k = sw (w.runScript k) (NX (fun v => v.runScript k) w t) :=
  (bl_runScript k).eq w t

/-! ### resource availability check -/

theorem scanOps_rm (w : World) : scanOps.rm w = w.rm := rfl
theorem scanOps_call (w : World) (cb : Cb) (r : Req) :
    scanOps.call w cb r = match cb with
      | .script k => (w.addRes (.cb k)).runScript k
      | .proc d => w.procResourceCb d := rfl
theorem scanOps_erase (w : World) (i : Nat) :
    scanOps.erase w i = { w with rm := { w.rm with waiting := w.rm.waiting.eraseIdx i } } := rfl

theorem bl_scanWaiting (n : Nat) : ∀ i, Blind (fun w => scanWaiting scanOps n w i) := by
  induction n with
  | zero => intro i w t; rfl
  | succ n ih =>
    have hS : ∀ w t i, scanWaiting scanOps n (sw w t) i =
        sw (scanWaiting scanOps n w i) (NX (fun v => scanWaiting scanOps n v i) w t) :=
      fun w t i => (ih i).eq w t
    intro i w t
    bl_close [scanWaiting, scanOps_rm, scanOps_call, scanOps_erase, hS]

@[c14w] theorem sw_scanWaiting (n : Nat) (w : World) (t : Twin) (i : Nat) :
    scanWaiting scanOps n (sw w t) i =
      sw (scanWaiting scanOps n w i) (NX (fun v => scanWaiting scanOps n v i) w t) :=
  (bl_scanWaiting n i).eq w t

theorem bl_rmCheck : Blind (fun w => w.rmCheck) := by
  intro w t
  bl_close [rmCheck]
@[c14w] theorem sw_rmCheck (w : World) (t : Twin) :
    (sw w t).rmCheck = sw w.rmCheck (NX (fun v => v.rmCheck) w t) := bl_rmCheck.eq w t

/-! ### maintainer events, sensors -/

theorem bl_hookStart (tgt : Nat) (tag : Int) : Blind (fun w => w.hookStart tgt tag) := by
  intro w t
  bl_close [hookStart]
@[c14w] theorem sw_hookStart (w : World) (t : Twin) (tgt : Nat) (tag : Int) :
    (sw w t).hookStart tgt tag = sw (w.hookStart tgt tag) (NX (fun v => v.hookStart tgt tag) w t) :=
  (bl_hookStart tgt tag).eq w t

theorem bl_hookEnd (tgt : Nat) (tag : Int) : Blind (fun w => w.hookEnd tgt tag) := by
  intro w t
  bl_close [hookEnd]
@[c14w] theorem sw_hookEnd (w : World) (t : Twin) (tgt : Nat) (tag : Int) :
    (sw w t).hookEnd tgt tag = sw (w.hookEnd tgt tag) (NX (fun v => v.hookEnd tgt tag) w t) :=
  (bl_hookEnd tgt tag).eq w t

theorem bl_startWork (m seq : Nat) : Blind (fun w => w.startWork m seq) := by
  intro w t
  bl_close [startWork]
@[c14w] theorem sw_startWork (w : World) (t : Twin) (m seq : Nat) :
    (sw w t).startWork m seq = sw (w.startWork m seq) (NX (fun v => v.startWork m seq) w t) :=
  (bl_startWork m seq).eq w t

theorem bl_finishWork (m seq : Nat) : Blind (fun w => w.finishWork m seq) := by
  intro w t
  bl_close [finishWork]
@[c14w] theorem sw_finishWork (w : World) (t : Twin) (m seq : Nat) :
    (sw w t).finishWork m seq = sw (w.finishWork m seq) (NX (fun v => v.finishWork m seq) w t) :=
  (bl_finishWork m seq).eq w t

theorem bl_periodicSense (s : Nat) : Blind (fun w => w.periodicSense s) := by
  intro w t
  bl_close [periodicSense]
@[c14w] theorem sw_periodicSense (w : World) (t : Twin) (s : Nat) :
    (sw w t).periodicSense s = sw (w.periodicSense s) (NX (fun v => v.periodicSense s) w t) :=
  (bl_periodicSense s).eq w t

/-! ### events -/

/-- **The action of an event does not look at the queue.** -/
theorem bl_exec (a : Action) : Blind (fun w => w.exec a) := by
  intro w t
  cases a <;> bl_close [exec]

@[c14w] theorem sw_exec (w : World) (t : Twin) (a : Action) :
    (sw w t).exec a = sw (w.exec a) (NX (fun v => v.exec a) w t) := (bl_exec a).eq w t

theorem bl_simulateInit : Blind (fun w => w.simulateInit) := by
  intro w t
  bl_close [simulateInit]

end C14W
end SimProc
