/-
C06T (exact cycle times over whole runs), part 1: the action of an event as a sequence of ATOMIC
MOVES between states satisfying the floor invariant `C06W.FI` — frames (nothing a timer sees
changes), a timing device accepts a part, an output slot is emptied, a processor is shut down for
maintenance / restored / fails — and what each atomic move does to the timers (`C06W.rem`) and to
the input slots.
-/
import SimProc.Proofs.C06WRate
import SimProc.Props.C06
namespace SimProc
namespace C06T
open World FloorCoreL C06W

/-! ### atomic moves -/

/-- One atomic move.  `F` is the set of devices that are allowed to fail. -/
inductive Atom (F : Nat → Prop) : World → World → Prop
  | frame {w w' : World} (f : Fr None_ w w') : Atom F w w'
  | accept {w : World} (x p : Nat) (hx : x < w.devs.length) (hT : isT (w.dev x).kind = true)
      (hc : w.canAcceptBasic x p = true) : Atom F w (w.acceptPart x p)
  | clear {w : World} (x : Nat) : Atom F w (w.modDev x (fun d => { d with output := none }))
  | shutdown {w : World} (x : Nat) (hk : (w.dev x).kind = .processor) :
      Atom F w (w.shutdownDev x false none)
  | restore {w : World} (x : Nat) (hk : (w.dev x).kind = .processor) : Atom F w (w.restoreDev x)
  | fail {w : World} (x : Nat) (hk : (w.dev x).kind = .processor) (hF : F x) : Atom F w (w.failDev x)

/-- Emptying the output slot of a device. -/
theorem loc_clear {w : World} (h : FI w) (x : Nat) :
    Loc w (w.modDev x (fun d => { d with output := none })) x := by
  refine ⟨(fr_at x _).toL (fun _ h => h), fun hk => ?_, fun _ => Or.inl rfl⟩
  have ht := h.timer x hk
  show TimerAt w.env x _
  by_cases hx : x < w.devs.length
  · rw [dev_modDev_same hx]
    have e : tdm ({ w.dev x with output := none } : Dev) = { tdm (w.dev x) with output := none } := by
      simp [tdm]
    rw [e]
    exact ⟨ht.asset, ht.idle, fun p hp => ⟨rfl, (ht.busy p hp).2⟩, ht.up⟩
  · rw [modDev_out_of_range (Nat.le_of_not_lt hx)]; exact ht

theorem canAccept_T' {w : World} {x p : Nat} (hT : isT (w.dev x).kind = true)
    (h : w.canAcceptBasic x p = true) :
    (w.dev x).part = none ∧ (w.dev x).output = none ∧ w.operational x = true := by
  unfold World.canAcceptBasic at h
  cases hk : (w.dev x).kind <;> simp_all [isT, Option.isNone_iff_eq_none]

/-- Every atomic move is either a frame or a change local to one device. -/
theorem Atom.cases_loc {F : Nat → Prop} {w w' : World} (h : FI w) (a : Atom F w w') :
    Fr None_ w w' ∨ ∃ x, Loc w w' x := by
  cases a with
  | frame f => exact Or.inl f
  | accept x p hx hT hc =>
    obtain ⟨h1, h2, h3⟩ := canAccept_T' hT hc
    exact Or.inr ⟨x, loc_acceptPart h p hx hT h1 h2 h3⟩
  | clear x => exact Or.inr ⟨x, loc_clear h x⟩
  | shutdown x hk => exact Or.inr ⟨x, loc_shutdown h hk⟩
  | restore x hk => exact Or.inr ⟨x, loc_restoreDev h hk⟩
  | fail x hk _ => exact Or.inr ⟨x, loc_failDev h hk⟩

theorem Atom.good {F : Nat → Prop} {w w' : World} (h : FI w) (a : Atom F w w') : Good w w' := by
  rcases a.cases_loc h with f | ⟨x, l⟩
  · exact f.good h
  · exact l.good h

/-- A sequence of atomic moves, each starting in a state that satisfies the floor invariant. -/
inductive Moves (F : Nat → Prop) : World → World → Prop
  | refl (w : World) : Moves F w w
  | cons {w w' w'' : World} (h : FI w) (a : Atom F w w') (m : Moves F w' w'') : Moves F w w''

theorem Moves.one {F : Nat → Prop} {w w' : World} (h : FI w) (a : Atom F w w') : Moves F w w' :=
  .cons h a (.refl _)

theorem Moves.trans {F : Nat → Prop} {a b c : World} (h1 : Moves F a b) (h2 : Moves F b c) :
    Moves F a c := by
  induction h1 with
  | refl => exact h2
  | cons h a _ ih => exact .cons h a (ih h2)

theorem Moves.good {F : Nat → Prop} {w w' : World} (m : Moves F w w') (h : FI w) : Good w w' := by
  induction m with
  | refl => exact ⟨h, Keep.refl _⟩
  | cons h0 a _ ih =>
    have g := a.good h0
    exact g.trans (ih g.1)

theorem Moves.mono {F G : Nat → Prop} {w w' : World} (m : Moves F w w') (hFG : ∀ x, F x → G x) :
    Moves G w w' := by
  induction m with
  | refl => exact .refl _
  | cons h a _ ih =>
    refine .cons h ?_ ih
    cases a with
    | frame f => exact .frame f
    | accept x p hx hT hc => exact .accept x p hx hT hc
    | clear x => exact .clear x
    | shutdown x hk => exact .shutdown x hk
    | restore x hk => exact .restore x hk
    | fail x hk hF => exact .fail x hk (hFG x hF)

/-- The invariant afterwards, the two-state relation `Keep`, and the moves. -/
structure GM (F : Nat → Prop) (w w' : World) : Prop where
  fi : FI w'
  keep : Keep w w'
  mv : Moves F w w'

theorem GM.good {F : Nat → Prop} {w w' : World} (g : GM F w w') : Good w w' := ⟨g.fi, g.keep⟩

theorem GM.refl {F : Nat → Prop} {w : World} (h : FI w) : GM F w w := ⟨h, Keep.refl _, .refl _⟩

theorem GM.trans {F : Nat → Prop} {a b c : World} (h1 : GM F a b) (h2 : GM F b c) : GM F a c :=
  ⟨h2.fi, h1.keep.trans h2.keep, h1.mv.trans h2.mv⟩

theorem GM.of_atom {F : Nat → Prop} {w w' : World} (h : FI w) (a : Atom F w w') : GM F w w' :=
  ⟨(a.good h).1, (a.good h).2, .one h a⟩

theorem GM.of_fr {F : Nat → Prop} {w w' : World} (h : FI w) (f : Fr None_ w w') : GM F w w' :=
  .of_atom h (.frame f)

theorem GM.fr {F : Nat → Prop} {w w' w'' : World} (h : GM F w w') (f : Fr None_ w' w'') :
    GM F w w'' := h.trans (.of_fr h.fi f)

/-! ### what an atomic move does to the timer and the input slot of a device -/

/-- same timers (uid, remaining work), same part in process -/
def Same (w w' : World) (y : Nat) : Prop :=
  rem w'.env y = rem w.env y ∧ (tdm (w'.dev y)).part = (tdm (w.dev y)).part

theorem Same.refl (w : World) (y : Nat) : Same w w y := ⟨rfl, rfl⟩

theorem Same.trans {a b c : World} {y : Nat} (h1 : Same a b y) (h2 : Same b c y) : Same a c y :=
  ⟨h2.1.trans h1.1, h2.2.trans h1.2⟩

theorem same_of_fr {w w' : World} (f : Fr None_ w w') {y : Nat} (hk : (w.dev y).kind ≠ .source) :
    Same w w' y :=
  ⟨rem_congr f.now (f.fin y hk).1 (f.fin y hk).2, by rw [f.td y id]⟩

theorem same_of_loc_ne {w w' : World} {x y : Nat} (l : Loc w w' x) (hy : y ≠ x)
    (hk : (w.dev y).kind ≠ .source) : Same w w' y :=
  ⟨rem_congr l.fr.now (l.fr.fin y hy hk).1 (l.fr.fin y hy hk).2, by rw [l.fr.td y hy]⟩

theorem timerAt_rem_le_one {s : Env} {x : Nat} {t : TD} (ht : TimerAt s x t) :
    (rem s x).length ≤ 1 := by
  unfold rem
  cases hp : t.part with
  | none => rw [(ht.idle hp).1, (ht.idle hp).2]; simp
  | some p =>
    have hb := (ht.busy p hp).2
    split at hb
    · rw [hb.2]; simp [hb.1]
    · rw [hb.1]; simp [hb.2]

theorem timerAt_rem_nil {s : Env} {x : Nat} {t : TD} (ht : TimerAt s x t) (hp : t.part = none) :
    rem s x = [] := rem_nil (ht.idle hp).1 (ht.idle hp).2

theorem timerAt_rem_ne_nil {s : Env} {x : Nat} {t : TD} (ht : TimerAt s x t) {p : Nat}
    (hp : t.part = some p) : rem s x ≠ [] := by
  have hb := (ht.busy p hp).2
  unfold rem
  split at hb
  · obtain ⟨e, he⟩ := length_le_one_cases _ hb.1
    rw [he]; simp
  · obtain ⟨e, he⟩ := length_le_one_cases _ hb.2
    rw [he]; simp

/-- A local change at `x` that keeps the part in process and every timer keeps all timers. -/
theorem same_of_loc {w w' : World} {x : Nat} (h : FI w) (l : Loc w w' x)
    (hk : (w.dev x).kind ≠ .source)
    (hpart : (tdm (w'.dev x)).part = (tdm (w.dev x)).part)
    (hfw : ∀ u r, (u, r) ∈ rem w.env x → (u, r) ∈ rem w'.env x) : Same w w' x := by
  refine ⟨?_, hpart⟩
  have ht := h.timer x hk
  have ht' := l.at_ hk
  cases hp : (tdm (w.dev x)).part with
  | none =>
    rw [timerAt_rem_nil ht hp, timerAt_rem_nil ht' (hpart.trans hp)]
  | some p =>
    have h1 := timerAt_rem_le_one ht
    have h2 := timerAt_rem_le_one ht'
    have h3 := timerAt_rem_ne_nil ht hp
    match hr : rem w.env x, h1, h3 with
    | [a], _, _ =>
      have hm := hfw a.1 a.2 (by rw [hr]; exact List.mem_singleton.mpr rfl)
      match hr' : rem w'.env x, h2, hm with
      | [b], _, hm =>
        have : a = b := List.mem_singleton.mp hm
        rw [this]
      | [], _, hm => cases hm
    | [], _, h3 => exact absurd rfl h3

/-- Emptying the output slot: timers and input slots are untouched. -/
theorem same_clear (w : World) (x y : Nat) :
    Same w (w.modDev x (fun d => { d with output := none })) y := by
  refine ⟨rfl, ?_⟩
  by_cases hxy : x = y
  · subst hxy
    by_cases hx : x < w.devs.length
    · rw [dev_modDev_same hx]; simp [tdm]
    · rw [modDev_out_of_range (Nat.le_of_not_lt hx)]
  · rw [dev_modDev_ne hxy]

/-- A maintenance shutdown keeps the timer of the processor (now paused, same remaining work) and
its part in process. -/
theorem same_shutdown {w : World} {x : Nat} (h : FI w) (hk : (w.dev x).kind = .processor) :
    Same w (w.shutdownDev x false none) x := by
  have hx := lt_of_processor hk
  have hT : isT (w.dev x).kind = true := by rw [hk]; rfl
  have ht := h.timer x (isT_ne_source hT)
  cases hs : (w.dev x).shutDown
  · rw [shutdownDev_eq_up w false none hx hs]
    simp only [Bool.false_eq_true, if_false]
    have hasset : ∀ e ∈ finE w.env x, e.asset = (w.dev x).aid :=
      fun e he => ht.asset e (List.mem_append.mpr (Or.inl he))
    obtain ⟨hE, hP⟩ := fin_pause_self hasset
    have hd : World.dev { w with
        devs := w.devs.set x (shutDev w.now (w.dev x)), env := w.env.pause (w.dev x).aid,
        results := w.results ++ shutLog x (w.dev x).nShutCbs false none } x =
        shutDev w.now (w.dev x) := getD_set_same _ _ _ _ hx
    have hop : opT (tdm (w.dev x)) = true := by
      rw [opT_proc (show (tdm (w.dev x)).kind = .processor from hk)]
      show (!(w.dev x).shutDown) = true
      rw [hs]; rfl
    refine ⟨?_, ?_⟩
    · show rem (w.env.pause (w.dev x).aid) x = rem w.env x
      unfold rem
      rw [hE, hP]
      simp only [List.map_nil, List.nil_append, List.map_append, List.map_map]
      have hnow : (w.env.pause (w.dev x).aid).now = w.env.now := rfl
      rw [hnow]
      cases hp : (w.dev x).part with
      | none =>
        have hi := ht.idle (by rw [tdm_part hT]; exact hp)
        rw [hi.1, hi.2]; rfl
      | some p =>
        obtain ⟨ho, hb⟩ := ht.busy p (by rw [tdm_part hT]; exact hp)
        rw [hop] at hb
        simp only [if_true] at hb
        rw [hb.2]
        simp [Function.comp_def]
    · rw [hd, tdm_shutDev]
  · rw [shutdownDev_eq_down w x false none hs]
    simp only [Bool.false_and, Bool.false_eq_true, if_false]
    exact Same.refl w x

/-- The restoration of a processor keeps its timer (pending again, same remaining work) and its
part in process. -/
theorem same_restore {w : World} {x : Nat} (h : FI w) (hk : (w.dev x).kind = .processor) :
    Same w (w.restoreDev x) x := by
  have hx := lt_of_processor hk
  have hT : isT (w.dev x).kind = true := by rw [hk]; rfl
  have hns := isT_ne_source hT
  have ht := h.timer x hns
  cases hs : (w.dev x).shutDown
  · rw [restoreDev_eq_up w x hs]; exact Same.refl w x
  · have l := loc_restoreDev h hk
    have hq := restoreDev_quiet w x hs
    have hkk : ((w.restoreDev x).dev x).kind = (w.dev x).kind := (l.fr.ka x).1
    have hT' : isT ((w.restoreDev x).dev x).kind = true := by rw [hkk]; exact hT
    refine same_of_loc h l hns ?_ ?_
    · rw [tdm_part hT', tdm_part hT]
      have := core_eq_dev_part (core_of_quiet_eq hq) x
      rw [this]
      show ((w.setDev x (restDev w.now (w.dev x))).dev x).part = _
      rw [dev_setDev_same hx]
      rfl
    · intro u r hm
      have hop : opT (tdm (w.dev x)) = false := by
        rw [opT_proc (show (tdm (w.dev x)).kind = .processor from hk)]
        show (!(w.dev x).shutDown) = false
        rw [hs]; rfl
      rcases mem_rem.mp hm with ⟨e, he, _, _⟩ | ⟨e, he, hu, hr⟩
      · have := op_of_pending ht he
        rw [hop] at this; cases this
      · obtain ⟨h1, h2, h3⟩ := mem_finP.mp he
        have ha := ht.asset e (List.mem_append.mpr (Or.inr he))
        obtain ⟨q, hq1, e', he', g1, g2, _, _, g5, g6⟩ :=
          C06.restore_preserves_remaining_delay w x hs h.ei.2 e h1 ha
        refine mem_rem.mpr (Or.inl ⟨e', mem_finE.mpr ⟨he', by rw [g5]; exact h2, by rw [g2]; exact h3⟩,
          by rw [g1]; exact hu, ?_⟩)
        have hn : (w.restoreDev x).env.now = w.now := l.fr.now
        rw [hr, hq1, hn]
        simp only [Option.getD_some]
        omega

/-- What a sequence of moves does to a device that does not fail: if it had a timer, it still has
exactly that timer and the same part in process. -/
def Trk (F : Nat → Prop) (w w' : World) : Prop :=
  ∀ x, (w.dev x).kind ≠ .source → ¬ F x → rem w.env x = [] ∨ Same w w' x

theorem Atom.trk {F : Nat → Prop} {w w' : World} (h : FI w) (a : Atom F w w') : Trk F w w' := by
  intro y hk hF
  cases a with
  | frame f => exact Or.inr (same_of_fr f hk)
  | accept x p hx hT hc =>
    obtain ⟨h1, h2, h3⟩ := canAccept_T' hT hc
    by_cases hy : y = x
    · subst hy
      exact Or.inl (timerAt_rem_nil (h.timer y hk) (by rw [tdm_part hT]; exact h1))
    · exact Or.inr (same_of_loc_ne (loc_acceptPart h p hx hT h1 h2 h3) hy hk)
  | clear x => exact Or.inr (same_clear w x y)
  | shutdown x hkx =>
    by_cases hy : y = x
    · subst hy; exact Or.inr (same_shutdown h hkx)
    · exact Or.inr (same_of_loc_ne (loc_shutdown h hkx) hy hk)
  | restore x hkx =>
    by_cases hy : y = x
    · subst hy; exact Or.inr (same_restore h hkx)
    · exact Or.inr (same_of_loc_ne (loc_restoreDev h hkx) hy hk)
  | fail x hkx hFx =>
    by_cases hy : y = x
    · subst hy; exact absurd hFx hF
    · exact Or.inr (same_of_loc_ne (loc_failDev h hkx) hy hk)

theorem Moves.trk {F : Nat → Prop} {w w' : World} (m : Moves F w w') : Trk F w w' := by
  induction m with
  | refl w => exact fun x _ _ => Or.inr (Same.refl w x)
  | cons h a _ ih =>
    intro x hk hF
    rcases a.trk h x hk hF with h0 | h1
    · exact Or.inl h0
    · have hk' := hk
      rw [← ((a.good h).2.ka x).1] at hk'
      rcases ih x hk' hF with h2 | h2
      · left; rw [← h1.1]; exact h2
      · exact Or.inr (h1.trans h2)

end C06T
end SimProc
