/-
C14W — relations between event queues that the library operations preserve (`Cong`):
* `C14.EnvEq` — equal up to the numbering of events;
* `SplitRel` — the simulation relation of `C14.run_split` (equal up to uids and terminate events,
  both inside a run).
-/
import SimProc.Proofs.C14WStep
import SimProc.Props.C14Split

namespace SimProc
namespace C14W
open World C01W Split

/-! ### equal up to uids -/

theorem map_nu_foldl_insort (ar : Arith) (now : Int) (px qx : List Event) :
    (px.foldl (fun q e => insort (sh ar now e) q) qx).map nu =
      (px.map nu).foldl (fun q e => insort (sh ar now e) q) (qx.map nu) := by
  induction px generalizing qx with
  | nil => rfl
  | cons e es ih =>
    simp only [List.foldl_cons, List.map_cons]
    rw [ih, insort_map_nu, nu_sh]

theorem envEq_sched {x y : Env} (h : C14.EnvEq x y) (τ a : Int) (act : Nat) (p : Int) (wt : Nat) :
    C14.EnvEq (x.apply Arith.exact (.sched τ a act p wt)).1 (y.apply Arith.exact (.sched τ a act p wt)).1 := by
  obtain ⟨hn, ht, he, hp⟩ := h
  by_cases hlt : τ < x.now
  · have hlt' : τ < y.now := hn ▸ hlt
    simp only [Env.apply, Env.schedule, hlt, hlt', if_true]; exact ⟨hn, ht, he, hp⟩
  · have hlt' : ¬ τ < y.now := hn ▸ hlt
    simp only [Env.apply, Env.schedule, hlt, hlt', if_false]
    refine ⟨hn, ht, ?_, hp⟩
    show (insort _ _).map C14.noUid = (insort _ _).map C14.noUid
    rw [C14.noUid_eq, insort_map_nu, insort_map_nu]
    rw [C14.noUid_eq] at he
    rw [he]
    rfl

theorem envEq_pause {x y : Env} (h : C14.EnvEq x y) (a : Int) : C14.EnvEq (x.pause a) (y.pause a) := by
  obtain ⟨hn, ht, he, hp⟩ := h
  rw [C14.noUid_eq] at he hp
  refine ⟨hn, ht, ?_, ?_⟩
  · show (x.events.filter _).map C14.noUid = (y.events.filter _).map C14.noUid
    rw [C14.noUid_eq, map_nu_filter _ (fun e => rfl), map_nu_filter _ (fun e => rfl), he]
  · show (x.paused ++ _).map C14.noUid = (y.paused ++ _).map C14.noUid
    rw [C14.noUid_eq, List.map_append, List.map_append, hp, hn]
    congr 1
    simp only [List.map_map]
    have : ∀ l : List Event, List.map (nu ∘ fun e => { e with pausedAt := some y.now })
        (l.filter fun e => e.asset == a) =
        List.map (fun e => { e with pausedAt := some y.now }) ((l.map nu).filter fun e => e.asset == a) := by
      intro l
      rw [← map_nu_filter _ (fun e => rfl), List.map_map]
      rfl
    rw [this, this, he]

theorem envEq_unpause {x y : Env} (h : C14.EnvEq x y) (a : Int) :
    C14.EnvEq (x.unpause Arith.exact a) (y.unpause Arith.exact a) := by
  obtain ⟨hn, ht, he, hp⟩ := h
  rw [C14.noUid_eq] at he hp
  refine ⟨hn, ht, ?_, ?_⟩
  · show (List.foldl _ x.events _).map C14.noUid = (List.foldl _ y.events _).map C14.noUid
    rw [C14.noUid_eq]
    have := map_nu_foldl_insort Arith.exact x.now (x.paused.filter fun e => e.asset == a) x.events
    have h2 := map_nu_foldl_insort Arith.exact y.now (y.paused.filter fun e => e.asset == a) y.events
    simp only [sh] at this h2
    rw [this, h2, map_nu_filter _ (fun e => rfl), map_nu_filter _ (fun e => rfl), he, hp, hn]
  · show (x.paused.filter _).map C14.noUid = (y.paused.filter _).map C14.noUid
    rw [C14.noUid_eq, map_nu_filter _ (fun e => rfl), map_nu_filter _ (fun e => rfl), hp]

theorem envEq_cancel {x y : Env} (h : C14.EnvEq x y) (a : Int) :
    C14.EnvEq (x.cancel a) (y.cancel a) := by
  obtain ⟨hn, ht, he, hp⟩ := h
  rw [C14.noUid_eq] at he hp
  refine ⟨hn, ht, ?_, ?_⟩
  · show (x.events.map _).map C14.noUid = (y.events.map _).map C14.noUid
    rw [C14.noUid_eq, map_nu_cancel, map_nu_cancel, he]
  · show (x.paused.map _).map C14.noUid = (y.paused.map _).map C14.noUid
    rw [C14.noUid_eq, map_nu_cancel, map_nu_cancel, hp]

/-- Equality up to uids is preserved by every queue operation (same weight key on both sides). -/
theorem cong_envEq (s m : Nat) : Cong C14.EnvEq s m s m where
  sched := fun τ a act p h _ _ => envEq_sched h τ a act p _
  pause := fun a h _ => envEq_pause h a
  unpause := fun a h _ => envEq_unpause h a
  cancel := fun a h _ => envEq_cancel h a

/-! ### the simulation relation of `run_split` -/

/-- Both queues are inside a run (ending at `Tx` resp. `Ty`), neither run has been terminated, the
clocks agree, and the queues are equal up to uids and terminate events. -/
def SplitRel (Tx : Int) (tx : Nat) (Ty : Int) (ty : Nat) (x y : Env) : Prop :=
  C01.RunInv Tx tx x ∧ C01.RunInv Ty ty y ∧ x.now = y.now ∧ EqS x y ∧
    x.terminated = false ∧ y.terminated = false

theorem splitRel_apply {Tx Ty : Int} {tx ty : Nat} {x y : Env} (h : SplitRel Tx tx Ty ty x y)
    (op : EnvOp) (hop : AOp op) :
    SplitRel Tx tx Ty ty (x.apply Arith.exact op).1 (y.apply Arith.exact op).1 := by
  obtain ⟨hx, hy, hn, he, htx, hty⟩ := h
  have hs : op = .step → False := fun h => hop.2 h
  have h1 := eq_apply hx hy hn he op hop
  exact ⟨C01.runInv_apply Arith.exact op hx hop.1 (fun h => (hs h).elim),
    C01.runInv_apply Arith.exact op hy hop.1 (fun h => (hs h).elim), h1.1, h1.2,
    by rw [terminated_apply _ _ _ hop, htx], by rw [terminated_apply _ _ _ hop, hty]⟩

theorem cong_splitRel (Tx : Int) (tx : Nat) (Ty : Int) (ty : Nat) (s m : Nat) :
    Cong (SplitRel Tx tx Ty ty) s m s m where
  sched := fun τ a act p h ha hp => splitRel_apply h _ ⟨⟨ha, hp⟩, by intro h; cases h⟩
  pause := fun a h ha => splitRel_apply h (.pause a) ⟨ha, by intro h; cases h⟩
  unpause := fun a h ha => splitRel_apply h (.unpause a) ⟨ha, by intro h; cases h⟩
  cancel := fun a h ha => splitRel_apply h (.cancel a) ⟨ha, by intro h; cases h⟩

end C14W
end SimProc
