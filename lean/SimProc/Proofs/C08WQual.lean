/-
C08W, part 9: without value/quality-changing callbacks (`NoCb`) the functions local to a device that
is not a batcher leave the records of the existing parts untouched, apart from what a source
generates (`PX`: the old parts table is a prefix of the new one).
-/
import SimProc.Proofs.C08WCb
import SimProc.Proofs.C08WLocal
namespace SimProc
namespace C08W
open World C02V C08L FloorCoreL

/-- A receive / finish callback that changes neither value nor quality of the part. -/
def trivialCb (c : PartCb) : Prop := c.addValue = 0 ∧ c.setQuality = none

instance (c : PartCb) : Decidable (trivialCb c) := by unfold trivialCb; infer_instance

def NoCbP (x : Pred × List PartCb × List PartCb) : Prop :=
  (∀ c ∈ x.2.1, trivialCb c) ∧ (∀ c ∈ x.2.2, trivialCb c)

instance (x : Pred × List PartCb × List PartCb) : Decidable (NoCbP x) := by unfold NoCbP; infer_instance

/-- No device has a callback that changes value or quality of parts. -/
def NoCb (w : World) : Prop := ∀ x ∈ pcv w, NoCbP x

instance (w : World) : Decidable (NoCb w) := by unfold NoCb; infer_instance

theorem NoCb.of_pcv {w w' : World} (h : NoCb w) (e : pcv w' = pcv w) : NoCb w' := by
  unfold NoCb; rw [e]; exact h

theorem NoCb.dev {w : World} (h : NoCb w) (x : Nat) : NoCbP (pcd (w.dev x)) := by
  by_cases hx : x < w.devs.length
  · apply h
    unfold pcv World.dev
    rw [List.getD_eq_getElem?_getD, List.getElem?_eq_getElem hx]
    exact List.mem_map.2 ⟨_, List.getElem_mem hx, rfl⟩
  · rw [dev_of_ge w x (Nat.le_of_not_lt hx)]
    exact ⟨fun c hc => (by cases hc), fun c hc => (by cases hc)⟩

theorem cbPart_trivial {c : PartCb} (h : trivialCb c) (r : PartRec) : cbPart c r = r := by
  unfold cbPart; rw [h.1, h.2]; simp

theorem applyPartCb_parts_trivial (w : World) (x p : Nat) {c : PartCb} (h : trivialCb c) :
    (w.applyPartCb x p c).parts = w.parts := by
  rw [applyPartCb_parts]
  split
  · rfl
  · rw [modPart_of_fix (cbPart_trivial h _)]

theorem foldl_applyPartCb_parts (l : List PartCb) (hl : ∀ c ∈ l, trivialCb c) (w : World) (x p : Nat) :
    (l.foldl (fun w c => w.applyPartCb x p c) w).parts = w.parts := by
  induction l generalizing w with
  | nil => rfl
  | cons c l ih =>
    rw [List.foldl_cons, ih (fun c' hc' => hl c' (List.mem_cons_of_mem _ hc')),
      applyPartCb_parts_trivial _ _ _ (hl c (List.mem_cons_self ..))]

/-- The old parts table is a prefix of the new one. -/
def PX (w w' : World) : Prop := ∃ news, w'.parts = w.parts ++ news

theorem PX.refl (w : World) : PX w w := ⟨[], by simp⟩
theorem PX.trans {a b c : World} (h1 : PX a b) (h2 : PX b c) : PX a c := by
  obtain ⟨n1, e1⟩ := h1
  obtain ⟨n2, e2⟩ := h2
  exact ⟨n1 ++ n2, by rw [e2, e1, List.append_assoc]⟩
theorem PX.of_parts {w w' : World} (h : w'.parts = w.parts) : PX w w' := ⟨[], by simp [h]⟩

theorem PX.part {w w' : World} (h : PX w w') {q : Nat} (hq : q < w.parts.length) :
    w'.part q = w.part q := by
  obtain ⟨n, e⟩ := h
  unfold World.part
  rw [e]; exact getD_append_left _ _ _ _ hq

theorem PX.len {w w' : World} (h : PX w w') : w.parts.length ≤ w'.parts.length := by
  obtain ⟨n, e⟩ := h
  rw [e, List.length_append]; omega

/-- Writing the history of a new part (whose kids are new) keeps the old prefix. -/
theorem px_addHist_new {w0 w : World} {p d : Nat} (hpre : PX w0 w) (hp : w0.parts.length ≤ p)
    (hk : ∀ k ∈ ((w.part p).kids.getD []), w0.parts.length ≤ k) : PX w0 (w.addHist p d) := by
  obtain ⟨news, hn⟩ := hpre
  have hlen : (w.addHist p d).parts.length = w0.parts.length + news.length := by
    rw [addHist_parts_length, hn, List.length_append]
  refine ⟨(w.addHist p d).parts.drop w0.parts.length, ?_⟩
  apply List.ext_getElem?
  intro i
  by_cases hi : i < w0.parts.length
  · rw [List.getElem?_append_left hi]
    have hcount : (histIdxs w.parts p).count i = 0 := by
      rw [List.count_eq_zero]
      intro hmem
      rcases List.mem_cons.1 hmem with h | h
      · omega
      · have := hk i h; omega
    rw [addHist_parts, modAll_getElem?, hcount, hn, List.getElem?_append_left hi]
    cases w0.parts[i]? <;> rfl
  · rw [List.getElem?_append_right (Nat.le_of_not_lt hi), List.getElem?_drop]
    congr 1; omega

theorem PX.finishCycle (w : World) (x : Nat) (h : NoCb w) : PX w (w.finishCycle x) := by
  unfold World.finishCycle
  dsimp only
  split
  · -- source
    refine (?_ : PX w _).trans (PX.of_parts (schedulePass_parts ..))
    split
    · obtain ⟨news, h1, h2, h3⟩ := genPart_spec w x
      exact px_addHist_new (w0 := w) ⟨news, by simpa using h1⟩ h2 (by simpa using h3)
    · exact PX.refl _
  · exact PX.of_parts (by simp [finishCycleHandler_parts])
  · -- processor
    apply PX.of_parts
    split
    · split <;> simp [finishCycleHandler_parts]
    · rw [addRec_parts, foldl_preserve World.parts _ _ _ (fun w s => senseOutput_parts w s _),
        foldl_applyPartCb_parts]
      · split <;> simp [finishCycleHandler_parts]
      · have hp := pcv_dev (pcv_finishCycleHandler w x) x
        have := (h.dev x).2
        rw [← hp] at this
        exact this
  · exact PX.of_parts (finishCycleHandler_parts ..)

theorem PX.scheduleFinish (w : World) (x : Nat) (h : NoCb w) : PX w (w.scheduleFinish x) := by
  have key : PX w ((w.setDev x { w.dev x with offset := 0 }).finishCycle x) :=
    (PX.of_parts (setDev_parts ..)).trans
      (PX.finishCycle _ x (h.of_pcv (pcv_setDev_same _ _ _ rfl)))
  unfold World.scheduleFinish
  dsimp only
  repeat' split
  all_goals first
    | exact key
    | exact PX.of_parts (by simp)

theorem PX.tryMove (w : World) (x : Nat) (h : NoCb w) (hk : (w.dev x).kind ≠ .batcher) :
    PX w (w.tryMove x) := by
  unfold World.tryMove
  dsimp only
  split
  · -- buffer
    apply PX.of_parts
    repeat' split
    all_goals simp
  · rename_i hb; exact absurd hb hk
  · split
    · exact (PX.of_parts (setDev_parts ..)).trans
        (PX.scheduleFinish _ x (h.of_pcv (pcv_setDev_same _ _ _ rfl)))
    · exact PX.refl _
  · split
    · exact PX.scheduleFinish w x h
    · exact PX.refl _

theorem parts_recvBook (w : World) (x p : Nat) (h : NoCb w) : (recvBook w x p).parts = w.parts := by
  unfold recvBook
  dsimp only
  have key : ∀ w1 : World, pcv w1 = pcv w → w1.parts = w.parts →
      ((w1.dev x).recvCbs.foldl (fun w c => w.applyPartCb x p c) w1).parts = w.parts := by
    intro w1 e1 e2
    rw [foldl_applyPartCb_parts _ _ w1 x p, e2]
    have := (h.dev x).1
    rw [← pcv_dev e1 x] at this
    exact this
  apply key
  · rw [pcv_addRec]; split
    · exact pcv_setDev_same _ _ _ rfl
    · rw [pcv_addRec]; exact pcv_setDev_same _ _ _ rfl
    · rfl
  · rw [addRec_parts]; split <;> simp

theorem PX.onReceived (w : World) (x p : Nat) (h : NoCb w) (hk : (w.dev x).kind ≠ .batcher) :
    PX w (w.onReceived x p) := by
  rw [C02V.onReceived_eq]
  have h0 : PX w (recvBook w x p) := PX.of_parts (parts_recvBook w x p h)
  have hpc : pcv (recvBook w x p) = pcv w := by unfold recvBook; frame
  have hst : st (recvBook w x p) = st w := by unfold recvBook; frame
  split
  · exact h0.trans (PX.tryMove _ x (h.of_pcv hpc) (by rw [kind_of_st hst]; exact hk))
  · exact h0

end C08W
end SimProc
