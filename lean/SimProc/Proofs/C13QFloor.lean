/-
C13Q, part 2: every function of the factory floor other than shutdown / failure / restore is a frame
`QK x` — it never pauses, resumes or cancels anything, and it queues a pass / release event of `x` only
with the asset id of `x` and only while `x` is operational.
-/
import SimProc.Proofs.C13QBase
namespace SimProc
namespace C13Q
open World FloorCoreL C06W

variable {x : Nat}

macro "flg" : term => `(Or.inr ⟨by first | rfl | (symm; assumption), rfl, rfl, id⟩)

theorem op_of_kind {w : World} {y : Nat} (h : (w.dev y).kind ≠ .processor) : w.operational y = true := by
  unfold World.operational
  cases hk : (w.dev y).kind <;> first | rfl | exact absurd hk h

section floor
variable (w : World)

theorem qk_setWaiting (y : Nat) (a b : Bool) : QK x w (w.setWaiting y a b) := by
  unfold World.setWaiting; qk_auto
qk_lemma3 qk_setWaiting

theorem qk_schedulePass (y : Nat) (o : Int) (hy : y = x → w.operational x = true) :
    QK x w (w.schedulePass y o) := by
  unfold World.schedulePass
  dsimp only
  split
  · exact QK.refl _
  · have h1 : QK x w (w.setDev y { w.dev y with waitingDS := false }) :=
      qk_setDev _ _ _ flg
    refine h1.trans (qk_schedLib _ _ _ _ _ ?_)
    intro e
    rcases e with e | e
    · injection e with e
      subst e
      exact ⟨h1.aid.symm, by rw [h1.op]; exact hy rfl⟩
    · cases e

theorem qk_notify_aux (f : Nat) :
    ∀ (w : World) (y : Nat), QK x w (notifyUp f w y) ∧ QK x w (spaceAvail f w y) := by
  induction f with
  | zero =>
    intro w y
    exact ⟨by unfold notifyUp; exact qk_setErr _ _, by unfold spaceAvail; exact qk_setErr _ _⟩
  | succ f ih =>
    intro w y
    have hup : ∀ (w : World) (l : List Nat), QK x w (l.foldl (fun w u => spaceAvail f w u) w) :=
      fun w l => QK.foldl _ l w (fun w a => (ih w a).2)
    have hnu : ∀ (w : World) (l : List Nat), QK x w (l.foldl (fun w u => notifyUp f w u) w) :=
      fun w l => QK.foldl _ l w (fun w a => (ih w a).1)
    have h1 : QK x w (notifyUp (f + 1) w y) := by
      unfold notifyUp
      simp only []
      repeat' split
      all_goals first
        | exact QK.refl _ | exact (qk_setWaiting ..).trans (hup ..) | exact hnu .. | exact hup ..
    refine ⟨h1, ?_⟩
    unfold spaceAvail
    simp only []
    repeat' split
    all_goals first
      | exact QK.refl _ | exact (ih w y).1 | exact (ih _ _).2
      | (rename_i hc
         refine qk_schedulePass _ _ _ ?_
         intro e; subst e
         simp only [Bool.and_eq_true] at hc
         exact hc.1)

theorem qk_notifyUp (f : Nat) (y : Nat) : QK x w (notifyUp f w y) := (qk_notify_aux f w y).1
theorem qk_spaceAvail (f : Nat) (y : Nat) : QK x w (spaceAvail f w y) := (qk_notify_aux f w y).2
theorem qk_notify (y : Nat) : QK x w (w.notify y) := qk_notifyUp w _ y
theorem qk_spaceAvailable (y : Nat) : QK x w (w.spaceAvailable y) := qk_spaceAvail w _ y
qk_lemma1 qk_notify
qk_lemma1 qk_spaceAvailable

macro_rules | `(tactic| qks) => `(tactic| refine QK.trans ?_ (QK.foldl _ _ _ (fun _ _ => ?_)))

theorem qk_releaseReserved (y : Nat) : QK x w (w.releaseReserved y) := by
  unfold World.releaseReserved; qk_auto
qk_lemma1 qk_releaseReserved

theorem qk_procAcquire (y : Nat) : QK x w (w.procAcquire y).1 := by
  unfold World.procAcquire; qk_auto
qk_lemma1 qk_procAcquire

theorem qk_applyPartCb (y p : Nat) (c : PartCb) : QK x w (w.applyPartCb y p c) := by
  rw [applyPartCb_eq]; unfold cbDev; qk_auto
qk_lemma3 qk_applyPartCb

theorem qk_addHist (p d : Nat) : QK x w (w.addHist p d) := by
  unfold World.addHist; qk_auto
qk_lemma2 qk_addHist

theorem qk_dropHist (p : Nat) : QK x w (w.dropHist p) := by
  unfold World.dropHist; qk_auto
qk_lemma1 qk_dropHist

theorem qk_senseOutput (s p : Nat) : QK x w (w.senseOutput s p) := by
  unfold World.senseOutput; qk_auto
qk_lemma2 qk_senseOutput

theorem qk_setBlock (y : Nat) (b : Bool) : QK x w (w.setBlock y b) := by
  unfold World.setBlock; qk_auto
qk_lemma2 qk_setBlock

theorem qk_procResourceCb (y : Nat) : QK x w (w.procResourceCb y) := by
  unfold World.procResourceCb; qk_auto
qk_lemma1 qk_procResourceCb

theorem qk_releaseIfIdle (y : Nat) : QK x w (w.releaseIfIdle y) := by
  unfold World.releaseIfIdle; qk_auto
qk_lemma1 qk_releaseIfIdle

/-- `adjust_part_count` exists on sources only: for a device without a part budget it does nothing. -/
theorem qk_adjustParts (y : Nat) (v : Int) (hm : y = x → (w.dev x).maxParts = none) :
    QK x w (w.adjustParts y v) := by
  unfold World.adjustParts
  dsimp only
  split
  · exact QK.refl _
  · rename_i m hmm
    have hy : y ≠ x := by
      intro e; subst e; rw [hm rfl] at hmm; cases hmm
    split
    · refine QK.trans ?_ (qk_schedulePass _ _ _ (fun e => absurd e hy))
      exact qk_setDev _ _ _ (Or.inl hy)
    · exact qk_setDev _ _ _ (Or.inl hy)

theorem qk_genPart (y : Nat) : QK x w (w.genPart y).1 := by
  cases h : ((w.dev y).genBatch == 0)
  · rw [C02V.genPart_batch w y h]; exact qk_of_fields rfl rfl
  · rw [C02V.genPart_leaf w y h]; exact qk_of_fields rfl rfl

theorem qk_finishCycleHandler (y : Nat) : QK x w (w.finishCycleHandler y) := by
  unfold World.finishCycleHandler
  dsimp only
  split
  · exact qk_setErr _ _
  · rename_i hop
    split
    · exact qk_setErr _ _
    · split
      · exact qk_setErr _ _
      · rename_i p _ _
        have h1 : QK x w (w.setDev y { w.dev y with output := some p, part := none }) :=
          qk_setDev _ _ _ flg
        refine h1.trans (qk_schedulePass _ _ _ ?_)
        intro e; subst e
        rw [h1.op]; simpa using hop

/-- `_finish_cycle` of `y`: for `y = x` only while `x` is operational (the assertion of the handler
fails otherwise, but the processor's bookkeeping would still queue a release event). -/
theorem qk_finishCycle (y : Nat) (hy : y = x → w.operational x = true) : QK x w (w.finishCycle y) := by
  cases hk : (w.dev y).kind
  case source =>
    rw [C06W.finishCycle_source_eq w y hk]
    have h0 : QK x w (if (w.dev y).output.isNone then
        ((w.genPart y).1.modDev y (fun d => { d with output := some (w.genPart y).2 })).addHist
          (w.genPart y).2 y else w) := by
      split
      · have h1 : QK x w (w.genPart y).1 := qk_genPart w y
        generalize w.genPart y = g at h1 ⊢
        obtain ⟨w1, p⟩ := g
        exact (h1.trans (qk_modDev _ _ _ flg)).trans (qk_addHist _ _ _)
      · exact QK.refl _
    refine h0.trans (qk_schedulePass _ _ _ ?_)
    intro e
    rw [h0.op]; exact hy e
  case sink =>
    unfold World.finishCycle
    simp only [hk]
    refine QK.trans ?_ (qk_notify _ _)
    refine QK.trans ?_ (qk_modDev _ _ _ flg)
    exact qk_finishCycleHandler w y
  case processor =>
    rw [finishCycle_proc w hk]
    unfold World.finishCbs World.finishBook
    dsimp only
    have h0 := qk_finishCycleHandler (x := x) w y
    have h1 : QK x w ((w.finishCycleHandler y).setDev y
        { (w.finishCycleHandler y).dev y with
          timeInUse := ((w.finishCycleHandler y).dev y).timeInUse +
            ((w.finishCycleHandler y).now - ((w.finishCycleHandler y).dev y).lastUseStart.getD
              (w.finishCycleHandler y).now),
          lastUseStart := none }) := h0.trans (qk_setDev _ _ _ flg)
    have h2 : ∀ t p, QK x w (((w.finishCycleHandler y).setDev y
        { (w.finishCycleHandler y).dev y with
          timeInUse := ((w.finishCycleHandler y).dev y).timeInUse +
            ((w.finishCycleHandler y).now - ((w.finishCycleHandler y).dev y).lastUseStart.getD
              (w.finishCycleHandler y).now),
          lastUseStart := none }).schedLib t ((w.finishCycleHandler y).dev y).aid
            (.releaseIfIdle y) p) := by
      intro t p
      refine h1.trans (qk_schedLib _ _ _ _ _ ?_)
      intro e
      rcases e with e | e
      · cases e
      · injection e with e
        subst e
        refine ⟨?_, by rw [h1.op]; exact hy rfl⟩
        rw [h1.aid, h0.aid]
    split
    · split
      · exact h2 _ _
      · exact h1
    · refine QK.trans ?_ (qk_addRec _ _)
      refine QK.trans ?_ (QK.foldl _ _ _ (fun _ _ => qk_senseOutput _ _ _))
      refine QK.trans ?_ (QK.foldl _ _ _ (fun _ _ => qk_applyPartCb _ _ _ _))
      split
      · exact h2 _ _
      · exact h1
  all_goals
    unfold World.finishCycle
    simp only [hk]
    exact qk_finishCycleHandler w y

theorem qk_scheduleFinish (y : Nat) (hy : y = x → w.operational x = true) :
    QK x w (w.scheduleFinish y) := by
  have h1 : QK x w (w.setDev y { w.dev y with offset := 0 }) :=
    qk_setDev _ _ _ flg
  by_cases hc : 0 < w.finishDelay y
  · rw [scheduleFinish_pos w y hc]
    exact h1.trans (qk_schedLib _ _ _ _ _ (by intro e; rcases e with e | e <;> cases e))
  · rw [scheduleFinish_nonpos w y (Int.not_lt.1 hc)]
    exact h1.trans (qk_finishCycle _ y (fun e => by rw [h1.op]; exact hy e))

theorem QK.then_pass {w w1 : World} (h : QK x w w1) (y : Nat) (o : Int)
    (hy : y = x → w.operational x = true) : QK x w (w1.schedulePass y o) :=
  h.trans (qk_schedulePass _ _ _ (fun e => by rw [h.op]; exact hy e))

theorem QK.then_finish {w w1 : World} (h : QK x w w1) (y : Nat)
    (hy : y = x → w.operational x = true) : QK x w (w1.scheduleFinish y) :=
  h.trans (qk_scheduleFinish _ _ (fun e => by rw [h.op]; exact hy e))

theorem qk_batchGet (y p : Nat) : QK x w (C02V.batchGet w y p).1 := by
  unfold C02V.batchGet; qk_auto

theorem qk_batchShell (y : Nat) : QK x w (C02V.batchShell w y).1 := by
  unfold C02V.batchShell
  split
  · exact QK.refl _
  · dsimp only [World.newPart]
    refine QK.trans ?_ (qk_modDev _ _ _ flg)
    exact qk_of_fields rfl rfl

theorem qk_batchAdd (y t : Nat) : QK x w (C02V.batchAdd w y t) := by
  unfold C02V.batchAdd
  split
  · exact qk_modDev _ _ _ flg
  · have h1 := qk_batchShell (x := x) w y
    dsimp only
    split
    · exact (h1.trans (qk_modPart _ _ _)).trans (qk_modDev _ _ _ flg)
    · exact h1.trans (qk_modPart _ _ _)

theorem qk_batcherLoop (f : Nat) : ∀ (w : World) (y : Nat), QK x w (batcherLoop f w y) := by
  induction f with
  | zero => intro w y; exact QK.refl _
  | succ f ih =>
    intro w y
    rw [C02V.batcherLoop_succ]
    split
    · rename_i p _ _
      exact ((qk_batchGet w y p).trans (qk_batchAdd _ y _)).trans (ih _ y)
    · exact QK.refl _

theorem qk_tryMove (y : Nat) : QK x w (w.tryMove y) := by
  cases hk : (w.dev y).kind
  case buffer =>
    have hopy : y = x → w.operational x = true := by
      intro e; subst e; exact op_of_kind (by rw [hk]; decide)
    unfold World.tryMove
    simp only [hk]
    split
    · exact QK.refl _
    · split
      · refine QK.then_pass ?_ _ _ hopy
        refine QK.trans ?_ (qk_notify _ _)
        exact qk_setDev _ _ _ flg
      · refine QK.trans ?_ (qk_notify _ _)
        exact qk_setDev _ _ _ flg
  case batcher =>
    have hopy : y = x → w.operational x = true := by
      intro e; subst e; exact op_of_kind (by rw [hk]; decide)
    unfold World.tryMove
    simp only [hk]
    repeat' split
    all_goals first
      | exact QK.refl _
      | exact qk_setDev _ _ _ flg
      | exact qk_batcherLoop _ _ _
      | (refine QK.then_pass ?_ _ _ hopy; exact qk_batcherLoop _ _ _)
  case processor =>
    rw [tryMove_proc w hk]
    split
    · rename_i hc
      refine QK.then_finish ?_ _ ?_
      · exact qk_setDev _ _ _ flg
      · intro e
        subst e
        simp only [Bool.and_eq_true] at hc
        exact hc.1.1
    · exact QK.refl _
  all_goals
    have hopy : y = x → w.operational x = true := by
      intro e; subst e; exact op_of_kind (by rw [hk]; decide)
    unfold World.tryMove
    simp only [hk]
    split
    · exact qk_scheduleFinish _ _ hopy
    · exact QK.refl _

theorem qk_recvTail (y p : Nat) : QK x w (C13W.recvTail w y p) := by
  unfold C13W.recvTail
  dsimp only
  have h1 : QK x w ((w.addRec (.received y w.now p (w.part p).quality (w.partValue p)))) :=
    qk_addRec _ _
  split
  · refine QK.trans ?_ (qk_tryMove _ _)
    exact h1.trans (QK.foldl _ _ _ (fun _ _ => qk_applyPartCb _ _ _ _))
  · exact h1.trans (QK.foldl _ _ _ (fun _ _ => qk_applyPartCb _ _ _ _))

theorem qk_recvHead (y p : Nat) : QK x w (C13W.recvHead w y p) := by
  unfold C13W.recvHead
  split
  · exact qk_setDev _ _ _ flg
  · refine QK.trans ?_ (qk_addRec _ _)
    exact qk_setDev _ _ _ flg
  · exact QK.refl _

theorem qk_onReceived (y p : Nat) : QK x w (w.onReceived y p) := by
  rw [C13W.onReceived_eq]
  exact (qk_recvHead w y p).trans (qk_recvTail _ y p)

theorem qk_acceptPart (y p : Nat) : QK x w (w.acceptPart y p) := by
  unfold World.acceptPart
  dsimp only
  refine QK.trans ?_ (qk_onReceived _ _ _)
  refine QK.trans ?_ (qk_setWaiting _ _ _ _)
  refine QK.trans ?_ (qk_addHist _ _ _)
  refine QK.trans ?_ (qk_modDev _ _ _ flg)
  split
  · exact qk_of_fields rfl rfl
  · exact QK.refl _

end floor

/-! ### the hand-over -/

theorem qk_tryList (g : World → Nat → Nat → World × Bool)
    (hg : ∀ w y p, QK x w (g w y p).1) (l : List Nat) :
    ∀ (w : World) (p : Nat), QK x w (tryList g w l p).1 := by
  induction l with
  | nil => intro w p; exact QK.refl _
  | cons y ys ih =>
    intro w p
    unfold tryList
    have h1 := hg w y p
    cases hgy : g w y p with
    | mk w' b =>
      rw [hgy] at h1
      cases b with
      | true => exact h1
      | false => exact h1.trans (ih w' p)

theorem qk_give (f : Nat) : ∀ (w : World) (y p : Nat), QK x w (give f w y p).1 := by
  induction f with
  | zero => intro w y p; exact qk_setErr _ _
  | succ f ih =>
    intro w y p
    have hl := qk_tryList (x := x) (give f) ih
    unfold give
    simp only []
    split
    iterate 5
      split
      · dsimp only
        exact qk_acceptPart w y p
      · exact QK.refl _
    · -- processor
      split
      · have ma : QK x w (w.procAcquire y).1 := qk_procAcquire w y
        split
        · rename_i w1 hw1
          rw [hw1] at ma
          dsimp only at ma ⊢
          exact ma.trans (qk_acceptPart w1 y p)
        · rename_i w1 hw1
          rw [hw1] at ma
          exact ma
      · exact QK.refl _
    · -- gate
      split
      · exact QK.refl _
      · split
        · exact QK.refl _
        · have g1 : QK x w (w.addHist p y) := qk_addHist ..
          have := hl ((w.addHist p y).sortedDown y) (w.addHist p y) p
          split
          · rename_i w2 hw2; rw [hw2] at this
            exact g1.trans this
          · rename_i w2 hw2; rw [hw2] at this
            exact (g1.trans this).trans (qk_dropHist ..)
    · -- ginput
      split
      · exact QK.refl _
      · exact hl (w.sortedDown y) w p
    · -- gpath
      split
      · exact QK.refl _
      · have g1 : QK x w
            ((w.modPart p (fun r => { r with stack := r.stack ++ [y] })).addHist p y) :=
          (qk_modPart ..).trans (qk_addHist ..)
        have := ih ((w.modPart p (fun r => { r with stack := r.stack ++ [y] })).addHist p y)
          ((((w.modPart p (fun r => { r with stack := r.stack ++ [y] })).addHist p y).groups.getD
            (w.dev y).group default).input) p
        split
        · rename_i w2 hw2
          rw [hw2] at this
          exact g1.trans this
        · rename_i w2 hw2
          rw [hw2] at this
          exact (g1.trans this).trans ((qk_modPart ..).trans (qk_dropHist ..))
    · -- goutput
      split
      · exact qk_setErr ..
      · rename_i g hg
        have g1 : QK x w (w.modPart p (fun r => { r with stack := r.stack.dropLast })) :=
          qk_modPart ..
        have := hl ((w.modPart p (fun r => { r with stack := r.stack.dropLast })).sortedDown g)
          (w.modPart p (fun r => { r with stack := r.stack.dropLast })) p
        split
        · rename_i w2 hw2; rw [hw2] at this
          exact g1.trans this
        · rename_i w2 hw2; rw [hw2] at this
          dsimp only at this ⊢
          exact (g1.trans this).trans (qk_modPart ..)

theorem qk_tryGive (w : World) (l : List Nat) (p : Nat) : QK x w (tryList givePart w l p).1 :=
  qk_tryList givePart (fun w y p => qk_give w.fuel w y p) l w p

theorem qk_passHandler (w : World) (y : Nat) : QK x w (w.passHandler y) := by
  unfold World.passHandler
  simp only []
  split
  · exact QK.refl _
  · split
    · exact QK.refl _
    · rename_i p _
      have h1 := qk_tryGive (x := x) w (w.sortedDown y) p
      split
      · rename_i w1 hw1
        rw [hw1] at h1
        dsimp only at h1
        exact (h1.trans (qk_modDev _ _ _ flg)).trans (qk_notify ..)
      · rename_i w1 hw1
        rw [hw1] at h1
        exact h1.trans (qk_modDev _ _ _ flg)

theorem qk_bufferLoop (f : Nat) : ∀ (w : World) (y : Nat), QK x w (bufferLoop f w y) := by
  induction f with
  | zero => intro w y; exact QK.refl _
  | succ f ih =>
    intro w y
    unfold bufferLoop
    simp only []
    split
    · exact QK.refl _
    · rename_i t p rest _
      split
      · exact QK.refl _
      · have h1 := qk_tryGive (x := x) w (w.sortedDown y) p
        split
        · rename_i w1 hw1
          rw [hw1] at h1
          dsimp only at h1
          refine ((h1.trans (qk_modDev _ _ _ flg)).trans (qk_addRec ..)).trans
            (ih _ y)
        · rename_i w1 hw1
          rw [hw1] at h1
          exact h1

theorem qk_passPart (w : World) (y : Nat) : QK x w (w.passPart y) := by
  have hph := qk_passHandler (x := x) w y
  cases hky : (w.dev y).kind
  case source =>
    unfold World.passPart
    simp only [hky]
    repeat' split
    all_goals first
      | exact QK.refl _
      | exact hph
      | (refine ((hph.trans (qk_modDev _ _ _ flg)).trans (qk_addRec ..)).trans
           (qk_scheduleFinish _ _ ?_)
         intro e
         rw [QK.op (qk_addRec ..), QK.op (qk_modDev _ _ _ flg), hph.op]
         subst e
         exact op_of_kind (by rw [hky]; decide))
  case buffer =>
    unfold World.passPart
    simp only [hky]
    have h1 := qk_bufferLoop (x := x) ((w.dev y).buf.length + 1) w y
    refine QK.trans ?_ (qk_notify ..)
    split
    · exact h1
    · split
      · refine h1.trans (qk_schedulePass _ _ _ ?_)
        intro e
        rw [h1.op]; subst e
        exact op_of_kind (by rw [hky]; decide)
      · exact h1.trans (qk_setDev _ _ _ flg)
  case batcher =>
    unfold World.passPart
    simp only [hky]
    split
    · exact hph.trans (qk_tryMove _ _)
    · exact hph
  case sink =>
    unfold World.passPart
    simp only [hky]
    exact QK.refl _
  all_goals
    unfold World.passPart
    simp only [hky]
    exact hph

end C13Q
end SimProc
