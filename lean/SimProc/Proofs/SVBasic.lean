/-
Abstract (slot-view) lemmas for C02, part 1: structural facts about moves, masks, generation,
rearrangement, new devices, the conservation consequence.
-/
import SimProc.Proofs.SV
namespace SimProc
namespace C02V

/-! ### helpers -/

theorem split_at {α : Type} {l : List α} {z : Nat} {d : α} (h : l[z]? = some d) :
    ∃ l1 l2, l = l1 ++ d :: l2 ∧ l1.length = z ∧ ∀ d', l.set z d' = l1 ++ d' :: l2 := by
  induction l generalizing z with
  | nil => simp at h
  | cons x xs ih =>
    cases z with
    | zero =>
      simp at h
      exact ⟨[], xs, by simp [h], rfl, by simp⟩
    | succ n =>
      simp at h
      obtain ⟨l1, l2, h1, h2, h3⟩ := ih h
      refine ⟨x :: l1, l2, by simp [h1], by simp [h2], ?_⟩
      intro d'
      simp [h3]

theorem map_kind_set {l : List SDev} {z : Nat} {d d' : SDev} (h : l[z]? = some d)
    (hk : d'.kind = d.kind) : (l.set z d').map (·.kind) = l.map (·.kind) := by
  obtain ⟨l1, l2, h1, _, h3⟩ := split_at h
  rw [h3, h1]
  simp [hk]

theorem Steps.single {z : Nat} {a b : SV} (h : Move z a b) : Steps z a b :=
  Steps.tail _ _ _ (Steps.refl _) h

theorem Steps.trans {z : Nat} {a b c : SV} (h1 : Steps z a b) (h2 : Steps z b c) : Steps z a c := by
  induction h2 with
  | refl => exact h1
  | tail b c _ hm ih => exact Steps.tail _ _ _ ih hm

/-! ### moves are local to device `z` -/

theorem Move.devs_ne {z : Nat} {a a' : SV} (h : Move z a a') {x : Nat} (hx : x ≠ z) :
    a'.devs[x]? = a.devs[x]? := by
  have hx' : z ≠ x := fun e => hx e.symm
  cases h with
  | gen _ hg => cases hg <;> simp [List.getElem?_set_ne hx']
  | _ => simp [SV.setDev, List.getElem?_set_ne hx']

theorem Move.length {z : Nat} {a a' : SV} (h : Move z a a') : a'.devs.length = a.devs.length := by
  cases h with
  | gen _ hg => cases hg <;> simp
  | _ => simp [SV.setDev]

theorem Move.kinds {z : Nat} {a a' : SV} (h : Move z a a') :
    a'.devs.map (·.kind) = a.devs.map (·.kind) := by
  cases h with
  | gen _ hg =>
    cases hg with
    | leaf d hz => exact map_kind_set hz rfl
    | batch d n hz => exact map_kind_set hz rfl
  | rearr d d' r hz hk => exact map_kind_set hz hk
  | shell d hz => exact map_kind_set hz rfl
  | kidOut d p k rest hz => exact map_kind_set hz rfl
  | kidIn d p k rest b hz => exact map_kind_set hz rfl
  | leafIn d p b hz => exact map_kind_set hz rfl

theorem Gen.mask {z : Nat} {a a' : SV} (h : Gen z a a') {x : Nat} (hx : x ≠ z) (s : SDev) :
    Gen z (mask a x s) (mask a' x s) := by
  have hx' : z ≠ x := fun e => hx e.symm
  cases h with
  | leaf d hz hk ho =>
    have hz' : (C02V.mask a x s).devs[z]? = some d := by
      simp [C02V.mask, SV.setDev, List.getElem?_set_ne hx, hz]
    have := Gen.leaf (z := z) (C02V.mask a x s) d hz' hk ho
    simpa [C02V.mask, SV.setDev, List.set_comm _ _ hx] using this
  | batch d n hz hk ho =>
    have hz' : (C02V.mask a x s).devs[z]? = some d := by
      simp [C02V.mask, SV.setDev, List.getElem?_set_ne hx, hz]
    have := Gen.batch (z := z) (C02V.mask a x s) d n hz' hk ho
    simpa [C02V.mask, SV.setDev, List.set_comm _ _ hx] using this

theorem Move.mask {z : Nat} {a a' : SV} (h : Move z a a') {x : Nat} (hx : x ≠ z) (s : SDev) :
    Move z (mask a x s) (mask a' x s) := by
  have hx' : z ≠ x := fun e => hx e.symm
  have hzz : ∀ d, a.devs[z]? = some d → (C02V.mask a x s).devs[z]? = some d := by
    intro d hz
    simp [C02V.mask, SV.setDev, List.getElem?_set_ne hx, hz]
  cases h with
  | gen _ hg => exact Move.gen _ _ (hg.mask hx s)
  | rearr d d' r hz hk hp hr hi =>
    have := Move.rearr (z := z) (C02V.mask a x s) d d' r (hzz d hz) hk hp hr hi
    simpa [C02V.mask, SV.setDev, List.set_comm _ _ hx] using this
  | shell d hz hi =>
    have := Move.shell (z := z) (C02V.mask a x s) d (hzz d hz) hi
    simpa [C02V.mask, SV.setDev, List.set_comm _ _ hx] using this
  | kidOut d p k rest hz hk hp ho hkid =>
    have := Move.kidOut (z := z) (C02V.mask a x s) d p k rest (hzz d hz) hk hp ho hkid
    simpa [C02V.mask, SV.setDev, List.set_comm _ _ hx] using this
  | kidIn d p k rest b hz hk hp hi hkid =>
    have := Move.kidIn (z := z) (C02V.mask a x s) d p k rest b (hzz d hz) hk hp hi hkid
    simpa [C02V.mask, SV.setDev, List.set_comm _ _ hx] using this
  | leafIn d p b hz hk hp hi hkid =>
    have := Move.leafIn (z := z) (C02V.mask a x s) d p b (hzz d hz) hk hp hi hkid
    simpa [C02V.mask, SV.setDev, List.set_comm _ _ hx] using this

theorem Steps.devs_ne {z : Nat} {a a' : SV} (h : Steps z a a') {x : Nat} (hx : x ≠ z) :
    a'.devs[x]? = a.devs[x]? := by
  induction h with
  | refl => rfl
  | tail b c _ hm ih => rw [hm.devs_ne hx, ih]

theorem Steps.length {z : Nat} {a a' : SV} (h : Steps z a a') : a'.devs.length = a.devs.length := by
  induction h with
  | refl => rfl
  | tail b c _ hm ih => rw [hm.length, ih]

theorem Steps.kinds {z : Nat} {a a' : SV} (h : Steps z a a') :
    a'.devs.map (·.kind) = a.devs.map (·.kind) := by
  induction h with
  | refl => rfl
  | tail b c _ hm ih => rw [hm.kinds, ih]

theorem Steps.mask {z : Nat} {a a' : SV} (h : Steps z a a') {x : Nat} (hx : x ≠ z) (s : SDev) :
    Steps z (mask a x s) (mask a' x s) := by
  induction h with
  | refl => exact Steps.refl _
  | tail b c _ hm ih => exact Steps.tail _ _ _ ih (hm.mask hx s)

/-! ### preservation: the moves that do not need the strengthening -/

/-- `SV.leaves` as a function of the `kids` column only. -/
def leavesK (kids : List (Option (List Nat))) (p : Nat) : List Nat :=
  match kids.getD p none with
  | some l => l
  | none => [p]

def slotF (d : SDev) (f : Nat → List Nat) : List Nat :=
  if d.kind = .sink then [] else d.held.flatMap f

def insideF (devs : List SDev) (f : Nat → List Nat) : List Nat :=
  (devs.filter (fun d => d.kind != .sink)).flatMap (fun d => d.held.flatMap f)

theorem insideF_cons (d : SDev) (l : List SDev) (f : Nat → List Nat) :
    insideF (d :: l) f = slotF d f ++ insideF l f := by
  unfold insideF slotF
  by_cases h : d.kind = .sink <;> simp [h]

theorem insideF_append (l1 l2 : List SDev) (f : Nat → List Nat) :
    insideF (l1 ++ l2) f = insideF l1 f ++ insideF l2 f := by
  simp [insideF]

theorem flatMap_congr' {l : List Nat} {f g : Nat → List Nat} (h : ∀ p ∈ l, f p = g p) :
    l.flatMap f = l.flatMap g := by
  induction l with
  | nil => rfl
  | cons x xs ih =>
    simp only [List.flatMap_cons]
    rw [h x (by simp), ih (fun p hp => h p (by simp [hp]))]

theorem flatMap_nil' {l : List Nat} {f : Nat → List Nat} (h : ∀ p ∈ l, f p = []) :
    l.flatMap f = [] := by
  induction l with
  | nil => rfl
  | cons x xs ih =>
    simp only [List.flatMap_cons]
    rw [h x (by simp), ih (fun p hp => h p (by simp [hp]))]
    rfl

theorem slotF_congr {d : SDev} {f g : Nat → List Nat} (h : ∀ p ∈ d.held, f p = g p) :
    slotF d f = slotF d g := by
  unfold slotF
  rw [flatMap_congr' h]

theorem insideF_congr {devs : List SDev} {f g : Nat → List Nat}
    (h : ∀ d ∈ devs, ∀ p ∈ d.held, f p = g p) : insideF devs f = insideF devs g := by
  induction devs with
  | nil => rfl
  | cons x xs ih =>
    rw [insideF_cons, insideF_cons, slotF_congr (h x (by simp)),
      ih (fun d hd => h d (by simp [hd]))]

theorem insideF_nil_of_held {devs : List SDev} {f : Nat → List Nat}
    (h : ∀ d ∈ devs, d.held = []) : insideF devs f = [] := by
  induction devs with
  | nil => rfl
  | cons x xs ih =>
    rw [insideF_cons, ih (fun d hd => h d (by simp [hd]))]
    unfold slotF
    rw [h x (by simp)]
    simp

theorem lt_of_getElem?_some {α : Type} {l : List α} {i : Nat} {v : α} (h : l[i]? = some v) :
    i < l.length := by
  have := (List.getElem?_eq_some_iff.mp h).1
  exact this

theorem getElem?_append_some {α : Type} {l more : List α} {i : Nat} {v : α} (h : l[i]? = some v) :
    (l ++ more)[i]? = some v := by
  rw [List.getElem?_append_left (lt_of_getElem?_some h), h]

theorem leavesK_append_left {kids more : List (Option (List Nat))} {p : Nat}
    (hp : p < kids.length) : leavesK (kids ++ more) p = leavesK kids p := by
  simp [leavesK, List.getD_eq_getElem?_getD, List.getElem?_append_left hp]

theorem consV_fresh (a : SV) (hk : a.kids = []) (hg : a.gen = []) (hd : a.del = []) (hl : a.lost = [])
    (hh : ∀ d ∈ a.devs, d.held = []) : ConsV a := by
  have hi : a.inside = [] := insideF_nil_of_held (f := a.leaves) hh
  have ht : a.devs.flatMap SDev.held = [] := by
    rw [List.flatMap_eq_nil_iff]
    exact hh
  constructor
  · simp [SV.mass, hi, hg, hd, hl]
  · simp [hg]
  · simp [ht]
  · intro d hd p hp
    rw [hh d hd] at hp
    simp at hp
  · intro p l h
    simp [hk] at h
  · intro p hp
    simp [hg] at hp

theorem extraV_fresh (a : SV) (hh : ∀ d ∈ a.devs, d.held = []) : ExtraV a := by
  constructor
  · intro d hd b hb
    have := hh d hd
    simp [SDev.held, hb] at this
  · intro d hd _ p hp
    rw [hh d hd] at hp
    simp at hp

/-- Common generalisation of `Gen.leaf`, `Gen.batch`, `Move.shell`: device `z` acquires one new
top-level part `n` whose leaves `L` are new. -/
theorem consV_extend {z : Nat} {a : SV} (h : ConsV a) (d d' : SDev)
    (more : List (Option (List Nat))) (n : Nat) (L : List Nat)
    (hz : a.devs[z]? = some d) (hk : d'.kind = d.kind)
    (hheld : d'.held.Perm (n :: d.held))
    (hn1 : a.kids.length ≤ n) (hn2 : n < (a.kids ++ more).length)
    (hL : leavesK (a.kids ++ more) n = L)
    (hsink : d.kind = .sink → L = [])
    (hLnd : L.Nodup)
    (hLnew : ∀ k ∈ L, a.kids.length ≤ k ∧ (a.kids ++ more)[k]? = some none)
    (hmore : ∀ p l, (a.kids ++ more)[p]? = some (some l) → a.kids.length ≤ p →
      ∀ k ∈ l, (a.kids ++ more)[k]? = some none) :
    ConsV { a with devs := a.devs.set z d', kids := a.kids ++ more, gen := a.gen ++ L } := by
  obtain ⟨l1, l2, h1, -, h3⟩ := split_at hz
  obtain ⟨devs, kids, gen, del, lost⟩ := a
  dsimp only at h1 h3 hn1 hn2 hL hLnew hmore ⊢
  subst h1
  rw [h3]
  have hv : ∀ e ∈ l1 ++ d :: l2, ∀ p ∈ e.held, p < kids.length := h.heldValid
  constructor
  · show (insideF (l1 ++ d' :: l2) (leavesK (kids ++ more)) ++ del ++ lost).Perm (gen ++ L)
    have hp : (insideF (l1 ++ d :: l2) (leavesK kids) ++ del ++ lost).Perm gen := h.perm
    have e1 : insideF l1 (leavesK (kids ++ more)) = insideF l1 (leavesK kids) :=
      insideF_congr (fun e he p hp => leavesK_append_left (hv e (by simp [he]) p hp))
    have e2 : insideF l2 (leavesK (kids ++ more)) = insideF l2 (leavesK kids) :=
      insideF_congr (fun e he p hp => leavesK_append_left (hv e (by simp [he]) p hp))
    have e3 : (slotF d' (leavesK (kids ++ more))).Perm (L ++ slotF d (leavesK kids)) := by
      unfold slotF
      rw [hk]
      by_cases hs : d.kind = .sink
      · simp [hs, hsink hs]
      · simp only [hs, if_false]
        refine (hheld.flatMap_right _).trans ?_
        rw [List.flatMap_cons, hL]
        rw [flatMap_congr' (fun p hp => leavesK_append_left (hv d (by simp) p hp))]
    rw [List.perm_iff_count] at hp ⊢
    intro x
    have h4 := hp x
    have h5 := e3.count_eq x
    simp only [insideF_append, insideF_cons, List.count_append, e1, e2] at *
    omega
  · show (gen ++ L).Nodup
    rw [List.nodup_append]
    refine ⟨h.nodup, hLnd, ?_⟩
    intro x hx y hy hxy
    have h6 := lt_of_getElem?_some (h.genValid x hx)
    have h7 := (hLnew y hy).1
    dsimp only at h6
    omega
  · show ((l1 ++ d' :: l2).flatMap SDev.held).Nodup
    have ht : ((l1 ++ d :: l2).flatMap SDev.held).Nodup := h.topNodup
    have hperm : ((l1 ++ d' :: l2).flatMap SDev.held).Perm
        (n :: (l1 ++ d :: l2).flatMap SDev.held) := by
      simp only [List.flatMap_append, List.flatMap_cons]
      exact ((hheld.append_right _).append_left _).trans List.perm_middle
    rw [hperm.nodup_iff, List.nodup_cons]
    refine ⟨?_, ht⟩
    intro hmem
    rw [List.mem_flatMap] at hmem
    obtain ⟨e, he, hpe⟩ := hmem
    have := hv e he n hpe
    omega
  · intro e he p hp
    show p < (kids ++ more).length
    dsimp only at he
    have hlen : kids.length ≤ (kids ++ more).length := by simp
    rw [List.mem_append, List.mem_cons] at he
    rcases he with he | he | he
    · have := hv e (by simp [he]) p hp
      omega
    · subst he
      have := hheld.mem_iff.mp hp
      rw [List.mem_cons] at this
      rcases this with h8 | h8
      · omega
      · have := hv d (by simp) p h8
        omega
    · have := hv e (by simp [he]) p hp
      omega
  · intro p l hpl k hkl
    show (kids ++ more)[k]? = some none
    have hpl' : (kids ++ more)[p]? = some (some l) := hpl
    by_cases hlt : p < kids.length
    · rw [List.getElem?_append_left hlt] at hpl'
      exact getElem?_append_some (h.kidsLeaf p l hpl' k hkl)
    · exact hmore p l hpl' (by omega) k hkl
  · intro p hp
    show (kids ++ more)[p]? = some none
    have hp' : p ∈ gen ++ L := hp
    rw [List.mem_append] at hp'
    rcases hp' with hp' | hp'
    · exact getElem?_append_some (h.genValid p hp')
    · exact (hLnew p hp').2

theorem extraV_extend {z : Nat} {a : SV} (hc : ConsV a) (h : ExtraV a) (d d' : SDev)
    (more : List (Option (List Nat))) (n : Nat) (L : List Nat)
    (hz : a.devs[z]? = some d) (hk : d'.kind = d.kind)
    (hheld : d'.held.Perm (n :: d.held))
    (hL : leavesK (a.kids ++ more) n = L)
    (hsink : d.kind = .sink → L = [])
    (hinp : ∀ b, d'.inprog = some b →
      d.inprog = some b ∨ ∃ l, (a.kids ++ more)[b]? = some (some l)) :
    ExtraV { a with devs := a.devs.set z d', kids := a.kids ++ more, gen := a.gen ++ L } := by
  have hd : d ∈ a.devs := List.mem_of_getElem? hz
  have hold : ∀ e ∈ a.devs, e.kind = .sink → ∀ p ∈ e.held,
      ∀ l ∈ leavesK (a.kids ++ more) p, l ∈ a.del := by
    intro e he hs p hp l hl
    rw [leavesK_append_left (hc.heldValid e he p hp)] at hl
    exact h.sinkDel e he hs p hp l hl
  constructor
  · intro e he b hb
    show ∃ l, (a.kids ++ more)[b]? = some (some l)
    rcases List.mem_or_eq_of_mem_set he with he | he
    · obtain ⟨l, hl⟩ := h.inprogBatch e he b hb
      exact ⟨l, getElem?_append_some hl⟩
    · subst he
      rcases hinp b hb with h1 | h1
      · obtain ⟨l, hl⟩ := h.inprogBatch d hd b h1
        exact ⟨l, getElem?_append_some hl⟩
      · exact h1
  · intro e he hs p hp l hl
    show l ∈ a.del
    have hl' : l ∈ leavesK (a.kids ++ more) p := hl
    rcases List.mem_or_eq_of_mem_set he with he | he
    · exact hold e he hs p hp l hl'
    · subst he
      rw [hk] at hs
      have := hheld.mem_iff.mp hp
      rw [List.mem_cons] at this
      rcases this with h8 | h8
      · subst h8
        rw [hL, hsink hs] at hl'
        simp at hl'
      · exact hold d hd hs p h8 l hl'

theorem held_output_perm (d : SDev) (n : Nat) (ho : d.output = none) :
    ({ d with output := some n } : SDev).held.Perm (n :: d.held) := by
  simp only [SDev.held, ho, Option.toList_some, Option.toList_none, List.append_nil]
  simp only [List.append_assoc]
  exact List.perm_middle

theorem held_inprog_perm (d : SDev) (n : Nat) (hi : d.inprog = none) :
    ({ d with inprog := some n } : SDev).held.Perm (n :: d.held) := by
  simp only [SDev.held, hi, Option.toList_some, Option.toList_none, List.append_nil]
  exact List.perm_append_singleton _ _

theorem leavesK_leaf (kids : List (Option (List Nat))) :
    leavesK (kids ++ [none]) kids.length = [kids.length] := by
  simp [leavesK, List.getD_eq_getElem?_getD]

theorem leavesK_batch (kids : List (Option (List Nat))) (n : Nat) (l : List Nat) :
    leavesK (kids ++ (List.replicate n none ++ [some l])) (kids.length + n) = l := by
  simp [leavesK, List.getD_eq_getElem?_getD]

theorem getElem?_batch_none (kids : List (Option (List Nat))) (n k : Nat) (l : List Nat)
    (h1 : kids.length ≤ k) (h2 : k < kids.length + n) :
    (kids ++ (List.replicate n none ++ [some l]))[k]? = some none := by
  rw [List.getElem?_append_right h1, List.getElem?_append_left (by simp; omega)]
  simp [List.getElem?_replicate]
  omega

theorem getElem?_batch_some (kids : List (Option (List Nat))) (n p : Nat) (l l' : List Nat)
    (h1 : kids.length ≤ p)
    (h : (kids ++ (List.replicate n none ++ [some l]))[p]? = some (some l')) : l' = l := by
  rw [List.getElem?_append_right h1] at h
  by_cases h2 : p - kids.length < n
  · rw [List.getElem?_append_left (by simp; omega)] at h
    simp [h2] at h
  · rw [List.getElem?_append_right (by simp; omega)] at h
    simp at h
    rcases Nat.eq_zero_or_pos (p - kids.length - n) with h3 | h3
    · simp [h3] at h
      exact h.symm
    · have : ([some l] : List (Option (List Nat)))[p - kids.length - n]? = none := by
        rw [List.getElem?_eq_none_iff]; simp; omega
      rw [this] at h
      simp at h

theorem consV_gen {z : Nat} {a a' : SV} (h : ConsV a) (hg : Gen z a a') : ConsV a' := by
  cases hg with
  | leaf d hz hk ho =>
    refine consV_extend h d _ [none] a.kids.length [a.kids.length] hz rfl
      (held_output_perm d _ ho) (Nat.le_refl _) (by simp) (leavesK_leaf _) (fun hs => absurd hs hk)
      (by simp) ?_ ?_
    · intro k hk'
      simp at hk'
      subst hk'
      simp
    · intro p l hpl hp
      exfalso
      rw [List.getElem?_append_right hp] at hpl
      rcases Nat.eq_zero_or_pos (p - a.kids.length) with h3 | h3
      · simp [h3] at hpl
      · have : ([none] : List (Option (List Nat)))[p - a.kids.length]? = none := by
          rw [List.getElem?_eq_none_iff]; simp; omega
        rw [this] at hpl
        simp at hpl
  | batch d n hz hk ho =>
    have := consV_extend h d { d with output := some (a.kids.length + n) }
      (List.replicate n none ++ [some (List.range' a.kids.length n)]) (a.kids.length + n)
      (List.range' a.kids.length n) hz rfl
      (held_output_perm d _ ho) (by omega) (by simp) (leavesK_batch _ _ _)
      (fun hs => absurd hs hk)
      (List.nodup_range' (step := 1) (by omega)) ?_ ?_
    · simpa [List.append_assoc] using this
    · intro k hk'
      rw [List.mem_range'_1] at hk'
      exact ⟨hk'.1, getElem?_batch_none _ _ _ _ hk'.1 hk'.2⟩
    · intro p l hpl hp k hk'
      have := getElem?_batch_some _ _ _ _ _ hp hpl
      subst this
      rw [List.mem_range'_1] at hk'
      exact getElem?_batch_none _ _ _ _ hk'.1 hk'.2

theorem extraV_gen {z : Nat} {a a' : SV} (hc : ConsV a) (h : ExtraV a) (hg : Gen z a a') : ExtraV a' := by
  cases hg with
  | leaf d hz hk ho =>
    exact extraV_extend hc h d _ [none] a.kids.length [a.kids.length] hz rfl
      (held_output_perm d _ ho) (leavesK_leaf _) (fun hs => absurd hs hk)
      (fun b hb => Or.inl hb)
  | batch d n hz hk ho =>
    have := extraV_extend hc h d { d with output := some (a.kids.length + n) }
      (List.replicate n none ++ [some (List.range' a.kids.length n)]) (a.kids.length + n)
      (List.range' a.kids.length n) hz rfl
      (held_output_perm d _ ho) (leavesK_batch _ _ _)
      (fun hs => absurd hs hk) (fun b hb => Or.inl hb)
    simpa [List.append_assoc] using this

theorem consV_addDev {a : SV} (h : ConsV a) (d : SDev) (hd : d.held = []) :
    ConsV { a with devs := a.devs ++ [d] } := by
  have hs : slotF d a.leaves = [] := by
    unfold slotF
    simp [hd]
  constructor
  · show (insideF (a.devs ++ [d]) a.leaves ++ a.del ++ a.lost).Perm a.gen
    rw [insideF_append, insideF_cons, hs]
    have : insideF [] a.leaves = [] := rfl
    rw [this]
    have hp : (insideF a.devs a.leaves ++ a.del ++ a.lost).Perm a.gen := h.perm
    simpa using hp
  · exact h.nodup
  · show ((a.devs ++ [d]).flatMap SDev.held).Nodup
    simpa [hd] using h.topNodup
  · intro e he p hp
    show p < a.kids.length
    have he' : e ∈ a.devs ++ [d] := he
    rw [List.mem_append, List.mem_singleton] at he'
    rcases he' with he' | he'
    · exact h.heldValid e he' p hp
    · subst he'
      rw [hd] at hp
      simp at hp
  · exact h.kidsLeaf
  · exact h.genValid

theorem extraV_addDev {a : SV} (h : ExtraV a) (d : SDev) (hd : d.held = []) :
    ExtraV { a with devs := a.devs ++ [d] } := by
  constructor
  · intro e he b hb
    have he' : e ∈ a.devs ++ [d] := he
    rw [List.mem_append, List.mem_singleton] at he'
    rcases he' with he' | he'
    · exact h.inprogBatch e he' b hb
    · subst he'
      simp [SDev.held, hb] at hd
  · intro e he hs p hp
    have he' : e ∈ a.devs ++ [d] := he
    rw [List.mem_append, List.mem_singleton] at he'
    rcases he' with he' | he'
    · exact h.sinkDel e he' hs p hp
    · subst he'
      rw [hd] at hp
      simp at hp

/-- Rearrangement inside one device (only `ConsV` is needed for the `ConsV` part). -/
theorem consV_rearr {z : Nat} {a : SV} (h : ConsV a) (d d' : SDev) (r : List Nat)
    (hz : a.devs[z]? = some d) (hk : d'.kind = d.kind) (hp : d.held.Perm (r ++ d'.held))
    (hr : d.kind = .sink ∨ ∀ q ∈ r, a.leaves q = []) : ConsV (a.setDev z d') := by
  obtain ⟨l1, l2, h1, -, h3⟩ := split_at hz
  obtain ⟨devs, kids, gen, del, lost⟩ := a
  unfold SV.setDev
  dsimp only at h1 h3 ⊢
  subst h1
  rw [h3]
  have hr' : d.kind = .sink ∨ ∀ q ∈ r, leavesK kids q = [] := hr
  have hv : ∀ e ∈ l1 ++ d :: l2, ∀ p ∈ e.held, p < kids.length := h.heldValid
  constructor
  · show (insideF (l1 ++ d' :: l2) (leavesK kids) ++ del ++ lost).Perm gen
    refine List.Perm.trans ?_ h.perm
    show (insideF (l1 ++ d' :: l2) (leavesK kids) ++ del ++ lost).Perm
      (insideF (l1 ++ d :: l2) (leavesK kids) ++ del ++ lost)
    have e3 : (slotF d' (leavesK kids)).Perm (slotF d (leavesK kids)) := by
      unfold slotF
      rw [hk]
      by_cases hs : d.kind = .sink
      · simp [hs]
      · simp only [hs, if_false]
        have hq := hr'.resolve_left hs
        refine List.Perm.trans ?_ (hp.flatMap_right _).symm
        rw [List.flatMap_append, flatMap_nil' hq]
        exact List.Perm.refl _
    simp only [insideF_append, insideF_cons]
    exact ((((e3.append_right _).append_left _).append_right _).append_right _)
  · exact h.nodup
  · show ((l1 ++ d' :: l2).flatMap SDev.held).Nodup
    have ht : ((l1 ++ d :: l2).flatMap SDev.held).Nodup := h.topNodup
    simp only [List.flatMap_append, List.flatMap_cons] at ht ⊢
    have hsub : (l1.flatMap SDev.held ++ (d'.held ++ l2.flatMap SDev.held)).Sublist
        (l1.flatMap SDev.held ++ ((r ++ d'.held) ++ l2.flatMap SDev.held)) :=
      (List.Sublist.refl _).append ((List.sublist_append_right r d'.held).append (List.Sublist.refl _))
    have hperm : (l1.flatMap SDev.held ++ ((r ++ d'.held) ++ l2.flatMap SDev.held)).Perm
        (l1.flatMap SDev.held ++ (d.held ++ l2.flatMap SDev.held)) :=
      (hp.symm.append_right _).append_left _
    exact List.Nodup.sublist hsub (hperm.nodup_iff.mpr ht)
  · intro e he p hpe
    show p < kids.length
    have he' : e ∈ l1 ++ d' :: l2 := he
    rw [List.mem_append, List.mem_cons] at he'
    rcases he' with he' | he' | he'
    · exact hv e (by simp [he']) p hpe
    · subst he'
      exact hv d (by simp) p (hp.mem_iff.mpr (by simp [hpe]))
    · exact hv e (by simp [he']) p hpe
  · exact h.kidsLeaf
  · exact h.genValid

theorem extraV_rearr {z : Nat} {a : SV} (h : ExtraV a) (d d' : SDev) (r : List Nat)
    (hz : a.devs[z]? = some d) (hk : d'.kind = d.kind) (hp : d.held.Perm (r ++ d'.held))
    (hi : ∀ b, d'.inprog = some b → d.inprog = some b) : ExtraV (a.setDev z d') := by
  have hd : d ∈ a.devs := List.mem_of_getElem? hz
  constructor
  · intro e he b hb
    show ∃ l, a.kids[b]? = some (some l)
    rcases List.mem_or_eq_of_mem_set he with he | he
    · exact h.inprogBatch e he b hb
    · subst he
      exact h.inprogBatch d hd b (hi b hb)
  · intro e he hs p hpe l hl
    show l ∈ a.del
    have hl' : l ∈ a.leaves p := hl
    rcases List.mem_or_eq_of_mem_set he with he | he
    · exact h.sinkDel e he hs p hpe l hl'
    · subst he
      rw [hk] at hs
      exact h.sinkDel d hd hs p (hp.mem_iff.mpr (by simp [hpe])) l hl'

theorem leavesK_shell (kids : List (Option (List Nat))) :
    leavesK (kids ++ [some []]) kids.length = [] := by
  simp [leavesK, List.getD_eq_getElem?_getD]

theorem getElem?_shell_some (kids : List (Option (List Nat))) (p : Nat) (l' : List Nat)
    (h1 : kids.length ≤ p)
    (h : (kids ++ [some []])[p]? = some (some l')) : l' = [] := by
  rw [List.getElem?_append_right h1] at h
  rcases Nat.eq_zero_or_pos (p - kids.length) with h3 | h3
  · simp [h3] at h
    exact h
  · have : ([some []] : List (Option (List Nat)))[p - kids.length]? = none := by
      rw [List.getElem?_eq_none_iff]; simp; omega
    rw [this] at h
    simp at h

theorem consV_shell {z : Nat} {a : SV} (h : ConsV a) (d : SDev) (hz : a.devs[z]? = some d)
    (hi : d.inprog = none) :
    ConsV { a with devs := a.devs.set z { d with inprog := some a.kids.length },
                   kids := a.kids ++ [some []] } := by
  have := consV_extend h d { d with inprog := some a.kids.length } [some []] a.kids.length []
    hz rfl (held_inprog_perm d _ hi) (Nat.le_refl _) (by simp) (leavesK_shell _) (fun _ => rfl)
    List.nodup_nil (by simp) ?_
  · simpa using this
  · intro p l hpl hp k hk'
    have := getElem?_shell_some _ _ _ hp hpl
    subst this
    simp at hk'

theorem extraV_shell {z : Nat} {a : SV} (hc : ConsV a) (h : ExtraV a) (d : SDev) (hz : a.devs[z]? = some d)
    (hi : d.inprog = none) :
    ExtraV { a with devs := a.devs.set z { d with inprog := some a.kids.length },
                    kids := a.kids ++ [some []] } := by
  have := extraV_extend hc h d { d with inprog := some a.kids.length } [some []] a.kids.length []
    hz rfl (held_inprog_perm d _ hi) (leavesK_shell _) (fun _ => rfl)
    (fun b hb => Or.inr ⟨[], by
      simp at hb
      subst hb
      simp⟩)
  simpa using this

/-! ### the property -/

theorem conservationV (a : SV) (h : ConsV a) :
    a.gen.length = a.inside.length + a.del.length + a.lost.length ∧ a.mass.Nodup := by
  refine ⟨?_, h.perm.nodup_iff.mpr h.nodup⟩
  have := h.perm.length_eq
  simp only [SV.mass, List.length_append] at this
  omega

end C02V
end SimProc
