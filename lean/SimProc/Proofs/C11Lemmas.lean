/-
Helper lemmas for C11 (resources of a processor).

Part 1: the frame `keep g w = (w.rm, w.devs.map g)`: which floor functions keep the resource
manager and an observation `g` of every device (for the two observations `Dev.resA`, `Dev.resM`).
Part 2: the event queue after `schedLib`.
        Closed forms of `procAcquire`, `give` on a processor, `failDev`, `releaseReserved`.
Part 3: sums over association lists (for the closed form of pool usage).
Part 4: `Owned resv rs` (who references which reservation) on plain lists, and what `procAcquire`
        and `releaseReserved` do to `(w.rm.resv, w.rsv)`.
-/
import SimProc.Proofs.FloorCore2
import SimProc.Props.C09
import SimProc.Props.C01

namespace SimProc
open FloorCoreL

/-- What accepting, processing and finishing a part never changes of a device. -/
def Dev.resA (d : Dev) : Option Nat × Option Req × Bool × Kind × Int × Bool :=
  (d.reserved, d.resReq, d.waitingRes, d.kind, d.aid, d.shutDown)

/-- What shutting a device down and restoring it never changes. -/
def Dev.resM (d : Dev) : Option Nat × Option Req × Bool × Kind × Int × Option Nat × Option Nat :=
  (d.reserved, d.resReq, d.waitingRes, d.kind, d.aid, d.part, d.output)

namespace World

/-! ### Part 1: the frame -/

/-- The resource manager together with an observation of every device. -/
def keep {α : Type} (g : Dev → α) (w : World) : RM × List α := (w.rm, w.devs.map g)

section keep
variable {α : Type} (g : Dev → α)

theorem keep_rm {w w' : World} (h : keep g w' = keep g w) : w'.rm = w.rm := congrArg Prod.fst h

theorem keep_dev {w w' : World} (h : keep g w' = keep g w) (y : Nat) :
    g (w'.dev y) = g (w.dev y) := by
  have h2 : w'.devs.map g = w.devs.map g := congrArg Prod.snd h
  show g (w'.devs.getD y default) = g (w.devs.getD y default)
  rw [← getD_map g w'.devs, ← getD_map g w.devs, h2]

theorem keep_length {w w' : World} (h : keep g w' = keep g w) :
    w'.devs.length = w.devs.length := by
  have h2 : w'.devs.map g = w.devs.map g := congrArg Prod.snd h
  have := congrArg List.length h2
  simpa using this

theorem keep_of_eq {w w' : World} (h1 : w'.devs = w.devs) (h2 : w'.rm = w.rm) :
    keep g w' = keep g w := by
  unfold keep; rw [h1, h2]

theorem keep_of_noFlow_eq {w w' : World} (h : w'.noFlow = w.noFlow) : keep g w' = keep g w :=
  keep_of_eq g (show w'.noFlow.devs = w.noFlow.devs from congrArg World.devs h)
    (show w'.noFlow.rm = w.noFlow.rm from congrArg World.rm h)

theorem keep_of_core_eq (hg : ∀ d, g d.core = g d) {w w' : World} (h : w'.core = w.core) :
    keep g w' = keep g w := by
  have hm : ∀ w : World, w.devs.map g = w.core.devs.map g := by
    intro w
    rw [core_devs, List.map_map]
    apply List.map_congr_left
    intro d _
    exact (hg d).symm
  unfold keep
  rw [hm w', hm w, h, ← core_rm w', ← core_rm w, h]

theorem keep_setDev (w : World) (x : Nat) (d : Dev) (h : g d = g (w.dev x)) :
    keep g (w.setDev x d) = keep g w := by
  unfold keep
  have := map_set_of_eq g w.devs x d default h
  simp only [setDev, this]

theorem keep_modDev (w : World) (x : Nat) (f : Dev → Dev) (h : g (f (w.dev x)) = g (w.dev x)) :
    keep g (w.modDev x f) = keep g w := keep_setDev g w x _ h

theorem keep_modPart (w : World) (p : Nat) (f : PartRec → PartRec) :
    keep g (w.modPart p f) = keep g w := rfl

theorem keep_newPart (w : World) (r : PartRec) : keep g (w.newPart r).1 = keep g w := rfl

theorem keep_setErr (w : World) (m : String) : keep g (w.setErr m) = keep g w :=
  keep_of_noFlow_eq g (setErr_noFlow w m)

theorem keep_addRec (w : World) (r : Rec) : keep g (w.addRec r) = keep g w := rfl
theorem keep_addRes (w : World) (r : Res) : keep g (w.addRes r) = keep g w := rfl
theorem keep_envOp (w : World) (op : EnvOp) : keep g (w.envOp op) = keep g w := rfl

theorem keep_schedLib (w : World) (t a : Int) (act : Action) (p : Int) :
    keep g (w.schedLib t a act p) = keep g w := keep_of_noFlow_eq g (schedLib_noFlow w t a act p)

theorem keep_addHist (w : World) (p d : Nat) : keep g (w.addHist p d) = keep g w :=
  keep_of_eq g (addHist_devs w p d) (addHist_rm w p d)

theorem keep_foldl {β : Type} (f : World → β → World) (l : List β) (w : World)
    (h : ∀ w a, keep g (f w a) = keep g w) : keep g (l.foldl f w) = keep g w :=
  foldl_preserve (keep g) f l w h

theorem keep_applyPartCb (hc : ∀ c d, g (cbDev c d) = g d) (w : World) (x p : Nat) (c : PartCb) :
    keep g (w.applyPartCb x p c) = keep g w := by
  rw [keep_of_eq g (applyPartCb_devs w x p c)
    ((applyPartCb_rm w x p c).trans (modDev_rm w x (cbDev c)).symm)]
  exact keep_modDev g w x _ (hc _ _)

variable (hg : ∀ d, g d.core = g d)
include hg

theorem keep_setWaiting (w : World) (x : Nat) (a b : Bool) :
    keep g (w.setWaiting x a b) = keep g w := keep_of_core_eq g hg (setWaiting_core w x a b)

theorem keep_schedulePass (w : World) (x : Nat) (o : Int) :
    keep g (w.schedulePass x o) = keep g w := keep_of_core_eq g hg (schedulePass_core w x o)

theorem keep_notify (w : World) (x : Nat) : keep g (w.notify x) = keep g w :=
  keep_of_core_eq g hg (notify_core w x)

end keep

/-! #### `senseOutput` only touches the sensors and the action log -/

def noSense (w : World) : World := { w with sensors := [], results := [] }

theorem senseOutput_noSense (w : World) (s p : Nat) : (w.senseOutput s p).noSense = w.noSense := by
  unfold senseOutput
  dsimp only
  split
  · refine (foldl_preserve noSense _ _ _ ?_).trans rfl
    intro _ _; rfl
  · rfl

theorem senseOutput_devs (w : World) (s p : Nat) : (w.senseOutput s p).devs = w.devs := by
  have h := congrArg World.devs (senseOutput_noSense w s p); exact h
theorem senseOutput_rm (w : World) (s p : Nat) : (w.senseOutput s p).rm = w.rm := by
  have h := congrArg World.rm (senseOutput_noSense w s p); exact h
theorem senseOutput_env (w : World) (s p : Nat) : (w.senseOutput s p).env = w.env := by
  have h := congrArg World.env (senseOutput_noSense w s p); exact h

theorem keep_senseOutput {α : Type} (g : Dev → α) (w : World) (s p : Nat) :
    keep g (w.senseOutput s p) = keep g w :=
  keep_of_eq g (senseOutput_devs w s p) (senseOutput_rm w s p)

/-! #### the part-flow functions keep `Dev.resA` and the manager -/

theorem _root_.SimProc.Dev.resA_core (d : Dev) : d.core.resA = d.resA := rfl
theorem _root_.SimProc.Dev.resM_core (d : Dev) : d.core.resM = d.resM := rfl

/-- Peel the outermost world operation off a goal `keep g (op …) = keep g w`. -/
local macro "keepA_peel" : tactic => `(tactic| first
  | rfl
  | rw [keep_setErr] | rw [keep_schedLib] | rw [keep_addRec] | rw [keep_addRes] | rw [keep_envOp]
  | rw [keep_modPart] | rw [keep_addHist] | rw [keep_senseOutput]
  | rw [keep_schedulePass _ Dev.resA_core] | rw [keep_setWaiting _ Dev.resA_core]
  | rw [keep_notify _ Dev.resA_core]
  | rw [keep_applyPartCb _ (fun _ _ => rfl)]
  | (rw [keep_setDev]; case h => rfl)
  | (rw [keep_modDev]; case h => rfl))

theorem finishCycleHandler_keepA (w : World) (x : Nat) :
    keep Dev.resA (w.finishCycleHandler x) = keep Dev.resA w := by
  unfold finishCycleHandler
  dsimp only
  repeat' split
  all_goals repeat keepA_peel

theorem genPart_keep {α : Type} (g : Dev → α) (w : World) (x : Nat) :
    keep g (w.genPart x).1 = keep g w := by
  unfold genPart
  dsimp only
  split
  · rfl
  · exact foldl_preserve (fun acc : World × List Nat => keep g acc.1) _ _ _ (fun _ _ => rfl)

local macro "keepA_fold" : tactic => `(tactic|
  (rw [keep_foldl]; case h => (intro _ _; keepA_peel)))

theorem finishCycle_keepA (w : World) (x : Nat) :
    keep Dev.resA (w.finishCycle x) = keep Dev.resA w := by
  unfold finishCycle
  dsimp only
  repeat' split
  all_goals repeat (first | keepA_peel | keepA_fold | rw [genPart_keep] | rw [finishCycleHandler_keepA])

theorem scheduleFinish_keepA (w : World) (x : Nat) :
    keep Dev.resA (w.scheduleFinish x) = keep Dev.resA w := by
  unfold scheduleFinish
  dsimp only
  repeat' split
  all_goals repeat (first | keepA_peel | rw [finishCycle_keepA])

/-- `_get_part_from_input` of the batcher. -/
def bGet (w : World) (x p : Nat) : World × Nat :=
  match (w.part p).kids with
  | some (k :: rest) =>
    let w := w.modPart p (fun r => { r with kids := some rest })
    let w := if rest.isEmpty then w.modDev x (fun d => { d with part := none }) else w
    (w, k)
  | _ => (w.modDev x (fun d => { d with part := none }), p)

/-- `_add_part_to_output` of the batcher. -/
def bAdd (w : World) (x t : Nat) : World :=
  match (w.dev x).bsize with
  | none => w.modDev x (fun d => { d with output := some t })
  | some n =>
    let (w, b) := match (w.dev x).inprog with
      | some b => (w, b)
      | none =>
        let (w, b) := w.newPart { quality := 0, value := 0, kids := some [] }
        (w.modDev x (fun d => { d with inprog := some b }), b)
    let w := w.modPart b (fun r => { r with kids := some ((r.kids.getD []) ++ [t]) })
    if ((w.part b).kids.getD []).length ≥ n then
      w.modDev x (fun d => { d with output := some b, inprog := none })
    else w

theorem batcherLoop_succ (f : Nat) (w : World) (x : Nat) :
    batcherLoop (f + 1) w x =
      match (w.dev x).output, (w.dev x).part with
      | none, some p => batcherLoop f (bAdd (bGet w x p).1 x (bGet w x p).2) x
      | _, _ => w := rfl

theorem bGet_keepA (w : World) (x p : Nat) : keep Dev.resA (bGet w x p).1 = keep Dev.resA w := by
  unfold bGet
  dsimp only
  repeat' split
  all_goals repeat keepA_peel

theorem bAdd_keepA (w : World) (x t : Nat) : keep Dev.resA (bAdd w x t) = keep Dev.resA w := by
  unfold bAdd
  dsimp only
  repeat' split
  all_goals repeat keepA_peel

theorem batcherLoop_keepA (f : Nat) : ∀ (w : World) (x : Nat),
    keep Dev.resA (batcherLoop f w x) = keep Dev.resA w := by
  induction f with
  | zero => intro w x; rfl
  | succ f ih =>
    intro w x
    rw [batcherLoop_succ]
    split
    · rw [ih, bAdd_keepA, bGet_keepA]
    · rfl

theorem tryMove_keepA (w : World) (x : Nat) :
    keep Dev.resA (w.tryMove x) = keep Dev.resA w := by
  unfold tryMove
  dsimp only
  repeat' split
  all_goals repeat (first | keepA_peel | rw [scheduleFinish_keepA] | rw [batcherLoop_keepA])

theorem onReceived_keepA (w : World) (x p : Nat) :
    keep Dev.resA (w.onReceived x p) = keep Dev.resA w := by
  unfold onReceived
  dsimp only
  repeat' split
  all_goals repeat (first | keepA_peel | keepA_fold | rw [tryMove_keepA])

theorem acceptPart_keepA (w : World) (x p : Nat) :
    keep Dev.resA (w.acceptPart x p) = keep Dev.resA w := by
  unfold acceptPart
  dsimp only
  repeat' split
  all_goals repeat (first | keepA_peel | rw [onReceived_keepA])

/-! #### shutdown and restore keep `Dev.resM` and the manager -/

local macro "keepM_peel" : tactic => `(tactic| first
  | rfl
  | rw [keep_setErr] | rw [keep_schedLib] | rw [keep_addRec] | rw [keep_addRes] | rw [keep_envOp]
  | rw [keep_schedulePass _ Dev.resM_core] | rw [keep_setWaiting _ Dev.resM_core]
  | rw [keep_notify _ Dev.resM_core]
  | (rw [keep_setDev]; case h => rfl)
  | (rw [keep_modDev]; case h => rfl)
  | (rw [keep_foldl]; case h => (intro _ _; rfl)))

theorem shutdownDev_keepM (w : World) (x : Nat) (isFailure : Bool) (lost : Option Nat) :
    keep Dev.resM (w.shutdownDev x isFailure lost) = keep Dev.resM w := by
  unfold shutdownDev
  dsimp only
  repeat' split
  all_goals repeat keepM_peel

theorem restoreDev_keepM (w : World) (x : Nat) :
    keep Dev.resM (w.restoreDev x) = keep Dev.resM w := by
  unfold restoreDev
  dsimp only
  repeat' split
  all_goals repeat keepM_peel

theorem keep_comp {α β : Type} (g : Dev → α) (f : α → β) {w w' : World}
    (h : keep g w' = keep g w) : keep (fun d => f (g d)) w' = keep (fun d => f (g d)) w := by
  have h1 : w'.rm = w.rm := keep_rm g h
  have h2 : w'.devs.map g = w.devs.map g := congrArg Prod.snd h
  have h3 := congrArg (List.map f) h2
  simp only [List.map_map] at h3
  unfold keep
  rw [h1]
  exact congrArg (Prod.mk w.rm) h3

/-! ### Part 2: the event queue -/

/-- A live (not cancelled, not paused) event with the given action, time, priority and asset is in
the queue. -/
def Queued (w : World) (act : Action) (t prio asset : Int) : Prop :=
  ∃ e ∈ w.env.events, e.act = act.toNat ∧ e.time = t ∧ e.prio = prio ∧ e.asset = asset ∧
    e.cancelled = false ∧ e.pausedAt = none

theorem Queued_of_env_eq {w w' : World} (h : w'.env = w.env) {act : Action} {t prio asset : Int}
    (hq : Queued w act t prio asset) : Queued w' act t prio asset := by
  unfold Queued; rw [h]; exact hq

theorem schedLib_env_of_le (w : World) (t a : Int) (act : Action) (p : Int) (h : w.env.now ≤ t) :
    (w.schedLib t a act p).env =
      { w.env with
        events := insort (w.env.newEvent t a act.toNat p (weightOf w.seed w.wmod t a act.toNat p))
          w.env.events
        nextUid := w.env.nextUid + 1 } := by
  have hn : ¬ t < w.env.now := by omega
  simp [schedLib, sched, Env.apply, Env.schedule, hn]

theorem schedLib_env_of_lt (w : World) (t a : Int) (act : Action) (p : Int) (h : t < w.env.now) :
    (w.schedLib t a act p).env = w.env := by
  simp only [schedLib, sched, Env.apply, Env.schedule, h, if_true]
  unfold setErr; split <;> rfl

theorem schedLib_now (w : World) (t a : Int) (act : Action) (p : Int) :
    (w.schedLib t a act p).now = w.now := by
  unfold now
  by_cases h : t < w.env.now
  · rw [schedLib_env_of_lt w t a act p h]
  · rw [schedLib_env_of_le w t a act p (by omega)]

theorem Queued_schedLib_new (w : World) (t a : Int) (act : Action) (p : Int) (h : w.now ≤ t) :
    Queued (w.schedLib t a act p) act t p a := by
  unfold Queued
  rw [schedLib_env_of_le w t a act p h]
  exact ⟨_, insort_mem.2 (Or.inl rfl), rfl, rfl, rfl, rfl, rfl, rfl⟩

theorem Queued_schedLib_mono (w : World) (t a : Int) (act : Action) (p : Int)
    {act' : Action} {t' p' a' : Int} (hq : Queued w act' t' p' a') :
    Queued (w.schedLib t a act p) act' t' p' a' := by
  by_cases h : t < w.env.now
  · exact Queued_of_env_eq (schedLib_env_of_lt w t a act p h) hq
  · obtain ⟨e, he, hrest⟩ := hq
    unfold Queued
    rw [schedLib_env_of_le w t a act p (by omega)]
    exact ⟨e, insort_mem.2 (Or.inr he), hrest⟩

theorem setErr_env (w : World) (m : String) : (w.setErr m).env = w.env := by
  unfold setErr; split <;> rfl

theorem schedulePass_now (w : World) (x : Nat) (o : Int) : (w.schedulePass x o).now = w.now := by
  unfold schedulePass
  dsimp only
  split
  · rfl
  · rw [schedLib_now]; rfl

theorem finishCycleHandler_now (w : World) (x : Nat) : (w.finishCycleHandler x).now = w.now := by
  unfold finishCycleHandler
  dsimp only
  repeat' split
  all_goals first
    | exact congrArg Env.now (setErr_env _ _)
    | (rw [schedulePass_now]; rfl)

/-- The callbacks, sensors and the `produced` record at the end of a processor's `_finish_cycle`
do not touch the event queue. -/
theorem finishTail_env (W : World) (x p : Nat) (cbs : List PartCb) (ss : List Nat) :
    (ss.foldl (fun w s => w.senseOutput s p) (cbs.foldl (fun w c => w.applyPartCb x p c) W)).env =
      W.env := by
  rw [foldl_preserve World.env _ _ _ (fun w s => senseOutput_env w s p),
    foldl_preserve World.env _ _ _ (fun w c => applyPartCb_env w x p c)]

theorem addRec_env (w : World) (r : Rec) : (w.addRec r).env = w.env := rfl

theorem schedLib_env_congr {w w' : World} (h1 : w'.env = w.env) (h2 : w'.seed = w.seed)
    (h3 : w'.wmod = w.wmod) (t a : Int) (act : Action) (p : Int) :
    (w'.schedLib t a act p).env = (w.schedLib t a act p).env := by
  by_cases h : t < w.env.now
  · rw [schedLib_env_of_lt w t a act p h, schedLib_env_of_lt w' t a act p (by rw [h1]; exact h), h1]
  · rw [schedLib_env_of_le w t a act p (by omega),
      schedLib_env_of_le w' t a act p (by rw [h1]; omega), h1, h2, h3]

theorem finishCycle_processor_env (w : World) (x : Nat) (hk : (w.dev x).kind = .processor) :
    (w.finishCycle x).env =
      (if (w.dev x).reserved.isSome then
        (w.finishCycleHandler x).schedLib w.now (w.dev x).aid (.releaseIfIdle x) pRelease
      else w.finishCycleHandler x).env := by
  have hA := keep_dev _ (finishCycleHandler_keepA w x) x
  have hres : ((w.finishCycleHandler x).dev x).reserved = (w.dev x).reserved := congrArg (·.1) hA
  have haid : ((w.finishCycleHandler x).dev x).aid = (w.dev x).aid := congrArg (·.2.2.2.2.1) hA
  have hnow := finishCycleHandler_now w x
  unfold finishCycle
  simp only [hk]
  generalize w.finishCycleHandler x = w1 at *
  rw [hres, haid]
  have hsch : ∀ d : Dev, ((w1.setDev x d).schedLib (w1.setDev x d).now (w.dev x).aid
      (.releaseIfIdle x) pRelease).env =
      (w1.schedLib w.now (w.dev x).aid (.releaseIfIdle x) pRelease).env := by
    intro d
    rw [← hnow]
    exact schedLib_env_congr (w := w1) (w' := w1.setDev x d) rfl rfl rfl _ _ _ _
  by_cases hr : (w.dev x).reserved.isSome = true
  · simp only [hr, if_true]
    split
    · exact hsch _
    · rw [addRec_env, finishTail_env]; exact hsch _
  · simp only [hr]
    split
    · rfl
    · rw [addRec_env, finishTail_env]; rfl

theorem finishCycle_release_queued (w : World) (x : Nat) (hk : (w.dev x).kind = .processor)
    (hr : (w.dev x).reserved.isSome = true) :
    Queued (w.finishCycle x) (.releaseIfIdle x) w.now pRelease (w.dev x).aid := by
  apply Queued_of_env_eq (finishCycle_processor_env w x hk)
  rw [if_pos hr]
  exact Queued_schedLib_new _ _ _ _ _ (by rw [finishCycleHandler_now]; exact Int.le_refl _)

theorem valid_of_part {w : World} {x p : Nat} (hp : (w.dev x).part = some p) : x < w.devs.length := by
  apply Nat.lt_of_not_le
  intro h
  rw [dev_of_length_le h] at hp
  cases hp

theorem schedulePass_queued (w : World) (x : Nat) (hnk : (w.dev x).kind ≠ .sink) (h0 : 0 ≤ w.now) :
    Queued (w.schedulePass x 0) (.passPart x) w.now pPassPart (w.dev x).aid := by
  unfold schedulePass
  dsimp only
  split
  · next h => exact absurd h hnk
  · have hn : ∀ d, (w.setDev x d).now = w.now := fun _ => rfl
    rw [hn, Int.add_zero, if_neg (by omega)]
    exact Queued_schedLib_new _ _ _ _ _ (by rw [hn]; exact Int.le_refl _)

theorem finishCycleHandler_pass_queued (w : World) (x p : Nat) (hnk : (w.dev x).kind ≠ .sink)
    (hop : w.operational x = true) (hp : (w.dev x).part = some p) (ho : (w.dev x).output = none)
    (h0 : 0 ≤ w.now) :
    Queued (w.finishCycleHandler x) (.passPart x) w.now pPassPart (w.dev x).aid := by
  have hx := valid_of_part hp
  unfold finishCycleHandler
  simp only [hop, hp, ho, Bool.not_true, Bool.false_eq_true, if_false, Option.isSome_none]
  have h := schedulePass_queued (w.setDev x { w.dev x with output := some p, part := none }) x
    (by rw [dev_setDev_same hx]; exact hnk) h0
  rw [dev_setDev_same hx] at h
  exact h

theorem finishCycle_pass_queued (w : World) (x p : Nat) (hk : (w.dev x).kind = .processor)
    (hop : w.operational x = true) (hp : (w.dev x).part = some p) (ho : (w.dev x).output = none)
    (h0 : 0 ≤ w.now) :
    Queued (w.finishCycle x) (.passPart x) w.now pPassPart (w.dev x).aid := by
  apply Queued_of_env_eq (finishCycle_processor_env w x hk)
  have h1 := finishCycleHandler_pass_queued w x p (by rw [hk]; decide) hop hp ho h0
  split
  · exact Queued_schedLib_mono _ _ _ _ _ h1
  · exact h1

/-! #### closed forms of `procAcquire` -/

theorem schedLib_eq_of_le (w : World) (t a : Int) (act : Action) (p : Int) (h : w.now ≤ t) :
    w.schedLib t a act p =
      { w with env := { w.env with
          events := insort (w.env.newEvent t a act.toNat p (weightOf w.seed w.wmod t a act.toNat p))
            w.env.events
          nextUid := w.env.nextUid + 1 } } := by
  have hn : ¬ t < w.env.now := by unfold now at h; omega
  simp [schedLib, sched, Env.apply, Env.schedule, hn]

theorem rmEffects_error (w : World) (recs : List ResRec) (chk : Bool) :
    (w.rmEffects recs chk).error = w.error := by
  unfold rmEffects
  have h1 : ∀ (l : List ResRec) (w : World),
      (l.foldl (fun w r => w.addRec (.resUpdate r.res w.now r.inUse r.cap)) w).error = w.error ∧
      (l.foldl (fun w r => w.addRec (.resUpdate r.res w.now r.inUse r.cap)) w).env = w.env := by
    intro l
    induction l with
    | nil => intro w; exact ⟨rfl, rfl⟩
    | cons a l ih => intro w; rw [List.foldl_cons]; exact ⟨(ih _).1.trans rfl, (ih _).2.trans rfl⟩
  dsimp only
  split
  · rw [schedLib_eq_of_le _ (World.now _) _ _ _ (Int.le_refl _)]
    exact (h1 recs w).1
  · exact (h1 recs w).1

theorem valid_of_resReq {w : World} {x : Nat} {req : Req} (h : (w.dev x).resReq = some req) :
    x < w.devs.length := by
  apply Nat.lt_of_not_le
  intro hle
  rw [dev_of_length_le hle] at h
  cases h

theorem valid_of_reserved {w : World} {x id : Nat} (h : (w.dev x).reserved = some id) :
    x < w.devs.length := by
  apply Nat.lt_of_not_le
  intro hle
  rw [dev_of_length_le hle] at h
  cases h

theorem procAcquire_noop (w : World) (x : Nat)
    (h : (w.dev x).resReq = none ∨ (w.dev x).reserved.isSome = true) : w.procAcquire x = (w, true) := by
  unfold procAcquire
  dsimp only
  rcases h with h | h
  · rw [h]
  · split
    · rfl
    · rw [if_pos h]

/-- Closed form when the request fits. -/
theorem procAcquire_fits (w : World) (x : Nat) (req : Req) (hreq : (w.dev x).resReq = some req)
    (hres : (w.dev x).reserved = none) (hnn : ∀ e ∈ req, 0 ≤ e.2) (hf : C09.fits w.rm req) :
    w.procAcquire x =
      ((({ w with rm := (w.rm.reserve req).1 } : World).rmEffects (w.rm.reserve req).2.2.2 false).modDev x
        (fun d => { d with reserved := some w.rm.resv.length }), true) := by
  have hs := (C09.reserve_iff_fits w.rm req hnn).2 hf
  obtain ⟨id, hid⟩ := Option.isSome_iff_exists.1 hs
  have hlen := (C09.reserve_success hid).2.2.1
  subst hlen
  unfold procAcquire
  simp only [hreq, hres, Option.isSome_none, Bool.false_eq_true, if_false]
  rcases hR : w.rm.reserve req with ⟨rm', res, oid, recs⟩
  rw [hR] at hid
  simp only at hid
  subst hid
  rfl

/-- Closed form when the request does not fit (no negative amounts). -/
theorem procAcquire_not_fits (w : World) (x : Nat) (req : Req) (hreq : (w.dev x).resReq = some req)
    (hres : (w.dev x).reserved = none) (hnn : ∀ e ∈ req, 0 ≤ e.2) (hf : ¬ C09.fits w.rm req) :
    w.procAcquire x =
      if (w.dev x).waitingRes then (w, false)
      else ((({ w with rm := (w.rm.register req (.proc x)).1 } : World).rmEffects [] w.rm.inited).modDev x
        (fun d => { d with waitingRes := true }), false) := by
  have hany : req.any (fun p => p.2 < 0) = false := by
    rw [List.any_eq_false]; intro e he; have := hnn e he; simp; omega
  have hc : ¬ w.rm.canFulfill (req.filter (fun p => p.2 > 0)) = true :=
    fun h => hf ((C09.canFulfill_filter_iff w.rm req).1 h)
  have hR : w.rm.reserve req = (w.rm, .none_, none, []) := by
    rw [RM.reserve_eq]; simp [hany, hc]
  unfold procAcquire
  simp only [hreq, hres, Option.isSome_none, Bool.false_eq_true, if_false, hR]
  rfl

/-- A negative amount makes `reserve_resources` raise: nothing changes but the error flag. -/
theorem procAcquire_negative (w : World) (x : Nat) (req : Req) (hreq : (w.dev x).resReq = some req)
    (hres : (w.dev x).reserved = none) (hneg : ∃ e ∈ req, e.2 < 0) :
    w.procAcquire x = (w.setErr "reserve-raised", false) := by
  have hany : req.any (fun p => p.2 < 0) = true := by
    rw [List.any_eq_true]; obtain ⟨e, he, hlt⟩ := hneg; exact ⟨e, he, by simpa using hlt⟩
  have hR : w.rm.reserve req = (w.rm, .err .value, none, []) := by
    rw [RM.reserve_eq]; simp [hany]
  unfold procAcquire
  simp only [hreq, hres, Option.isSome_none, Bool.false_eq_true, if_false, hR]

theorem releaseReserved_rm (w : World) (x : Nat) :
    (w.releaseReserved x).rm =
      match (w.dev x).reserved with
      | none => w.rm
      | some id => (w.rm.release id none).1 := by
  unfold releaseReserved
  split
  · next h => simp only [h]
  · next id h => simp only [h, modDev_rm, rmEffects_rm]

theorem releaseReserved_none (w : World) (x : Nat) (h : (w.dev x).reserved = none) :
    w.releaseReserved x = w := by
  unfold releaseReserved; rw [h]

/-- Whenever `procAcquire` refuses, no pool and no reservation has changed, and no device's
`reserved` and `part`. -/
theorem procAcquire_false (w : World) (x : Nat) (h : (w.procAcquire x).2 = false) :
    (w.procAcquire x).1.rm.pools = w.rm.pools ∧ (w.procAcquire x).1.rm.resv = w.rm.resv ∧
    ∀ y, ((w.procAcquire x).1.dev y).reserved = (w.dev y).reserved := by
  unfold procAcquire at h ⊢
  dsimp only at h ⊢
  repeat' split at h
  all_goals first
    | cases h
    | skip
  all_goals simp only [*, Bool.false_eq_true, if_false]
  · exact ⟨by rw [setErr_rm], by rw [setErr_rm], fun y => by rw [dev_setErr]⟩
  · exact ⟨rfl, rfl, fun _ => rfl⟩
  · refine ⟨?_, ?_, fun y => ?_⟩
    · simp only [modDev_rm, rmEffects_rm]; rfl
    · simp only [modDev_rm, rmEffects_rm]; rfl
    · exact (modDev_dev_field Dev.reserved _ x _ rfl y).trans (by rw [dev_rmEffects]; rfl)

/-! #### `give` to a processor, `failDev` -/

theorem give_processor (f : Nat) (w : World) (x p : Nat) (hk : (w.dev x).kind = .processor) :
    give (f + 1) w x p =
      if w.canAcceptBasic x p then
        (match w.procAcquire x with
         | (w, true) => (w.acceptPart x p, true)
         | (w, false) => (w, false))
      else (w, false) := by
  rw [give]
  simp only [hk]
  rfl

/-- `_fail()` as a composition (the ghost log `lost` aside). -/
theorem failDev_eq (w : World) (x : Nat) : ∃ w0 : World, w0.devs = w.devs ∧ w0.rm = w.rm ∧
    w.failDev x =
      (((w0.modDev x fun d => { d with part := none }).releaseReserved x).addRec
        (.failure x ((w0.modDev x fun d => { d with part := none }).releaseReserved x).now
          (w.dev x).part)).shutdownDev x true (w.dev x).part := by
  unfold failDev
  dsimp only
  split
  · next p _ => exact ⟨{ w with lost := w.lost ++ w.leavesOf p }, rfl, rfl, rfl⟩
  · exact ⟨w, rfl, rfl, rfl⟩

theorem failDev_rm (w : World) (x : Nat) :
    (w.failDev x).rm =
      match (w.dev x).reserved with
      | none => w.rm
      | some id => (w.rm.release id none).1 := by
  obtain ⟨w0, h1, h2, heq⟩ := failDev_eq w x
  rw [heq, keep_rm _ (shutdownDev_keepM _ x true _), addRec_rm, releaseReserved_rm]
  have : ((w0.modDev x fun d => { d with part := none }).dev x).reserved = (w.dev x).reserved := by
    rw [modDev_dev_field Dev.reserved w0 x _ rfl x, dev_congr h1]
  rw [this, modDev_rm, h2]

theorem failDev_dev (w : World) (x : Nat) (hx : x < w.devs.length) :
    ((w.failDev x).dev x).reserved = none ∧ ((w.failDev x).dev x).part = none := by
  obtain ⟨w0, h1, h2, heq⟩ := failDev_eq w x
  have hx0 : x < w0.devs.length := by rw [h1]; exact hx
  have hM := keep_dev _ (shutdownDev_keepM
    (((w0.modDev x fun d => { d with part := none }).releaseReserved x).addRec
        (.failure x ((w0.modDev x fun d => { d with part := none }).releaseReserved x).now
          (w.dev x).part)) x true (w.dev x).part) x
  rw [← heq, dev_addRec, releaseReserved_dev_same, dev_modDev_same hx0] at hM
  exact ⟨congrArg (·.1) hM, congrArg (·.2.2.2.2.2.1) hM⟩

/-- Other devices keep what they hold and their part when `x` fails. -/
theorem failDev_dev_ne (w : World) (x y : Nat) (hy : y ≠ x) :
    ((w.failDev x).dev y).reserved = (w.dev y).reserved ∧ ((w.failDev x).dev y).part = (w.dev y).part := by
  obtain ⟨w0, h1, h2, heq⟩ := failDev_eq w x
  have hM := keep_dev _ (shutdownDev_keepM
    (((w0.modDev x fun d => { d with part := none }).releaseReserved x).addRec
        (.failure x ((w0.modDev x fun d => { d with part := none }).releaseReserved x).now
          (w.dev x).part)) x true (w.dev x).part) y
  rw [← heq, dev_addRec, releaseReserved_dev_ne _ hy, dev_modDev_ne (Ne.symm hy), dev_congr h1] at hM
  exact ⟨congrArg (·.1) hM, congrArg (·.2.2.2.2.2.1) hM⟩

local macro "keepS_peel" : tactic => `(tactic| first
  | rfl
  | rw [keep_setErr] | rw [keep_addRes] | rw [keep_envOp]
  | rw [keep_setWaiting _ (fun _ => rfl)]
  | (rw [keep_setDev]; case h => rfl)
  | (rw [keep_foldl]; case h => (intro _ _; rfl)))

/-- After `_shutdown` a valid processor is shut down. -/
theorem shutdownDev_shutDown (w : World) (x : Nat) (isFailure : Bool) (lost : Option Nat)
    (hx : x < w.devs.length) : ((w.shutdownDev x isFailure lost).dev x).shutDown = true := by
  by_cases hs : (w.dev x).shutDown = true
  · have : keep Dev.shutDown (w.shutdownDev x isFailure lost) = keep Dev.shutDown w := by
      unfold shutdownDev
      dsimp only
      repeat' split
      all_goals repeat keepS_peel
    rw [keep_dev _ this x, hs]
  · have : keep Dev.shutDown (w.shutdownDev x isFailure lost) =
        keep Dev.shutDown (w.setDev x { w.dev x with shutDown := true }) := by
      unfold shutdownDev
      dsimp only
      rw [if_neg hs]
      repeat' split
      all_goals repeat keepS_peel
    rw [keep_dev _ this x, dev_setDev_same hx]

/-! #### `_finish_cycle` only removes the part -/

local macro "keepP_peel" : tactic => `(tactic| first
  | rfl
  | rw [keep_setErr] | rw [keep_schedLib] | rw [keep_addRec]
  | rw [keep_senseOutput]
  | rw [keep_schedulePass _ (fun _ => rfl)]
  | rw [keep_applyPartCb _ (fun _ _ => rfl)]
  | (rw [keep_setDev]; case h => rfl)
  | (rw [keep_foldl]; case h => (intro _ _; first
      | rw [keep_senseOutput] | rw [keep_applyPartCb _ (fun _ _ => rfl)])))

/-- The handler part of `_finish_cycle` takes the part out of the input or leaves it there. -/
theorem finishCycleHandler_part (w : World) (x y : Nat) :
    ((w.finishCycleHandler x).dev y).part = (w.dev y).part ∨
    ((w.finishCycleHandler x).dev y).part = none := by
  unfold finishCycleHandler
  dsimp only
  repeat' split
  all_goals first
    | (left; rw [dev_setErr]; done)
    | skip
  next p hp _ =>
  have hk := keep_dev _ (keep_schedulePass Dev.part (fun _ => rfl)
    (w.setDev x { w.dev x with output := some p, part := none }) x 0) y
  rw [hk, dev_setDev]
  split
  · right; rfl
  · left; rfl

/-- `_finish_cycle` of a processor takes the part out of the input or leaves it there; no device
gets a part. -/
theorem finishCycle_part (w : World) (x y : Nat) (hk : (w.dev x).kind = .processor) :
    ((w.finishCycle x).dev y).part = (w.dev y).part ∨ ((w.finishCycle x).dev y).part = none := by
  have h : keep Dev.part (w.finishCycle x) = keep Dev.part (w.finishCycleHandler x) := by
    unfold finishCycle
    simp only [hk]
    repeat' split
    all_goals repeat keepP_peel
  rw [keep_dev _ h y]
  exact finishCycleHandler_part w x y

end World

/-! ### Part 3: sums -/

section sums
variable {β γ : Type}

theorem isum_map_zero (l : List β) : isum (l.map fun _ => (0 : Int)) = 0 := by
  induction l with
  | nil => rfl
  | cons a l ih => simp [ih]

theorem isum_map_add (l : List β) (f g : β → Int) :
    isum (l.map fun a => f a + g a) = isum (l.map f) + isum (l.map g) := by
  induction l with
  | nil => rfl
  | cons a l ih => simp only [List.map_cons, isum_cons, ih]; omega

theorem isum_map_congr (l : List β) (f g : β → Int) (h : ∀ a ∈ l, f a = g a) :
    isum (l.map f) = isum (l.map g) := by
  rw [List.map_congr_left h]

theorem isum_swap (l₁ : List β) (l₂ : List γ) (f : β → γ → Int) :
    isum (l₁.map fun a => isum (l₂.map fun b => f a b)) =
      isum (l₂.map fun b => isum (l₁.map fun a => f a b)) := by
  induction l₁ with
  | nil => simp [isum_map_zero]
  | cons a l ih =>
    simp only [List.map_cons, isum_cons, ih]
    rw [← isum_map_add]

theorem isum_map_ite_const (l : List β) (P : β → Bool) (c : Int) :
    isum (l.map fun a => if P a then c else 0) = c * (l.countP P : Nat) := by
  induction l with
  | nil => simp
  | cons a l ih =>
    simp only [List.map_cons, isum_cons, ih, List.countP_cons]
    by_cases h : P a = true
    · simp only [h, if_true]; rw [Int.natCast_add, Int.mul_add]; simp; omega
    · simp only [h]; simp

/-- Summing `F` over the entries with key `id` of an association list with distinct keys picks the
entry `alookup` finds. -/
theorem isum_alookup (l : List (Nat × β)) (hn : (l.map (·.1)).Nodup) (id : Nat) (F : β → Int) :
    isum (l.map fun p => if p.1 = id then F p.2 else 0) =
      match alookup l id with
      | some v => F v
      | none => 0 := by
  induction l with
  | nil => rfl
  | cons q l ih =>
    obtain ⟨k, v⟩ := q
    simp only [List.map_cons, List.nodup_cons] at hn
    simp only [List.map_cons, isum_cons, alookup_cons]
    by_cases hk : k = id
    · subst hk
      simp only [if_true]
      have hz : isum (l.map fun p => if p.1 = k then F p.2 else 0) = 0 := by
        rw [isum_map_congr l _ (fun _ => 0), isum_map_zero]
        intro a ha
        have : a.1 ≠ k := fun h => hn.1 (h ▸ List.mem_map.2 ⟨a, ha, rfl⟩)
        simp [this]
      rw [hz]; simp
    · have hb : (k == id) = false := by simpa using hk
      simp only [hk, if_false]
      rw [ih hn.2]; simp

end sums

/-! ### Part 4: who references which reservation (on lists) -/

/-- `rs` = the `reserved` fields of the devices, `resv` = the reservations of the manager: every
reference is to an existing reservation, and every non-empty reservation is referenced by exactly
one device. -/
def Owned (resv : List (Nat × Req)) (rs : List (Option Nat)) : Prop :=
  (∀ id, some id ∈ rs → id < resv.length) ∧ (∀ p ∈ resv, p.2 ≠ [] → rs.count (some p.1) = 1)

theorem Owned.acquire {resv : List (Nat × Req)} {rs : List (Option Nat)} (h : Owned resv rs)
    (hids : ∀ p ∈ resv, p.1 < resv.length) {x : Nat} (hx : x < rs.length) (hnone : rs[x] = none)
    (hd : Req) : Owned (resv ++ [(resv.length, hd)]) (rs.set x (some resv.length)) := by
  obtain ⟨hv, hu⟩ := h
  refine ⟨?_, ?_⟩
  · intro id hid
    rw [List.length_append, List.length_singleton]
    rcases List.mem_or_eq_of_mem_set hid with h | h
    · have := hv id h; omega
    · cases h; omega
  · intro p hp hne
    rw [List.count_set hx, hnone]
    rcases List.mem_append.1 hp with hp | hp
    · have hlt := hids p hp
      have h1 : (some resv.length == some p.1) = false := by simp; omega
      simp [h1, hu p hp hne]
    · simp only [List.mem_singleton] at hp
      subst hp
      have h0 : rs.count (some resv.length) = 0 := by
        rw [List.count_eq_zero]
        intro hm
        have := hv _ hm
        omega
      simp [h0]

theorem Owned.release {resv : List (Nat × Req)} {rs : List (Option Nat)} (h : Owned resv rs)
    {x id : Nat} (hx : x < rs.length) (hsome : rs[x] = some id) :
    Owned (aupd resv id []) (rs.set x none) := by
  obtain ⟨hv, hu⟩ := h
  refine ⟨?_, ?_⟩
  · intro id' hid
    rw [length_aupd]
    rcases List.mem_or_eq_of_mem_set hid with h | h
    · exact hv id' h
    · cases h
  · intro p hp hne
    rcases mem_aupd _ _ _ _ hp with h | ⟨hm, hk⟩
    · subst h; exact absurd rfl hne
    · rw [List.count_set hx, hsome]
      have h1 : (some id == some p.1) = false := by simp; exact fun h => hk h.symm
      simp [h1, hu p hm hne]

/-- Dropping a reference to an id that names no reservation. -/
theorem Owned.drop_dangling {resv : List (Nat × Req)} {rs : List (Option Nat)} (h : Owned resv rs)
    {x id : Nat} (hx : x < rs.length) (hsome : rs[x] = some id) (hno : id ∉ resv.map (·.1)) :
    Owned resv (rs.set x none) := by
  obtain ⟨hv, hu⟩ := h
  refine ⟨?_, ?_⟩
  · intro id' hid
    rcases List.mem_or_eq_of_mem_set hid with h | h
    · exact hv id' h
    · cases h
  · intro p hp hne
    rw [List.count_set hx, hsome]
    have hk : p.1 ≠ id := fun h => hno (h ▸ List.mem_map.2 ⟨p, hp, rfl⟩)
    have h1 : (some id == some p.1) = false := by simp; exact fun h => hk h.symm
    simp [h1, hu p hp hne]

namespace World

/-- The `reserved` fields of the devices. -/
def rsv (w : World) : List (Option Nat) := w.devs.map (·.reserved)

theorem rsv_length (w : World) : w.rsv.length = w.devs.length := by simp [rsv]

theorem rsv_getElem (w : World) (x : Nat) (hx : x < w.rsv.length) :
    w.rsv[x] = (w.dev x).reserved := by
  have hx' : x < w.devs.length := by rw [← rsv_length]; exact hx
  simp [rsv, dev, List.getD_eq_getElem?_getD, hx']

theorem rsv_modDev (w : World) (x : Nat) (f : Dev → Dev) :
    (w.modDev x f).rsv = w.rsv.set x (f (w.dev x)).reserved := by
  simp [rsv, modDev, setDev, List.map_set]

theorem rsv_of_devs_eq {w w' : World} (h : w'.devs = w.devs) : w'.rsv = w.rsv := by
  unfold rsv; rw [h]

theorem rsv_of_keep {α : Type} (g : Dev → α) (f : α → Option Nat)
    (hf : ∀ d, f (g d) = d.reserved) {w w' : World} (h : keep g w' = keep g w) : w'.rsv = w.rsv := by
  have h2 : w'.devs.map g = w.devs.map g := congrArg Prod.snd h
  have h3 := congrArg (List.map f) h2
  simp only [List.map_map] at h3
  have he : (f ∘ g) = (fun d : Dev => d.reserved) := funext hf
  rw [he] at h3
  exact h3

theorem set_self_of_getElem {α} (l : List α) (x : Nat) (a : α) (h : ∀ hx : x < l.length, l[x] = a) :
    l.set x a = l := by
  apply List.ext_getElem?
  intro j
  rw [List.getElem?_set]
  split
  · next hij =>
    subst hij
    split
    · next hlt => rw [List.getElem?_eq_getElem hlt, h hlt]
    · next hge => rw [List.getElem?_eq_none (Nat.not_lt.1 hge)]
  · rfl

/-- What `releaseReserved` does to reservations and references. -/
theorem releaseReserved_shape (w : World) (x : Nat) :
    (w.releaseReserved x).rsv = w.rsv.set x none ∧
    (w.releaseReserved x).rm.resv =
      match (w.dev x).reserved with
      | none => w.rm.resv
      | some id =>
        match w.rm.held id with
        | none => w.rm.resv
        | some _ => aupd w.rm.resv id [] := by
  constructor
  · rw [rsv_of_devs_eq (releaseReserved_devs w x), rsv_modDev]
  · rw [releaseReserved_rm]
    cases hr : (w.dev x).reserved with
    | none => rfl
    | some id =>
      cases hh : w.rm.held id with
      | none => simp only; unfold RM.release; simp only [hh]
      | some h =>
        simp only
        rw [RM.release_all_eq w.rm id h hh]
        simp only [RM.setHeld_resv, RM.credit_resv, hh]

/-- What `procAcquire` does to reservations and references: nothing, or a new reservation with
the next id, referenced by `x` (which referenced nothing before). -/
theorem procAcquire_shape (w : World) (x : Nat) :
    ((w.procAcquire x).1.rsv = w.rsv ∧ (w.procAcquire x).1.rm.resv = w.rm.resv) ∨
    (∃ hd, (w.dev x).reserved = none ∧ x < w.devs.length ∧
      (w.procAcquire x).1.rsv = w.rsv.set x (some w.rm.resv.length) ∧
      (w.procAcquire x).1.rm.resv = w.rm.resv ++ [(w.rm.resv.length, hd)]) := by
  by_cases hb : (w.procAcquire x).2 = false
  · left
    obtain ⟨_, h2, h3⟩ := procAcquire_false w x hb
    refine ⟨?_, h2⟩
    obtain ⟨r, wr, hd⟩ := procAcquire_devs w x
    rw [rsv_of_devs_eq hd, rsv_modDev]
    apply set_self_of_getElem
    intro hx
    rw [rsv_getElem w x hx, ← h3 x]
    have hx' : x < w.devs.length := by rw [← rsv_length]; exact hx
    rw [dev_congr hd, dev_modDev_same hx']
  · have hb : (w.procAcquire x).2 = true := by simpa using hb
    cases hreq : (w.dev x).resReq with
    | none => left; rw [procAcquire_noop w x (Or.inl hreq)]; exact ⟨rfl, rfl⟩
    | some req =>
      cases hres : (w.dev x).reserved with
      | some id => left; rw [procAcquire_noop w x (Or.inr (by rw [hres]; rfl))]; exact ⟨rfl, rfl⟩
      | none =>
        right
        have hx := valid_of_resReq hreq
        have hsome : ∃ id, (w.rm.reserve req).2.2.1 = some id := by
          cases hs : (w.rm.reserve req).2.2.1 with
          | some id => exact ⟨id, rfl⟩
          | none =>
            exfalso
            unfold procAcquire at hb
            simp only [hreq, hres, Option.isSome_none, Bool.false_eq_true, if_false] at hb
            rcases hR : w.rm.reserve req with ⟨rm', res, oid, recs⟩
            rw [hR] at hs hb
            simp only at hs
            subst hs
            cases res <;> simp only at hb <;> (try split at hb) <;> simp at hb
        obtain ⟨id, hid⟩ := hsome
        obtain ⟨_, _, hlen, heq⟩ := RM.reserve_some w.rm req id hid
        subst hlen
        have hpa : w.procAcquire x =
            ((({ w with rm := (w.rm.reserve req).1 } : World).rmEffects (w.rm.reserve req).2.2.2
              false).modDev x (fun d => { d with reserved := some w.rm.resv.length }), true) := by
          unfold procAcquire
          simp only [hreq, hres, Option.isSome_none, Bool.false_eq_true, if_false]
          rcases hR : w.rm.reserve req with ⟨rm', res, oid, recs⟩
          rw [hR] at hid
          simp only at hid
          subst hid
          rfl
        refine ⟨req.filter (fun p => p.2 > 0), rfl, hx, ?_, ?_⟩
        · rw [hpa]
          simp only
          rw [rsv_modDev]
          exact congrArg (fun l => List.set l x _) (rsv_of_devs_eq (rmEffects_devs _ _ _))
        · rw [hpa]
          simp only [modDev_rm, rmEffects_rm]
          rw [heq]

end World
end SimProc
