/-
C10W — the pending-request service of the resource manager at world level.

Base machinery, part 1: the UNCONDITIONAL relation `U w w'` ("`w'` is `w` after something that is
not an availability check"): the waiting list of the manager is only appended to (and an appended
script request names a callback that some script registers, `RegBy`), the manager stays
initialised, the action log `results` is only appended to and no appended entry is a callback
record `.cb k`, the scripts are unchanged.  `U0` is the weak form (no `RegBy` clause) that also
holds for operations issued from outside.  A peeling tactic (`u_step` / `u_auto`) in the
style of `C01WBase` proves `U w (f w)` function by function.
-/
import SimProc.Proofs.C01WRun
import SimProc.Props.C10

namespace SimProc
namespace C10W
open World FloorCoreL
open Lean Elab Tactic Meta

/-- A result that is not a callback record. -/
def notCb : Res → Bool
  | .cb _ => false
  | _ => true

/-- What `U` observes of a world. -/
def KU (w : World) : RM × List Res × List (List Op) := (w.rm, w.results, w.scripts)

/-- Script `k` is registered as a callback by a `register` operation of some script. -/
def RegBy (w : World) (k : Nat) : Prop := ∃ s ∈ w.scripts, ∃ req, Op.register k req ∈ s

/-- **The unconditional relation.** -/
structure U (w w' : World) : Prop where
  /-- the waiting list is only appended to; an appended script request names a callback that some
  script registers -/
  wapp : ∃ l, w'.rm.waiting = w.rm.waiting ++ l ∧ ∀ e ∈ l, ∀ k, e.2 = .script k → RegBy w k
  ini : w.rm.inited = true → w'.rm.inited = true
  res : ∃ l, w'.results = w.results ++ l ∧ ∀ r ∈ l, notCb r = true
  scr : w'.scripts = w.scripts

theorem U.refl (w : World) : U w w :=
  ⟨⟨[], by simp, by simp⟩, id, ⟨[], by simp⟩, rfl⟩

theorem RegBy.of_scr {w w' : World} {k : Nat} (h : RegBy w' k) (hs : w'.scripts = w.scripts) :
    RegBy w k := by
  unfold RegBy at h ⊢; rw [← hs]; exact h

theorem U.trans {a b c : World} (h1 : U a b) (h2 : U b c) : U a c := by
  obtain ⟨l1, e1, q1⟩ := h1.wapp
  obtain ⟨l2, e2, q2⟩ := h2.wapp
  obtain ⟨r1, f1, g1⟩ := h1.res
  obtain ⟨r2, f2, g2⟩ := h2.res
  refine ⟨⟨l1 ++ l2, by rw [e2, e1, List.append_assoc], ?_⟩, fun h => h2.ini (h1.ini h),
    ⟨r1 ++ r2, by rw [f2, f1, List.append_assoc], ?_⟩, h2.scr.trans h1.scr⟩
  · intro e he k hk
    rcases List.mem_append.1 he with h | h
    · exact q1 e h k hk
    · exact (q2 e h k hk).of_scr h1.scr
  · intro r hr
    rcases List.mem_append.1 hr with h | h
    · exact g1 r h
    · exact g2 r h

/-- The waiting list is only appended to (the weak form of `U.wapp`). -/
theorem U.wapp' {w w' : World} (u : U w w') : ∃ l, w'.rm.waiting = w.rm.waiting ++ l := by
  obtain ⟨l, h, _⟩ := u.wapp; exact ⟨l, h⟩

theorem KU_rm {w w' : World} (h : KU w' = KU w) : w'.rm = w.rm := congrArg Prod.fst h
theorem KU_results {w w' : World} (h : KU w' = KU w) : w'.results = w.results :=
  congrArg (fun q => q.2.1) h
theorem KU_scr {w w' : World} (h : KU w' = KU w) : w'.scripts = w.scripts :=
  congrArg (fun q => q.2.2) h

theorem U.of_KU {w w' : World} (h : KU w' = KU w) : U w w' :=
  ⟨⟨[], by rw [KU_rm h]; simp, by simp⟩, fun hi => by rw [KU_rm h]; exact hi,
    ⟨[], by rw [KU_results h]; simp⟩, KU_scr h⟩

theorem U.trans_KU {a b c : World} (h1 : U a b) (h : KU c = KU b) : U a c :=
  h1.trans (U.of_KU h)

theorem U.of_KU_trans {a b c : World} (h : KU b = KU a) (h2 : U b c) : U a c :=
  (U.of_KU h).trans h2

theorem U.foldl {α} (g : World → α → World) (l : List α) (w : World)
    (h : ∀ w a, U w (g w a)) : U w (l.foldl g w) := by
  induction l generalizing w with
  | nil => exact U.refl w
  | cons a l ih => exact (h w a).trans (ih _)

theorem KU_foldl {α} (g : World → α → World) (l : List α) (w : World)
    (h : ∀ w a, KU (g w a) = KU w) : KU (l.foldl g w) = KU w :=
  foldl_preserve KU g l w h

theorem U.of_fst_eq {α} {w w' : World} {e : World × α} {b : α} (he : U w e.1)
    (h : e = (w', b)) : U w w' := by
  subst h; exact he

/-- The weak form of `U`, for operations issued from outside (which may register any callback). -/
structure U0 (w w' : World) : Prop where
  wapp : ∃ l, w'.rm.waiting = w.rm.waiting ++ l
  ini : w.rm.inited = true → w'.rm.inited = true
  res : ∃ l, w'.results = w.results ++ l ∧ ∀ r ∈ l, notCb r = true
  scr : w'.scripts = w.scripts

theorem U.toU0 {w w' : World} (u : U w w') : U0 w w' := ⟨u.wapp', u.ini, u.res, u.scr⟩

/-! ### primitives -/

@[simp] theorem KU_setErr (w : World) (m : String) : KU (w.setErr m) = KU w := by
  unfold setErr; split <;> rfl
@[simp] theorem KU_addRec (w : World) (r : Rec) : KU (w.addRec r) = KU w := rfl
@[simp] theorem KU_modPart (w : World) (p : Nat) (f : PartRec → PartRec) :
    KU (w.modPart p f) = KU w := rfl
@[simp] theorem KU_newPart (w : World) (r : PartRec) : KU (w.newPart r).1 = KU w := rfl
@[simp] theorem KU_setDev (w : World) (x : Nat) (d : Dev) : KU (w.setDev x d) = KU w := rfl
@[simp] theorem KU_modDev (w : World) (x : Nat) (f : Dev → Dev) : KU (w.modDev x f) = KU w := rfl
@[simp] theorem KU_envOp (w : World) (op : EnvOp) : KU (w.envOp op) = KU w := rfl

theorem KU_sched (w : World) (t a : Int) (act : Action) (p : Int) :
    KU (w.sched t a act p).1 = KU w := by
  unfold World.sched
  simp only [Env.apply]
  cases w.env.schedule t a act.toNat p (weightOf w.seed w.wmod t a act.toNat p) <;> rfl

theorem KU_schedLib (w : World) (t a : Int) (act : Action) (p : Int) :
    KU (w.schedLib t a act p) = KU w := by
  unfold schedLib
  have h := KU_sched w t a act p
  generalize w.sched t a act p = s at h ⊢
  obtain ⟨w', r⟩ := s
  cases r <;> simp [h] <;> exact h

theorem KU_rmEffects (w : World) (recs : List ResRec) (chk : Bool) :
    KU (w.rmEffects recs chk) = KU w := by
  unfold rmEffects
  dsimp only
  have h : KU (recs.foldl (fun w r => w.addRec (.resUpdate r.res w.now r.inUse r.cap)) w) = KU w :=
    KU_foldl _ _ _ (fun _ _ => rfl)
  split
  · rw [KU_schedLib, h]
  · exact h

theorem U_addRes (w : World) (r : Res) (h : notCb r = true) : U w (w.addRes r) :=
  ⟨⟨[], by simp [addRes], by simp⟩, id, ⟨[r], rfl, by simpa using h⟩, rfl⟩

/-- What a manager operation other than the check and other than a script's registration does to
the waiting list and the flag: it appends no script request. -/
def RmU (rm rm' : RM) : Prop :=
  (∃ l, rm'.waiting = rm.waiting ++ l ∧ ∀ e ∈ l, ∀ k, e.2 ≠ .script k) ∧
  (rm.inited = true → rm'.inited = true)

theorem U_rmSet (w : World) (rm' : RM) (h : RmU w.rm rm') : U w { w with rm := rm' } := by
  obtain ⟨⟨l, hl, hq⟩, hi⟩ := h
  exact ⟨⟨l, hl, fun e he k hk => absurd hk (hq e he k)⟩, hi, ⟨[], by simp⟩, rfl⟩

theorem apply_waiting_noScript (rm : RM) (op : RMOp) (h : ∀ req k, op ≠ .register req (.script k)) :
    ∃ l, (rm.apply op).1.waiting = rm.waiting ++ l ∧ ∀ e ∈ l, ∀ k, e.2 ≠ .script k := by
  cases op with
  | init => exact ⟨[], by simp [C10.apply_init], by simp⟩
  | add r amt =>
    refine ⟨[], ?_, by simp⟩
    simp only [RM.apply, List.append_nil]
    rcases C10.add_cases rm r amt with ⟨h, _⟩ | ⟨_, _, _, v, hv⟩
    · rw [h]
    · rw [hv]; simp
  | reserve req => exact ⟨[], by simp [RM.apply, (C10.reserve_spec rm req).1], by simp⟩
  | release id part =>
    refine ⟨[], ?_, by simp⟩
    simp only [RM.apply, List.append_nil]
    rcases C10.release_cases rm id part with ⟨h, _⟩ | ⟨_, _, hw, _⟩
    · rw [h]
    · exact hw
  | merge a b => exact ⟨[], by simp [RM.apply, (C10.merge_spec rm a b).1], by simp⟩
  | register req cb =>
    refine ⟨[(req, cb)], rfl, ?_⟩
    intro e he k hk
    have : e = (req, cb) := by simpa using he
    subst this
    exact h req k (by rw [show cb = Cb.script k from hk])

theorem RmU.apply (rm : RM) (op : RMOp) (h : ∀ req k, op ≠ .register req (.script k)) :
    RmU rm (rm.apply op).1 :=
  ⟨apply_waiting_noScript rm op h, C10.apply_inited_mono rm op⟩

theorem RmU.add (rm : RM) (r : Nat) (amt : Int) : RmU rm (rm.add r amt).1 :=
  RmU.apply rm (.add r amt) (fun _ _ h => by cases h)
theorem RmU.reserve (rm : RM) (req : Req) : RmU rm (rm.reserve req).1 :=
  RmU.apply rm (.reserve req) (fun _ _ h => by cases h)
theorem RmU.release (rm : RM) (id : Nat) (part : Option Req) : RmU rm (rm.release id part).1 :=
  RmU.apply rm (.release id part) (fun _ _ h => by cases h)
theorem RmU.merge (rm : RM) (a b : Nat) : RmU rm (rm.merge a b).1 :=
  RmU.apply rm (.merge a b) (fun _ _ h => by cases h)
theorem RmU.register (rm : RM) (req : Req) (d : Nat) : RmU rm (rm.register req (.proc d)).1 :=
  RmU.apply rm (.register req (.proc d)) (fun _ _ h => by cases h)
theorem RmU.init (rm : RM) : RmU rm rm.init.1 := RmU.apply rm .init (fun _ _ h => by cases h)

/-- A script's registration. -/
theorem U_rmRegister (w : World) (k : Nat) (req : Req) (h : RegBy w k) :
    U w { w with rm := (w.rm.register req (.script k)).1 } := by
  refine ⟨⟨[(req, .script k)], rfl, ?_⟩, id, ⟨[], by simp⟩, rfl⟩
  intro e he k' hk'
  have : e = (req, Cb.script k) := by simpa using he
  subst this
  cases hk'; exact h

/-! ### the peeling tactic -/

/-- Peel a structure update `{ w with f := v, … }` that leaves `rm`, `results` and `scripts`
alone (the base world is read off the `seed` field, which nothing ever changes). -/
elab "u_struct" : tactic => do
  let g ← getMainGoal
  g.withContext do
    let t ← instantiateMVars (← g.getType)
    let_expr U a b := t.consumeMData | throwError "u_struct: not a U goal"
    let b := b.consumeMData
    unless b.isAppOfArity ``World.mk 23 do throwError "u_struct: not a structure instance"
    let r := b.getArg! 1
    let w0 ← match r with
      | .proj _ _ w0 => pure w0
      | _ =>
        if r.isAppOfArity ``World.seed 1 then pure (r.getArg! 0)
        else throwError "u_struct: the seed is changed"
    let newGoal ← mkFreshExprSyntheticOpaqueMVar (← mkAppM ``U #[a, w0])
    let eq ← mkEq (← mkAppM ``KU #[b]) (← mkAppM ``KU #[w0])
    let pf ← mkFreshExprMVar eq
    pf.mvarId!.refl
    g.assign (mkApp5 (mkConst ``U.trans_KU) a w0 b newGoal pf)
    replaceMainGoal [newGoal.mvarId!]

/-- One step: close the goal, or peel the outermost function application. -/
syntax "u_step" : tactic

/-- Peel / split until nothing is left. -/
macro "u_auto" : tactic => `(tactic| repeat' first | u_step | split)

macro "u_side" : tactic =>
  `(tactic| first
    | exact rfl
    | assumption
    | decide
    | (intro h; cases h))

macro_rules | `(tactic| u_step) => `(tactic| u_struct)
macro_rules | `(tactic| u_step) => `(tactic|
  ((with_reducible apply U.trans (h2 := U.foldl _ _ _ ?hs)); case hs => (intro _ _; u_auto; done)))
macro_rules | `(tactic| u_step) => `(tactic| with_reducible apply U.trans_KU (h := KU_rmEffects _ _ _))
macro_rules | `(tactic| u_step) => `(tactic| with_reducible apply U.trans_KU (h := KU_envOp _ _))
macro_rules | `(tactic| u_step) => `(tactic| with_reducible apply U.trans_KU (h := KU_schedLib _ _ _ _ _))
macro_rules | `(tactic| u_step) => `(tactic| with_reducible apply U.trans_KU (h := KU_sched _ _ _ _ _))
macro_rules | `(tactic| u_step) => `(tactic| with_reducible apply U.trans_KU (h := KU_setErr _ _))
macro_rules | `(tactic| u_step) => `(tactic|
  ((with_reducible apply U.trans (h2 := U_addRes _ _ ?hr)); case hr => exact rfl))
macro_rules | `(tactic| u_step) => `(tactic| with_reducible apply U.trans_KU (h := KU_addRec _ _))
macro_rules | `(tactic| u_step) => `(tactic| with_reducible apply U.trans_KU (h := KU_modPart _ _ _))
macro_rules | `(tactic| u_step) => `(tactic| with_reducible apply U.trans_KU (h := KU_newPart _ _))
macro_rules | `(tactic| u_step) => `(tactic| with_reducible apply U.trans_KU (h := KU_modDev _ _ _))
macro_rules | `(tactic| u_step) => `(tactic| with_reducible apply U.trans_KU (h := KU_setDev _ _ _))
macro_rules | `(tactic| u_step) => `(tactic| with_reducible exact U.refl _)

/-- After a `split` on a pair-valued call: use the fact `t` about the call. -/
macro "u_heq " t:term : tactic =>
  `(tactic| (rename_i heq; with_reducible apply U.trans (h2 := U.of_fst_eq $t heq)))

end C10W
end SimProc
