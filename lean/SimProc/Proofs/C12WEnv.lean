/-
C12W (closed-world maintainer theorems), part 1: the event queue.

Maintainer events are the events whose action decodes to `.startWork m s` / `.finishWork m s`
(`ekey`).  A *quiet* operation on the queue (`QOp A`) schedules only other actions and pauses /
resumes / cancels only asset ids outside the list `A` (the asset ids of the maintainers): a list of
quiet operations leaves the maintainer events of the queue exactly as they are
(`quiet_applyAll`), provided they carry asset ids of `A` and none of them is paused (`MG`).
-/
import SimProc.Proofs.C01WBase

namespace SimProc
namespace C12W
open World

/-! ### keys of maintainer events -/

/-- `(is finish, maintainer, order)` of a maintainer action. -/
def actKey : Action → Option (Bool × Nat × Nat)
  | .startWork m s => some (false, m, s)
  | .finishWork m s => some (true, m, s)
  | _ => none

def ekey (e : Event) : Option (Bool × Nat × Nat) := actKey (Action.ofNat e.act)

def isM (e : Event) : Bool := (ekey e).isSome

theorem isM_false_iff (e : Event) : isM e = false ↔ ekey e = none := by
  unfold isM; cases ekey e <;> simp

theorem isM_true_iff (e : Event) : isM e = true ↔ ∃ k, ekey e = some k := by
  unfold isM; cases ekey e <;> simp

/-- Actions other than `startWork` / `finishWork` are encoded as non-maintainer codes. -/
theorem actKey_toNat_none (a : Action) (h : actKey a = none) :
    actKey (Action.ofNat a.toNat) = none := by
  cases a with
  | terminate => simp [Action.toNat, Action.ofNat, actKey]
  | script k =>
    have h1 : (1 + 16 * k) % 16 = 1 := by omega
    simp [Action.toNat, Action.ofNat, h1, actKey]
  | finishCycle k =>
    have h1 : (2 + 16 * k) % 16 = 2 := by omega
    simp [Action.toNat, Action.ofNat, h1, actKey]
  | passPart k =>
    have h1 : (3 + 16 * k) % 16 = 3 := by omega
    simp [Action.toNat, Action.ofNat, h1, actKey]
  | fail k =>
    have h1 : (4 + 16 * k) % 16 = 4 := by omega
    simp [Action.toNat, Action.ofNat, h1, actKey]
  | releaseIfIdle k =>
    have h1 : (5 + 16 * k) % 16 = 5 := by omega
    simp [Action.toNat, Action.ofNat, h1, actKey]
  | rmCheck => simp [Action.toNat, Action.ofNat, actKey]
  | startWork m o => simp [actKey] at h
  | finishWork m o => simp [actKey] at h
  | schedUpdate k =>
    have h1 : (9 + 16 * k) % 16 = 9 := by omega
    simp [Action.toNat, Action.ofNat, h1, actKey]
  | periodicSense k =>
    have h1 : (10 + 16 * k) % 16 = 10 := by omega
    simp [Action.toNat, Action.ofNat, h1, actKey]
  | unknown k =>
    have h1 : (15 + 16 * k) % 16 = 15 := by omega
    simp [Action.toNat, Action.ofNat, h1, actKey]

theorem ofNat_toNat_startWork (m s : Nat) (hm : m < 256) :
    Action.ofNat (Action.startWork m s).toNat = .startWork m s := by
  have h1 : (7 + 16 * (m + 256 * s)) % 16 = 7 := by omega
  have h2 : (7 + 16 * (m + 256 * s)) / 16 = m + 256 * s := by omega
  have h3 : (m + 256 * s) % 256 = m := by omega
  have h4 : (m + 256 * s) / 256 = s := by omega
  simp [Action.toNat, Action.ofNat, h1, h2, h3, h4]

theorem ofNat_toNat_finishWork (m s : Nat) (hm : m < 256) :
    Action.ofNat (Action.finishWork m s).toNat = .finishWork m s := by
  have h1 : (8 + 16 * (m + 256 * s)) % 16 = 8 := by omega
  have h2 : (8 + 16 * (m + 256 * s)) / 16 = m + 256 * s := by omega
  have h3 : (m + 256 * s) % 256 = m := by omega
  have h4 : (m + 256 * s) / 256 = s := by omega
  simp [Action.toNat, Action.ofNat, h1, h2, h3, h4]

/-! ### quiet operations -/

/-- Operations that do not concern the maintainers whose asset ids are `A`. -/
def QOp (A : List Int) : EnvOp → Prop
  | .sched _ _ act _ _ => actKey (Action.ofNat act) = none
  | .pause a => a ∉ A
  | .unpause a => a ∉ A
  | .cancel a => a ∉ A
  | .step => False
  | .runBegin _ _ => False

/-- The maintainer events of the queue carry asset ids of `A`; none is paused. -/
structure MG (A : List Int) (s : Env) : Prop where
  ev : ∀ e ∈ s.events, isM e = true → e.asset ∈ A
  pa : ∀ e ∈ s.paused, isM e = false

theorem filter_insort_of_false (p : Event → Bool) (x : Event) (l : List Event) (h : p x = false) :
    (insort x l).filter p = l.filter p := by
  induction l with
  | nil => simp [insort, h]
  | cons e es ih =>
    rw [insort]
    split
    · simp [List.filter_cons, h]
    · simp only [List.filter_cons, ih]

theorem filter_foldl_insort_of_false (p : Event → Bool) (f : Event → Event) (l q : List Event)
    (h : ∀ e ∈ l, p (f e) = false) :
    (l.foldl (fun q e => insort (f e) q) q).filter p = q.filter p := by
  induction l generalizing q with
  | nil => rfl
  | cons e es ih =>
    rw [List.foldl_cons, ih _ (fun e' he' => h e' (List.mem_cons_of_mem _ he')),
      filter_insort_of_false _ _ _ (h e List.mem_cons_self)]

theorem filter_filter_of_imp {α} (p q : α → Bool) (l : List α)
    (h : ∀ e ∈ l, p e = true → q e = true) : (l.filter q).filter p = l.filter p := by
  induction l with
  | nil => rfl
  | cons e es ih =>
    have ih' := ih (fun e' he' => h e' (List.mem_cons_of_mem _ he'))
    by_cases hq : q e = true
    · simp only [List.filter_cons, hq, if_true, ih']
    · have hp : p e = false := by
        cases hp : p e with
        | false => rfl
        | true => exact absurd (h e List.mem_cons_self hp) hq
      simp [hq, hp, ih']

theorem filter_map_of_fix (p : Event → Bool) (f : Event → Event) (l : List Event)
    (h1 : ∀ e ∈ l, p e = true → f e = e) (h2 : ∀ e ∈ l, p (f e) = p e) :
    (l.map f).filter p = l.filter p := by
  induction l with
  | nil => rfl
  | cons e es ih =>
    have ih' := ih (fun e' he' => h1 e' (List.mem_cons_of_mem _ he'))
      (fun e' he' => h2 e' (List.mem_cons_of_mem _ he'))
    simp only [List.map_cons, List.filter_cons, h2 e List.mem_cons_self, ih']
    split
    · next hp => rw [h1 e List.mem_cons_self hp]
    · rfl

theorem isM_congr {e e' : Event} (h : e'.act = e.act) : isM e' = isM e := by
  unfold isM ekey; rw [h]

theorem isM_cancelIf (a : Int) (e : Event) : isM (e.cancelIf a) = isM e :=
  isM_congr (Event.cancelIf_act a e)

/-- **A quiet operation leaves the clock and the maintainer events alone.** -/
theorem quiet_apply {A : List Int} {s : Env} {op : EnvOp} (h : QOp A op) (g : MG A s) :
    (s.apply Arith.exact op).1.now = s.now ∧
    (s.apply Arith.exact op).1.events.filter isM = s.events.filter isM ∧
    (∀ e ∈ (s.apply Arith.exact op).1.paused, isM e = false) := by
  cases op with
  | sched t a act p wt =>
    simp only [Env.apply]
    cases hs : s.schedule t a act p wt with
    | none => exact ⟨rfl, rfl, g.pa⟩
    | some s' =>
      obtain ⟨_, rfl⟩ := Env.schedule_some.mp hs
      refine ⟨rfl, ?_, g.pa⟩
      apply filter_insort_of_false
      rw [isM_false_iff]
      exact h
  | pause a =>
    have ha : a ∉ A := h
    refine ⟨rfl, ?_, ?_⟩
    · show (s.events.filter (fun e => !(e.asset == a))).filter isM = _
      apply filter_filter_of_imp
      intro e he hm
      have := g.ev e he hm
      have hne : e.asset ≠ a := fun heq => ha (heq ▸ this)
      simpa using hne
    · intro e he
      have he' : e ∈ s.paused ++ (s.events.filter (fun e => e.asset == a)).map
          (fun e => { e with pausedAt := some s.now }) := he
      rcases List.mem_append.1 he' with h1 | h1
      · exact g.pa e h1
      · obtain ⟨e0, he0, rfl⟩ := List.mem_map.1 h1
        have hm0 : isM e0 = false := by
          cases hm : isM e0 with
          | false => rfl
          | true =>
            have h2 := List.mem_filter.1 he0
            have := g.ev e0 h2.1 hm
            have heq : e0.asset = a := by simpa using h2.2
            exact absurd (heq ▸ this) ha
        rw [← hm0]
        exact isM_congr rfl
  | unpause a =>
    refine ⟨rfl, ?_, ?_⟩
    · show ((s.paused.filter (fun e => e.asset == a)).foldl
        (fun q e => insort { e with time := shiftTime Arith.exact s.now e.time (e.pausedAt.getD s.now) } q)
        s.events).filter isM = _
      apply filter_foldl_insort_of_false isM
        (fun e => { e with time := shiftTime Arith.exact s.now e.time (e.pausedAt.getD s.now) })
      intro e he
      have := g.pa e (List.mem_filter.1 he).1
      rw [← this]
      exact isM_congr rfl
    · intro e he
      have he' : e ∈ s.paused.filter (fun e => !(e.asset == a)) := he
      exact g.pa e (List.mem_filter.1 he').1
  | cancel a =>
    have ha : a ∉ A := h
    refine ⟨rfl, ?_, ?_⟩
    · show (s.events.map (Event.cancelIf a)).filter isM = _
      apply filter_map_of_fix
      · intro e he hm
        have := g.ev e he hm
        have hne : ¬ e.asset = a := fun heq => ha (heq ▸ this)
        simp [Event.cancelIf, hne]
      · intro e _; exact isM_cancelIf a e
    · intro e he
      have he' : e ∈ s.paused.map (Event.cancelIf a) := he
      obtain ⟨e0, he0, rfl⟩ := List.mem_map.1 he'
      rw [isM_cancelIf]; exact g.pa e0 he0
  | step => exact False.elim h
  | runBegin d wt => exact False.elim h

theorem MG.of_filter {A : List Int} {s s' : Env} (g : MG A s)
    (h1 : s'.events.filter isM = s.events.filter isM) (h2 : ∀ e ∈ s'.paused, isM e = false) :
    MG A s' := by
  refine ⟨?_, h2⟩
  intro e he hm
  have : e ∈ s'.events.filter isM := List.mem_filter.2 ⟨he, hm⟩
  rw [h1] at this
  exact g.ev e (List.mem_filter.1 this).1 hm

theorem quiet_applyAll {A : List Int} {s : Env} (ops : List EnvOp) (h : ∀ op ∈ ops, QOp A op)
    (g : MG A s) :
    (s.applyAll Arith.exact ops).1.now = s.now ∧
    (s.applyAll Arith.exact ops).1.events.filter isM = s.events.filter isM ∧
    (∀ e ∈ (s.applyAll Arith.exact ops).1.paused, isM e = false) := by
  induction ops generalizing s with
  | nil => exact ⟨rfl, rfl, g.pa⟩
  | cons op ops ih =>
    have h1 := quiet_apply (h op List.mem_cons_self) g
    have g1 : MG A (s.apply Arith.exact op).1 := g.of_filter h1.2.1 h1.2.2
    have h2 := ih (fun o ho => h o (List.mem_cons_of_mem _ ho)) g1
    rw [C01W.applyAll_cons_fst]
    exact ⟨h2.1.trans h1.1, h2.2.1.trans h1.2.1, h2.2.2⟩

/-- `s'` is `s` after a list of quiet operations. -/
def QRef (A : List Int) (s s' : Env) : Prop :=
  ∃ ops : List EnvOp, (∀ op ∈ ops, QOp A op) ∧ s' = (s.applyAll Arith.exact ops).1

theorem QRef.refl (A : List Int) (s : Env) : QRef A s s := ⟨[], by simp, rfl⟩

theorem QRef.trans {A : List Int} {a b c : Env} (h1 : QRef A a b) (h2 : QRef A b c) : QRef A a c := by
  obtain ⟨l1, g1, rfl⟩ := h1
  obtain ⟨l2, g2, rfl⟩ := h2
  refine ⟨l1 ++ l2, ?_, (C01W.applyAll_append_fst _ _ _ _).symm⟩
  intro op hop
  rcases List.mem_append.1 hop with h | h
  · exact g1 op h
  · exact g2 op h

theorem QRef.one {A : List Int} (s : Env) {op : EnvOp} (h : QOp A op) :
    QRef A s (s.apply Arith.exact op).1 := ⟨[op], by simpa using h, rfl⟩

theorem QRef.of_eq {A : List Int} {s s' : Env} (h : s' = s) : QRef A s s' := h ▸ QRef.refl A s

/-- What a list of quiet operations does. -/
theorem QRef.spec {A : List Int} {s s' : Env} (h : QRef A s s') (g : MG A s) (hi : C01.Inv s) :
    s'.now = s.now ∧ s'.events.filter isM = s.events.filter isM ∧
    (∀ e ∈ s'.paused, isM e = false) ∧ C01.Inv s' := by
  obtain ⟨ops, ho, rfl⟩ := h
  have := quiet_applyAll ops ho g
  exact ⟨this.1, this.2.1, this.2.2, C01.inv_applyAll _ ops hi⟩

/-! ### projections of the queue -/

/-- Orders of maintainer `m` that have an event in `l`. -/
def skeys (m : Nat) (l : List Event) : List Nat :=
  l.filterMap (fun e => match ekey e with
    | some (_, m', s) => if m' = m then some s else none
    | none => none)

/-- Orders of maintainer `m` that have a FINISH event in `l`. -/
def fkeys (m : Nat) (l : List Event) : List Nat :=
  l.filterMap (fun e => match ekey e with
    | some (true, m', s) => if m' = m then some s else none
    | _ => none)

theorem filterMap_filter_of_none {α β} (f : α → Option β) (p : α → Bool) (l : List α)
    (h : ∀ a, p a = false → f a = none) : (l.filter p).filterMap f = l.filterMap f := by
  induction l with
  | nil => rfl
  | cons a l ih =>
    by_cases hp : p a = true
    · simp only [List.filter_cons, hp, if_true, List.filterMap_cons, ih]
    · have hp' : p a = false := by simpa using hp
      simp [hp', h a hp', ih]

theorem skeys_filter (m : Nat) (l : List Event) : skeys m (l.filter isM) = skeys m l := by
  apply filterMap_filter_of_none
  intro e he
  rw [isM_false_iff] at he
  simp [he]

theorem fkeys_filter (m : Nat) (l : List Event) : fkeys m (l.filter isM) = fkeys m l := by
  apply filterMap_filter_of_none
  intro e he
  rw [isM_false_iff] at he
  simp [he]

theorem skeys_of_filter_eq {l l' : List Event} (h : l'.filter isM = l.filter isM) (m : Nat) :
    skeys m l' = skeys m l := by
  rw [← skeys_filter m l', h, skeys_filter]

theorem fkeys_of_filter_eq {l l' : List Event} (h : l'.filter isM = l.filter isM) (m : Nat) :
    fkeys m l' = fkeys m l := by
  rw [← fkeys_filter m l', h, fkeys_filter]

theorem skeys_cons (m : Nat) (e : Event) (l : List Event) :
    skeys m (e :: l) = (match ekey e with
      | some (_, m', s) => if m' = m then [s] else []
      | none => []) ++ skeys m l := by
  unfold skeys
  rw [List.filterMap_cons]
  rcases ekey e with _ | ⟨f, m', s⟩
  · rfl
  · by_cases hm : m' = m <;> simp [hm]

theorem fkeys_cons (m : Nat) (e : Event) (l : List Event) :
    fkeys m (e :: l) = (match ekey e with
      | some (true, m', s) => if m' = m then [s] else []
      | _ => []) ++ fkeys m l := by
  unfold fkeys
  rw [List.filterMap_cons]
  rcases ekey e with _ | ⟨f, m', s⟩
  · rfl
  · cases f
    · rfl
    · by_cases hm : m' = m <;> simp [hm]

theorem skeys_perm {l l' : List Event} (h : l.Perm l') (m : Nat) : (skeys m l).Perm (skeys m l') :=
  h.filterMap _

theorem fkeys_perm {l l' : List Event} (h : l.Perm l') (m : Nat) : (fkeys m l).Perm (fkeys m l') :=
  h.filterMap _

theorem skeys_insort (m : Nat) (x : Event) (l : List Event) :
    (skeys m (insort x l)).Perm (skeys m (x :: l)) := skeys_perm (insort_perm x l) m

theorem fkeys_insort (m : Nat) (x : Event) (l : List Event) :
    (fkeys m (insort x l)).Perm (fkeys m (x :: l)) := fkeys_perm (insort_perm x l) m

theorem mem_skeys {m s : Nat} {l : List Event} :
    s ∈ skeys m l ↔ ∃ e ∈ l, ∃ f, ekey e = some (f, m, s) := by
  unfold skeys
  rw [List.mem_filterMap]
  constructor
  · rintro ⟨e, he, h⟩
    refine ⟨e, he, ?_⟩
    rcases hk : ekey e with _ | ⟨f, m', s'⟩
    · rw [hk] at h; cases h
    · rw [hk] at h
      simp only at h
      split at h
      · next hm => subst hm; cases h; exact ⟨f, rfl⟩
      · cases h
  · rintro ⟨e, he, f, hk⟩
    exact ⟨e, he, by rw [hk]; simp⟩

theorem mem_fkeys {m s : Nat} {l : List Event} :
    s ∈ fkeys m l ↔ ∃ e ∈ l, ekey e = some (true, m, s) := by
  unfold fkeys
  rw [List.mem_filterMap]
  constructor
  · rintro ⟨e, he, h⟩
    refine ⟨e, he, ?_⟩
    rcases hk : ekey e with _ | ⟨f, m', s'⟩
    · rw [hk] at h; cases h
    · rw [hk] at h
      cases f
      · cases h
      · simp only at h
        split at h
        · next hm => subst hm; cases h; rfl
        · cases h
  · rintro ⟨e, he, hk⟩
    exact ⟨e, he, by rw [hk]; simp⟩

theorem fkeys_sublist_skeys (m : Nat) (l : List Event) : (fkeys m l).Sublist (skeys m l) := by
  induction l with
  | nil => exact List.Sublist.refl _
  | cons e l ih =>
    rw [fkeys_cons, skeys_cons]
    refine List.Sublist.append ?_ ih
    rcases ekey e with _ | ⟨f, m', s⟩
    · exact List.Sublist.refl _
    · cases f
      · simp
      · exact List.Sublist.refl _

end C12W
end SimProc
