/-
C01W — `Via w (f w)` for every function of `Model/Floor.lean`.
-/
import SimProc.Proofs.C01WBase

namespace SimProc
namespace C01W
open World FloorCoreL

/-! ### notifications -/

theorem Via_setWaiting (w : World) (x : Nat) (a b : Bool) : Via w (w.setWaiting x a b) := by
  unfold setWaiting
  dsimp only
  via_auto

macro_rules | `(tactic| via_step) => `(tactic| with_reducible apply Via.trans (h2 := Via_setWaiting _ _ _ _))

theorem Via_schedulePass (w : World) (x : Nat) (o : Int) : Via w (w.schedulePass x o) := by
  unfold schedulePass
  dsimp only
  via_auto

macro_rules | `(tactic| via_step) => `(tactic| with_reducible apply Via.trans (h2 := Via_schedulePass _ _ _))

/-- The two notification functions, simultaneously by induction on the fuel. -/
theorem Via_notifyUp_spaceAvail (n : Nat) :
    ∀ w x, Via w (notifyUp n w x) ∧ Via w (spaceAvail n w x) := by
  induction n with
  | zero =>
    intro w x
    constructor
    · rw [notifyUp]; exact Via.of_EK (EK_setErr _ _)
    · rw [spaceAvail]; exact Via.of_EK (EK_setErr _ _)
  | succ n ih =>
    intro w x
    have hN : ∀ w x, Via w (notifyUp n w x) := fun w x => (ih w x).1
    have hS : ∀ w x, Via w (spaceAvail n w x) := fun w x => (ih w x).2
    constructor
    · rw [notifyUp]
      dsimp only
      repeat' first
        | with_reducible exact Via.refl _
        | with_reducible apply Via.trans (h2 := Via.foldl _ _ _ hS)
        | with_reducible apply Via.trans (h2 := Via.foldl _ _ _ hN)
        | with_reducible apply Via.trans (h2 := Via_setWaiting _ _ _ _)
        | split
    · rw [spaceAvail]
      try dsimp only
      repeat' first
        | with_reducible exact Via.refl _
        | exact hN _ _
        | exact hS _ _
        | exact Via_schedulePass _ _ _
        | split

theorem Via_notifyUp (n : Nat) (w : World) (x : Nat) : Via w (notifyUp n w x) :=
  (Via_notifyUp_spaceAvail n w x).1
theorem Via_spaceAvail (n : Nat) (w : World) (x : Nat) : Via w (spaceAvail n w x) :=
  (Via_notifyUp_spaceAvail n w x).2
theorem Via_notify (w : World) (x : Nat) : Via w (w.notify x) := Via_notifyUp _ _ _
theorem Via_spaceAvailable (w : World) (x : Nat) : Via w (w.spaceAvailable x) := Via_spaceAvail _ _ _

macro_rules | `(tactic| via_step) => `(tactic| with_reducible apply Via.trans (h2 := Via_notify _ _))
macro_rules | `(tactic| via_step) => `(tactic| with_reducible apply Via.trans (h2 := Via_spaceAvailable _ _))

/-! ### resources of a processor -/

theorem Via_releaseReserved (w : World) (x : Nat) : Via w (w.releaseReserved x) := by
  unfold releaseReserved
  split
  · exact Via.refl _
  · dsimp only
    via_auto

theorem Via_procAcquire (w : World) (x : Nat) : Via w (w.procAcquire x).1 := by
  unfold procAcquire
  dsimp only
  via_auto

macro_rules | `(tactic| via_step) => `(tactic| with_reducible apply Via.trans (h2 := Via_releaseReserved _ _))

/-! ### parts, callbacks -/

theorem Via_addHist (w : World) (p d : Nat) : Via w (w.addHist p d) := by
  unfold addHist
  dsimp only
  via_auto

theorem Via_dropHist (w : World) (p : Nat) : Via w (w.dropHist p) := by
  unfold dropHist
  dsimp only
  via_auto

theorem Via_applyPartCb (w : World) (x p : Nat) (c : PartCb) : Via w (w.applyPartCb x p c) := by
  unfold applyPartCb
  dsimp only
  via_auto

theorem Via_senseOutput (w : World) (s p : Nat) : Via w (w.senseOutput s p) := by
  unfold senseOutput
  dsimp only
  via_auto

theorem Via_finishCycleHandler (w : World) (x : Nat) : Via w (w.finishCycleHandler x) := by
  unfold finishCycleHandler
  dsimp only
  via_auto

macro_rules | `(tactic| via_step) => `(tactic| with_reducible apply Via.trans (h2 := Via_addHist _ _ _))
macro_rules | `(tactic| via_step) => `(tactic| with_reducible apply Via.trans (h2 := Via_dropHist _ _))
macro_rules | `(tactic| via_step) => `(tactic| with_reducible apply Via.trans (h2 := Via_applyPartCb _ _ _ _))
macro_rules | `(tactic| via_step) => `(tactic| with_reducible apply Via.trans (h2 := Via_senseOutput _ _ _))
macro_rules | `(tactic| via_step) => `(tactic| with_reducible apply Via.trans (h2 := Via_finishCycleHandler _ _))

theorem EK_genPart_fold (d : Dev) (l : List Nat) (acc : World × List Nat) :
    EK (l.foldl (fun (acc : World × List Nat) _ =>
      let (w', k) := acc.1.newPart { quality := d.genQuality, value := d.genValue }
      (w', acc.2 ++ [k])) acc).1 = EK acc.1 := by
  induction l generalizing acc with
  | nil => rfl
  | cons a l ih => rw [List.foldl_cons, ih]; rfl

theorem EK_genPart (w : World) (x : Nat) : EK (w.genPart x).1 = EK w := by
  unfold genPart
  dsimp only
  split
  · rfl
  · exact EK_genPart_fold _ _ _

theorem Via_genPart (w : World) (x : Nat) : Via w (w.genPart x).1 := Via.of_EK (EK_genPart w x)

macro_rules | `(tactic| via_step) => `(tactic| with_reducible apply Via.trans (h2 := Via_genPart _ _))

theorem Via_batcherLoop (n : Nat) (w : World) (x : Nat) : Via w (batcherLoop n w x) := by
  induction n generalizing w with
  | zero => exact Via.refl _
  | succ n ih =>
    rw [batcherLoop]
    split
    · split
      rename_i w1 t heq
      refine Via.trans ?_ (ih _)
      have h1 : Via w (w1, t).1 := by
        rw [← heq]
        split <;> dsimp only <;> via_auto
      refine Via.trans h1 ?_
      split
      · via_auto
      · split
        rename_i w2 b heq2
        have h2 : Via w1 (w2, b).1 := by
          rw [← heq2]
          split
          · exact Via.refl _
          · dsimp only
            via_step
            exact Via.of_EK (EK_newPart _ _)
        refine Via.trans h2 ?_
        dsimp only
        via_auto
    · exact Via.refl _

macro_rules | `(tactic| via_step) => `(tactic| with_reducible apply Via.trans (h2 := Via_batcherLoop _ _ _))

/-! ### finishing a cycle -/

theorem Via_finishCycle (w : World) (x : Nat) : Via w (w.finishCycle x) := by
  unfold finishCycle
  dsimp only
  split
  · -- source
    via_step
    split
    · via_step
      via_step
      have := Via_genPart w x
      revert this
      generalize w.genPart x = q
      intro this
      exact this
    · exact Via.refl _
  · via_auto
  · -- processor
    split
    · via_auto
    · via_auto
  · via_auto

macro_rules | `(tactic| via_step) => `(tactic| with_reducible apply Via.trans (h2 := Via_finishCycle _ _))

theorem Via_scheduleFinish (w : World) (x : Nat) : Via w (w.scheduleFinish x) := by
  unfold scheduleFinish
  dsimp only
  via_auto

macro_rules | `(tactic| via_step) => `(tactic| with_reducible apply Via.trans (h2 := Via_scheduleFinish _ _))

theorem Via_tryMove (w : World) (x : Nat) : Via w (w.tryMove x) := by
  unfold tryMove
  dsimp only
  via_auto

macro_rules | `(tactic| via_step) => `(tactic| with_reducible apply Via.trans (h2 := Via_tryMove _ _))

theorem Via_onReceived (w : World) (x p : Nat) : Via w (w.onReceived x p) := by
  unfold onReceived
  dsimp only
  via_auto

macro_rules | `(tactic| via_step) => `(tactic| with_reducible apply Via.trans (h2 := Via_onReceived _ _ _))

theorem Via_acceptPart (w : World) (x p : Nat) : Via w (w.acceptPart x p) := by
  unfold acceptPart
  dsimp only
  via_auto

/-! ### handing parts over -/

theorem Via_tryList (g : World → Nat → Nat → World × Bool)
    (hg : ∀ w y p, Via w (g w y p).1) (w : World) (l : List Nat) (p : Nat) :
    Via w (tryList g w l p).1 := by
  induction l generalizing w with
  | nil => exact Via.refl w
  | cons y ys ih =>
    rw [tryList]
    have h := hg w y p
    split
    · rename_i heq; rw [heq] at h; exact h
    · rename_i heq; rw [heq] at h; exact h.trans (ih _)

theorem Via_give (n : Nat) : ∀ (w : World) (x p : Nat), Via w (give n w x p).1 := by
  induction n with
  | zero => intro w x p; exact Via.of_EK (EK_setErr _ _)
  | succ n ih =>
    intro w x p
    have hT : ∀ w l p, Via w (tryList (give n) w l p).1 := Via_tryList _ ih
    rw [give]
    dsimp only
    repeat' first
      | via_step
      | with_reducible apply Via.trans (h2 := Via_acceptPart _ _ _)
      | exact hT _ _ _
      | exact ih _ _ _
      | via_heq (hT _ _ _)
      | via_heq (ih _ _ _)
      | via_heq (Via_procAcquire _ _)
      | split

theorem Via_givePart (w : World) (x p : Nat) : Via w (w.givePart x p).1 := Via_give _ _ _ _

theorem Via_tryList_givePart (w : World) (l : List Nat) (p : Nat) :
    Via w (tryList givePart w l p).1 := Via_tryList _ Via_givePart _ _ _

theorem Via_passHandler (w : World) (x : Nat) : Via w (w.passHandler x) := by
  unfold passHandler
  dsimp only
  repeat' first
    | via_step
    | via_heq (Via_tryList_givePart _ _ _)
    | split

theorem Via_bufferLoop (n : Nat) (w : World) (x : Nat) : Via w (bufferLoop n w x) := by
  induction n generalizing w with
  | zero => exact Via.refl _
  | succ n ih =>
    rw [bufferLoop]
    dsimp only
    repeat' first
      | via_step
      | with_reducible apply Via.trans (h2 := ih _)
      | via_heq (Via_tryList_givePart _ _ _)
      | split

macro_rules | `(tactic| via_step) => `(tactic| with_reducible apply Via.trans (h2 := Via_passHandler _ _))
macro_rules | `(tactic| via_step) => `(tactic| with_reducible apply Via.trans (h2 := Via_bufferLoop _ _ _))

theorem Via_passPart (w : World) (x : Nat) : Via w (w.passPart x) := by
  unfold passPart
  dsimp only
  via_auto

/-! ### processors: failure, shutdown, restore -/

theorem Via_shutdownDev (w : World) (x : Nat) (f : Bool) (lost : Option Nat) :
    Via w (w.shutdownDev x f lost) := by
  refine Via.with_good fun g => ?_
  have ha : (w.dev x).aid ≠ -1 := g.ne x
  have hc : LibOp (.cancel (w.dev x).aid) := ha
  have hp : LibOp (.pause (w.dev x).aid) := ha
  unfold shutdownDev
  dsimp only
  via_auto

theorem Via_restoreDev (w : World) (x : Nat) : Via w (w.restoreDev x) := by
  refine Via.with_good fun g => ?_
  have ha : (w.dev x).aid ≠ -1 := g.ne x
  have hu : LibOp (.unpause (w.dev x).aid) := ha
  unfold restoreDev
  dsimp only
  via_auto

macro_rules | `(tactic| via_step) => `(tactic| with_reducible apply Via.trans (h2 := Via_shutdownDev _ _ _ _))
macro_rules | `(tactic| via_step) => `(tactic| with_reducible apply Via.trans (h2 := Via_restoreDev _ _))

theorem Via_failDev (w : World) (x : Nat) : Via w (w.failDev x) := by
  unfold failDev
  dsimp only
  via_auto

theorem Via_releaseIfIdle (w : World) (x : Nat) : Via w (w.releaseIfIdle x) := by
  unfold releaseIfIdle
  via_auto

theorem Via_procResourceCb (w : World) (x : Nat) : Via w (w.procResourceCb x) := by
  unfold procResourceCb
  dsimp only
  via_auto

/-! ### scripted operations on devices -/

theorem Via_setBlock (w : World) (x : Nat) (b : Bool) : Via w (w.setBlock x b) := by
  unfold setBlock
  dsimp only
  via_auto

theorem Via_adjustParts (w : World) (x : Nat) (v : Int) : Via w (w.adjustParts x v) := by
  unfold adjustParts
  dsimp only
  via_auto

theorem Via_rewire (w : World) (x : Nat) (ups : List Nat) : Via w (w.rewire x ups) := by
  unfold rewire
  dsimp only
  via_auto

theorem Via_initDev (w : World) (x : Nat) : Via w (w.initDev x) := by
  unfold initDev
  dsimp only
  via_auto

macro_rules | `(tactic| via_step) => `(tactic| with_reducible apply Via.trans (h2 := Via_passPart _ _))
macro_rules | `(tactic| via_step) => `(tactic| with_reducible apply Via.trans (h2 := Via_failDev _ _))
macro_rules | `(tactic| via_step) => `(tactic| with_reducible apply Via.trans (h2 := Via_releaseIfIdle _ _))
macro_rules | `(tactic| via_step) => `(tactic| with_reducible apply Via.trans (h2 := Via_procResourceCb _ _))
macro_rules | `(tactic| via_step) => `(tactic| with_reducible apply Via.trans (h2 := Via_setBlock _ _ _))
macro_rules | `(tactic| via_step) => `(tactic| with_reducible apply Via.trans (h2 := Via_adjustParts _ _ _))
macro_rules | `(tactic| via_step) => `(tactic| with_reducible apply Via.trans (h2 := Via_rewire _ _ _))
macro_rules | `(tactic| via_step) => `(tactic| with_reducible apply Via.trans (h2 := Via_initDev _ _))

end C01W
end SimProc
