/-
C03W — the static data of the devices (kind, asset id, declared requirement) and the scripts are
never changed by a world whose scripts contain no `rewire` / `create`: `SS w w'` for every step of
the event loop.  (The same statements as in `Proofs/C11WStatic.lean`, under the weaker hypothesis
`NR` instead of `ScrOK`: scripts of stage S1 may pause, reserve, register, ….)
-/
import SimProc.Proofs.C03WWorld

namespace SimProc
namespace C03W
open World FloorCoreL C02V

theorem NR.of_ss {w w' : World} (h : NR w) (r : SS w w') : NR w' := by
  intro l hl op hop
  rw [r.2] at hl
  exact h l hl op hop

theorem nr_applyOps (ops : List Op) : ∀ (w : World), NR w →
    (∀ op ∈ ops, ∃ l ∈ w.scripts, op ∈ l) → SS w (w.applyOps ops) := by
  induction ops with
  | nil => intro w _ _; exact SS.refl w
  | cons op ops ih =>
    intro w h hsub
    unfold World.applyOps
    simp only [List.foldl_cons]
    obtain ⟨l, hl, hop⟩ := hsub op (List.mem_cons_self ..)
    have hn := h l hl op hop
    have r1 : SS w ((w.applyOp op).1.addRes (w.applyOp op).2) :=
      ⟨sd_applyOp w op hn.1 hn.2, scr_applyOp w op⟩
    have := ih _ (h.of_ss r1) (fun o ho => by
      rw [r1.2]; exact hsub o (List.mem_cons_of_mem _ ho))
    unfold World.applyOps at this
    exact r1.trans this

theorem nr_runScript (w : World) (k : Nat) (h : NR w) : SS w (w.runScript k) := by
  unfold World.runScript
  apply nr_applyOps _ w h
  intro op hop
  by_cases hk : k < w.scripts.length
  · have : w.scripts.getD k [] = w.scripts[k] := by simp [List.getD_eq_getElem?_getD, hk]
    rw [this] at hop
    exact ⟨_, List.getElem_mem hk, hop⟩
  · have : w.scripts.getD k [] = [] := by simp [List.getD_eq_getElem?_getD, Nat.le_of_not_lt hk]
    rw [this] at hop; cases hop

theorem nr_scan (n : Nat) : ∀ (w : World) (i : Nat), NR w → SS w (scanWaiting scanOps n w i) := by
  induction n with
  | zero => intro w i _; exact SS.refl w
  | succ n ih =>
    intro w i h
    unfold scanWaiting
    split
    · exact SS.refl w
    · split
      · rename_i req cb _ _
        have r1 : SS w (scanOps.erase (scanOps.call w cb req) i) := by
          cases cb with
          | script k =>
            have r0 : SS w (w.addRes (.cb k)) := ⟨rfl, rfl⟩
            exact (r0.trans (nr_runScript _ k (h.of_ss r0))).trans ⟨rfl, rfl⟩
          | proc d => exact ⟨sd_procResourceCb w d, scr_procResourceCb w d⟩
        exact r1.trans (ih _ _ (h.of_ss r1))
      · exact ih _ _ h

theorem nr_hookStart (w : World) (tgt : Nat) (tag : Int) (h : NR w) : SS w (w.hookStart tgt tag) := by
  have r0 : SS w (w.addRes (.hook true tgt tag)) := ⟨rfl, rfl⟩
  unfold World.hookStart
  simp only []
  split
  · exact r0.trans ⟨sd_shutdownDev .., scr_shutdownDev ..⟩
  · split
    · exact r0.trans (nr_runScript _ _ (h.of_ss r0))
    · exact r0

theorem nr_hookEnd (w : World) (tgt : Nat) (tag : Int) (h : NR w) : SS w (w.hookEnd tgt tag) := by
  have r0 : SS w (w.addRes (.hook false tgt tag)) := ⟨rfl, rfl⟩
  unfold World.hookEnd
  simp only []
  split
  · exact r0.trans ⟨sd_restoreDev .., scr_restoreDev ..⟩
  · split
    · exact r0.trans (nr_runScript _ _ (h.of_ss r0))
    · exact r0

theorem nr_startWork (w : World) (m seq : Nat) (h : NR w) : SS w (w.startWork m seq) := by
  have key : ∀ w' : World, SS w w' → ∀ t g a b c d,
      SS w ((w'.hookStart t g).schedLib a b c d) := fun w' r t g a b c d =>
    (r.trans (nr_hookStart w' t g (h.of_ss r))).trans ⟨sd_schedLib .., scr_schedLib ..⟩
  unfold World.startWork
  split
  · exact ⟨sd_setErr .., scr_setErr ..⟩
  · simp only []
    refine key _ ?_ _ _ _ _ _ _
    exact ⟨rfl, rfl⟩

theorem nr_finishWork (w : World) (m seq : Nat) (h : NR w) : SS w (w.finishWork m seq) := by
  have key : ∀ w' : World, SS w w' → ∀ w'' : World, SS w' w'' → ∀ m l,
      SS w (w''.startOrders m l) := fun w' r w'' r' m l =>
    (r.trans r').trans ⟨sd_startOrders .., scr_startOrders ..⟩
  unfold World.finishWork
  split
  · exact ⟨sd_setErr .., scr_setErr ..⟩
  · simp only []
    rename_i o _
    refine key _ (nr_hookEnd w o.target o.tag h) _ ?_ _ _
    exact ⟨rfl, rfl⟩

theorem nr_exec (w : World) (a : Action) (h : NR w) : SS w (w.exec a) := by
  cases a with
  | terminate => exact SS.refl w
  | script k => exact nr_runScript w k h
  | finishCycle d => exact ⟨sd_finishCycle w d, scr_finishCycle w d⟩
  | passPart d => exact ⟨sd_passPart w d, scr_passPart w d⟩
  | fail d => exact ⟨sd_failDev w d, scr_failDev w d⟩
  | releaseIfIdle d => exact ⟨sd_releaseIfIdle w d, scr_releaseIfIdle w d⟩
  | rmCheck => exact nr_scan _ _ _ h
  | startWork m o => exact nr_startWork w m o h
  | finishWork m o => exact nr_finishWork w m o h
  | schedUpdate s => exact ⟨sd_schedUpdate w s true, scr_schedUpdate w s true⟩
  | periodicSense s => exact ⟨sd_periodicSense w s, scr_periodicSense w s⟩
  | unknown n => exact ⟨sd_setErr .., scr_setErr ..⟩

theorem nr_step (w w' : World) (e : Event) (h : NR w) (hst : w.step = some (e, w')) : SS w w' := by
  unfold World.step at hst
  split at hst
  · cases hst
  · rename_i e' env' henv
    simp only [Option.some.injEq, Prod.mk.injEq] at hst
    obtain ⟨rfl, rfl⟩ := hst
    split
    · exact (show SS w { w with env := env' } from ⟨rfl, rfl⟩).trans (nr_exec _ _ h)
    · exact ⟨rfl, rfl⟩

theorem nr_runLoop (n : Nat) : ∀ (w : World), NR w → SS w (runLoop n w) := by
  induction n with
  | zero => intro w _; exact ⟨sd_setErr .., scr_setErr ..⟩
  | succ n ih =>
    intro w h
    unfold runLoop
    split
    · split
      · exact SS.refl w
      · rename_i e w' hst
        have r := nr_step w w' e h hst
        exact r.trans (ih w' (h.of_ss r))
    · exact SS.refl w

theorem ss_runBegin (w : World) (d : Int) : SS w (w.runBegin d).1 := by
  unfold World.runBegin
  dsimp only
  split <;> exact ⟨rfl, rfl⟩

theorem hasRes_of_ss {w w' : World} (r : SS w w') : hasRes w' = hasRes w := hasRes_of_sd r.1

end C03W
end SimProc
