/-
C04 (general serial line) — layer 2: the terminate event, one iteration of the run loop, the loop.
-/
import SimProc.Proofs.C04WBuf

set_option linter.unusedSimpArgs false
set_option linter.unusedVariables false

namespace SimProc
namespace C04W
open World C04
open SS (Key key cls)


/-! ### the terminate event: nothing more happens by `T` -/

/-- What holds when the run has terminated. -/
structure Done (P : Par) (T : Int) (s : S) : Prop where
  term : s.term = true
  ex : ∃ x : Nat → Nat,
    (∀ j, 1 ≤ j → j ≤ P.L.n →
      rtj j s.recs = (List.range (x (j - 1))).map (fun i => dI P.L (j - 1) (i + 1))) ∧
    (dv s P.L.n).recvCount = (x (P.L.n - 1) : Int) ∧
    (∀ j, j ≤ P.L.n → x j ≤ s.parts.length) ∧
    (∀ j, j ≤ P.L.n → ∀ i, i < x j → dI P.L j (i + 1) ≤ T) ∧
    (∀ j, j ≤ P.L.n → ∀ B, P.L.budget = some B → x j ≤ B) ∧
    (∀ j, j ≤ P.L.n → (∃ B, P.L.budget = some B ∧ B ≤ x j) ∨ T < dI P.L j (x j + 1))

/-- If all pending events other than the terminate event are later than `T`, no further part
leaves any station by `T`. -/
theorem no_more {P : Par} {T : Int} {s : S} {x : Nat → Nat} {m : Nat → Mode} (hL : P.L.WF)
    (inv : Inv P T s x m)
    (hlate : ∀ j, j ≤ P.L.n → ∀ κ ∈ keysOf P.L j (x j) (m j), T < κ.1) :
    ∀ j, j ≤ P.L.n → (∃ B, P.L.budget = some B ∧ B ≤ x j) ∨ T < dI P.L j (x j + 1) := by
  -- stations that hold a part, from the sink upwards
  have step1 : ∀ d j, j + d = P.L.n → m j ≠ .idle →
      (∃ B, P.L.budget = some B ∧ B ≤ x j) ∨ T < dI P.L j (x j + 1) := by
    intro d
    induction d with
    | zero =>
      intro j hj hm
      have hjn : j = P.L.n := by omega
      subst hjn
      have pd := (inv.di P.L.n (Nat.le_refl _)).pd
      rcases pd.sink_mode with h | h
      · right
        have := hlate P.L.n (Nat.le_refl _) _ (by rw [h]; exact List.mem_singleton.2 rfl)
        have h2 := dI_ge_ec P.L hL (Nat.le_refl _) (x P.L.n)
        simp only at this
        omega
      · exact absurd h hm
    | succ d ih =>
      intro j hj hm
      have hjn : j < P.L.n := by omega
      have hle : j ≤ P.L.n := by omega
      have pd := (inv.di j hle).pd
      cases hmj : m j with
      | idle => exact absurd hmj hm
      | proc =>
        right
        have := hlate j hle _ (by rw [hmj]; exact List.mem_singleton.2 rfl)
        have h2 := dI_ge_ec P.L hL hle (x j)
        simp only at this
        omega
      | ready t =>
        right
        have := hlate j hle _ (by rw [hmj]; exact List.mem_singleton.2 rfl)
        rw [hmj] at pd
        have h2 := (pd.readym t rfl).2.2
        simp only at this
        omega
      | blocked =>
        rw [hmj] at pd
        obtain ⟨_, _, K, hK, hxK⟩ := pd.blockedm rfl
        have hK1 := effCap_pos hL (by omega : j + 1 ≤ P.L.n) hK
        have pd1 := (inv.di (j + 1) (by omega)).pd
        rw [xin_succ] at pd1
        have hm1 : m (j + 1) ≠ .idle := by
          intro h
          have := (pd1.idle h).2
          omega
        rcases ih (j + 1) (by omega) hm1 with ⟨B, hB, hBx⟩ | h
        · exact Or.inl ⟨B, hB, by omega⟩
        · right
          have := dI_ge_block P.L hL hjn (x j) K hK
          have e : x j + 1 - K = x (j + 1) + 1 := by omega
          rw [e] at this
          omega
      | exhausted =>
        rw [hmj] at pd
        exact Or.inl (pd.exhm rfl).2
  -- all stations, from the source downwards
  intro j
  induction j with
  | zero =>
    intro hj
    refine step1 P.L.n 0 (by omega) ?_
    intro h
    have := ((inv.di 0 hj).pd.idle h).1
    omega
  | succ j ih =>
    intro hj
    by_cases hm : m (j + 1) = .idle
    · have pd1 := (inv.di (j + 1) hj).pd
      rw [xin_succ] at pd1
      have hxx := (pd1.idle hm).2
      rcases ih (by omega) with ⟨B, hB, hBx⟩ | h
      · exact Or.inl ⟨B, hB, by omega⟩
      · right
        have h1 := dI_ge_ec P.L hL hj (x (j + 1))
        have h2 := c_nonneg hL hj
        rw [eI_succ] at h1
        rw [hxx] at h
        omega
    · exact step1 (P.L.n - (j + 1)) (j + 1) (by omega) hm

theorem Inv.done_facts {P : Par} {T : Int} {s : S} {x : Nat → Nat} {m : Nat → Mode} (hL : P.L.WF)
    (inv : Inv P T s x m) :
    (∀ j, 1 ≤ j → j ≤ P.L.n →
      rtj j s.recs = (List.range (x (j - 1))).map (fun i => dI P.L (j - 1) (i + 1))) ∧
    (dv s P.L.n).recvCount = (x (P.L.n - 1) : Int) ∧
    (∀ j, j ≤ P.L.n → x j ≤ s.parts.length) ∧
    (∀ j, j ≤ P.L.n → ∀ i, i < x j → dI P.L j (i + 1) ≤ T) ∧
    (∀ j, j ≤ P.L.n → ∀ B, P.L.budget = some B → x j ≤ B) := by
  have hn := n_pos P.L
  refine ⟨fun j h1 hj => ?_, ?_, fun j hj => ?_, fun j hj i hi => ?_, fun j hj B hB => ?_⟩
  · have := (inv.di j hj).ent h1
    unfold xin at this; rw [if_neg (by omega)] at this
    exact this
  · have := ((Slots_sink (kindOf_n P.L) _ _ _ _).1 (inv.di P.L.n (Nat.le_refl _)).pd.slots).2.2
    unfold xin at this; rw [if_neg (by omega)] at this
    exact this
  · have h1 := inv.x_le hj
    have h2 := (inv.di 0 (Nat.zero_le _)).plen rfl
    split at h2 <;> omega
  · have h1 := dI_mono_le P.L hL j (by omega : i + 1 ≤ x j)
    have h2 := (inv.di j hj).pd.past
    have h3 := inv.nowT
    omega
  · have h1 := inv.x_le hj
    have h2 := inv.bud B hB
    omega

/-- The terminate event is popped: the run is over. -/
theorem case_term {P : Par} {T : Int} {s : S} {x : Nat → Nat} {m : Nat → Mode} (hL : P.L.WF)
    (inv : Inv P T s x m) {e : Event} {rest : List Event} (hs : s.evs = e :: rest) (ha : e.asset = -1) :
    ∃ s', (W P s).step = some (e, W P s') ∧ Done P T s' := by
  have hsrt := inv.sorted
  rw [hs] at hsrt
  have kT := inv.kT
  rw [hs, cls_cons_eq _ ha] at kT
  obtain ⟨hk, _⟩ := List.cons.inj kT
  obtain ⟨ht, hp, _, hact, hc⟩ := SS.key_fields hk
  refine ⟨_, step_term P s e rest hs hc hact, ⟨rfl, x, ?_⟩⟩
  obtain ⟨f1, f2, f3, f4, f5⟩ := inv.done_facts hL
  refine ⟨f1, f2, f3, f4, f5, no_more hL inv ?_⟩
  intro j hj κ hκ
  have hkeys := (inv.di j hj).keys
  rw [hs, cls_cons_ne _ (by omega)] at hkeys
  rw [← hkeys] at hκ
  have hκ' := hκ
  rw [hkeys] at hκ'
  obtain ⟨t, pr, a, act, b⟩ := κ
  have hpr : e.prio < pr := by
    cases hm : m j <;> rw [hm] at hκ' <;> simp [keysOf] at hκ'
    · rw [hp, hκ'.2.1]; omega
    · rw [hp, hκ'.2.1]; omega
  have := SS.later_of_key hsrt hκ hpr
  show T < t
  omega

/-! ### one iteration of the run loop -/

theorem run_step {P : Par} {T : Int} {s : S} {x : Nat → Nat} {m : Nat → Mode} (hL : P.L.WF)
    (inv : Inv P T s x m) :
    (W P s).env.running = true ∧
    ∃ e s', (W P s).step = some (e, W P s') ∧
      ((∃ x' m', Inv P T s' x' m' ∧ Decr P x m x' m') ∨ Done P T s') := by
  obtain ⟨e, rest, hs⟩ : ∃ e rest, s.evs = e :: rest := by
    cases hs : s.evs with
    | nil => have := inv.kT; rw [hs] at this; simp [cls] at this
    | cons e rest => exact ⟨e, rest, rfl⟩
  constructor
  · show (!s.evs.isEmpty && !s.term) = true
    rw [hs, inv.term]; rfl
  rcases inv.cover e (by simp [hs]) with ha | ⟨j, hj, ha⟩
  · obtain ⟨s', h1, h2⟩ := case_term hL inv hs ha
    exact ⟨e, s', h1, Or.inr h2⟩
  · have hkeys := (inv.di j hj).keys
    rw [hs, cls_cons_eq _ ha] at hkeys
    have pd := (inv.di j hj).pd
    cases hm : m j with
    | idle => rw [hm] at hkeys; simp [keysOf] at hkeys
    | blocked => rw [hm] at hkeys; simp [keysOf] at hkeys
    | exhausted => rw [hm] at hkeys; simp [keysOf] at hkeys
    | proc =>
      rw [hm] at pd
      have hnb := (pd.procm rfl).1
      rcases kindOf_cases P.L j with h | h | h | h | h
      · have : j = 0 := (kindOf_source_iff P.L j hj).1 h
        subst this
        obtain ⟨s', h1, h2, h3⟩ := case_finish_src hL inv hs ha hm
        exact ⟨e, s', h1, Or.inl ⟨_, _, h2, h3⟩⟩
      · have hlt : j < P.L.n := by
          by_cases hh : j = P.L.n
          · subst hh; rw [kindOf_n] at h; cases h
          · omega
        obtain ⟨s', h1, h2, h3⟩ := case_finish_hp hL inv hs ha hlt (Or.inl h) hm
        exact ⟨e, s', h1, Or.inl ⟨_, _, h2, h3⟩⟩
      · have hlt : j < P.L.n := by
          by_cases hh : j = P.L.n
          · subst hh; rw [kindOf_n] at h; cases h
          · omega
        obtain ⟨s', h1, h2, h3⟩ := case_finish_hp hL inv hs ha hlt (Or.inr h) hm
        exact ⟨e, s', h1, Or.inl ⟨_, _, h2, h3⟩⟩
      · unfold isBuf at hnb; rw [h] at hnb; simp at hnb
      · have : j = P.L.n := (kindOf_sink_iff P.L j hj).1 h
        subst this
        obtain ⟨s', h1, h2, h3⟩ := case_finish_sink hL inv hs ha hm
        exact ⟨e, s', h1, Or.inl ⟨_, _, h2, h3⟩⟩
    | ready t =>
      rw [hm] at pd
      have hlt := (pd.readym t rfl).1
      rcases kindOf_cases P.L j with h | h | h | h | h
      · have : j = 0 := (kindOf_source_iff P.L j hj).1 h
        subst this
        obtain ⟨s', x', m', h1, h2, h3⟩ := case_pass_src hL inv hs ha hm
        exact ⟨e, s', h1, Or.inl ⟨_, _, h2, h3⟩⟩
      · obtain ⟨s', x', m', h1, h2, h3⟩ := case_pass_hp hL inv hs ha hlt (Or.inl h) hm
        exact ⟨e, s', h1, Or.inl ⟨_, _, h2, h3⟩⟩
      · obtain ⟨s', x', m', h1, h2, h3⟩ := case_pass_hp hL inv hs ha hlt (Or.inr h) hm
        exact ⟨e, s', h1, Or.inl ⟨_, _, h2, h3⟩⟩
      · obtain ⟨s', x', m', h1, h2, h3⟩ := case_pass_buf hL inv hs ha hlt h hm
        exact ⟨e, s', h1, Or.inl ⟨_, _, h2, h3⟩⟩
      · have : j = P.L.n := (kindOf_sink_iff P.L j hj).1 h
        omega

/-- The run loop: if it completes without running out of fuel, it ends in a `Done` world. -/
theorem run_loop {P : Par} {T : Int} (hL : P.L.WF) (f : Nat) (s : S)
    (hs : (∃ x m, Inv P T s x m) ∨ Done P T s) (he : (runLoop f (W P s)).error = none) :
    ∃ s', runLoop f (W P s) = W P s' ∧ Done P T s' := by
  induction f generalizing s with
  | zero => simp [runLoop, setErr, W] at he
  | succ f ih =>
    rcases hs with ⟨x, m, inv⟩ | d
    · obtain ⟨hrun, e, s', hstep, hs'⟩ := run_step hL inv
      have : runLoop (f + 1) (W P s) = runLoop f (W P s') := by
        simp only [runLoop, hrun, if_true, hstep]
      rw [this] at he ⊢
      refine ih s' ?_ he
      rcases hs' with ⟨x', m', i, _⟩ | d
      · exact Or.inl ⟨x', m', i⟩
      · exact Or.inr d
    · have hrun : (W P s).env.running = false := by
        show (!s.evs.isEmpty && !s.term) = false
        rw [d.term]; simp
      have : runLoop (f + 1) (W P s) = W P s := by
        simp [runLoop, hrun]
      rw [this]
      exact ⟨s, rfl, d⟩

/-- With a finite budget `B` the run loop completes: `phi + 2` units of fuel suffice. -/
theorem run_total {P : Par} {T : Int} (hL : P.L.WF) {B : Nat} (hB : P.L.budget = some B) (f : Nat) (s : S)
    (x : Nat → Nat) (m : Nat → Mode) (inv : Inv P T s x m) (hf : phi P B x m + 2 ≤ f) :
    (runLoop f (W P s)).error = none := by
  induction f generalizing s x m with
  | zero => omega
  | succ f ih =>
    obtain ⟨hrun, e, s', hstep, hs'⟩ := run_step hL inv
    have : runLoop (f + 1) (W P s) = runLoop f (W P s') := by
      simp only [runLoop, hrun, if_true, hstep]
    rw [this]
    rcases hs' with ⟨x', m', i, hd⟩ | d
    · have := hd B hB
      exact ih s' x' m' i (by omega)
    · have hrun' : (W P s').env.running = false := by
        show (!s'.evs.isEmpty && !s'.term) = false
        rw [d.term]; simp
      obtain ⟨f', rfl⟩ : ∃ f', f = f' + 1 := ⟨f - 1, by omega⟩
      have : runLoop (f' + 1) (W P s') = W P s' := by
        simp only [runLoop, hrun', Bool.false_eq_true, if_false]
      rw [this]
      rfl

end C04W
end SimProc
