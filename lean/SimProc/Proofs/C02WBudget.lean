/-
C02W machinery, part 5: "a source never supplies more than its budget" in worlds that change while
running.  The budget invariant `BudgetW` is independent of the topology: it is preserved by every
re-wiring, by every constructor call whose new device respects its own budget, by every operation,
script, event action, step, run and initialisation.
-/
import SimProc.Proofs.C02WDyn
namespace SimProc
namespace C02W
open World C02V

/-- a device within its budget (only sources with a finite budget are concerned) -/
def BudDev (d : Dev) : Prop := d.kind = .source → ∀ m, d.maxParts = some m → d.produced ≤ m

def BudSpec : AssetSpec → Prop
  | .dev d => BudDev d
  | _ => True

/-- created sources start within their budget -/
def BudOp : Op → Prop
  | .create s => BudSpec s
  | _ => True

def BudScripts (w : World) : Prop := ∀ l ∈ w.scripts, ∀ op ∈ l, BudOp op

theorem budDev_dev {w : World} (h : BudgetW w) (x : Nat) : BudDev (w.dev x) := by
  by_cases hx : x < w.devs.length
  · have : w.dev x ∈ w.devs := by
      unfold World.dev
      rw [List.getD_eq_getElem?_getD, List.getElem?_eq_getElem hx]
      exact List.getElem_mem hx
    exact h _ this
  · rw [dev_of_length_le (Nat.le_of_not_lt hx)]
    intro hk; cases hk

theorem budget_modDev (w : World) (x : Nat) (f : Dev → Dev) (h : BudgetW w)
    (hf : ∀ d, BudDev d → BudDev (f d)) : BudgetW (w.modDev x f) :=
  budget_setDev w x _ h (hf _ (budDev_dev h x))

theorem budget_rewire (w : World) (x : Nat) (ups : List Nat) (h : BudgetW w) : BudgetW (w.rewire x ups) := by
  rw [rewire_eq]
  have h1 : BudgetW (rwA w x) := by
    unfold rwA
    split
    · exact h.of_st (st_setWaiting ..)
    · exact h
  have h2 : BudgetW (rwB (rwA w x) x) := by
    unfold rwB
    exact foldl_inv BudgetW _ _ _ h1 (fun w u hw => budget_modDev w u _ hw (fun _ hd => hd))
  have h3 : BudgetW ((rwB (rwA w x) x).modDev x (fun d => { d with up := ups })) :=
    budget_modDev _ _ _ h2 (fun _ hd => hd)
  unfold rwC
  refine foldl_inv BudgetW _ _ _ h3 ?_
  intro w u hw
  split
  · exact hw
  · have h4 : BudgetW (w.modDev u (fun du => { du with down := du.down ++ [x] })) :=
      budget_modDev _ _ _ hw (fun _ hd => hd)
    simp only []
    split
    · exact h4.of_st (st_spaceAvailable ..)
    · exact h4

theorem budget_addDev1 (w : World) (d : Dev) (h : BudgetW w) (hd : BudDev d) : BudgetW (addDev1 w d) := by
  intro d' hd'
  have : d' ∈ w.devs ++ [{ d with aid := w.assets.length + 1, up := [] }] := hd'
  rcases List.mem_append.1 this with h' | h'
  · exact h d' h'
  · have : d' = { d with aid := w.assets.length + 1, up := [] } := by simpa using h'
    subst this; exact hd

theorem budget_addDev (w : World) (d : Dev) (h : BudgetW w) (hd : BudDev d) : BudgetW (w.addDev d) := by
  have h1 : BudgetW (regPath ((addDev1 w d).rewire w.devs.length d.up) d w.devs.length) :=
    (budget_rewire _ _ _ (budget_addDev1 w d h hd)).of_st (st_regPath ..)
  rw [addDev_eq]
  split
  · exact h1.of_st (st_initAsset ..)
  · exact h1

theorem budget_addAsset (w : World) (spec : AssetSpec) (h : BudgetW w) (hs : BudSpec spec) :
    BudgetW (w.addAsset spec) := by
  cases spec with
  | dev d => exact budget_addDev w d h hs
  | group gid devs ins outs =>
    rw [addAsset_group_eq]
    simp only []
    apply budget_rewire
    apply budget_addDev _ _ _ (by intro hk; cases hk)
    refine foldl_inv BudgetW _ _ _ ?_ (fun w d hw => budget_rewire w d _ hw)
    apply budget_addDev _ _ _ (by intro hk; cases hk)
    exact h
  | maint cap v =>
    exact h.of_st (st_addAsset_nondev w _ (by intro _ h; cases h) (by intro _ _ _ _ h; cases h))
  | sched tt cyc =>
    exact h.of_st (st_addAsset_nondev w _ (by intro _ h; cases h) (by intro _ _ _ _ h; cases h))
  | sensor sw =>
    exact h.of_st (st_addAsset_nondev w _ (by intro _ h; cases h) (by intro _ _ _ _ h; cases h))
  | cms => exact h

theorem budget_applyOp (w : World) (op : Op) (h : BudgetW w) (ho : BudOp op) : BudgetW (w.applyOp op).1 := by
  by_cases h1 : ∃ d ups, op = .rewire d ups
  · obtain ⟨d, ups, rfl⟩ := h1; exact budget_rewire w d ups h
  by_cases h2 : ∃ s, op = .create s
  · obtain ⟨s, rfl⟩ := h2; exact budget_addAsset w s h ho
  by_cases h3 : ∃ d n, op = .adjust d n
  · obtain ⟨d, n, rfl⟩ := h3; exact C02V.budget_adjust w d n h
  exact h.of_st (st_applyOp_static w op (fun d ups e => h1 ⟨d, ups, e⟩) (fun s e => h2 ⟨s, e⟩)
    (fun d n e => h3 ⟨d, n, e⟩))

/-- the budget invariant together with budget-respecting scripts -/
def BG (w : World) : Prop := BudgetW w ∧ BudScripts w

theorem BG.of_st {w w' : World} (h : BG w) (e : st w' = st w) (hs : w'.scripts = w.scripts) : BG w' :=
  ⟨h.1.of_st e, by unfold BudScripts; rw [hs]; exact h.2⟩

theorem bg_applyOps (ops : List Op) : ∀ (w : World), BG w → (∀ op ∈ ops, BudOp op) → BG (w.applyOps ops) := by
  induction ops with
  | nil => intro w h _; exact h
  | cons op ops ih =>
    intro w h hok
    unfold World.applyOps
    simp only [List.foldl_cons]
    have h1 : BG ((w.applyOp op).1.addRes (w.applyOp op).2) :=
      ⟨(budget_applyOp w op h.1 (hok op (List.mem_cons_self ..))).of_st rfl,
       by unfold BudScripts; rw [scr_addRes, scr_applyOp]; exact h.2⟩
    have := ih _ h1 (fun o ho => hok o (List.mem_cons_of_mem _ ho))
    unfold World.applyOps at this
    exact this

theorem bg_runScript (w : World) (k : Nat) (h : BG w) : BG (w.runScript k) := by
  unfold World.runScript
  apply bg_applyOps _ w h
  intro op hop
  by_cases hk : k < w.scripts.length
  · have : w.scripts.getD k [] = w.scripts[k] := by simp [List.getD_eq_getElem?_getD, hk]
    rw [this] at hop
    exact h.2 _ (List.getElem_mem hk) op hop
  · have : w.scripts.getD k [] = [] := by simp [List.getD_eq_getElem?_getD, Nat.le_of_not_lt hk]
    rw [this] at hop; cases hop

theorem bg_scan (n : Nat) : ∀ (w : World) (i : Nat), BG w → BG (scanWaiting scanOps n w i) := by
  induction n with
  | zero => intro w i h; exact h
  | succ n ih =>
    intro w i h
    unfold scanWaiting
    split
    · exact h
    · split
      · apply ih
        rename_i req cb _ _
        cases cb with
        | script k =>
          have := bg_runScript (w.addRes (.cb k)) k (h.of_st rfl rfl)
          exact this.of_st rfl rfl
        | proc d =>
          exact (h.of_st (st_procResourceCb w d) (scr_procResourceCb w d)).of_st rfl rfl
      · exact ih _ _ h

theorem bg_hookStart (w : World) (tgt : Nat) (tag : Int) (h : BG w) : BG (w.hookStart tgt tag) := by
  unfold World.hookStart
  simp only []
  split
  · exact (h.of_st rfl rfl).of_st (st_shutdownDev ..) (scr_shutdownDev ..)
  · split
    · exact bg_runScript _ _ (h.of_st rfl rfl)
    · exact h.of_st rfl rfl

theorem bg_hookEnd (w : World) (tgt : Nat) (tag : Int) (h : BG w) : BG (w.hookEnd tgt tag) := by
  unfold World.hookEnd
  simp only []
  split
  · exact (h.of_st rfl rfl).of_st (st_restoreDev ..) (scr_restoreDev ..)
  · split
    · exact bg_runScript _ _ (h.of_st rfl rfl)
    · exact h.of_st rfl rfl

theorem bg_startWork (w : World) (m seq : Nat) (h : BG w) : BG (w.startWork m seq) := by
  have key : ∀ w' : World, BG w' → ∀ t g a b c d, BG ((w'.hookStart t g).schedLib a b c d) :=
    fun w' h' t g a b c d => (bg_hookStart w' t g h').of_st (st_schedLib ..) (scr_schedLib ..)
  unfold World.startWork
  split
  · exact h.of_st (st_setErr ..) (scr_setErr ..)
  · simp only []
    refine key _ ?_ _ _ _ _ _ _
    exact h.of_st rfl rfl

theorem bg_finishWork (w : World) (m seq : Nat) (h : BG w) : BG (w.finishWork m seq) := by
  have key : ∀ w' : World, BG w' → ∀ w'' : World, st w'' = st w' → w''.scripts = w'.scripts →
      ∀ m l, BG (w''.startOrders m l) := fun w' h' w'' e1 e2 m l =>
    (h'.of_st e1 e2).of_st (st_startOrders ..) (scr_startOrders ..)
  unfold World.finishWork
  split
  · exact h.of_st (st_setErr ..) (scr_setErr ..)
  · simp only []
    rename_i o _
    refine key _ (bg_hookEnd w o.target o.tag h) _ ?_ ?_ _ _ <;> rfl

theorem bg_exec (w : World) (a : Action) (h : BG w) : BG (w.exec a) := by
  cases a with
  | terminate => exact h
  | script k => exact bg_runScript w k h
  | finishCycle d => exact h.of_st (st_finishCycle w d) (scr_finishCycle w d)
  | passPart d =>
    exact ⟨C02V.budget_passPart w d h.1, by
      show BudScripts (w.passPart d)
      unfold BudScripts; rw [scr_passPart]; exact h.2⟩
  | fail d => exact h.of_st (st_failDev w d) (scr_failDev w d)
  | releaseIfIdle d => exact h.of_st (st_releaseIfIdle w d) (scr_releaseIfIdle w d)
  | rmCheck => exact bg_scan _ _ _ h
  | startWork m o => exact bg_startWork w m o h
  | finishWork m o => exact bg_finishWork w m o h
  | schedUpdate s => exact h.of_st (st_schedUpdate w s true) (scr_schedUpdate w s true)
  | periodicSense s => exact h.of_st (st_periodicSense w s) (scr_periodicSense w s)
  | unknown n => exact h.of_st (st_setErr ..) (scr_setErr ..)

theorem bg_step (w w' : World) (e : Event) (h : BG w) (hst : w.step = some (e, w')) : BG w' := by
  unfold World.step at hst
  split at hst
  · cases hst
  · rename_i e' env' henv
    simp only [Option.some.injEq, Prod.mk.injEq] at hst
    obtain ⟨rfl, rfl⟩ := hst
    have h1 : BG ({ w with env := env' } : World) := h.of_st rfl rfl
    split
    · exact bg_exec _ _ h1
    · exact h1

theorem bg_runLoop (n : Nat) : ∀ (w : World), BG w → BG (runLoop n w) := by
  induction n with
  | zero => intro w h; exact h.of_st (st_setErr ..) (scr_setErr ..)
  | succ n ih =>
    intro w h
    unfold runLoop
    split
    · split
      · exact h
      · rename_i e w' hst
        exact ih w' (bg_step w w' e h hst)
    · exact h

theorem st_simulateInit (w : World) : st w.simulateInit = st w := by
  unfold World.simulateInit
  split
  · rfl
  · simp only []
    show st (List.foldl _ _ _) = _
    rw [foldl_proj st _ _ _ (fun _ _ => st_initAsset ..), st_rmEffects]; rfl

theorem bg_simulateInit (w : World) (h : BG w) : BG w.simulateInit :=
  h.of_st (st_simulateInit w) (scr_simulateInit w)

theorem bg_runBegin (w : World) (d : Int) (h : BG w) : BG (w.runBegin d).1 := by
  unfold World.runBegin
  simp only []
  split
  · exact h
  · exact h.of_st rfl rfl

end C02W
end SimProc
