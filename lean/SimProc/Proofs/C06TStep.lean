/-
C06T (exact cycle times over whole runs), part 4: what ONE step of the event loop does to a timer:
it survives (same uid, same part in process) unless the step pops it or is the failure of its
device; the finish step empties the input slot; the clock moves to the time of the popped event.
-/
import SimProc.Proofs.C06TWorld
import SimProc.Proofs.C15Lemmas
namespace SimProc
namespace C06T
open World FloorCoreL C06W

/-! ### the clock and the uid counter over one step -/

theorem step_now {w w' : World} {e : Event} (h : WI w) (hst : w.step = some (e, w')) :
    w'.now = e.time ∧ w.now ≤ e.time ∧ w.env.nextUid ≤ w'.env.nextUid := by
  obtain ⟨env', henv, _, hkeep⟩ := step_spec h hst
  obtain ⟨_, _, hn, hu⟩ := fin_step henv 0
  refine ⟨hkeep.now.trans hn, h.fi.ei.1.future e (mem_events_of_step henv), ?_⟩
  have := hkeep.uid
  rw [← hu]; exact this

/-! ### popping an event that is not the finish event of `y` keeps the timers of `y` -/

theorem rem_pop_fwd {s s' : Env} {e : Event} (hs : s.step = some (e, s')) (y : Nat)
    (hne : isFin y e = false) {u : Nat} {r : Int} (hm : (u, r) ∈ rem s y) :
    ∃ r', (u, r') ∈ rem s' y := by
  obtain ⟨hE, hP, _, _⟩ := fin_step hs y
  rw [hne] at hE
  simp only [Bool.false_eq_true, if_false] at hE
  rcases mem_rem.mp hm with ⟨e', he', hu, _⟩ | ⟨e', he', hu, _⟩
  · exact ⟨_, mem_rem.mpr (Or.inl ⟨e', hE ▸ he', hu, rfl⟩)⟩
  · exact ⟨_, mem_rem.mpr (Or.inr ⟨e', hP ▸ he', hu, rfl⟩)⟩

theorem isFin_false_of_not {y : Nat} {e : Event} (h : ¬ (e.live = true ∧ e.act = finAct y)) :
    isFin y e = false := by
  cases hf : isFin y e with
  | false => rfl
  | true => exact absurd (isFin_true.mp hf) h

/-- a device with a timer times its work -/
theorem isT_of_rem {w : World} (h : FI w) {x : Nat} (hk : (w.dev x).kind ≠ .source) {u : Nat} {r : Int}
    (hm : (u, r) ∈ rem w.env x) : isT (w.dev x).kind = true ∧ (w.dev x).part.isSome = true := by
  have ht := h.timer x hk
  cases hp : (tdm (w.dev x)).part with
  | none => rw [timerAt_rem_nil ht hp] at hm; cases hm
  | some p =>
    cases hT : isT (w.dev x).kind with
    | false => simp [tdm, hT] at hp
    | true =>
      refine ⟨rfl, ?_⟩
      rw [tdm_part hT] at hp
      rw [hp]; rfl

/-! ### the end of a cycle: the input slot is emptied -/

/-- `_finish_cycle` in the state in which the event loop runs it: the part leaves the input slot;
a handler or processor has it in its output slot (a sink has consumed it). -/
theorem finishCycle_slots {w : World} {x p : Nat} (h : Mid w x) (hp : (w.dev x).part = some p) :
    (tdm ((w.finishCycle x).dev x)).part = none ∧
    ((w.dev x).kind ≠ .sink → (tdm ((w.finishCycle x).dev x)).output = some p) := by
  have hx := h.hx
  have e1 := finishCycleHandler_ok w h.op hp h.out
  have f1 : Fr (· = x) w (w.setDev x { w.dev x with output := some p, part := none }) :=
    fr_at x _
  have f2 := fr_schedulePass (X := None_) (w.setDev x { w.dev x with output := some p, part := none }) x 0
  have f12 : Fr (· = x) w (w.finishCycleHandler x) := by rw [e1]; exact f1.trans f2.x
  have ht : tdm ((w.finishCycleHandler x).dev x) =
      tdm ({ w.dev x with output := some p, part := none } : Dev) := by
    rw [e1, f2.tdm_eq, dev_setDev_same hx]
  have hT := h.kT
  cases hk : (w.dev x).kind
  case handler =>
    have e : w.finishCycle x = w.finishCycleHandler x := by unfold finishCycle; simp only [hk]
    rw [e, ht]
    exact ⟨by simp [tdm], fun _ => by simp [tdm, hk, isT]⟩
  case sink =>
    have e : w.finishCycle x =
        ((w.finishCycleHandler x).modDev x (fun d => { d with output := none })).notify x := by
      unfold finishCycle; simp only [hk]
    rw [e]
    have f4 := fr_notify (X := None_)
      ((w.finishCycleHandler x).modDev x (fun d => { d with output := none })) x
    have hx1 : x < (w.finishCycleHandler x).devs.length := by rw [f12.len]; exact hx
    refine ⟨?_, fun hne => absurd rfl hne⟩
    rw [f4.tdm_eq, dev_modDev_same hx1]
    have : (tdm ((w.finishCycleHandler x).dev x)).part = none := by rw [ht]; simp [tdm]
    simpa [tdm] using this
  case processor =>
    rw [finishCycle_proc w hk]
    obtain ⟨f3, ht3⟩ := fr_finishBook_from (w := w) (x := x) (by rw [f12.len]; exact hx)
    have f4 := fr_finishCbs (X := None_) (w.finishBook x) x ((w.finishCycleHandler x).dev x).finCbs
      ((w.finishCycleHandler x).dev x).finSensors
    have htd : tdm (((w.finishBook x).finishCbs x ((w.finishCycleHandler x).dev x).finCbs
        ((w.finishCycleHandler x).dev x).finSensors).dev x) =
        { tdm ({ w.dev x with output := some p, part := none } : Dev) with lu := false } := by
      rw [f4.tdm_eq, ht3, ht]
    rw [htd]
    exact ⟨by simp [tdm], fun _ => by simp [tdm, hk, isT]⟩
  all_goals (rw [hk] at hT; cases hT)

/-! ### one step: death, survival, the finish step -/

/-- The failure step of a processor. -/
structure Failed (w : World) (e : Event) (w' : World) (x : Nat) : Prop where
  live : e.live = true
  act : Action.ofNat e.act = .fail x
  kind : (w.dev x).kind = .processor
  /-- the step is `_fail()` of `x` at the time of the event -/
  eq : ∃ env', w.env.step = some (e, env') ∧ w' = ({ w with env := env' } : World).failDev x
  /-- the part in process is discarded … -/
  part : (w'.dev x).part = none
  /-- … no timer is left … -/
  rem : rem w'.env x = []
  /-- … the machine is down … -/
  down : (w'.dev x).shutDown = true
  /-- … and the `device_failure` record names the lost part -/
  recs : ∃ l, w'.recs = w.recs ++ l ++ [Rec.failure x e.time (w.dev x).part]

theorem failed_of_step {w w' : World} {e : Event} (h : WI w) (hst : w.step = some (e, w')) {x : Nat}
    (hl : e.live = true) (ha : Action.ofNat e.act = .fail x) : Failed w e w' x := by
  have h' := wi_step h hst
  unfold World.step at hst
  split at hst
  · cases hst
  · rename_i e' env' henv
    simp only [Option.some.injEq, Prod.mk.injEq] at hst
    obtain ⟨rfl, rfl⟩ := hst
    rw [if_pos hl, ha] at h' ⊢
    have hk : (w.dev x).kind = .processor := by
      cases hk : (w.dev x).kind
      case processor => rfl
      all_goals
        exfalso
        apply h.nf
        refine ⟨e'.act, ?_, x, ha, ?_⟩
        · rw [C02V.mem_acts]; exact ⟨e', Or.inl (mem_events_of_step henv), rfl⟩
        · show (w.dev x).kind ≠ .processor
          rw [hk]; decide
    have hx : x < ({ w with env := env' } : World).devs.length := lt_of_processor hk
    obtain ⟨g1, _, g3, _, g5, _, _⟩ := C13.fail_drops_input_only ({ w with env := env' } : World) hx
    have hn : ({ w with env := env' } : World).now = e'.time := (fin_step henv 0).2.2.1
    have hT : isT ((({ w with env := env' } : World).exec (Action.fail x)).dev x).kind = true := by
      have := ((loc_failDev (pop_fi h henv ha) hk).fr.ka x).1
      show isT ((({ w with env := env' } : World).failDev x).dev x).kind = true
      have hk1 : (({ w with env := env' } : World).dev x).kind = .processor := hk
      rw [this, hk1]; rfl
    refine ⟨hl, ha, hk, ⟨env', henv, rfl⟩, g1, ?_, g3, ⟨_, by rw [← hn]; exact g5⟩⟩
    exact timerAt_rem_nil (h'.fi.timer x (isT_ne_source hT)) (by rw [tdm_part hT]; exact g1)
where
  pop_fi {w : World} {e : Event} {env' : Env} {x : Nat} (h : WI w) (henv : w.env.step = some (e, env'))
      (ha : Action.ofNat e.act = .fail x) : FI ({ w with env := env' } : World) := by
    rcases pop_cases h henv with ⟨y, _, hy, _⟩ | ⟨hfi, _⟩
    · rw [hy, ofNat_finAct] at ha; cases ha
    · exact hfi

/-- **Death.** A timer that exists before a step and not after it was popped by the step (its
finish event ran: the cycle is finished), or the step is the failure of its device. -/
theorem timer_death {w w' : World} {e : Event} (h : WI w) (hst : w.step = some (e, w')) {x : Nat}
    (hk : (w.dev x).kind ≠ .source) {u : Nat} {r : Int} (hm : (u, r) ∈ rem w.env x)
    (hd : ∀ r', (u, r') ∉ rem w'.env x) :
    (e.live = true ∧ e.act = finAct x ∧ e.uid = u) ∨ Failed w e w' x := by
  obtain ⟨env', henv, sk⟩ := step_kind h hst
  by_cases hf : e.live = true ∧ e.act = finAct x
  · left
    obtain ⟨hr, _⟩ := finish_fires_at_zero h henv hf.1 hf.2 hk
    rw [hr] at hm
    simp only [List.mem_singleton, Prod.mk.injEq] at hm
    exact ⟨hf.1, hf.2, hm.1.symm⟩
  · obtain ⟨r1, hm1⟩ := rem_pop_fwd henv x (isFin_false_of_not hf) hm
    have hm1' : (u, r1) ∈ rem ({ w with env := env' } : World).env x := hm1
    cases sk with
    | skipped hl hw => subst hw; exact absurd hm1 (hd r1)
    | finish y hl ha hmid hw =>
      have hy : x ≠ y := fun hxy => hf ⟨hl, hxy ▸ ha⟩
      have hs := same_of_loc_ne (loc_finishCycle hmid) hy hk
      subst hw
      rw [← hs.1] at hm1'
      exact absurd hm1' (hd r1)
    | action hl hfi hsrc hw mv =>
      by_cases hF : Action.ofNat e.act = .fail x
      · exact Or.inr (failed_of_step h hst hl hF)
      · rcases mv.trk x hk hF with h0 | hs
        · rw [h0] at hm1'; cases hm1'
        · rw [← hs.1] at hm1'
          exact absurd hm1' (hd r1)

/-- **Survival keeps the part.** A timer that exists before and after a step belongs to the same
part in process. -/
theorem timer_keeps_part {w w' : World} {e : Event} (h : WI w) (hst : w.step = some (e, w')) {x : Nat}
    (hk : (w.dev x).kind ≠ .source) {u : Nat} {r r' : Int} (hm : (u, r) ∈ rem w.env x)
    (hm' : (u, r') ∈ rem w'.env x) : (w'.dev x).part = (w.dev x).part := by
  have h' := wi_step h hst
  have hu : u < w.env.nextUid := rem_uid_lt h.fi.ei hm
  obtain ⟨env', henv, sk⟩ := step_kind h hst
  have huid : env'.nextUid = w.env.nextUid := (fin_step henv x).2.2.2
  obtain ⟨hT, _⟩ := isT_of_rem h.fi hk hm
  have hk' : (w'.dev x).kind = (w.dev x).kind := ((step_spec h hst).choose_spec.2.2.ka x).1
  have hT' : isT (w'.dev x).kind = true := by rw [hk']; exact hT
  have conv : (tdm (w'.dev x)).part = (tdm (w.dev x)).part → (w'.dev x).part = (w.dev x).part := by
    intro hh; rw [tdm_part hT', tdm_part hT] at hh; exact hh
  cases sk with
  | skipped hl hw => subst hw; rfl
  | finish y hl ha hmid hw =>
    by_cases hy : x = y
    · subst hy
      exfalso
      have := (loc_finishCycle hmid).rem hk
      subst hw
      rw [rem_nil hmid.nofin.1 hmid.nofin.2] at this
      rcases this with h0 | h0 | ⟨u0, r0, h0, hu0⟩
      · rw [h0] at hm'; cases hm'
      · rw [h0] at hm'; cases hm'
      · rw [h0] at hm'
        simp only [List.mem_singleton, Prod.mk.injEq] at hm'
        have : env'.nextUid ≤ u := hm'.1 ▸ hu0
        omega
    · have hs := same_of_loc_ne (loc_finishCycle hmid) hy hk
      subst hw
      exact conv hs.2
  | action hl hfi hsrc hw mv =>
    have hne : isFin x e = false := isFin_false_of_not (fun hh => hk (hsrc x hh.2))
    obtain ⟨r1, hm1⟩ := rem_pop_fwd henv x hne hm
    have hm1' : (u, r1) ∈ rem ({ w with env := env' } : World).env x := hm1
    by_cases hF : Action.ofNat e.act = .fail x
    · have := (failed_of_step h hst hl hF).rem
      rw [this] at hm'; cases hm'
    · rcases mv.trk x hk hF with h0 | hs
      · rw [h0] at hm1'; cases hm1'
      · exact conv hs.2

/-- **The finish step.** When the live finish event of a timing device `x` is popped: it is THE
timer of `x`; `x` is operational with a part `p` in process and a free output slot; the step is
`_finish_cycle` of `x`; afterwards the input slot is empty, the timer is gone, and a handler or
processor holds `p` in its output slot. -/
theorem finish_step {w w' : World} {e : Event} (h : WI w) (hst : w.step = some (e, w')) {x : Nat}
    (hk : (w.dev x).kind ≠ .source) (hl : e.live = true) (ha : e.act = finAct x) :
    ∃ p, rem w.env x = [(e.uid, e.time - w.now)] ∧ w.operational x = true ∧
      (w.dev x).part = some p ∧ (w.dev x).output = none ∧ isT (w.dev x).kind = true ∧
      (∃ env', w.env.step = some (e, env') ∧ w' = ({ w with env := env' } : World).finishCycle x) ∧
      (w'.dev x).part = none ∧ rem w'.env x = [] ∧
      ((w.dev x).kind ≠ .sink → (w'.dev x).output = some p) := by
  have h' := wi_step h hst
  obtain ⟨env', henv, sk⟩ := step_kind h hst
  obtain ⟨hr, hop, hp, ho, hT⟩ := finish_fires_at_zero h henv hl ha hk
  obtain ⟨p, hp⟩ := Option.isSome_iff_exists.mp hp
  have hk' : (w'.dev x).kind = (w.dev x).kind := ((step_spec h hst).choose_spec.2.2.ka x).1
  have hT' : isT (w'.dev x).kind = true := by rw [hk']; exact hT
  refine ⟨p, hr, hop, hp, ho, hT, ?_⟩
  cases sk with
  | skipped hl' hw => rw [hl] at hl'; cases hl'
  | action _ _ hsrc _ _ => exact absurd (hsrc x ha) hk
  | finish y _ hay hmid hw =>
    have hxy : x = y := finAct_inj (ha.symm.trans hay)
    subst hxy
    obtain ⟨g1, g2⟩ := finishCycle_slots hmid (p := p) hp
    subst hw
    rw [tdm_part hT'] at g1
    rw [tdm_output hT'] at g2
    refine ⟨⟨env', henv, rfl⟩, g1, ?_, g2⟩
    exact timerAt_rem_nil (h'.fi.timer x (isT_ne_source hT')) (by rw [tdm_part hT']; exact g1)

/-- The `produced_part` record of a processor is written by the finish step, stamped with the time
of the finish event. -/
theorem finish_step_record {w w' : World} {e : Event} (h : WI w) (hst : w.step = some (e, w'))
    {x p : Nat} (hk : (w.dev x).kind = .processor) (hl : e.live = true) (ha : e.act = finAct x)
    (hp : (w.dev x).part = some p) :
    w'.recs = w.recs ++ [Rec.produced x e.time p (w'.part p).quality (w'.partValue p)] := by
  have hks : (w.dev x).kind ≠ .source := by rw [hk]; decide
  obtain ⟨q, _, hop, hq, ho, _, ⟨env', henv, hw⟩, _⟩ := finish_step h hst hks hl ha
  rw [hp] at hq
  cases hq
  have hn : ({ w with env := env' } : World).now = e.time := (fin_step henv 0).2.2.1
  have := C15.finishCycle_processor_produced ({ w with env := env' } : World) x p hk hop hp ho
  rw [hn] at this
  rw [hw]; exact this

end C06T
end SimProc
