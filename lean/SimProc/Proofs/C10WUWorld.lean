/-
C10W — `U w (f w)` for every function of `Model/World.lean` except the availability check
(unconditionally): scripted operations, constructors, maintainer / scheduler / sensor events,
`exec` of every action other than `rmCheck`, `simulateInit`, `runBegin`.
-/
import SimProc.Proofs.C10WUFloor

namespace SimProc
namespace C10W
open World FloorCoreL

@[simp] theorem KU_modMaint (w : World) (m : Nat) (f : Maint → Maint) :
    KU (w.modMaint m f) = KU w := rfl
@[simp] theorem KU_setVar (w : World) (h : Nat) (v : Option Nat) : KU (w.setVar h v) = KU w := rfl

macro_rules | `(tactic| u_step) => `(tactic| with_reducible apply U.trans_KU (h := KU_modMaint _ _ _))
macro_rules | `(tactic| u_step) => `(tactic| with_reducible apply U.trans_KU (h := KU_setVar _ _ _))

theorem U_startOrders (w : World) (m : Nat) (st : List Order) : U w (w.startOrders m st) := by
  unfold startOrders
  u_auto

macro_rules | `(tactic| u_step) => `(tactic| with_reducible apply U.trans (h2 := U_startOrders _ _ _))

theorem U_schedUpdate (w : World) (s : Nat) (advance : Bool) :
    U w (w.schedUpdate s advance) := by
  unfold schedUpdate
  dsimp only
  u_auto

macro_rules | `(tactic| u_step) => `(tactic| with_reducible apply U.trans (h2 := U_schedUpdate _ _ _))

theorem U_initAsset (w : World) (a : AssetRef) : U w (w.initAsset a) := by
  unfold initAsset
  split <;> (try dsimp only) <;> u_auto

macro_rules | `(tactic| u_step) => `(tactic| with_reducible apply U.trans (h2 := U_initAsset _ _))

/-! ### constructors -/

theorem U_addDev (w : World) (d : Dev) : U w (w.addDev d) := by
  unfold addDev
  dsimp only
  u_auto

macro_rules | `(tactic| u_step) => `(tactic| with_reducible apply U.trans (h2 := U_addDev _ _))

theorem U_addAsset (w : World) (spec : AssetSpec) : U w (w.addAsset spec) := by
  unfold addAsset
  split <;> (try dsimp only)
  all_goals u_auto

macro_rules | `(tactic| u_step) => `(tactic| with_reducible apply U.trans (h2 := U_addAsset _ _))

/-! ### scripted operations -/

theorem notCb_sched (w : World) (t a : Int) (act : Action) (p : Int) :
    notCb (w.sched t a act p).2 = true := by
  unfold World.sched
  dsimp only
  split <;> rfl

theorem notCb_add (rm : RM) (r : Nat) (amt : Int) : notCb (rm.add r amt).2.1 = true := by
  unfold RM.add
  repeat' split
  all_goals rfl

theorem notCb_validate (h rel : Req) : notCb (RM.validateRelease h rel) = true := by
  induction rel with
  | nil => rfl
  | cons p t ih =>
    obtain ⟨r, a⟩ := p
    unfold RM.validateRelease
    repeat' split
    all_goals first | rfl | exact ih

theorem notCb_release (rm : RM) (id : Nat) (part : Option Req) :
    notCb (rm.release id part).2.1 = true := by
  unfold RM.release
  cases rm.held id with
  | none => rfl
  | some h =>
    cases part with
    | none => rfl
    | some rel =>
      have := notCb_validate h rel
      dsimp only
      split
      · rfl
      · exact this

theorem notCb_merge (rm : RM) (a b : Nat) : notCb (rm.merge a b).2 = true := by
  unfold RM.merge
  repeat' split
  all_goals rfl

theorem notCb_reserve (rm : RM) (req : Req) : notCb (rm.reserve req).2.1 = true := by
  unfold RM.reserve
  split
  · rfl
  · dsimp only
    split <;> rfl

/-- The result of a scripted operation is never a callback record. -/
theorem notCb_applyOp (w : World) (op : Op) : notCb (w.applyOp op).2 = true := by
  cases op with
  | sched t a k p => exact notCb_sched _ _ _ _ _
  | schedRel dt a k p => exact notCb_sched _ _ _ _ _
  | pause a => rfl
  | unpause a => rfl
  | cancel a => rfl
  | addRes r amt => exact notCb_add _ _ _
  | reserve hd req =>
    have h := notCb_reserve w.rm req
    simp only [applyOp]
    rcases hr : w.rm.reserve req with ⟨rm, res, id, recs⟩
    rw [hr] at h
    dsimp only at h ⊢
    split
    · rfl
    · exact h
  | release hd part =>
    simp only [applyOp]
    split
    · rfl
    · exact notCb_release _ _ _
  | merge h1 h2 =>
    simp only [applyOp]
    split
    · rfl
    · split
      · rfl
      · exact notCb_merge _ _ _
  | register k req => rfl
  | schedFail d t =>
    simp only [applyOp]
    split
    · rfl
    · exact notCb_sched _ _ _ _ _
  | schedFailRel d dt =>
    simp only [applyOp]
    split
    · rfl
    · exact notCb_sched _ _ _ _ _
  | shutdown d => simp only [applyOp]; split <;> rfl
  | restore d => simp only [applyOp]; split <;> rfl
  | block d b => rfl
  | adjust d n => rfl
  | setCycle d c => simp only [applyOp]; split <;> rfl
  | offsetNext d o => rfl
  | rewire d ups => rfl
  | workOrder m tgt tag info => rfl
  | setParams tgt tag dur need cost => rfl
  | regObj s obj ovr => rfl
  | unregObj s obj => rfl
  | setVar k v => rfl
  | addSensor c s => simp only [applyOp]; split <;> rfl
  | create spec => rfl

macro "u_ops" : tactic => `(tactic| repeat' first | u_step | split | dsimp only)

theorem U_applyOp (w : World) (op : Op) (hreg : ∀ k req, op = .register k req → RegBy w k) :
    U w (w.applyOp op).1 := by
  cases op with
  | sched t a k p => exact U.of_KU (KU_sched _ _ _ _ _)
  | schedRel dt a k p => exact U.of_KU (KU_sched _ _ _ _ _)
  | pause a => exact U.of_KU rfl
  | unpause a => exact U.of_KU rfl
  | cancel a => exact U.of_KU rfl
  | addRes r amt =>
    have h := RmU.add w.rm r amt
    simp only [applyOp]
    rcases hr : w.rm.add r amt with ⟨rm, res, recs, chk⟩
    rw [hr] at h
    dsimp only
    u_step
    exact U_rmSet w rm h
  | reserve hd req =>
    have h := RmU.reserve w.rm req
    simp only [applyOp]
    rcases hr : w.rm.reserve req with ⟨rm, res, id, recs⟩
    rw [hr] at h
    dsimp only
    split
    · exact U.refl _
    · u_step
      u_step
      exact U_rmSet w rm h
  | release hd part =>
    simp only [applyOp]
    cases w.getVar hd with
    | none => exact U.refl _
    | some id =>
      dsimp only
      u_step
      exact U_rmSet w _ (RmU.release w.rm id part)
  | merge h1 h2 =>
    simp only [applyOp]
    cases w.getVar h1 with
    | none => exact U.refl _
    | some a =>
      cases w.getVar h2 with
      | none => exact U.refl _
      | some b =>
        dsimp only
        exact U_rmSet w _ (RmU.merge w.rm a b)
  | register k req =>
    simp only [applyOp]
    u_step
    exact U_rmRegister w k req (hreg k req rfl)
  | schedFail d t => simp only [applyOp]; u_ops
  | schedFailRel d dt => simp only [applyOp]; u_ops
  | shutdown d => simp only [applyOp]; u_ops
  | restore d => simp only [applyOp]; u_ops
  | block d b => simp only [applyOp]; u_ops
  | adjust d n => simp only [applyOp]; u_ops
  | setCycle d c => simp only [applyOp]; u_ops
  | offsetNext d o => simp only [applyOp]; u_ops
  | rewire d ups => simp only [applyOp]; u_ops
  | workOrder m tgt tag info =>
    simp only [applyOp]
    repeat' first
      | u_step
      | split
      | dsimp only
  | setParams tgt tag dur need cost => simp only [applyOp]; u_ops
  | regObj s obj ovr => simp only [applyOp]; u_ops
  | unregObj s obj => simp only [applyOp]; u_ops
  | setVar k v => simp only [applyOp]; u_ops
  | addSensor c s => simp only [applyOp]; u_ops
  | create spec => simp only [applyOp]; u_ops

theorem U_applyOps (w : World) (ops : List Op)
    (hreg : ∀ op ∈ ops, ∀ k req, op = .register k req → RegBy w k) : U w (w.applyOps ops) := by
  unfold applyOps
  induction ops generalizing w with
  | nil => exact U.refl _
  | cons op ops ih =>
    rw [List.foldl_cons]
    have h1 : U w ((w.applyOp op).1.addRes (w.applyOp op).2) :=
      (U_applyOp w op (hreg op List.mem_cons_self)).trans (U_addRes _ _ (notCb_applyOp w op))
    refine U.trans h1 (ih _ ?_)
    intro o ho k req hk
    have := hreg o (List.mem_cons_of_mem _ ho) k req hk
    unfold RegBy at this ⊢
    rw [h1.scr]; exact this

theorem U_runScript (w : World) (k : Nat) : U w (w.runScript k) := by
  unfold runScript
  refine U_applyOps _ _ ?_
  intro op hop k' req hk
  obtain ⟨s, hs, hm⟩ := C01W.mem_getD_nil hop
  exact ⟨s, hs, req, hk ▸ hm⟩

/-- An operation issued from outside (it may register any callback): the weak form. -/
theorem U0_applyOp (w : World) (op : Op) : U0 w (w.applyOp op).1 := by
  by_cases h : ∃ k req, op = .register k req
  · obtain ⟨k, req, rfl⟩ := h
    simp only [applyOp]
    have hk := KU_rmEffects ({ w with rm := (w.rm.register req (.script k)).1 } : World) []
      (w.rm.register req (.script k)).2
    refine ⟨⟨[(req, .script k)], ?_⟩, fun hi => ?_, ⟨[], ?_, by simp⟩, ?_⟩
    · rw [KU_rm hk]; rfl
    · rw [KU_rm hk]; exact hi
    · rw [KU_results hk]; simp
    · rw [KU_scr hk]
  · exact (U_applyOp w op (fun k req hk => absurd ⟨k, req, hk⟩ h)).toU0

macro_rules | `(tactic| u_step) => `(tactic| with_reducible apply U.trans (h2 := U_runScript _ _))

/-! ### maintainer events -/

theorem U_hookStart (w : World) (tgt : Nat) (tag : Int) : U w (w.hookStart tgt tag) := by
  unfold hookStart
  dsimp only
  u_auto

theorem U_hookEnd (w : World) (tgt : Nat) (tag : Int) : U w (w.hookEnd tgt tag) := by
  unfold hookEnd
  dsimp only
  u_auto

macro_rules | `(tactic| u_step) => `(tactic| with_reducible apply U.trans (h2 := U_hookStart _ _ _))
macro_rules | `(tactic| u_step) => `(tactic| with_reducible apply U.trans (h2 := U_hookEnd _ _ _))

theorem U_startWork (w : World) (m seq : Nat) : U w (w.startWork m seq) := by
  unfold startWork
  dsimp only
  u_auto

theorem U_finishWork (w : World) (m seq : Nat) : U w (w.finishWork m seq) := by
  unfold finishWork
  dsimp only
  u_auto

theorem U_periodicSense (w : World) (s : Nat) : U w (w.periodicSense s) := by
  unfold periodicSense
  dsimp only
  u_auto

/-! ### events -/

/-- Every action other than the availability check. -/
theorem U_exec (w : World) (a : Action) (ha : a ≠ .rmCheck) : U w (w.exec a) := by
  unfold exec
  split
  · exact U.refl _
  · exact U_runScript _ _
  · exact U_finishCycle _ _
  · exact U_passPart _ _
  · exact U_failDev _ _
  · exact U_releaseIfIdle _ _
  · exact absurd rfl ha
  · exact U_startWork _ _ _
  · exact U_finishWork _ _ _
  · exact U_schedUpdate _ _ _
  · exact U_periodicSense _ _
  · exact U.of_KU (KU_setErr _ _)

theorem U_simulateInit (w : World) : U w w.simulateInit := by
  unfold simulateInit
  split
  · exact U.refl _
  · have h := RmU.init w.rm
    rcases hr : w.rm.init with ⟨rm, recs, chk⟩
    rw [hr] at h
    dsimp only
    u_step
    u_step
    u_step
    exact U_rmSet w rm h

theorem KU_runBegin (w : World) (d : Int) : KU (w.runBegin d).1 = KU w := by
  unfold World.runBegin
  dsimp only
  split <;> rfl

theorem U_runBegin (w : World) (d : Int) : U w (w.runBegin d).1 := U.of_KU (KU_runBegin w d)

end C10W
end SimProc
