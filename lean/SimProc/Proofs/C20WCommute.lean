/-
C20W — machinery, part 5: "construct, then start" = "start, then construct".
-/
import SimProc.Proofs.C20WNat
import SimProc.Proofs.C03Lemmas

namespace SimProc
namespace C20W
open World FloorCoreL RKey

/-! ### initialisation keeps the kind and the attachment of every sensor -/

/-- What `initAsset` needs to know of the sensors besides their state. -/
def sstat (w : World) : List (SensorKind × Nat) := w.sensors.map (fun s => (s.s.kind, s.proc))

open C02V in
theorem genPart_sensors (w : World) (x : Nat) : (w.genPart x).1.sensors = w.sensors := by
  cases hb : ((w.dev x).genBatch == 0)
  · rw [genPart_batch w x hb]
  · rw [genPart_leaf w x hb]

open C02V in
theorem initDev_sensors (w : World) (x : Nat) : (w.initDev x).sensors = w.sensors := by
  rw [initDev_eq]
  have h0 : (initFlag w x).sensors = w.sensors := by simp [initFlag]
  split
  · exact h0
  · exact h0
  · exact h0
  · exact h0
  · simp [h0]
  · rename_i hk
    have hk' : ((((initFlag w x).setWaiting x true true).modDev x
        (fun d => { d with offset := 0 })).dev x).kind = .source := by
      rw [modDev_dev_field Dev.kind _ x _ rfl x, setWaiting_eq, modDev_dev_field Dev.kind _ x _ ?_ x]
      · exact hk
      · generalize (initFlag w x).dev x = d
        unfold swF
        simp only [Bool.not_true, Bool.false_eq_true, if_false]
        repeat' split
        all_goals rfl
    rw [scheduleFinish_eq]
    split
    · rw [finishCycle_source _ x hk']
      simp only [schedulePass_sensors]
      split
      · simp [genPart_sensors, h0]
      · simp [h0]
    · simp [h0]
  · simp [h0]

theorem initAsset_sstat (w : World) (a : AssetRef) : sstat (w.initAsset a) = sstat w := by
  cases a with
  | dev d => unfold sstat; rw [show (w.initAsset (.dev d)) = w.initDev d from rfl, initDev_sensors]
  | maint m => rfl
  | sched s =>
    unfold sstat
    rw [show (w.initAsset (.sched s)) = w.schedUpdate s false from rfl, schedUpdate_eq]
    split
    · rfl
    · rw [schedLib_sensors]
      congr 1
      exact foldl_preserve World.sensors _ _ _ (fun _ _ => rfl)
  | sensor s =>
    have h1 : sstat (initSensorFlag w s) = sstat w := by
      unfold sstat initSensorFlag
      exact map_set_of_eq (fun s : SensorW => (s.s.kind, s.proc)) w.sensors s _ default rfl
    rw [initAsset_sensor_eq]
    split
    · unfold sstat at *; rw [schedLib_sensors]; exact h1
    · split
      · unfold sstat at *; rw [modDev_sensors]; exact h1
      · exact h1
  | cms c => rfl

theorem initAsset_lengths (w : World) (a : AssetRef) :
    (w.initAsset a).devs.length = w.devs.length ∧ (w.initAsset a).maints.length = w.maints.length ∧
    (w.initAsset a).scheds.length = w.scheds.length ∧ (w.initAsset a).assets = w.assets ∧
    (w.initAsset a).started = w.started := by
  have h := RK_initAsset w a
  refine ⟨?_, ?_, ?_, ?_, ?_⟩
  · have := congrArg (fun k => k.devs.length) h
    cases a <;> simpa [RK, RKey.init] using this
  · have := congrArg (fun k => k.maints.length) h
    cases a <;> simpa [RK, RKey.init] using this
  · have := congrArg (fun k => k.scheds.length) h
    cases a <;> simpa [RK, RKey.init] using this
  · have := congrArg (fun k => k.assets) h
    simpa [RK] using this
  · have := congrArg (fun k => k.started) h
    simpa [RK] using this

theorem validRef_congr {free : Bool} {n : Nat} {w w' : World} (hm : w'.maints.length = w.maints.length)
    (hs : w'.scheds.length = w.scheds.length) (hss : sstat w' = sstat w) (a : AssetRef) :
    ValidRef free n w' a ↔ ValidRef free n w a := by
  have hl : w'.sensors.length = w.sensors.length := by
    have := congrArg List.length hss; simpa [sstat] using this
  have hg : ∀ s, ((w'.sensors.getD s default).s.kind, (w'.sensors.getD s default).proc) =
      ((w.sensors.getD s default).s.kind, (w.sensors.getD s default).proc) := by
    intro s
    have e : ∀ l : List SensorW, ((l.getD s default).s.kind, (l.getD s default).proc) =
        (l.map (fun s : SensorW => (s.s.kind, s.proc))).getD s
          ((default : SensorW).s.kind, (default : SensorW).proc) :=
      fun l => (getD_map (fun s : SensorW => (s.s.kind, s.proc)) l s default).symm
    rw [e, e]
    exact congrArg (fun l : List (SensorKind × Nat) => l.getD s ((default : SensorW).s.kind, (default : SensorW).proc)) hss
  cases a with
  | dev d => exact Iff.rfl
  | maint m => show m < w'.maints.length ↔ m < w.maints.length; rw [hm]
  | sched s => show s < w'.scheds.length ↔ s < w.scheds.length; rw [hs]
  | sensor s =>
    have h1 := congrArg Prod.fst (hg s)
    have h2 := congrArg Prod.snd (hg s)
    simp only at h1 h2
    show (s < w'.sensors.length ∧ (free = true ∨ ((w'.sensors.getD s default).s.kind = .output →
      (w'.sensors.getD s default).proc < n))) ↔ (s < w.sensors.length ∧ (free = true ∨
      ((w.sensors.getD s default).s.kind = .output → (w.sensors.getD s default).proc < n)))
    rw [hl, h1, h2]
  | cms c => exact Iff.rfl

theorem validRef_initAsset {free : Bool} {n : Nat} (w : World) (b a : AssetRef) :
    ValidRef free n (w.initAsset b) a ↔ ValidRef free n w a :=
  validRef_congr (initAsset_lengths w b).2.1 (initAsset_lengths w b).2.2.1 (initAsset_sstat w b) a

/-! ### the sweep commutes with registration -/

/-- The initialisation sweep of `simulateInit`. -/
def sweepW (w : World) (l : List AssetRef) : World := l.foldl (fun w a => w.initAsset a) w

@[simp] theorem sweepW_nil (w : World) : sweepW w [] = w := rfl
@[simp] theorem sweepW_cons (w : World) (a : AssetRef) (l : List AssetRef) :
    sweepW w (a :: l) = sweepW (w.initAsset a) l := rfl
theorem sweepW_append (w : World) (l1 l2 : List AssetRef) :
    sweepW w (l1 ++ l2) = sweepW (sweepW w l1) l2 := List.foldl_append ..

theorem app_sweepW (T : Tr) (n : Nat) (hF : WireF n T.F) (free : Bool) (hfree : free = true → T.F = id)
    (l : List AssetRef) :
    ∀ w : World, n ≤ w.devs.length → (∀ a ∈ l, ValidRef free n w a) →
      sweepW (T.app w) l = T.app (sweepW w l) := by
  induction l with
  | nil => intro w _ _; rfl
  | cons a l ih =>
    intro w hn hv
    rw [sweepW_cons, sweepW_cons, app_initAsset T n hF free hfree w a hn (hv a List.mem_cons_self)]
    refine ih _ (by rw [(initAsset_lengths w a).1]; exact hn) ?_
    intro b hb
    exact (validRef_initAsset w a b).2 (hv b (List.mem_cons_of_mem _ hb))

/-- The resource-manager part of `simulateInit`. -/
def rmStart (w : World) : World :=
  ({ w with rm := w.rm.init.1 } : World).rmEffects w.rm.init.2.1 w.rm.init.2.2

theorem simulateInit_eq (w : World) (h : w.started = false) :
    w.simulateInit = { sweepW (rmStart w) (rmStart w).assets with started := true } := by
  unfold simulateInit
  rw [if_neg (by simp [h])]
  rfl

theorem Same_rmStart (w : World) : Same w (rmStart w) := by
  unfold rmStart
  exact Same.of_eq (by rw [RK_rmEffects]; rfl)

theorem app_rmStart (T : Tr) (w : World) : rmStart (T.app w) = T.app (rmStart w) := by
  unfold rmStart
  exact app_rmEffects T ({ w with rm := w.rm.init.1 } : World) w.rm.init.2.1 w.rm.init.2.2

theorem rmStart_sstat (w : World) : sstat (rmStart w) = sstat w := by
  unfold sstat rmStart
  rw [rmEffects_sensors]

/-- The transformer "the system has started". -/
def startT : Tr := { ts := fun _ => true }

theorem startT_app (w : World) : startT.app w = { w with started := true } := by
  simp [Tr.app, startT]

theorem sweepW_lengths (l : List AssetRef) : ∀ w : World,
    (sweepW w l).devs.length = w.devs.length ∧ (sweepW w l).maints.length = w.maints.length ∧
    (sweepW w l).scheds.length = w.scheds.length ∧ sstat (sweepW w l) = sstat w := by
  induction l with
  | nil => intro w; exact ⟨rfl, rfl, rfl, rfl⟩
  | cons a l ih =>
    intro w
    rw [sweepW_cons]
    obtain ⟨h1, h2, h3, h4⟩ := ih (w.initAsset a)
    obtain ⟨g1, g2, g3, _, _⟩ := initAsset_lengths w a
    exact ⟨h1.trans g1, h2.trans g2, h3.trans g3, h4.trans (initAsset_sstat w a)⟩

theorem sweepW_assets (l : List AssetRef) : ∀ w : World,
    (sweepW w l).assets = w.assets ∧ (sweepW w l).started = w.started := by
  induction l with
  | nil => intro w; exact ⟨rfl, rfl⟩
  | cons a l ih =>
    intro w
    rw [sweepW_cons]
    obtain ⟨h1, h2⟩ := ih (w.initAsset a)
    obtain ⟨_, _, _, g4, g5⟩ := initAsset_lengths w a
    exact ⟨h1.trans g4, h2.trans g5⟩

theorem sstat_length {w w' : World} (h : sstat w' = sstat w) : w'.sensors.length = w.sensors.length := by
  have := congrArg List.length h; simpa [sstat] using this

/-- **The generic commutation argument.**  If a constructor call acts on a not-started world as
the registration transformer `T` (one new registration entry `r`), and on the started world as `T`
followed by the initialisation of `r`, then constructing before or after `simulateInit` gives the
same world. -/
theorem commute_generic (w : World) (T : Tr) (r : AssetRef) (hst : w.started = false)
    (hF : WireF w.devs.length T.F) (free : Bool) (hfree : free = true → T.F = id)
    (hta : T.ta = [r]) (hts : T.ts = id)
    (hval : ∀ a ∈ w.assets, ValidRef free w.devs.length w a)
    (hr : ∀ Y : World, Y.devs.length = w.devs.length → Y.maints.length = w.maints.length →
      Y.scheds.length = w.scheds.length → sstat Y = sstat w →
      ValidRef true (T.app Y).devs.length (T.app Y) r) :
    (T.app w).simulateInit = (T.app w.simulateInit).initAsset r := by
  have hs0 : (T.app w).started = false := by
    show T.ts w.started = false
    rw [hts]; exact hst
  have hsame := Same_rmStart w
  have ha0 : (rmStart w).assets = w.assets := hsame.assets
  have hvalX : ∀ a ∈ w.assets, ValidRef free w.devs.length (rmStart w) a := by
    intro a ha
    exact (validRef_congr hsame.maints_length hsame.scheds_length (rmStart_sstat w) a).2 (hval a ha)
  have hnX : w.devs.length ≤ (rmStart w).devs.length := by rw [hsame.devs_length]; exact Nat.le_refl _
  -- left-hand side
  have hL : (T.app w).simulateInit =
      { (T.app (sweepW (rmStart w) w.assets)).initAsset r with started := true } := by
    rw [simulateInit_eq _ hs0, app_rmStart]
    have : (T.app (rmStart w)).assets = w.assets ++ [r] := by
      show (rmStart w).assets ++ T.ta = _
      rw [ha0, hta]
    rw [this, sweepW_append, app_sweepW T _ hF free hfree _ _ hnX hvalX]
    rfl
  -- right-hand side
  obtain ⟨y1, y2, y3, y4⟩ := sweepW_lengths w.assets (rmStart w)
  have hR : w.simulateInit = { sweepW (rmStart w) w.assets with started := true } := by
    rw [simulateInit_eq _ hst, ha0]
  rw [hL, hR]
  generalize sweepW (rmStart w) w.assets = Y at *
  have e1 : T.app { Y with started := true } = startT.app (T.app Y) := by
    simp [Tr.app, startT, hts]
  rw [e1, app_initAsset startT _ (WireF.id _) true (fun _ => rfl) (T.app Y) r (Nat.le_refl _)
    (hr Y (y1.trans hsame.devs_length) (y2.trans hsame.maints_length) (y3.trans hsame.scheds_length)
      (y4.trans (rmStart_sstat w))), startT_app]

end C20W
end SimProc
