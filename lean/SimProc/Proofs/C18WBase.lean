/-
C18W / C19W — closed-world machinery for action schedulers and sensors, part 1.

* tracked events (`.schedUpdate s`, `.periodicSense s`), tracked records (`.schedUpdate`,
  `.produced`) and tracked results (`.act`, `.sense`);
* the tracked key `tk w` of a world (schedulers, sensors, tracked records / results, the devices'
  asset ids and attached output sensors, the scripts) and the abstract steps `CStep` on keys:
  `reg` / `unreg` (scripted registration with a scheduler), `addCb` (`Cms.add_sensor`), `prod` (a
  processor finishes a part: its output sensors count / sample it, a `produced` record is written);
* harmless environment operations `HOp ta` (scheduling an untracked action, pausing / resuming /
  cancelling an asset id that is not the id of a scheduler or sensor), `ERef`;
* the frame relation `Fr w w'`: under the static conditions `Stat w`, `w'.env` is `w.env` after
  harmless operations and `tk w'` is `tk w` after abstract steps;
* the primitives of `WorldDef`, and a peeling tactic (`fr_step` / `fr_auto`) in the style of
  `Proofs/C01WBase.lean`.
-/
import SimProc.Model.World
import SimProc.Proofs.FloorCore2
import SimProc.Proofs.C01WBase
import SimProc.Proofs.C06WBase
import SimProc.Props.C01
import Lean

namespace SimProc
namespace C18W
open World FloorCoreL
open Lean Elab Tactic Meta

/-! ### tracked events, records, results -/

/-- action codes of `.schedUpdate s` (9 + 16 s) and `.periodicSense s` (10 + 16 s) -/
def trackedNat (n : Nat) : Bool := n % 16 == 9 || n % 16 == 10

def tracked (e : Event) : Bool := trackedNat e.act

def isTrackedAct : Action → Bool
  | .schedUpdate _ => true
  | .periodicSense _ => true
  | _ => false

theorem untracked_toNat {a : Action} (h : isTrackedAct a = false) : trackedNat a.toNat = false := by
  cases a <;> simp [isTrackedAct] at h <;> simp [Action.toNat, trackedNat] <;> omega

def trackedRec : Rec → Bool
  | .schedUpdate .. => true
  | .produced .. => true
  | _ => false

def trackedRes : Res → Bool
  | .act .. => true
  | .sense .. => true
  | _ => false

/-! ### the tracked key -/

structure TK where
  scheds : List SchedW
  sensors : List SensorW
  recsT : List Rec
  resT : List Res
  /-- per device: asset id, attached output sensors -/
  dk : List (Int × List Nat)
  scripts : List (List Op)

def dkey (d : Dev) : Int × List Nat := (d.aid, d.finSensors)

def tk (w : World) : TK :=
  { scheds := w.scheds, sensors := w.sensors, recsT := w.recs.filter trackedRec,
    resT := w.results.filter trackedRes, dk := w.devs.map dkey, scripts := w.scripts }

/-- The asset ids of schedulers and sensors. -/
def TK.ta (c : TK) : List Int := c.scheds.map (·.aid) ++ c.sensors.map (·.aid)

/-- output sensors attached to device `x` -/
def TK.finS (c : TK) (x : Nat) : List Nat := (c.dk.getD x (0, [])).2

theorem finS_tk (w : World) (x : Nat) : (tk w).finS x = (w.dev x).finSensors := by
  unfold TK.finS tk World.dev
  simp only [List.getD_eq_getElem?_getD, List.getElem?_map]
  cases w.devs[x]? <;> rfl

/-! ### abstract steps on keys -/

def TK.reg (c : TK) (s obj : Nat) (ovr : Option Nat) : TK :=
  let sw := c.scheds.getD s default
  { c with scheds := c.scheds.set s { sw with s := (sw.s.register obj ovr).1 } }

def TK.unreg (c : TK) (s obj : Nat) : TK :=
  let sw := c.scheds.getD s default
  { c with scheds := c.scheds.set s { sw with s := (sw.s.unregister obj).1 } }

def TK.addCb (c : TK) (s cb : Nat) : TK :=
  let sw := c.sensors.getD s default
  { c with sensors := c.sensors.set s { sw with s := sw.s.addCb cb } }

/-- values probed by an output-part sensor on a part of quality `q` and value `v` -/
def outVals (attrs : List Nat) (q v : Int) : List Int := attrs.map (fun a => if a == 0 then q else v)

/-- `senseOutput` on the key: output sensor `s` sees a finished part (time `t`, quality `q`,
value `v`). -/
def TK.outSense (c : TK) (s : Nat) (t q v : Int) : TK :=
  let sw := c.sensors.getD s default
  if sw.s.countPart.2 then
    let s2 := sw.s.countPart.1.collect (outVals sw.attrs q v)
    { c with sensors := c.sensors.set s { sw with s := s2 },
             resT := c.resT ++ s2.cbs.map (fun cb => Res.sense s cb t (outVals sw.attrs q v)) }
  else { c with sensors := c.sensors.set s { sw with s := sw.s.countPart.1 } }

/-- processor `x` finishes part `p` at time `t`. -/
def TK.prod (c : TK) (x : Nat) (t : Int) (p : Nat) (q v : Int) : TK :=
  let c1 := (c.finS x).foldl (fun c s => c.outSense s t q v) c
  { c1 with recsT := c1.recsT ++ [Rec.produced x t p q v] }

inductive CStep : TK → TK → Prop
  | reg (c : TK) (s obj : Nat) (ovr : Option Nat) : CStep c (c.reg s obj ovr)
  | unreg (c : TK) (s obj : Nat) : CStep c (c.unreg s obj)
  | addCb (c : TK) (s cb : Nat) : CStep c (c.addCb s cb)
  | prod (c : TK) (x : Nat) (t : Int) (p : Nat) (q v : Int) (hx : x < c.dk.length) :
      CStep c (c.prod x t p q v)

inductive CRun : TK → TK → Prop
  | refl (c : TK) : CRun c c
  | tail {a b c : TK} : CRun a b → CStep b c → CRun a c

theorem CRun.single {a b : TK} (h : CStep a b) : CRun a b := .tail (.refl a) h

theorem CRun.trans {a b c : TK} (h1 : CRun a b) (h2 : CRun b c) : CRun a c := by
  induction h2 with
  | refl => exact h1
  | tail _ hs ih => exact .tail ih hs

theorem CRun.of_eq {a b : TK} (h : b = a) : CRun a b := h ▸ CRun.refl a

/-- An invariant of the abstract steps holds along runs. -/
theorem CRun.preserve {P : TK → Prop} (hP : ∀ {a b}, CStep a b → P a → P b) {a b : TK}
    (h : CRun a b) (ha : P a) : P b := by
  induction h with
  | refl => exact ha
  | tail _ hs ih => exact hP hs ih

/-! ### what no abstract step changes -/

/-- The static part of a sensor. -/
def sensStat (sw : SensorW) :
    Int × List Nat × Nat × List Nat × Bool × SensorKind × Int × Option Nat × Nat :=
  (sw.aid, sw.vars, sw.proc, sw.attrs, sw.registered, sw.s.kind, sw.s.interval, sw.s.cap, sw.s.nprobes)

def schedStat (sw : SchedW) : Int × List (Int × Int) × Bool × Nat × Option Int :=
  (sw.aid, sw.s.tt, sw.s.cyc, sw.s.idx, sw.s.state)

/-- The static part of a key. -/
def cstat (c : TK) :=
  (c.scheds.map schedStat, c.sensors.map sensStat, c.dk, c.scripts)

theorem countPart_stat (s : Sensor) :
    s.countPart.1.kind = s.kind ∧ s.countPart.1.interval = s.interval ∧ s.countPart.1.cap = s.cap ∧
    s.countPart.1.nprobes = s.nprobes ∧ s.countPart.1.cbs = s.cbs ∧ s.countPart.1.data = s.data ∧
    s.countPart.1.time = s.time ∧ s.countPart.1.last = s.last := by
  unfold Sensor.countPart
  dsimp only
  split <;> exact ⟨rfl, rfl, rfl, rfl, rfl, rfl, rfl, rfl⟩

theorem outSense_cstat (c : TK) (s : Nat) (t q v : Int) : cstat (c.outSense s t q v) = cstat c := by
  unfold TK.outSense
  dsimp only
  have h := countPart_stat (c.sensors.getD s default).s
  split
  · simp only [cstat]
    congr 2
    refine (map_set_of_eq sensStat _ _ _ default ?_)
    simp only [sensStat, Sensor.collect, h.1, h.2.1, h.2.2.1, h.2.2.2.1]
  · simp only [cstat]
    congr 2
    refine (map_set_of_eq sensStat _ _ _ default ?_)
    simp only [sensStat, h.1, h.2.1, h.2.2.1, h.2.2.2.1]

theorem foldl_outSense_cstat (l : List Nat) (c : TK) (t q v : Int) :
    cstat (l.foldl (fun c s => c.outSense s t q v) c) = cstat c :=
  foldl_preserve cstat _ l c (fun c s => outSense_cstat c s t q v)

theorem CStep.cstat {a b : TK} (h : CStep a b) : cstat b = cstat a := by
  cases h with
  | reg s obj ovr =>
    simp only [C18W.cstat, TK.reg]
    congr 1
    refine (map_set_of_eq schedStat _ _ _ default ?_)
    simp only [schedStat, Sched.register]
    split <;> rfl
  | unreg s obj =>
    simp only [C18W.cstat, TK.unreg]
    congr 1
    refine (map_set_of_eq schedStat _ _ _ default ?_)
    simp only [schedStat, Sched.unregister]
    split <;> rfl
  | addCb s cb =>
    simp only [C18W.cstat, TK.addCb]
    congr 2
    exact (map_set_of_eq sensStat _ _ _ default rfl)
  | prod x t p q v hx =>
    have := foldl_outSense_cstat (a.finS x) a t q v
    simp only [C18W.cstat, TK.prod] at this ⊢
    exact this

theorem CRun.cstat {a b : TK} (h : CRun a b) : cstat b = cstat a := by
  induction h with
  | refl => rfl
  | tail _ hs ih => rw [hs.cstat, ih]

theorem ta_of_cstat {a b : TK} (h : cstat b = cstat a) : b.ta = a.ta := by
  have h1 : b.scheds.map schedStat = a.scheds.map schedStat := congrArg (·.1) h
  have h2 : b.sensors.map sensStat = a.sensors.map sensStat := congrArg (·.2.1) h
  have e1 : ∀ l : List SchedW, l.map (·.aid) = (l.map schedStat).map (·.1) := by
    intro l; simp [schedStat]
  have e2 : ∀ l : List SensorW, l.map (·.aid) = (l.map sensStat).map (·.1) := by
    intro l; simp [sensStat]
  unfold TK.ta
  rw [e1, e1, e2, e2, h1, h2]

theorem dk_of_cstat {a b : TK} (h : cstat b = cstat a) : b.dk = a.dk := congrArg (·.2.2.1) h
theorem scripts_of_cstat {a b : TK} (h : cstat b = cstat a) : b.scripts = a.scripts :=
  congrArg (·.2.2.2) h

/-! ### harmless environment operations -/

/-- Operations on the event queue that do not concern the events of schedulers and sensors. -/
def HOp (ta : List Int) : EnvOp → Prop
  | .sched _ _ act _ _ => trackedNat act = false
  | .pause a => a ∉ ta
  | .unpause a => a ∉ ta
  | .cancel a => a ∉ ta
  | .step => False
  | .runBegin _ _ => False

theorem HOp.ne_step {ta : List Int} {op : EnvOp} (h : HOp ta op) : op ≠ .step := by
  intro e; subst e; exact h

def ERef (ta : List Int) (s s' : Env) : Prop :=
  ∃ ops : List EnvOp, (∀ op ∈ ops, HOp ta op) ∧ s' = (s.applyAll Arith.exact ops).1

theorem ERef.refl (ta : List Int) (s : Env) : ERef ta s s := ⟨[], by simp, rfl⟩

theorem ERef.trans {ta : List Int} {a b c : Env} (h1 : ERef ta a b) (h2 : ERef ta b c) :
    ERef ta a c := by
  obtain ⟨l1, g1, rfl⟩ := h1
  obtain ⟨l2, g2, rfl⟩ := h2
  refine ⟨l1 ++ l2, ?_, (C01W.applyAll_append_fst _ _ _ _).symm⟩
  intro op hop
  rcases List.mem_append.1 hop with h | h
  · exact g1 op h
  · exact g2 op h

theorem ERef.one {ta : List Int} (s : Env) {op : EnvOp} (h : HOp ta op) :
    ERef ta s (s.apply Arith.exact op).1 := ⟨[op], by simpa using h, rfl⟩

theorem ERef.of_eq {ta : List Int} {s s' : Env} (h : s' = s) : ERef ta s s' := h ▸ ERef.refl ta s

theorem ERef.now {ta : List Int} {s s' : Env} (h : ERef ta s s') : s'.now = s.now := by
  obtain ⟨l, hl, rfl⟩ := h
  induction l generalizing s with
  | nil => rfl
  | cons op l ih =>
    rw [C01W.applyAll_cons_fst, ih (fun o ho => hl o (List.mem_cons_of_mem _ ho)),
      C01.now_apply_ne_step _ _ _ (hl op List.mem_cons_self).ne_step]

theorem ERef.inv {ta : List Int} {s s' : Env} (h : ERef ta s s') (hi : C01.Inv s) : C01.Inv s' := by
  obtain ⟨l, _, rfl⟩ := h
  exact C01.inv_applyAll _ _ hi

/-- Every tracked event carries the asset id of a scheduler or sensor. -/
def QI (ta : List Int) (s : Env) : Prop :=
  ∀ e ∈ s.events ++ s.paused, tracked e = true → e.asset ∈ ta

theorem filter_filter_not_of {l : List Event} {a : Int} {ta : List Int} (ha : a ∉ ta)
    (h : ∀ e ∈ l, tracked e = true → e.asset ∈ ta) :
    (l.filter (fun e => !(e.asset == a))).filter tracked = l.filter tracked ∧
    (l.filter (fun e => e.asset == a)).filter tracked = [] := by
  induction l with
  | nil => exact ⟨rfl, rfl⟩
  | cons e l ih =>
    have ih' := ih (fun e' he' => h e' (List.mem_cons_of_mem _ he'))
    by_cases ht : tracked e = true
    · have hne : (e.asset == a) = false := by
        have := h e List.mem_cons_self ht
        simp only [beq_eq_false_iff_ne, ne_eq]
        intro he; rw [he] at this; exact ha this
      simp only [List.filter_cons, hne, Bool.not_false, if_true, Bool.false_eq_true, if_false, ht]
      exact ⟨by rw [ih'.1], ih'.2⟩
    · by_cases hea : (e.asset == a) = true
      · simp only [List.filter_cons, hea, Bool.not_true, Bool.false_eq_true, if_false, if_true, ht]
        exact ih'
      · simp only [List.filter_cons, hea, Bool.not_false, if_true, Bool.false_eq_true, if_false, ht]
        exact ih'

theorem tracked_cancelIf (a : Int) (e : Event) : tracked (e.cancelIf a) = tracked e := by
  unfold Event.cancelIf tracked; split <;> rfl

theorem filter_map_cancelIf {l : List Event} {a : Int} {ta : List Int} (ha : a ∉ ta)
    (h : ∀ e ∈ l, tracked e = true → e.asset ∈ ta) :
    (l.map (Event.cancelIf a)).filter tracked = l.filter tracked := by
  induction l with
  | nil => rfl
  | cons e l ih =>
    have ih' := ih (fun e' he' => h e' (List.mem_cons_of_mem _ he'))
    simp only [List.map_cons, List.filter_cons, tracked_cancelIf]
    by_cases ht : tracked e = true
    · have hne : (e.asset == a) = false := by
        have := h e List.mem_cons_self ht
        simp only [beq_eq_false_iff_ne, ne_eq]
        intro he; rw [he] at this; exact ha this
      have : e.cancelIf a = e := by simp [Event.cancelIf, hne]
      simp only [ht, if_true, this, ih']
    · simp only [ht, Bool.false_eq_true, if_false, ih']

theorem mem_of_filter_eq {l l' : List Event} (h : l'.filter tracked = l.filter tracked) {e : Event}
    (he : e ∈ l') (ht : tracked e = true) : e ∈ l := by
  have : e ∈ l'.filter tracked := List.mem_filter.mpr ⟨he, ht⟩
  rw [h] at this
  exact (List.mem_filter.mp this).1

/-- A harmless operation keeps the tracked events exactly as they are. -/
theorem hop_apply {ta : List Int} {op : EnvOp} (h : HOp ta op) (s : Env) (hq : QI ta s) :
    ((s.apply Arith.exact op).1.events.filter tracked = s.events.filter tracked ∧
     (s.apply Arith.exact op).1.paused.filter tracked = s.paused.filter tracked) := by
  have hqe : ∀ e ∈ s.events, tracked e = true → e.asset ∈ ta :=
    fun e he => hq e (List.mem_append.mpr (Or.inl he))
  have hqp : ∀ e ∈ s.paused, tracked e = true → e.asset ∈ ta :=
    fun e he => hq e (List.mem_append.mpr (Or.inr he))
  cases op with
  | step => exact False.elim h
  | runBegin d w => exact False.elim h
  | sched t a act p w =>
    simp only [Env.apply]
    cases hs : s.schedule t a act p w with
    | none => exact ⟨rfl, rfl⟩
    | some s' =>
      obtain ⟨_, rfl⟩ := Env.schedule_some.mp hs
      exact ⟨C06W.filter_insort_neg _ _ _ h, rfl⟩
  | pause a =>
    have ha : a ∉ ta := h
    have := filter_filter_not_of ha hqe
    simp only [Env.apply, Env.pause]
    refine ⟨this.1, ?_⟩
    rw [List.filter_append]
    have h2 : ((s.events.filter (fun e => e.asset == a)).map
        (fun e => { e with pausedAt := some s.now })).filter tracked = [] := by
      apply filter_eq_nil_of_forall
      intro e he
      obtain ⟨e0, he0, rfl⟩ := List.mem_map.mp he
      have hm := List.mem_filter.mp he0
      cases ht : tracked e0 with
      | false => exact ht
      | true =>
        have := hqe e0 hm.1 ht
        have hea : e0.asset = a := by simpa using hm.2
        rw [hea] at this
        exact absurd this ha
    rw [h2, List.append_nil]
  | unpause a =>
    have ha : a ∉ ta := h
    have := filter_filter_not_of ha hqp
    simp only [Env.apply, Env.unpause]
    refine ⟨?_, this.1⟩
    rw [foldl_insort_map, C06W.filter_insortAll_neg]
    intro e he
    obtain ⟨e0, he0, rfl⟩ := List.mem_map.mp he
    have hm := List.mem_filter.mp he0
    cases ht : tracked e0 with
    | false => exact ht
    | true =>
      have := hqp e0 hm.1 ht
      have hea : e0.asset = a := by simpa using hm.2
      rw [hea] at this
      exact absurd this ha
  | cancel a =>
    have ha : a ∉ ta := h
    simp only [Env.apply, Env.cancel]
    exact ⟨filter_map_cancelIf ha hqe, filter_map_cancelIf ha hqp⟩

theorem qi_of_filters {ta : List Int} {s s' : Env} (hq : QI ta s)
    (he : s'.events.filter tracked = s.events.filter tracked)
    (hp : s'.paused.filter tracked = s.paused.filter tracked) : QI ta s' := by
  intro e hm ht
  rcases List.mem_append.mp hm with hm | hm
  · exact hq e (List.mem_append.mpr (Or.inl (mem_of_filter_eq he hm ht))) ht
  · exact hq e (List.mem_append.mpr (Or.inr (mem_of_filter_eq hp hm ht))) ht

/-- Harmless operations keep the tracked events exactly as they are. -/
theorem ERef.filters {ta : List Int} {s s' : Env} (h : ERef ta s s') (hq : QI ta s) :
    s'.events.filter tracked = s.events.filter tracked ∧
    s'.paused.filter tracked = s.paused.filter tracked ∧ QI ta s' := by
  obtain ⟨l, hl, rfl⟩ := h
  induction l generalizing s with
  | nil => exact ⟨rfl, rfl, hq⟩
  | cons op l ih =>
    rw [C01W.applyAll_cons_fst]
    have h1 := hop_apply (hl op List.mem_cons_self) s hq
    have hq1 := qi_of_filters hq h1.1 h1.2
    have h2 := ih hq1 (fun o ho => hl o (List.mem_cons_of_mem _ ho))
    exact ⟨h2.1.trans h1.1, h2.2.1.trans h1.2, h2.2.2⟩

/-! ### the static conditions and the frame relation -/

/-- A scripted operation of the static class: it does not pause / resume / cancel the asset id
of a scheduler or sensor, and it creates no asset. -/
def opOK (ta : List Int) : Op → Bool
  | .pause a => !ta.contains a
  | .unpause a => !ta.contains a
  | .cancel a => !ta.contains a
  | .create _ => false
  | _ => true

/-- The static conditions on a key: asset ids of schedulers and sensors differ from 0 (the id an
operation on a non-existent device would use) and from every device id; the scripts are in the
static class. -/
structure StatC (c : TK) : Prop where
  aids : ∀ a ∈ c.ta, a ≠ 0 ∧ ∀ k ∈ c.dk, k.1 ≠ a
  scr : ∀ l ∈ c.scripts, ∀ op ∈ l, opOK c.ta op = true

theorem StatC.of_cstat {a b : TK} (h : cstat b = cstat a) (hs : StatC a) : StatC b := by
  refine ⟨?_, ?_⟩
  · rw [ta_of_cstat h, dk_of_cstat h]; exact hs.aids
  · rw [ta_of_cstat h, scripts_of_cstat h]; exact hs.scr

structure Stat (w : World) : Prop where
  c : StatC (tk w)
  qi : QI (tk w).ta w.env

/-- The asset id of device `x` (0 if there is no such device) is not the id of a scheduler or
sensor. -/
theorem Stat.dev_aid {w : World} (h : Stat w) (x : Nat) : (w.dev x).aid ∉ (tk w).ta := by
  intro hm
  have := h.c.aids _ hm
  unfold World.dev at hm this
  rw [List.getD_eq_getElem?_getD] at hm this
  cases hx : w.devs[x]? with
  | none =>
    rw [hx] at this
    exact this.1 rfl
  | some d =>
    rw [hx] at this
    simp only [Option.getD_some] at this
    exact this.2 (dkey d) (List.mem_map.mpr ⟨d, List.mem_of_getElem? hx, rfl⟩) rfl

/-- **The frame relation.**  Under the static conditions, the event queue of `w'` is that of `w`
after harmless operations and the tracked key moved by abstract steps. -/
def Fr (w w' : World) : Prop :=
  Stat w → ERef (tk w).ta w.env w'.env ∧ CRun (tk w) (tk w')

theorem Stat.fr {w w' : World} (h : Stat w) (hf : Fr w w') : Stat w' := by
  obtain ⟨he, hc⟩ := hf h
  have hcs := hc.cstat
  refine ⟨h.c.of_cstat hcs, ?_⟩
  rw [ta_of_cstat hcs]
  exact (he.filters h.qi).2.2

theorem Fr.refl (w : World) : Fr w w := fun _ => ⟨ERef.refl _ _, CRun.refl _⟩

theorem Fr.trans {a b c : World} (h1 : Fr a b) (h2 : Fr b c) : Fr a c := fun g => by
  have g1 := h1 g
  have gb := g.fr h1
  have g2 := h2 gb
  rw [ta_of_cstat g1.2.cstat] at g2
  exact ⟨g1.1.trans g2.1, g1.2.trans g2.2⟩

/-- What the frame argument observes of a world. -/
def view (w : World) : Env × TK := (w.env, tk w)

theorem view_env {w w' : World} (h : view w' = view w) : w'.env = w.env := congrArg Prod.fst h
theorem view_tk {w w' : World} (h : view w' = view w) : tk w' = tk w := congrArg Prod.snd h

theorem Fr.of_view {w w' : World} (h : view w' = view w) : Fr w w' := fun _ =>
  ⟨ERef.of_eq (view_env h), CRun.of_eq (view_tk h)⟩

theorem Fr.of_view_trans {a b c : World} (h : view b = view a) (h2 : Fr b c) : Fr a c :=
  (Fr.of_view h).trans h2

theorem Fr.trans_view {a b c : World} (h1 : Fr a b) (h : view c = view b) : Fr a c :=
  h1.trans (Fr.of_view h)

theorem Fr.with_stat {w w' : World} (h : Stat w → Fr w w') : Fr w w' := fun g => h g g

theorem Fr.foldl {α} (g : World → α → World) (l : List α) (w : World)
    (h : ∀ w a, Fr w (g w a)) : Fr w (l.foldl g w) := by
  induction l generalizing w with
  | nil => exact Fr.refl w
  | cons a l ih => exact (h w a).trans (ih _)

theorem view_foldl {α} (g : World → α → World) (l : List α) (w : World)
    (h : ∀ w a, view (g w a) = view w) : view (l.foldl g w) = view w :=
  foldl_preserve view g l w h

theorem Fr.of_fst_eq {α} {w w' : World} {e : World × α} {b : α} (he : Fr w e.1)
    (h : e = (w', b)) : Fr w w' := by
  subst h; exact he

/-- One abstract step with the event queue untouched. -/
theorem Fr.of_cstep {w w' : World} (he : w'.env = w.env) (hc : CStep (tk w) (tk w')) : Fr w w' :=
  fun _ => ⟨ERef.of_eq he, CRun.single hc⟩

/-! ### primitives of `WorldDef` -/

@[simp] theorem view_setErr (w : World) (m : String) : view (w.setErr m) = view w := by
  unfold setErr; split <;> rfl

theorem view_addRes (w : World) (r : Res) (h : trackedRes r = false) :
    view (w.addRes r) = view w := by
  unfold view tk World.addRes
  simp [List.filter_append, h]

theorem view_addRec (w : World) (r : Rec) (h : trackedRec r = false) :
    view (w.addRec r) = view w := by
  unfold view tk World.addRec
  simp [List.filter_append, h]

@[simp] theorem view_modPart (w : World) (p : Nat) (f : PartRec → PartRec) :
    view (w.modPart p f) = view w := rfl
@[simp] theorem view_newPart (w : World) (r : PartRec) : view (w.newPart r).1 = view w := rfl

theorem view_setDev (w : World) (x : Nat) (d : Dev) (h : dkey d = dkey (w.dev x)) :
    view (w.setDev x d) = view w := by
  unfold view tk World.setDev
  simp only
  rw [map_set_of_eq dkey w.devs x d default h]

theorem view_modDev (w : World) (x : Nat) (f : Dev → Dev) (h : dkey (f (w.dev x)) = dkey (w.dev x)) :
    view (w.modDev x f) = view w := view_setDev w x _ h

theorem Fr_setDev (w : World) (x : Nat) (d : Dev) (h : dkey d = dkey (w.dev x)) :
    Fr w (w.setDev x d) := Fr.of_view (view_setDev w x d h)

theorem Fr_modDev (w : World) (x : Nat) (f : Dev → Dev)
    (h : dkey (f (w.dev x)) = dkey (w.dev x)) : Fr w (w.modDev x f) :=
  Fr.of_view (view_modDev w x f h)

theorem tk_sched (w : World) (t a : Int) (act : Action) (p : Int) :
    tk (w.sched t a act p).1 = tk w := by
  unfold World.sched
  simp only [Env.apply]
  cases w.env.schedule t a act.toNat p (weightOf w.seed w.wmod t a act.toNat p) <;> rfl

theorem Fr_sched (w : World) (t a : Int) (act : Action) (p : Int)
    (ha : isTrackedAct act = false) : Fr w (w.sched t a act p).1 := by
  intro _
  refine ⟨?_, CRun.of_eq (tk_sched w t a act p)⟩
  rw [C01W.sched_env]
  exact ERef.one _ (untracked_toNat ha)

theorem schedLib_view (w : World) (t a : Int) (act : Action) (p : Int) :
    view (w.schedLib t a act p) = view (w.sched t a act p).1 := by
  unfold schedLib
  generalize w.sched t a act p = s
  obtain ⟨w', r⟩ := s
  cases r <;> simp

theorem Fr_schedLib (w : World) (t a : Int) (act : Action) (p : Int)
    (ha : isTrackedAct act = false) : Fr w (w.schedLib t a act p) :=
  (Fr_sched w t a act p ha).trans_view (schedLib_view w t a act p)

theorem Fr_envOp (w : World) (op : EnvOp) (h : HOp (tk w).ta op) : Fr w (w.envOp op) :=
  fun _ => ⟨ERef.one _ h, CRun.refl _⟩

theorem Fr_rmEffects (w : World) (recs : List ResRec) (chk : Bool) :
    Fr w (w.rmEffects recs chk) := by
  unfold rmEffects
  dsimp only
  have h : view (recs.foldl (fun w r => w.addRec (.resUpdate r.res w.now r.inUse r.cap)) w) = view w :=
    view_foldl _ _ _ (fun _ _ => view_addRec _ _ rfl)
  split
  · exact Fr.of_view_trans h (Fr_schedLib _ _ _ _ _ rfl)
  · exact Fr.of_view h

/-! ### the peeling tactic -/

/-- Peel a structure update `{ w with f := v, … }` that leaves the view alone. -/
elab "fr_struct" : tactic => do
  let g ← getMainGoal
  g.withContext do
    let t ← instantiateMVars (← g.getType)
    let_expr Fr a b := t.consumeMData | throwError "fr_struct: not a Fr goal"
    let b := b.consumeMData
    unless b.isAppOfArity ``World.mk 23 do throwError "fr_struct: not a structure instance"
    let r := b.getArg! 0
    let w0 ← match r with
      | .proj _ _ w0 => pure w0
      | _ =>
        if r.isAppOfArity ``World.env 1 then pure (r.getArg! 0)
        else throwError "fr_struct: the environment is changed"
    let newGoal ← mkFreshExprSyntheticOpaqueMVar (← mkAppM ``Fr #[a, w0])
    let eq ← mkEq (← mkAppM ``view #[b]) (← mkAppM ``view #[w0])
    let pf ← mkFreshExprMVar eq
    pf.mvarId!.refl
    g.assign (mkApp5 (mkConst ``Fr.trans_view) a w0 b newGoal pf)
    replaceMainGoal [newGoal.mvarId!]

/-- One step: close the goal, or peel the outermost function application. -/
syntax "fr_step" : tactic

/-- Peel / split until nothing is left. -/
macro "fr_auto" : tactic => `(tactic| repeat' first | fr_step | split)

/-- Side goals of the peeling steps. -/
macro "fr_side" : tactic =>
  `(tactic| first
    | exact rfl
    | assumption
    | decide
    | (intro h; cases h))

macro_rules | `(tactic| fr_step) => `(tactic| fr_struct)
macro_rules | `(tactic| fr_step) => `(tactic|
  ((with_reducible apply Fr.trans (h2 := Fr.foldl _ _ _ ?hs)); case hs => (intro _ _; fr_auto; done)))
macro_rules | `(tactic| fr_step) => `(tactic| with_reducible apply Fr.trans (h2 := Fr_rmEffects _ _ _))
macro_rules | `(tactic| fr_step) => `(tactic|
  ((with_reducible apply Fr.trans (h2 := Fr_envOp _ _ ?hop)); case hop => fr_side))
macro_rules | `(tactic| fr_step) => `(tactic|
  ((with_reducible apply Fr.trans (h2 := Fr_schedLib _ _ _ _ _ ?ha));
   case ha => exact rfl))
macro_rules | `(tactic| fr_step) => `(tactic| with_reducible apply Fr.trans_view (h := view_setErr _ _))
macro_rules | `(tactic| fr_step) => `(tactic|
  ((with_reducible apply Fr.trans_view (h := view_addRes _ _ ?hr)); case hr => exact rfl))
macro_rules | `(tactic| fr_step) => `(tactic|
  ((with_reducible apply Fr.trans_view (h := view_addRec _ _ ?hr)); case hr => exact rfl))
macro_rules | `(tactic| fr_step) => `(tactic| with_reducible apply Fr.trans_view (h := view_modPart _ _ _))
macro_rules | `(tactic| fr_step) => `(tactic| with_reducible apply Fr.trans_view (h := view_newPart _ _))
macro_rules | `(tactic| fr_step) => `(tactic|
  ((with_reducible apply Fr.trans (h2 := Fr_modDev _ _ _ ?hp)); case hp => exact rfl))
macro_rules | `(tactic| fr_step) => `(tactic|
  ((with_reducible apply Fr.trans (h2 := Fr_setDev _ _ _ ?hp)); case hp => exact rfl))
macro_rules | `(tactic| fr_step) => `(tactic| with_reducible exact Fr.refl _)

/-- After a `split` on a pair-valued call: use the fact `t` about the call. -/
macro "fr_heq " t:term : tactic =>
  `(tactic| (rename_i heq; with_reducible apply Fr.trans (h2 := Fr.of_fst_eq $t heq)))

end C18W
end SimProc
