/-
C14W, pass 2 — every relation between event queues that is preserved by the library operations is
preserved by every world function (relational parametricity in the queue).

`Cong Q s1 m1 s2 m2`: `Q` is closed under `.sched` (with the weights of key `(s1, m1)` on the left
and of key `(s2, m2)` on the right), `.pause`, `.unpause`, `.cancel` — library operations only
(`LibOp`).  `PP w t`: the world `w` and its twin `sw w t` have related queues (and `w` satisfies the
closed-world invariant `C01W.Good`).  For every function `f` of the model:
`PP w t → PP (f w) (NX f w t)`.
-/
import SimProc.Proofs.C14WBlindW
import SimProc.Proofs.C01WRun

namespace SimProc
namespace C14W
open World C01W
open Lean Elab Tactic Meta

/-- A relation between event queues that the library operations preserve. -/
structure Cong (Q : Env → Env → Prop) (s1 m1 s2 m2 : Nat) : Prop where
  sched : ∀ {x y : Env} (τ a : Int) (act : Nat) (p : Int), Q x y → act ≠ terminateAct →
    prioTerminate < p →
    Q (x.apply Arith.exact (.sched τ a act p (weightOf s1 m1 τ a act p))).1
      (y.apply Arith.exact (.sched τ a act p (weightOf s2 m2 τ a act p))).1
  pause : ∀ {x y : Env} (a : Int), Q x y → a ≠ -1 → Q (x.pause a) (y.pause a)
  unpause : ∀ {x y : Env} (a : Int), Q x y → a ≠ -1 →
    Q (x.unpause Arith.exact a) (y.unpause Arith.exact a)
  cancel : ∀ {x y : Env} (a : Int), Q x y → a ≠ -1 → Q (x.cancel a) (y.cancel a)

/-- The world `w` (with weight key `(s1, m1)`, satisfying the closed-world invariant) and its twin
`sw w t` (weight key `(s2, m2)`) have `Q`-related queues. -/
structure PP (Q : Env → Env → Prop) (s1 m1 s2 m2 : Nat) (w : World) (t : Twin) : Prop where
  good : Good w
  seed : w.seed = s1
  wmod : w.wmod = m1
  tseed : t.seed = s2
  twmod : t.wmod = m2
  q : Q w.env (se w t.env)

/-- `W'` is a twin of `X` with related queues. -/
def PPn (Q : Env → Env → Prop) (s1 m1 s2 m2 : Nat) (X W' : World) : Prop :=
  ∃ T, W' = sw X T ∧ PP Q s1 m1 s2 m2 X T

section
variable {Q : Env → Env → Prop} {s1 m1 s2 m2 : Nat}

local notation "PP'" => PP Q s1 m1 s2 m2
local notation "PPn'" => PPn Q s1 m1 s2 m2

theorem PPn.mk {X : World} {T : Twin} (h : PP' X T) : PPn' X (sw X T) := ⟨T, rfl, h⟩

theorem se_idem (w : World) (e : Env) : se w (se w e) = se w e := rfl

theorem PP.nx {G : World → World} {w : World} {t : Twin} (h : PP' w t)
    (hn : PPn' (G w) (G (sw w t))) : PP' (G w) (NX G w t) := by
  obtain ⟨T, hT, pp⟩ := hn
  refine ⟨pp.good, pp.seed, pp.wmod, h.tseed, h.twmod, ?_⟩
  show Q (G w).env (se (G w) (G (sw w t)).env)
  rw [hT]
  exact pp.q

/-- The same for the first component of a pair-valued function. -/
theorem PP.nx2 {α : Type} {G : World → World × α} {w : World} {t : Twin} (h : PP' w t)
    (hn : PPn' (G w).1 (G (sw w t)).1) : PP' (G w).1 (NX (fun v => (G v).1) w t) :=
  PP.nx (G := fun v => (G v).1) h hn

theorem PP.of_EK {w w' : World} {t : Twin} (h : EK w' = EK w) (hs : w'.seed = w.seed)
    (hm : w'.wmod = w.wmod) (pp : PP' w t) : PP' w' t := by
  refine ⟨pp.good.of_EK h, hs.trans pp.seed, hm.trans pp.wmod, pp.tseed, pp.twmod, ?_⟩
  have he : w'.env = w.env := EK_env h
  have : se w' t.env = se w t.env := by simp only [se, he]
  rw [he, this]
  exact pp.q

theorem PP.of_fst_eq {α : Type} {q : World × α} {w' : World} {b : α} {T : Twin}
    (h : PP' q.1 T) (e : q = (w', b)) : PP' w' T := by
  subst e; exact h

/-- On a goal `PP X (NX G w t)`: reduce to `PPn (G w) (G (sw w t))` (beta-reduced), given
`h : PP w t`. -/
elab "pp_nx " h:term : tactic => do
  let g ← getMainGoal
  g.withContext do
    let t := (← instantiateMVars (← g.getType)).consumeMData
    unless t.isAppOfArity ``PP 7 do throwError "pp_nx: not a `PP` goal{indentExpr t}"
    let nx := t.appArg!.consumeMData
    unless nx.isAppOfArity ``NX 3 do throwError "pp_nx: the twin is not of the form `NX G w t`"
    let G := nx.getArg! 0
    let w := nx.getArg! 1
    let tw := nx.getArg! 2
    let args := t.getAppArgs
    let hE ← Tactic.elabTerm h none
    -- PPn Q s1 m1 s2 m2 (G w) (G (sw w t))
    let newTy := mkAppN (mkConst ``PPn) #[args[0]!, args[1]!, args[2]!, args[3]!, args[4]!,
      (mkApp G w).headBeta, (mkApp G (mkApp2 (mkConst ``sw) w tw)).headBeta]
    let newGoal ← mkFreshExprSyntheticOpaqueMVar newTy
    let pf ← mkAppOptM ``PP.nx #[args[0]!, args[1]!, args[2]!, args[3]!, args[4]!, G, w, tw, hE, newGoal]
    g.assign pf
    replaceMainGoal [newGoal.mvarId!]

/-! ### primitives -/

theorem sched_seed (w : World) (τ a : Int) (act : Action) (p : Int) :
    (w.sched τ a act p).1.seed = w.seed ∧ (w.sched τ a act p).1.wmod = w.wmod := by
  unfold World.sched
  simp only [Env.apply]
  cases w.env.schedule τ a act.toNat p (weightOf w.seed w.wmod τ a act.toNat p) <;> exact ⟨rfl, rfl⟩

theorem pp_sched (hQ : Cong Q s1 m1 s2 m2) {w : World} {t : Twin} (h : PP' w t) (τ a : Int)
    (act : Action) (p : Int) (ha : act ≠ .terminate) (hp : prioTerminate < p) :
    PP' (w.sched τ a act p).1 (NX (fun v => (v.sched τ a act p).1) w t) := by
  refine ⟨(Via_sched w τ a act p ha hp h.good).1, (sched_seed w τ a act p).1.trans h.seed,
    (sched_seed w τ a act p).2.trans h.wmod, h.tseed, h.twmod, ?_⟩
  show Q (w.sched τ a act p).1.env (se (w.sched τ a act p).1 ((sw w t).sched τ a act p).1.env)
  have hnow : (w.sched τ a act p).1.env.now = w.env.now := by
    rw [sched_env]
    exact C01.now_apply_ne_step _ _ _ (by intro h; cases h)
  have hse : se (w.sched τ a act p).1 ((sw w t).sched τ a act p).1.env =
      ((sw w t).sched τ a act p).1.env := by
    have : ((sw w t).sched τ a act p).1.env.now = w.env.now := by
      rw [sched_env]
      exact C01.now_apply_ne_step _ _ _ (by intro h; cases h)
    simp only [se, hnow, ← this]
  rw [hse, sched_env, sched_env, h.seed, h.wmod]
  show Q _ (((se w t.env).apply Arith.exact
    (.sched τ a act.toNat p (weightOf t.seed t.wmod τ a act.toNat p))).1)
  rw [h.tseed, h.twmod]
  exact hQ.sched τ a act.toNat p h.q (toNat_ne_terminate ha) hp

theorem pp_schedLib (hQ : Cong Q s1 m1 s2 m2) {w : World} {t : Twin} (h : PP' w t) (τ a : Int)
    (act : Action) (p : Int) (ha : act ≠ .terminate) (hp : prioTerminate < p) :
    PP' (w.schedLib τ a act p) (NX (fun v => v.schedLib τ a act p) w t) := by
  have h1 := pp_sched hQ h τ a act p ha hp
  pp_nx h
  simp only [schedLib, sw_sched]
  generalize hq : w.sched τ a act p = q at h1
  obtain ⟨w1, r⟩ := q
  cases r <;> first
    | exact PPn.mk h1
    | (simp only [sw_setErr]; exact PPn.mk (PP.of_EK (EK_setErr _ _) (by unfold setErr; split <;> rfl)
        (by unfold setErr; split <;> rfl) h1))

theorem pp_envOp_pause (hQ : Cong Q s1 m1 s2 m2) {w : World} {t : Twin} (h : PP' w t) (a : Int)
    (ha : a ≠ -1) : PP' (w.envOp (.pause a)) (NX (fun v => v.envOp (.pause a)) w t) :=
  ⟨⟨h.good.aid, h.good.scr⟩, h.seed, h.wmod, h.tseed, h.twmod, hQ.pause a h.q ha⟩

theorem pp_envOp_unpause (hQ : Cong Q s1 m1 s2 m2) {w : World} {t : Twin} (h : PP' w t) (a : Int)
    (ha : a ≠ -1) : PP' (w.envOp (.unpause a)) (NX (fun v => v.envOp (.unpause a)) w t) :=
  ⟨⟨h.good.aid, h.good.scr⟩, h.seed, h.wmod, h.tseed, h.twmod, hQ.unpause a h.q ha⟩

theorem pp_envOp_cancel (hQ : Cong Q s1 m1 s2 m2) {w : World} {t : Twin} (h : PP' w t) (a : Int)
    (ha : a ≠ -1) : PP' (w.envOp (.cancel a)) (NX (fun v => v.envOp (.cancel a)) w t) :=
  ⟨⟨h.good.aid, h.good.scr⟩, h.seed, h.wmod, h.tseed, h.twmod, hQ.cancel a h.q ha⟩

/-- Folds. -/
theorem pp_foldl {α : Type} (g : World → α → World)
    (hb : ∀ w t a, key (g (sw w t) a) = (unq (g w a), t.seed, t.wmod))
    (hp : ∀ w t a, PP' w t → PP' (g w a) (NX (fun v => g v a) w t)) (l : List α) {w : World}
    {t : Twin} (h : PP' w t) : PP' (l.foldl g w) (NX (fun v => l.foldl g v) w t) := by
  induction l generalizing w t with
  | nil => exact PP.nx (G := fun v => v) h (PPn.mk h)
  | cons a l ih =>
    have h1 := ih (hp w t a h)
    refine PP.nx (G := fun v => List.foldl g v (a :: l)) h ?_
    simp only [List.foldl_cons]
    rw [Blind.eq (G := fun v => g v a) (fun w t => hb w t a), sw_foldl g hb]
    exact PPn.mk h1

theorem pp_foldl_same {α : Type} (g : World → α → World)
    (hp : ∀ w t a, PP' w t → PP' (g w a) t) (l : List α) {w : World}
    {t : Twin} (h : PP' w t) : PP' (l.foldl g w) t := by
  induction l generalizing w with
  | nil => exact h
  | cons a l ih => exact ih (hp w t a h)

/-- Structure updates `{ w with f := v, … }` that leave `env`, `seed`, `wmod`, `devs` and `scripts`
alone. -/
elab "pp_struct" : tactic => do
  let g ← getMainGoal
  g.withContext do
    let t := (← instantiateMVars (← g.getType)).consumeMData
    unless t.isAppOfArity ``PP 7 do throwError "pp_struct: not a PP goal"
    let args := t.getAppArgs
    let b := args[5]!.consumeMData
    unless b.isAppOfArity ``World.mk 23 do throwError "pp_struct: not a structure instance"
    let r := b.getArg! 0
    let w0 ← match r with
      | .proj _ _ w0 => pure w0
      | _ =>
        if r.isAppOfArity ``World.env 1 then pure (r.getArg! 0)
        else throwError "pp_struct: the environment is changed"
    let newTy := mkAppN (mkConst ``PP) #[args[0]!, args[1]!, args[2]!, args[3]!, args[4]!, w0, args[6]!]
    let newGoal ← mkFreshExprSyntheticOpaqueMVar newTy
    let eq ← mkEq (← mkAppM ``EK #[b]) (← mkAppM ``EK #[w0])
    let pf ← mkFreshExprMVar eq
    pf.mvarId!.refl
    let eq2 ← mkEq (← mkAppM ``World.seed #[b]) (← mkAppM ``World.seed #[w0])
    let pf2 ← mkFreshExprMVar eq2
    pf2.mvarId!.refl
    let eq3 ← mkEq (← mkAppM ``World.wmod #[b]) (← mkAppM ``World.wmod #[w0])
    let pf3 ← mkFreshExprMVar eq3
    pf3.mvarId!.refl
    let prf ← mkAppOptM ``PP.of_EK #[args[0]!, args[1]!, args[2]!, args[3]!, args[4]!, w0, b,
      args[6]!, pf, pf2, pf3, newGoal]
    g.assign prf
    replaceMainGoal [newGoal.mvarId!]

theorem setErr_seed (w : World) (m : String) :
    (w.setErr m).seed = w.seed ∧ (w.setErr m).wmod = w.wmod := by
  unfold setErr; split <;> exact ⟨rfl, rfl⟩

theorem pp_setErr {w : World} {t : Twin} (h : PP' w t) (m : String) : PP' (w.setErr m) t :=
  PP.of_EK (EK_setErr _ _) (setErr_seed w m).1 (setErr_seed w m).2 h

theorem pp_setDev {w : World} {t : Twin} (h : PP' w t) (x : Nat) (d : Dev)
    (ha : d.aid = (w.dev x).aid) : PP' (w.setDev x d) t :=
  PP.of_EK (EK_setDev w x d ha) rfl rfl h

theorem pp_modDev {w : World} {t : Twin} (h : PP' w t) (x : Nat) (f : Dev → Dev)
    (ha : (f (w.dev x)).aid = (w.dev x).aid) : PP' (w.modDev x f) t :=
  PP.of_EK (EK_modDev w x f ha) rfl rfl h

end

/-! ### the peeling tactic -/

/-- One step: close the goal, or peel the outermost function application. -/
syntax "pp_step" : tactic

/-- Side goals of the peeling steps. -/
macro "pp_side" : tactic =>
  `(tactic| first
    | exact rfl
    | assumption
    | decide
    | (intro h; cases h))

/-- Apply an induction hypothesis (a universally quantified local hypothesis concluding `PP …`). -/
elab "pp_hyp" : tactic => do
  let g ← getMainGoal
  g.withContext do
    let lctx ← getLCtx
    for d in lctx do
      if d.isImplementationDetail then continue
      let ty ← instantiateMVars d.type
      unless ty.isForall do continue
      let concl := ty.getForallBody.consumeMData
      unless concl.isAppOf ``PP do continue
      let saved ← saveState
      try
        let gs ← withReducible <| g.apply d.toExpr
        replaceMainGoal gs
        return
      catch _ => restoreState saved
    throwError "pp_hyp: no applicable hypothesis"

/-- Peel until nothing is left. -/
macro "pp_peel" : tactic => `(tactic| repeat' (first | assumption | pp_step))

/-- After normalisation and splitting: the leaves. -/
macro "pp_leaf" : tactic => `(tactic| (apply PPn.mk; pp_peel))

/-- The whole proof of `PP w t → PP (f w) (NX f w t)`. -/
syntax "pp_go " ident " [" Lean.Parser.Tactic.simpLemma,* "]" : tactic
macro_rules
  | `(tactic| pp_go $h:ident [$args,*]) =>
    `(tactic| (pp_nx $h:ident; bl_go [$args,*] <;> pp_leaf))

macro_rules | `(tactic| pp_step) => `(tactic| pp_struct)
macro_rules | `(tactic| pp_step) => `(tactic| pp_hyp)
macro_rules | `(tactic| pp_step) => `(tactic| with_reducible apply pp_setErr)
macro_rules | `(tactic| pp_step) => `(tactic| with_reducible apply PP.of_EK (EK_addRes _ _) rfl rfl)
macro_rules | `(tactic| pp_step) => `(tactic| with_reducible apply PP.of_EK (EK_addRec _ _) rfl rfl)
macro_rules | `(tactic| pp_step) => `(tactic| with_reducible apply PP.of_EK (EK_modPart _ _ _) rfl rfl)
macro_rules | `(tactic| pp_step) => `(tactic| with_reducible apply PP.of_EK (EK_newPart _ _) rfl rfl)
macro_rules | `(tactic| pp_step) => `(tactic|
  ((with_reducible apply pp_modDev (ha := ?hp)); case hp => exact rfl))
macro_rules | `(tactic| pp_step) => `(tactic|
  ((with_reducible apply pp_setDev (ha := ?hp)); case hp => exact rfl))
macro_rules | `(tactic| pp_step) => `(tactic|
  ((with_reducible apply pp_schedLib ‹Cong _ _ _ _ _› (ha := ?ha) (hp := ?hp));
   case ha => pp_side
   case hp => pp_side))
macro_rules | `(tactic| pp_step) => `(tactic|
  ((with_reducible apply pp_envOp_pause ‹Cong _ _ _ _ _› (ha := ?ha)); case ha => pp_side))
macro_rules | `(tactic| pp_step) => `(tactic|
  ((with_reducible apply pp_envOp_unpause ‹Cong _ _ _ _ _› (ha := ?ha)); case ha => pp_side))
macro_rules | `(tactic| pp_step) => `(tactic|
  ((with_reducible apply pp_envOp_cancel ‹Cong _ _ _ _ _› (ha := ?ha)); case ha => pp_side))
/-- folds: the step function is blind (`hb`, by normalisation) and preserves the relation (`hp`:
peel, or start over for a step function given by a λ-term). -/
macro_rules | `(tactic| pp_step) => `(tactic|
  ((with_reducible apply pp_foldl_same (hp := ?hp));
   case hp => (intro _ _ _ hfold; (try dsimp only); pp_peel; done)))
macro_rules | `(tactic| pp_step) => `(tactic|
  ((with_reducible apply pp_foldl (hb := ?hb) (hp := ?hp));
   case hb => (intro _ _ _; bl_close [])
   case hp => (intro _ _ _ hfold; (try dsimp only); first | (pp_peel; done) | (pp_go hfold []; done))))

section
variable {Q : Env → Env → Prop} {s1 m1 s2 m2 : Nat}
local notation "PP'" => PP Q s1 m1 s2 m2

theorem pp_rmEffects (hQ : Cong Q s1 m1 s2 m2) {w : World} {t : Twin} (h : PP' w t)
    (recs : List ResRec) (chk : Bool) :
    PP' (w.rmEffects recs chk) (NX (fun v => v.rmEffects recs chk) w t) := by
  pp_go h [rmEffects]

end
end C14W
end SimProc
