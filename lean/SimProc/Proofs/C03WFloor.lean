/-
C03W — the floor functions preserve the generalised invariant `G E N`, part 1: everything up to
`acceptPart`.
-/
import SimProc.Proofs.C03WPrim3
import SimProc.Proofs.FloorSt
import SimProc.Proofs.Topo

namespace SimProc
namespace C03W
open World FloorCoreL C03

theorem G.schedulePassX {E N : List Nat} {w : World} (h : G (x :: E) N w) :
    G E N (w.schedulePass x 0) :=
  h.schedulePass x 0 (Int.le_refl _)
    (fun y hy => (List.mem_cons.mp hy).imp id id)
    (fun p _ => by rw [Int.add_zero]; exact le_dueD _ _)

theorem G.modDev_irrel {E N : List Nat} {w : World} (h : G E N w) (x : Nat) (f : Dev → Dev)
    (hs : stat1 (f (w.dev x)) = stat1 (w.dev x)) (hh : heldL (f (w.dev x)) = heldL (w.dev x))
    (ha : accB (f (w.dev x)) = accB (w.dev x)) (ho : holdsD (f (w.dev x)) = holdsD (w.dev x))
    (hd : ∀ n, dueD n (f (w.dev x)) = dueD n (w.dev x))
    (hf : (f (w.dev x)).waitingDS = (w.dev x).waitingDS) : G E N (w.modDev x f) :=
  h.setDev_irrel x _ hs hh ha ho hd hf

theorem G.setWaiting {E N : List Nat} {w : World} (h : G E N w) (x : Nat) (a b : Bool) :
    G E N (w.setWaiting x a b) := by
  unfold World.setWaiting
  dsimp only
  repeat' split
  all_goals first
    | exact h
    | exact h.setDev_irrel x _ rfl rfl rfl rfl (fun _ => rfl) rfl

theorem G.rmEffects {E N : List Nat} {w : World} (h : G E N w) (recs : List ResRec) (c : Bool) :
    G E N (w.rmEffects recs c) := by
  unfold World.rmEffects
  have h1 : G E N (recs.foldl (fun w r => w.addRec (.resUpdate r.res w.now r.inUse r.cap)) w) :=
    G.foldl _ (fun w r hw => hw.addRec _) recs h
  dsimp only
  split
  · exact h1.schedLib _ _ Action.rmCheck _ (fun d hd => Action.noConfusion hd)
  · exact h1

theorem G.withRm {E N : List Nat} {w : World} (h : G E N w) (rm : RM) : G E N { w with rm := rm } :=
  h.of_eq rfl rfl rfl rfl rfl

theorem G.releaseReserved {E N : List Nat} {w : World} (h : G E N w) (x : Nat) :
    G E N (w.releaseReserved x) := by
  unfold World.releaseReserved
  split
  · exact h
  · next id _ =>
    generalize w.rm.release id none = r
    obtain ⟨rm, res, recs, chk⟩ := r
    dsimp only
    exact ((h.withRm rm).rmEffects recs chk).modDev_irrel x _ rfl rfl rfl rfl (fun _ => rfl) rfl

theorem G.applyPartCb {E N : List Nat} {w : World} (h : G E N w) (x p : Nat) (c : PartCb)
    (hc : cbPure c = true) : G E N (w.applyPartCb x p c) := by
  unfold cbPure at hc
  simp only [Bool.and_eq_true, beq_iff_eq, Option.isNone_iff_eq_none] at hc
  rw [applyPartCb_eq]
  have h1 := h.modDev_irrel x (cbDev c) rfl rfl rfl rfl (fun _ => rfl) rfl
  split
  · exact h1
  · refine h1.modPart p (cbPart c) (fun r => ?_)
    unfold cbPart
    simp [hc.1, hc.2]

theorem G.foldl_applyPartCb {E N : List Nat} (x p : Nat) (cbs : List PartCb)
    (hp : ∀ c ∈ cbs, cbPure c = true) {w : World} (h : G E N w) :
    G E N (cbs.foldl (fun w c => w.applyPartCb x p c) w) := by
  induction cbs generalizing w with
  | nil => exact h
  | cons c cs ih =>
    exact ih (fun c' hc' => hp c' (List.mem_cons_of_mem _ hc'))
      (h.applyPartCb x p c (hp c (List.mem_cons_self ..)))

theorem G.withSensors {E N : List Nat} {w : World} (h : G E N w) (s : List SensorW) :
    G E N { w with sensors := s } :=
  h.of_eq rfl rfl rfl rfl rfl

theorem G.senseOutput {E N : List Nat} {w : World} (h : G E N w) (s p : Nat) :
    G E N (w.senseOutput s p) := by
  unfold World.senseOutput
  dsimp only
  split
  · exact G.foldl _ (fun w c hw => hw.addRes _) _ ((h.withSensors _).withSensors _)
  · exact h.withSensors _

/-! ### accB / holdsD of updated devices -/

theorem accB_false_of_output {d : Dev} {p : Nat} (h : d.output = some p)
    (hk : isHandlerLike d.kind = true) : accB d = false := by
  unfold accB
  cases hkind : d.kind <;> simp_all [isHandlerLike]

theorem accB_false_of_part {d : Dev} {p : Nat} (h : d.part = some p)
    (hk : isHandlerLike d.kind = true) : accB d = false := by
  unfold accB
  cases hkind : d.kind <;> simp_all [isHandlerLike]

theorem accB_false_of_shut {d : Dev} (h : d.shutDown = true) (hk : d.kind = .processor) :
    accB d = false := by
  unfold accB opn
  simp [hk, h]

/-- for kinds that are not handler-like, `accB` only reads `blockInput` -/
theorem accB_nonHL {d : Dev} (hk : isHandlerLike d.kind = false) : accB d = !d.blockInput := by
  unfold accB opn
  cases hkind : d.kind <;> simp_all [isHandlerLike]

theorem holdsD_nonHL {d : Dev} (hk : isHandlerLike d.kind = false) : holdsD d = none := by
  unfold holdsD
  cases hkind : d.kind <;> simp_all [isHandlerLike]

theorem kind_of_st {w w' : World} (h : C02V.st w' = C02V.st w) (x : Nat) :
    (w'.dev x).kind = (w.dev x).kind := by
  rw [← C02V.st_kind, ← C02V.st_kind, h]

theorem down_of_st {w w' : World} (h : C02V.st w' = C02V.st w) (x : Nat) :
    (w'.dev x).down = (w.dev x).down := by
  rw [← C02V.st_down, ← C02V.st_down, h]

theorem heldL_mem (d : Dev) (q : Nat) :
    q ∈ heldL d ↔ d.part = some q ∨ d.output = some q ∨ ∃ t, (t, q) ∈ d.buf := by
  unfold heldL
  simp only [List.mem_append, Option.mem_toList, List.mem_map, Prod.exists, exists_eq_right]
  constructor
  · rintro ((h | h) | h)
    · exact Or.inl h
    · exact Or.inr (Or.inl h)
    · exact Or.inr (Or.inr h)
  · rintro (h | h | h)
    · exact Or.inl (Or.inl h)
    · exact Or.inl (Or.inr h)
    · exact Or.inr h

theorem G.finishCycleHandler {E N : List Nat} {w : World} (h : G E N w) (x : Nat) :
    G E N (w.finishCycleHandler x) := by
  unfold World.finishCycleHandler
  dsimp only
  split
  · exact h.setErr _
  · split
    · exact h.setErr _
    · next p hp =>
      split
      · exact h.setErr _
      · next ho =>
        apply G.schedulePassX
        refine h.setDev x _ rfl ?_ (fun y hy => List.mem_cons_of_mem _ hy) (fun _ h => h) ?_
          (Or.inl (List.mem_cons_self ..))
        · intro q hq
          refine h.valid.dev x q ?_
          rw [heldL_mem] at hq ⊢
          rcases hq with hq | hq | hq
          · cases hq
          · left; rw [hp]; exact hq
          · exact Or.inr (Or.inr hq)
        · right
          intro hacc
          by_cases hhl : isHandlerLike (w.dev x).kind = true
          · rw [accB_false_of_output (d := { w.dev x with output := some p, part := none })
              (p := p) rfl hhl] at hacc
            cases hacc
          · have hhl' : isHandlerLike (w.dev x).kind = false := by simpa using hhl
            rw [accB_nonHL (d := { w.dev x with output := some p, part := none }) hhl'] at hacc
            rw [accB_nonHL hhl']
            exact hacc

theorem G.withGenerated {E N : List Nat} {w : World} (h : G E N w) (l : List Nat) :
    G E N { w with generated := l } :=
  h.of_eq rfl rfl rfl rfl rfl

theorem G.genPart {E N : List Nat} {w : World} (h : G E N w) (x : Nat) :
    G E N (w.genPart x).1 ∧ (w.genPart x).2 < (w.genPart x).1.parts.length ∧
      (w.genPart x).1.devs = w.devs := by
  have hb : ((w.dev x).genBatch == 0) = true := by rw [h.s1.genBatch x]; rfl
  rw [C02V.genPart_leaf w x hb]
  refine ⟨?_, by simp, rfl⟩
  exact (h.newPart { quality := (w.dev x).genQuality, value := (w.dev x).genValue } rfl).withGenerated _

theorem G.finishCycle {E N : List Nat} {w : World} (h : G E N w) (x : Nat) :
    G E N (w.finishCycle x) := by
  unfold World.finishCycle
  dsimp only
  split
  · -- source
    next hk =>
    split
    · next ho =>
      obtain ⟨h1, hl1, hdv⟩ := h.genPart x
      generalize w.genPart x = r at h1 hl1 hdv
      obtain ⟨w1, p⟩ := r
      dsimp only at h1 hl1 hdv ⊢
      have hd1 : w1.dev x = w.dev x := dev_congr hdv x
      apply G.schedulePassX
      apply G.addHist
      refine h1.modDev x _ rfl ?_ (fun y hy => List.mem_cons_of_mem _ hy) (fun _ h => h) ?_
        (Or.inl (List.mem_cons_self ..))
      · intro q hq
        rw [heldL_mem] at hq
        rcases hq with hq | hq | hq
        · exact h1.valid.dev x q ((heldL_mem _ _).mpr (Or.inl hq))
        · cases hq; exact hl1
        · exact h1.valid.dev x q ((heldL_mem _ _).mpr (Or.inr (Or.inr hq)))
      · right
        intro hacc
        rw [accB_false_of_output (d := { w1.dev x with output := some p })
          (p := p) rfl
          (by show isHandlerLike (w1.dev x).kind = true; rw [hd1, hk]; rfl)] at hacc
        cases hacc
    · exact h.schedulePass0 x
  · -- sink
    next hk =>
    have h1 := h.finishCycleHandler x
    have hk1 : ((w.finishCycleHandler x).dev x).kind = .sink := by
      rw [kind_of_st (C02V.st_finishCycleHandler w x)]; exact hk
    have h2 : G E (x :: N) ((w.finishCycleHandler x).modDev x (fun d => { d with output := none })) := by
      refine h1.modDev x _ rfl ?_ (fun _ h => h) (fun y hy => List.mem_cons_of_mem _ hy)
        (Or.inl (List.mem_cons_self ..)) (Or.inr ?_)
      · intro q hq
        refine h1.valid.dev x q ?_
        rw [heldL_mem] at hq ⊢
        rcases hq with hq | hq | hq
        · exact Or.inl hq
        · cases hq
        · exact Or.inr (Or.inr hq)
      · intro q hq
        unfold holdsD at hq
        simp only [hk1] at hq
        cases hq
    exact h2.notify x (fun y hy => (List.mem_cons.mp hy).imp id id)
  · -- processor
    have h1 := h.finishCycleHandler x
    generalize w.finishCycleHandler x = w1 at h1
    have h2 := h1.setDev_irrel x
      { w1.dev x with timeInUse := (w1.dev x).timeInUse + (w1.now - (w1.dev x).lastUseStart.getD w1.now),
                      lastUseStart := none } rfl rfl rfl rfl (fun _ => rfl) rfl
    generalize hw2 : w1.setDev x _ = w2 at h2
    have h3 : G E N (if (w1.dev x).reserved.isSome then
        w2.schedLib w2.now (w1.dev x).aid (.releaseIfIdle x) pRelease else w2) := by
      split
      · exact h2.schedLib _ _ (Action.releaseIfIdle x) _ (fun d hd => Action.noConfusion hd)
      · exact h2
    generalize (if (w1.dev x).reserved.isSome then _ else _) = w3 at h3
    split
    · exact h3
    · apply G.addRec
      refine G.foldl _ (fun w s hw => hw.senseOutput s _) _ ?_
      exact G.foldl_applyPartCb x _ _ (h1.s1.finPure x) h3
  · exact h.finishCycleHandler x

theorem G.scheduleFinish {E N : List Nat} {w : World} (h : G E N w) (x : Nat) :
    G E N (w.scheduleFinish x) := by
  unfold World.scheduleFinish
  dsimp only
  have h1 := h.setDev_irrel x { w.dev x with offset := 0 } rfl rfl rfl rfl (fun _ => rfl) rfl
  repeat' split
  all_goals first
    | exact h1.finishCycle x
    | exact h1.schedLib _ _ (Action.finishCycle x) _ (fun d hd => Action.noConfusion hd)

theorem kind_lt {w : World} {x : Nat} (hk : (w.dev x).kind ≠ .handler) : x < w.devs.length := by
  apply Nat.lt_of_not_le
  intro hc
  rw [dev_of_length_le hc] at hk
  exact hk rfl

theorem G.tryMove {E N : List Nat} {w : World} (h : G E N w) (x : Nat) :
    G E N (w.tryMove x) := by
  unfold World.tryMove
  dsimp only
  split
  · -- buffer
    next hk =>
    have hx : x < w.devs.length := kind_lt (by rw [hk]; decide)
    split
    · exact h
    · next p hp =>
      have hv : ∀ q ∈ heldL { w.dev x with buf := (w.dev x).buf ++ [(w.now, p)], part := none },
          q < w.parts.length := by
        intro q hq
        refine h.valid.dev x q ?_
        rw [heldL_mem] at hq ⊢
        rcases hq with hq | hq | ⟨t, hq⟩
        · cases hq
        · exact Or.inr (Or.inl hq)
        · rcases List.mem_append.mp hq with hq | hq
          · exact Or.inr (Or.inr ⟨t, hq⟩)
          · simp only [List.mem_singleton, Prod.mk.injEq] at hq
            left; rw [hp, hq.2]
      cases hb : (w.dev x).buf with
      | nil =>
        have h1 : G (x :: E) (x :: N)
            (w.setDev x { w.dev x with buf := (w.dev x).buf ++ [(w.now, p)], part := none }) :=
          h.setDev x _ rfl hv (fun y hy => List.mem_cons_of_mem _ hy)
            (fun y hy => List.mem_cons_of_mem _ hy) (Or.inl (List.mem_cons_self ..))
            (Or.inl (List.mem_cons_self ..))
        have h2 := h1.notify x (N' := N) (fun y hy => (List.mem_cons.mp hy).imp id id)
        rw [hb] at h2
        generalize hw2 : (w.setDev x { w.dev x with buf := [] ++ [(w.now, p)], part := none }).notify x = w2 at h2
        have hc2 : w2.core = (w.setDev x { w.dev x with buf := [] ++ [(w.now, p)], part := none }).core := by
          rw [← hw2]; exact notify_core _ _
        have hbuf2 : (w2.dev x).buf = [(w.now, p)] := by
          rw [core_eq_dev_buf hc2, dev_setDev_same hx]; rfl
        have hnow2 : w2.now = w.now := by rw [← hw2]; exact (step_notify _ x).mono.now
        rw [hbuf2]
        simp only [List.length_singleton, beq_self_eq_true, if_true]
        refine h2.schedulePass x _ (h.s1.delay x hk) (fun y hy => (List.mem_cons.mp hy).imp id id) ?_
        intro q _
        have hk2 : (w2.dev x).kind = .buffer := by
          rw [core_eq_dev_kind hc2, dev_setDev_same hx]; exact hk
        have hdl : (w2.dev x).delay = (w.dev x).delay := by
          rw [core_eq_dev_delay hc2, dev_setDev_same hx]
        unfold dueD
        rw [hk2, hbuf2, hnow2, hdl]
        have := h.s1.delay x hk
        dsimp only
        split <;> omega
      | cons b bs =>
        have h1 : G E (x :: N)
            (w.setDev x { w.dev x with buf := (w.dev x).buf ++ [(w.now, p)], part := none }) := by
          refine h.setDev x _ rfl hv (fun _ h => h)
            (fun y hy => List.mem_cons_of_mem _ hy) (Or.inl (List.mem_cons_self ..)) (Or.inr ?_)
          intro q hq
          have e1 : holdsD { w.dev x with buf := (w.dev x).buf ++ [(w.now, p)], part := none } =
              holdsD (w.dev x) := by
            unfold holdsD; simp only [hk, hb]; rfl
          have e2 : ∀ n, dueD n { w.dev x with buf := (w.dev x).buf ++ [(w.now, p)], part := none } =
              dueD n (w.dev x) := by
            intro n; unfold dueD; simp only [hk, hb]; rfl
          rw [e1] at hq
          exact ⟨hq, by rw [e2]; exact Int.le_refl _, id⟩
        have h2 := h1.notify x (N' := N) (fun y hy => (List.mem_cons.mp hy).imp id id)
        rw [hb] at h2
        generalize hw2 : (w.setDev x { w.dev x with buf := b :: bs ++ [(w.now, p)], part := none }).notify x = w2 at h2
        have hc2 : w2.core = (w.setDev x { w.dev x with buf := b :: bs ++ [(w.now, p)], part := none }).core := by
          rw [← hw2]; exact notify_core _ _
        have hbuf2 : (w2.dev x).buf = b :: bs ++ [(w.now, p)] := by
          rw [core_eq_dev_buf hc2, dev_setDev_same hx]
        rw [hbuf2, if_neg (by simp)]
        exact h2
  · -- batcher
    next hk =>
    have := h.s1.kindOK x
    rw [hk] at this; cases this
  · split
    · exact (h.setDev_irrel x { w.dev x with lastUseStart := some w.now } rfl rfl rfl rfl
        (fun _ => rfl) rfl).scheduleFinish x
    · exact h
  · split
    · exact h.scheduleFinish x
    · exact h
theorem accB_level_le (d : Dev) (n : Nat) :
    accB { d with level := d.level + n } = true → accB d = true := by
  unfold accB opn
  cases hk : d.kind <;> simp only [] <;> try exact id
  cases hc : d.cap with
  | none => exact id
  | some c =>
    simp only [Bool.and_eq_true, decide_eq_true_eq]
    intro h
    exact ⟨⟨⟨⟨by omega, h.1.1.1.2⟩, h.1.1.2⟩, h.1.2⟩, h.2⟩

/-- the bookkeeping at the beginning of `onReceived` -/
def recvHeadW (w : World) (x p : Nat) : World :=
  match (w.dev x).kind with
  | .sink =>
    w.setDev x { w.dev x with
      recvCount := (w.dev x).recvCount + w.leafCount p
      recvValue := (w.dev x).recvValue + w.partValue p
      val := (w.dev x).val.addValue lblCollected w.now (w.partValue p)
      collected := if (w.dev x).collect then (w.dev x).collected ++ [p] else (w.dev x).collected }
  | .buffer =>
    (w.setDev x { w.dev x with level := (w.dev x).level + w.leafCount p }).addRec
      (.level x (w.setDev x { w.dev x with level := (w.dev x).level + w.leafCount p }).now
        ((w.setDev x { w.dev x with level := (w.dev x).level + w.leafCount p }).dev x).level)
  | _ => w

theorem onReceived_eq (w : World) (x p : Nat) :
    w.onReceived x p =
      (fun w3 : World => if (w3.dev x).output.isNone then w3.tryMove x else w3)
        ((fun w2 : World => (w2.dev x).recvCbs.foldl (fun w c => w.applyPartCb x p c) w2)
          ((fun w1 : World => w1.addRec (.received x w1.now p (w1.part p).quality (w1.partValue p)))
            (recvHeadW w x p))) := by
  unfold World.onReceived recvHeadW
  dsimp only
  cases hk : (w.dev x).kind <;> rfl

theorem G.recvHd {E N : List Nat} {w : World} (h : G E N w) (x p : Nat) :
    G E N (recvHeadW w x p) := by
  unfold recvHeadW
  split
  · exact h.setDev_irrel x _ rfl rfl rfl rfl (fun _ => rfl) rfl
  · apply G.addRec
    exact h.setDev x _ rfl (fun q hq => h.valid.dev x q hq) (fun _ h => h) (fun _ h => h)
      (Or.inr (accB_level_le _ _)) (Or.inr (fun q hq => ⟨hq, Int.le_refl _, id⟩))
  · exact h

theorem G.onReceived {E N : List Nat} {w : World} (h : G E N w) (x p : Nat) :
    G E N (w.onReceived x p) := by
  rw [onReceived_eq]
  dsimp only
  have h1 := h.recvHd x p
  generalize recvHeadW w x p = w1 at h1 ⊢
  have h2 := h1.addRec (.received x w1.now p (w1.part p).quality (w1.partValue p))
  generalize w1.addRec _ = w2 at h2 ⊢
  have h3 := G.foldl_applyPartCb x p _ (h2.s1.recvPure x) h2
  split
  · exact h3.tryMove x
  · exact h3

theorem G.withDelivered {E N : List Nat} {w : World} (h : G E N w) (l : List Nat) :
    G E N { w with delivered := l } :=
  h.of_eq rfl rfl rfl rfl rfl

theorem G.acceptPart {E N : List Nat} {w : World} (h : G E N w) (x p : Nat)
    (hp : p < w.parts.length) : G E N (w.acceptPart x p) := by
  unfold World.acceptPart
  have h1 : G E N (if (w.dev x).kind == .sink then { w with delivered := w.delivered ++ w.leavesOf p } else w) := by
    split
    · exact h.withDelivered _
    · exact h
  have hp1 : p < (if (w.dev x).kind == .sink then { w with delivered := w.delivered ++ w.leavesOf p } else w).parts.length := by
    split <;> exact hp
  generalize (if (w.dev x).kind == .sink then { w with delivered := w.delivered ++ w.leavesOf p } else w) = w1 at h1 hp1
  dsimp only
  apply G.onReceived
  apply G.setWaiting
  apply G.addHist
  refine h1.modDev x _ rfl ?_ (fun _ h => h) (fun _ h => h) (Or.inr ?_)
    (Or.inr (fun q hq => ⟨hq, Int.le_refl _, id⟩))
  · intro q hq
    rw [heldL_mem] at hq
    rcases hq with hq | hq | hq
    · cases hq; exact hp1
    · exact h1.valid.dev x q ((heldL_mem _ _).mpr (Or.inr (Or.inl hq)))
    · exact h1.valid.dev x q ((heldL_mem _ _).mpr (Or.inr (Or.inr hq)))
  · intro hacc
    by_cases hhl : isHandlerLike (w1.dev x).kind = true
    · rw [accB_false_of_part (d := { w1.dev x with part := some p }) (p := p) rfl hhl] at hacc
      cases hacc
    · have hhl' : isHandlerLike (w1.dev x).kind = false := by simpa using hhl
      rw [accB_nonHL (d := { w1.dev x with part := some p }) hhl'] at hacc
      rw [accB_nonHL hhl']
      exact hacc
end C03W
end SimProc
