/-
C03W — the floor functions preserve the generalised invariant `G E N`, part 1: everything up to
`acceptPart`.
-/
import SimProc.Proofs.C03WPrim3
import SimProc.Proofs.C03XBatcher
import SimProc.Proofs.FloorSt
import SimProc.Proofs.Topo

namespace SimProc
namespace C03W
open World FloorCoreL C03

theorem G.schedulePassX {E N A : List Nat} {w : World} (h : G (x :: E) N A w) :
    G E N A (w.schedulePass x 0) :=
  h.schedulePass x 0 (Int.le_refl _)
    (fun y hy => (List.mem_cons.mp hy).imp id id)
    (fun p _ => by rw [Int.add_zero]; exact le_dueD _ _)

theorem G.modDev_irrel {E N A : List Nat} {w : World} (h : G E N A w) (x : Nat) (f : Dev → Dev)
    (hs : stat1 (f (w.dev x)) = stat1 (w.dev x)) (hh : heldL (f (w.dev x)) = heldL (w.dev x))
    (ha : ∀ n, accB n (f (w.dev x)) = accB n (w.dev x)) (ho : holdsD (f (w.dev x)) = holdsD (w.dev x))
    (hd : ∀ n, dueD n (f (w.dev x)) = dueD n (w.dev x))
    (hf : (f (w.dev x)).waitingDS = (w.dev x).waitingDS)
    (hfl : (f (w.dev x)).waitingRes = true → (w.dev x).waitingRes = true ∨
      ∃ req, (f (w.dev x)).resReq = some req ∧ (req, Cb.proc x) ∈ w.rm.waiting := by
        intro h; exact Or.inl h) :
    G E N A (w.modDev x f) :=
  h.setDev_irrel x _ hs hh ha ho hd hf hfl

theorem G.setWaiting {E N A : List Nat} {w : World} (h : G E N A w) (x : Nat) (a b : Bool) :
    G E N A (w.setWaiting x a b) := by
  unfold World.setWaiting
  dsimp only
  repeat' split
  all_goals first
    | exact h
    | exact h.setDev_irrel x _ rfl rfl (fun _ => rfl) rfl (fun _ => rfl) rfl

theorem G.rmEffects {E N A : List Nat} {w : World} (h : G E N A w) (recs : List ResRec) (c : Bool) :
    G E N A (w.rmEffects recs c) := by
  unfold World.rmEffects
  have h1 : G E N A (recs.foldl (fun w r => w.addRec (.resUpdate r.res w.now r.inUse r.cap)) w) :=
    G.foldl _ (fun w r hw => hw.addRec _) recs h
  dsimp only
  split
  · exact h1.schedLib _ _ Action.rmCheck _ (fun d hd => Action.noConfusion hd)
  · exact h1

theorem G.withRm {E N A : List Nat} {w : World} (h : G E N A w) (rm : RM)
    (hrm : rm.waiting = w.rm.waiting) : G E N A { w with rm := rm } :=
  h.of_eq rfl rfl rfl rfl rfl (by show ∀ e ∈ w.rm.waiting, e ∈ rm.waiting; rw [hrm]; exact fun _ he => he)
    (by show ∀ e ∈ rm.waiting, e ∈ w.rm.waiting ∨ _; rw [hrm]; exact fun _ he => Or.inl he)

/-- a new registration of a processor -/
theorem G.withRmReg {E N A : List Nat} {w : World} (h : G E N A w) (rm : RM) (req : Req) (x : Nat)
    (hrm : rm.waiting = w.rm.waiting ++ [(req, Cb.proc x)]) : G E N A { w with rm := rm } :=
  h.of_eq rfl rfl rfl rfl rfl
    (by show ∀ e ∈ w.rm.waiting, e ∈ rm.waiting; rw [hrm]; exact fun _ he => List.mem_append_left _ he)
    (by
      show ∀ e ∈ rm.waiting, e ∈ w.rm.waiting ∨ _
      rw [hrm]
      intro e he
      rcases List.mem_append.mp he with he | he
      · exact Or.inl he
      · rw [List.mem_singleton] at he; subst he; exact Or.inr ⟨x, rfl⟩)

theorem release_waiting (rm : RM) (id : Nat) (part : Option Req) :
    (rm.release id part).1.waiting = rm.waiting := by
  rcases C10.release_cases rm id part with ⟨h, _⟩ | ⟨_, _, h, _⟩
  · rw [h]
  · exact h

theorem add_waiting (rm : RM) (r : Nat) (amt : Int) : (rm.add r amt).1.waiting = rm.waiting := by
  rcases C10.add_cases rm r amt with ⟨h, _⟩ | ⟨_, _, _, v, hv⟩
  · rw [h]
  · rw [hv]; simp

/-- giving the reservation back never makes the processor more willing -/
theorem accB_unreserve (n : Nat) (d : Dev) (h : accB n { d with reserved := none } = true) :
    accB n d = true := by
  have e0 : accB0 n { d with reserved := none } = accB0 n d := rfl
  have e1 : procM { d with reserved := none } =
      match d.kind, d.resReq with
      | .processor, some _ => !d.waitingRes
      | _, _ => true := rfl
  unfold accB at h ⊢
  rw [e0, e1, Bool.and_eq_true] at h
  rw [Bool.and_eq_true]
  refine ⟨h.1, ?_⟩
  have h2 := h.2
  unfold procM
  cases hk : d.kind <;> simp only [hk] at h2 ⊢
  cases hq : d.resReq with
  | none => rfl
  | some req =>
    simp only [hq] at h2 ⊢
    rw [h2]; simp

/-- registering with the manager never makes the processor more willing -/
theorem accB_register (n : Nat) (d : Dev) (h : accB n { d with waitingRes := true } = true) :
    accB n d = true := by
  have e0 : accB0 n { d with waitingRes := true } = accB0 n d := rfl
  have e1 : procM { d with waitingRes := true } =
      match d.kind, d.resReq with
      | .processor, some _ => d.reserved.isSome || false
      | _, _ => true := rfl
  unfold accB at h ⊢
  rw [e0, e1, Bool.and_eq_true] at h
  rw [Bool.and_eq_true]
  refine ⟨h.1, ?_⟩
  have h2 := h.2
  unfold procM
  cases hk : d.kind <;> simp only [hk] at h2 ⊢
  cases hq : d.resReq with
  | none => rfl
  | some req =>
    simp only [hq, Bool.or_false] at h2 ⊢
    rw [h2]; rfl

theorem G.releaseReserved {E N A : List Nat} {w : World} (h : G E N A w) (x : Nat) :
    G E N A (w.releaseReserved x) := by
  unfold World.releaseReserved
  split
  · exact h
  · next id _ =>
    have hrw := release_waiting w.rm id none
    generalize w.rm.release id none = r at hrw
    obtain ⟨rm, res, recs, chk⟩ := r
    dsimp only
    have h1 := (h.withRm rm hrw).rmEffects recs chk
    refine h1.modDev x _ rfl (fun q hq => h1.valid.dev x q hq) (fun _ h => h) (fun _ h => h)
      (Or.inr (Or.inr (fun n => ?_))) (Or.inr (fun q hq => ⟨hq, Int.le_refl _, fun hh => hh⟩))
    exact accB_unreserve n _

theorem G.applyPartCb {E N A : List Nat} {w : World} (h : G E N A w) (x p : Nat) (c : PartCb)
    (hc : cbPure c = true) : G E N A (w.applyPartCb x p c) := by
  unfold cbPure at hc
  simp only [Bool.and_eq_true, beq_iff_eq, Option.isNone_iff_eq_none] at hc
  rw [applyPartCb_eq]
  have h1 := h.modDev_irrel x (cbDev c) rfl rfl (fun _ => rfl) rfl (fun _ => rfl) rfl
  split
  · exact h1
  · refine h1.modPart p (cbPart c) (fun r => ?_)
    unfold cbPart
    simp [hc.1, hc.2]

theorem G.foldl_applyPartCb {E N A : List Nat} (x p : Nat) (cbs : List PartCb)
    (hp : ∀ c ∈ cbs, cbPure c = true) {w : World} (h : G E N A w) :
    G E N A (cbs.foldl (fun w c => w.applyPartCb x p c) w) := by
  induction cbs generalizing w with
  | nil => exact h
  | cons c cs ih =>
    exact ih (fun c' hc' => hp c' (List.mem_cons_of_mem _ hc'))
      (h.applyPartCb x p c (hp c (List.mem_cons_self ..)))

theorem G.withSensors {E N A : List Nat} {w : World} (h : G E N A w) (s : List SensorW) :
    G E N A { w with sensors := s } :=
  h.of_eq rfl rfl rfl rfl rfl

theorem G.senseOutput {E N A : List Nat} {w : World} (h : G E N A w) (s p : Nat) :
    G E N A (w.senseOutput s p) := by
  unfold World.senseOutput
  dsimp only
  split
  · exact G.foldl _ (fun w c hw => hw.addRes _) _ ((h.withSensors _).withSensors _)
  · exact h.withSensors _

/-! ### accB / holdsD of updated devices -/

theorem accB_false_of_output {d : Dev} {p : Nat} (h : d.output = some p)
    (hk : isHandlerLike d.kind = true) (n : Nat) : accB n d = false := by
  have : accB0 n d = false := by
    unfold accB0
    cases hkind : d.kind <;> simp_all [isHandlerLike]
  unfold accB; rw [this]; rfl

theorem accB_false_of_part {d : Dev} {p : Nat} (h : d.part = some p)
    (hk : isHandlerLike d.kind = true) (n : Nat) : accB n d = false := by
  have : accB0 n d = false := by
    unfold accB0
    cases hkind : d.kind <;> simp_all [isHandlerLike]
  unfold accB; rw [this]; rfl

theorem accB_false_of_shut {d : Dev} (h : d.shutDown = true) (hk : d.kind = .processor) (n : Nat) :
    accB n d = false := by
  have : accB0 n d = false := by
    unfold accB0 opn
    simp [hk, h]
  unfold accB; rw [this]; rfl

/-- for kinds that are not handler-like, `accB` only reads `blockInput` -/
theorem accB_nonHL {d : Dev} (hk : isHandlerLike d.kind = false) (n : Nat) :
    accB n d = !d.blockInput := by
  unfold accB accB0 procM opn
  cases hkind : d.kind <;> simp_all [isHandlerLike]

/-- a device one of whose slots is occupied is at most as willing as any device of its kind -/
theorem accB_le_of_occupied {d d' : Dev} (hk : d'.kind = d.kind) (hb : d'.blockInput = d.blockInput)
    (ho : d'.part.isSome = true ∨ d'.output.isSome = true) (n : Nat) :
    accB n d' = true → accB n d = true := by
  intro hacc
  by_cases hhl : isHandlerLike d.kind = true
  · exfalso
    rcases ho with ho | ho
    · obtain ⟨q, hq⟩ := Option.isSome_iff_exists.mp ho
      rw [accB_false_of_part hq (by rw [hk]; exact hhl)] at hacc; cases hacc
    · obtain ⟨q, hq⟩ := Option.isSome_iff_exists.mp ho
      rw [accB_false_of_output hq (by rw [hk]; exact hhl)] at hacc; cases hacc
  · have hhl' : isHandlerLike d.kind = false := by simpa using hhl
    rw [accB_nonHL (by rw [hk]; exact hhl')] at hacc
    rw [accB_nonHL hhl', ← hb]
    exact hacc

theorem holdsD_nonHL {d : Dev} (hk : isHandlerLike d.kind = false) : holdsD d = none := by
  unfold holdsD
  cases hkind : d.kind <;> simp_all [isHandlerLike]

theorem kind_of_st {w w' : World} (h : C02V.st w' = C02V.st w) (x : Nat) :
    (w'.dev x).kind = (w.dev x).kind := by
  rw [← C02V.st_kind, ← C02V.st_kind, h]

theorem down_of_st {w w' : World} (h : C02V.st w' = C02V.st w) (x : Nat) :
    (w'.dev x).down = (w.dev x).down := by
  rw [← C02V.st_down, ← C02V.st_down, h]

theorem G.finishCycleHandler {E N A : List Nat} {w : World} (h : G E N A w) (x : Nat) :
    G E N A (w.finishCycleHandler x) := by
  unfold World.finishCycleHandler
  dsimp only
  split
  · exact h.setErr _
  · split
    · exact h.setErr _
    · next p hp =>
      split
      · exact h.setErr _
      · next ho =>
        apply G.schedulePassX
        refine h.setDev x _ rfl ?_ (fun y hy => List.mem_cons_of_mem _ hy) (fun _ h => h) ?_
          (Or.inl (List.mem_cons_self ..))
        · intro q hq
          refine h.valid.dev x q ?_
          rw [heldL_mem] at hq ⊢
          rcases hq with hq | hq | hq
          · cases hq
          · left; rw [hp]; exact hq
          · exact Or.inr (Or.inr hq)
        · exact Or.inr (Or.inr (fun n hacc =>
            accB_le_of_occupied (d := w.dev x) (by rfl) (by rfl) (Or.inr (by rfl)) n hacc))

theorem G.withGenerated {E N A : List Nat} {w : World} (h : G E N A w) (l : List Nat) :
    G E N A { w with generated := l } :=
  h.of_eq rfl rfl rfl rfl rfl

theorem noBatch_dev {w : World} (h : NoBatch w) (x : Nat) :
    (w.dev x).kind ≠ .batcher ∧ (w.dev x).genBatch = 0 := by
  rcases dev_mem_or_default w x with hm | hd
  · exact ⟨(h _ hm).1, (h _ hm).2.1⟩
  · rw [hd]; exact ⟨by decide, rfl⟩

theorem noBatch_grp {w : World} (h : NoBatch w) (x : Nat) :
    (w.dev x).kind ≠ .gpath ∧ (w.dev x).kind ≠ .ginput ∧ (w.dev x).kind ≠ .goutput := by
  rcases dev_mem_or_default w x with hm | hd
  · exact (h _ hm).2.2
  · rw [hd]; exact ⟨by decide, by decide, by decide⟩

theorem G.genPart {E N A : List Nat} {w : World} (h : G E N A w) (x : Nat) :
    G E N A (w.genPart x).1 ∧ (w.genPart x).2 < (w.genPart x).1.parts.length ∧
      (w.genPart x).1.devs = w.devs := by
  cases hb : ((w.dev x).genBatch == 0) with
  | true =>
    rw [C02V.genPart_leaf w x hb]
    refine ⟨?_, by simp, rfl⟩
    exact (h.newPart { quality := (w.dev x).genQuality, value := (w.dev x).genValue }
      (fun _ => rfl) (fun l hl => by cases hl)).withGenerated _
  | false =>
    rw [C02V.genPart_batch w x hb]
    refine ⟨?_, by simp, rfl⟩
    have hnb : ¬ NoBatch w := fun hn => by
      have := (noBatch_dev hn x).2
      rw [this] at hb; cases hb
    have h1 := h.appendParts (List.replicate (w.dev x).genBatch.toNat
        { quality := (w.dev x).genQuality, value := (w.dev x).genValue } ++
        [{ quality := 0, value := 0, kids := some (List.range' w.parts.length (w.dev x).genBatch.toNat) }])
      (fun hn => absurd hn hnb) (fun r hr ks hks k hk => by
        rcases List.mem_append.mp hr with hr | hr
        · rw [List.eq_of_mem_replicate hr] at hks; cases hks
        · rw [List.mem_singleton] at hr; subst hr
          simp only [Option.some.injEq] at hks
          subst hks
          rw [List.mem_range'_1] at hk
          simp only [List.length_append, List.length_replicate, List.length_singleton]
          omega)
      (fun r hr => by
        rcases List.mem_append.mp hr with hr | hr
        · rw [List.eq_of_mem_replicate hr]
        · rw [List.mem_singleton] at hr; subst hr; rfl)
    have := h1.withGenerated (w.generated ++ List.range' w.parts.length (w.dev x).genBatch.toNat)
    simpa only [List.append_assoc] using this

theorem G.finishCycle {E N A : List Nat} {w : World} (h : G E N A w) (x : Nat) :
    G E N A (w.finishCycle x) := by
  unfold World.finishCycle
  dsimp only
  split
  · -- source
    next hk =>
    split
    · next ho =>
      obtain ⟨h1, hl1, hdv⟩ := h.genPart x
      generalize w.genPart x = r at h1 hl1 hdv
      obtain ⟨w1, p⟩ := r
      dsimp only at h1 hl1 hdv ⊢
      have hd1 : w1.dev x = w.dev x := dev_congr hdv x
      apply G.schedulePassX
      apply G.addHist
      refine h1.modDev x _ rfl ?_ (fun y hy => List.mem_cons_of_mem _ hy) (fun _ h => h) ?_
        (Or.inl (List.mem_cons_self ..))
      · intro q hq
        rw [heldL_mem] at hq
        rcases hq with hq | hq | hq
        · exact h1.valid.dev x q ((heldL_mem _ _).mpr (Or.inl hq))
        · cases hq; exact hl1
        · exact h1.valid.dev x q ((heldL_mem _ _).mpr (Or.inr (Or.inr hq)))
      · exact Or.inr (Or.inr (fun n hacc =>
          accB_le_of_occupied (d := w1.dev x) (by rfl) (by rfl) (Or.inr (by rfl)) n hacc))
    · exact h.schedulePass0 x
  · -- sink
    next hk =>
    have h1 := h.finishCycleHandler x
    have hk1 : ((w.finishCycleHandler x).dev x).kind = .sink := by
      rw [kind_of_st (C02V.st_finishCycleHandler w x)]; exact hk
    have h2 : G E (x :: N) A ((w.finishCycleHandler x).modDev x (fun d => { d with output := none })) := by
      refine h1.modDev x _ rfl ?_ (fun _ h => h) (fun y hy => List.mem_cons_of_mem _ hy)
        (Or.inl (List.mem_cons_self ..)) (Or.inr ?_)
      · intro q hq
        refine h1.valid.dev x q ?_
        rw [heldL_mem] at hq ⊢
        rcases hq with hq | hq | hq
        · exact Or.inl hq
        · cases hq
        · exact Or.inr (Or.inr hq)
      · intro q hq
        unfold holdsD at hq
        simp only [hk1] at hq
        cases hq
    exact h2.notify x (fun y hy => (List.mem_cons.mp hy).imp id id)
  · -- processor
    have h1 := h.finishCycleHandler x
    generalize w.finishCycleHandler x = w1 at h1
    have h2 := h1.setDev_irrel x
      { w1.dev x with timeInUse := (w1.dev x).timeInUse + (w1.now - (w1.dev x).lastUseStart.getD w1.now),
                      lastUseStart := none } rfl rfl (fun _ => rfl) rfl (fun _ => rfl) rfl
    generalize hw2 : w1.setDev x _ = w2 at h2
    have h3 : G E N A (if (w1.dev x).reserved.isSome then
        w2.schedLib w2.now (w1.dev x).aid (.releaseIfIdle x) pRelease else w2) := by
      split
      · exact h2.schedLib _ _ (Action.releaseIfIdle x) _ (fun d hd => Action.noConfusion hd)
      · exact h2
    generalize (if (w1.dev x).reserved.isSome then _ else _) = w3 at h3
    split
    · exact h3
    · apply G.addRec
      refine G.foldl _ (fun w s hw => hw.senseOutput s _) _ ?_
      exact G.foldl_applyPartCb x _ _ (h1.sc.finPure x) h3
  · exact h.finishCycleHandler x

theorem G.scheduleFinish {E N A : List Nat} {w : World} (h : G E N A w) (x : Nat) :
    G E N A (w.scheduleFinish x) := by
  unfold World.scheduleFinish
  dsimp only
  have h1 := h.setDev_irrel x { w.dev x with offset := 0 } rfl rfl (fun _ => rfl) rfl (fun _ => rfl) rfl
  repeat' split
  all_goals first
    | exact h1.finishCycle x
    | exact h1.schedLib _ _ (Action.finishCycle x) _ (fun d hd => Action.noConfusion hd)

theorem kind_lt {w : World} {x : Nat} (hk : (w.dev x).kind ≠ .handler) : x < w.devs.length := by
  apply Nat.lt_of_not_le
  intro hc
  rw [dev_of_length_le hc] at hk
  exact hk rfl

/-- What `tryMove` needs of a batcher `x`: it is counted as willing (it has just accepted, or
notified), and nobody else offers its input part or its batch under construction. -/
def BOK (E A : List Nat) (w : World) (x : Nat) : Prop :=
  (w.dev x).kind = .batcher → x ∈ A ∧ ∀ d q, d ∉ x :: E → holdsD (w.dev d) = some q →
    (w.dev x).part ≠ some q ∧ (w.dev x).inprog ≠ some q

theorem G.tryMove {E N A : List Nat} {w : World} (h : G E N A w) (x : Nat) (hbok : BOK E A w x) :
    G E N A (w.tryMove x) := by
  unfold World.tryMove
  dsimp only
  split
  · -- buffer
    next hk =>
    have hx : x < w.devs.length := kind_lt (by rw [hk]; decide)
    split
    · exact h
    · next p hp =>
      have hv : ∀ q ∈ heldL { w.dev x with buf := (w.dev x).buf ++ [(w.now, p)], part := none },
          q < w.parts.length := by
        intro q hq
        refine h.valid.dev x q ?_
        rw [heldL_mem] at hq ⊢
        rcases hq with hq | hq | ⟨t, hq⟩ | hq
        · cases hq
        · exact Or.inr (Or.inl hq)
        · rcases List.mem_append.mp hq with hq | hq
          · exact Or.inr (Or.inr (Or.inl ⟨t, hq⟩))
          · simp only [List.mem_singleton, Prod.mk.injEq] at hq
            left; rw [hp, hq.2]
        · exact Or.inr (Or.inr (Or.inr hq))
      cases hb : (w.dev x).buf with
      | nil =>
        have h1 : G (x :: E) (x :: N) A
            (w.setDev x { w.dev x with buf := (w.dev x).buf ++ [(w.now, p)], part := none }) :=
          h.setDev x _ rfl hv (fun y hy => List.mem_cons_of_mem _ hy)
            (fun y hy => List.mem_cons_of_mem _ hy) (Or.inl (List.mem_cons_self ..))
            (Or.inl (List.mem_cons_self ..))
        have h2 := h1.notify x (N' := N) (fun y hy => (List.mem_cons.mp hy).imp id id)
        rw [hb] at h2
        generalize hw2 : (w.setDev x { w.dev x with buf := [] ++ [(w.now, p)], part := none }).notify x = w2 at h2
        have hc2 : w2.core = (w.setDev x { w.dev x with buf := [] ++ [(w.now, p)], part := none }).core := by
          rw [← hw2]; exact notify_core _ _
        have hbuf2 : (w2.dev x).buf = [(w.now, p)] := by
          rw [core_eq_dev_buf hc2, dev_setDev_same hx]; rfl
        have hnow2 : w2.now = w.now := by rw [← hw2]; exact (step_notify _ x).mono.now
        rw [hbuf2]
        simp only [List.length_singleton, beq_self_eq_true, if_true]
        refine h2.schedulePass x _ (h.sc.delay x hk) (fun y hy => (List.mem_cons.mp hy).imp id id) ?_
        intro q _
        have hk2 : (w2.dev x).kind = .buffer := by
          rw [core_eq_dev_kind hc2, dev_setDev_same hx]; exact hk
        have hdl : (w2.dev x).delay = (w.dev x).delay := by
          rw [core_eq_dev_delay hc2, dev_setDev_same hx]
        unfold dueD
        rw [hk2, hbuf2, hnow2, hdl]
        have := h.sc.delay x hk
        dsimp only
        split <;> omega
      | cons b bs =>
        have h1 : G E (x :: N) A
            (w.setDev x { w.dev x with buf := (w.dev x).buf ++ [(w.now, p)], part := none }) := by
          refine h.setDev x _ rfl hv (fun _ h => h)
            (fun y hy => List.mem_cons_of_mem _ hy) (Or.inl (List.mem_cons_self ..)) (Or.inr ?_)
          intro q hq
          have e1 : holdsD { w.dev x with buf := (w.dev x).buf ++ [(w.now, p)], part := none } =
              holdsD (w.dev x) := by
            unfold holdsD; simp only [hk, hb]; rfl
          have e2 : ∀ n, dueD n { w.dev x with buf := (w.dev x).buf ++ [(w.now, p)], part := none } =
              dueD n (w.dev x) := by
            intro n; unfold dueD; simp only [hk, hb]; rfl
          rw [e1] at hq
          exact ⟨hq, by rw [e2]; exact Int.le_refl _, id⟩
        have h2 := h1.notify x (N' := N) (fun y hy => (List.mem_cons.mp hy).imp id id)
        rw [hb] at h2
        generalize hw2 : (w.setDev x { w.dev x with buf := b :: bs ++ [(w.now, p)], part := none }).notify x = w2 at h2
        have hc2 : w2.core = (w.setDev x { w.dev x with buf := b :: bs ++ [(w.now, p)], part := none }).core := by
          rw [← hw2]; exact notify_core _ _
        have hbuf2 : (w2.dev x).buf = b :: bs ++ [(w.now, p)] := by
          rw [core_eq_dev_buf hc2, dev_setDev_same hx]
        rw [hbuf2, if_neg (by simp)]
        exact h2
  · -- batcher
    next hk =>
    obtain ⟨hxA, hfree⟩ := hbok hk
    have hx : x < w.devs.length := kind_lt (by rw [hk]; decide)
    split
    · exact h
    · split
      · exact h
      · next p hp =>
        have keyE : G E N A (w.setDev x { w.dev x with part := none }) := by
          -- an empty batch is dropped
          refine h.setDev x _ rfl ?_ (fun _ h => h) (fun _ h => h) (Or.inr (Or.inl hxA))
            (Or.inr (fun q hq => ⟨?_, Int.le_refl _, id⟩))
          · intro q hq
            refine h.valid.dev x q ?_
            rw [heldL_mem] at hq ⊢
            rcases hq with hq | hq | hq | hq
            · cases hq
            · exact Or.inr (Or.inl hq)
            · exact Or.inr (Or.inr (Or.inl hq))
            · exact Or.inr (Or.inr (Or.inr hq))
          · unfold holdsD at hq ⊢
            simp only [hk] at hq ⊢
            exact hq
        have keyL : G E N A
            (if ((batcherLoop (w.leafCount p + 2) w x).dev x).output.isSome then
              (batcherLoop (w.leafCount p + 2) w x).schedulePass x 0
            else batcherLoop (w.leafCount p + 2) w x) := by
          have hm : G (x :: E) N A w :=
            h.mono (fun y hy => List.mem_cons_of_mem _ hy) (fun _ h => h) (fun _ h => h)
          obtain ⟨h1, hb1⟩ := G.batcherLoopG (List.mem_cons_self ..) hxA (w.leafCount p + 2) w hm
            ⟨hk, hfree⟩
          split
          · exact G.schedulePassX h1
          · next hout =>
            refine h1.unexempt x (fun y hy => (List.mem_cons.mp hy).imp id id) (fun q hq => ?_)
            exfalso
            unfold holdsD at hq
            rw [hb1.kind] at hq
            simp only [] at hq
            rw [hq] at hout
            exact hout rfl
        cases hkids : (w.part p).kids with
        | none => simp only [Bool.false_eq_true, if_false]; exact keyL
        | some l =>
          cases l with
          | nil => simp only [List.isEmpty_nil, if_true]; exact keyE
          | cons k ks => simp only [List.isEmpty_cons, Bool.false_eq_true, if_false]; exact keyL
  · split
    · exact (h.setDev_irrel x { w.dev x with lastUseStart := some w.now } rfl rfl (fun _ => rfl) rfl
        (fun _ => rfl) rfl).scheduleFinish x
    · exact h
  · split
    · exact h.scheduleFinish x
    · exact h
theorem accB0_level_le (d : Dev) (n m : Nat) :
    accB0 m { d with level := d.level + n } = true → accB0 m d = true := by
  unfold accB0 opn
  cases hk : d.kind <;> simp only [] <;> try exact id
  cases hc : d.cap with
  | none => exact id
  | some c =>
    simp only [Bool.and_eq_true, decide_eq_true_eq]
    intro h
    exact ⟨⟨⟨⟨⟨by omega, by omega⟩, h.1.1.1.2⟩, h.1.1.2⟩, h.1.2⟩, h.2⟩

theorem accB_level_le (d : Dev) (n m : Nat) :
    accB m { d with level := d.level + n } = true → accB m d = true := by
  unfold accB
  simp only [Bool.and_eq_true]
  intro h
  exact ⟨accB0_level_le d n m h.1, h.2⟩
/-- the bookkeeping at the beginning of `onReceived` -/
def recvHeadW (w : World) (x p : Nat) : World :=
  match (w.dev x).kind with
  | .sink =>
    w.setDev x { w.dev x with
      recvCount := (w.dev x).recvCount + w.leafCount p
      recvValue := (w.dev x).recvValue + w.partValue p
      val := (w.dev x).val.addValue lblCollected w.now (w.partValue p)
      collected := if (w.dev x).collect then (w.dev x).collected ++ [p] else (w.dev x).collected }
  | .buffer =>
    (w.setDev x { w.dev x with level := (w.dev x).level + w.leafCount p }).addRec
      (.level x (w.setDev x { w.dev x with level := (w.dev x).level + w.leafCount p }).now
        ((w.setDev x { w.dev x with level := (w.dev x).level + w.leafCount p }).dev x).level)
  | _ => w

theorem onReceived_eq (w : World) (x p : Nat) :
    w.onReceived x p =
      (fun w3 : World => if (w3.dev x).output.isNone then w3.tryMove x else w3)
        ((fun w2 : World => (w2.dev x).recvCbs.foldl (fun w c => w.applyPartCb x p c) w2)
          ((fun w1 : World => w1.addRec (.received x w1.now p (w1.part p).quality (w1.partValue p)))
            (recvHeadW w x p))) := by
  unfold World.onReceived recvHeadW
  dsimp only
  cases hk : (w.dev x).kind <;> rfl

theorem G.recvHd {E N A : List Nat} {w : World} (h : G E N A w) (x p : Nat) :
    G E N A (recvHeadW w x p) := by
  unfold recvHeadW
  split
  · exact h.setDev_irrel x _ rfl rfl (fun _ => rfl) rfl (fun _ => rfl) rfl
  · apply G.addRec
    exact h.setDev x _ rfl (fun q hq => h.valid.dev x q hq) (fun _ h => h) (fun _ h => h)
      (Or.inr (Or.inr (fun n => accB_level_le _ _ n))) (Or.inr (fun q hq => ⟨hq, Int.le_refl _, id⟩))
  · exact h

/-- a step that leaves the slots of all devices and the kind of `x` alone -/
structure SlotsEq (x : Nat) (w w' : World) : Prop where
  other : ∀ d, d ≠ x → holdsD (w'.dev d) = holdsD (w.dev d)
  kind : (w'.dev x).kind = (w.dev x).kind
  part : (w'.dev x).part = (w.dev x).part
  inprog : (w'.dev x).inprog = (w.dev x).inprog

theorem SlotsEq.refl (x : Nat) (w : World) : SlotsEq x w w := ⟨fun _ _ => rfl, rfl, rfl, rfl⟩

theorem SlotsEq.trans {x : Nat} {w w' w'' : World} (h : SlotsEq x w w') (h' : SlotsEq x w' w'') :
    SlotsEq x w w'' :=
  ⟨fun d hd => (h'.other d hd).trans (h.other d hd), h'.kind.trans h.kind, h'.part.trans h.part,
    h'.inprog.trans h.inprog⟩

theorem SlotsEq.of_devs {x : Nat} {w w' : World} (h : w'.devs = w.devs) : SlotsEq x w w' := by
  have hd : ∀ y, w'.dev y = w.dev y := fun y => dev_congr h y
  exact ⟨fun d _ => by rw [hd], by rw [hd], by rw [hd], by rw [hd]⟩

theorem SlotsEq.addRec (x : Nat) (w : World) (r : Rec) : SlotsEq x w (w.addRec r) := .of_devs rfl

theorem SlotsEq.setDev {x : Nat} (w : World) (d' : Dev) (hk : d'.kind = (w.dev x).kind)
    (hp : d'.part = (w.dev x).part) (hi : d'.inprog = (w.dev x).inprog) :
    SlotsEq x w (w.setDev x d') := by
  by_cases hx : x < w.devs.length
  · exact ⟨fun d hd => by rw [dev_setDev_ne (Ne.symm hd)], by rw [dev_setDev_same hx]; exact hk,
      by rw [dev_setDev_same hx]; exact hp, by rw [dev_setDev_same hx]; exact hi⟩
  · rw [dev_setDev_out_of_range (Nat.le_of_not_lt hx)]; exact .refl x w

theorem SlotsEq.applyPartCb (x : Nat) (w : World) (p : Nat) (c : PartCb) :
    SlotsEq x w (w.applyPartCb x p c) :=
  ⟨fun d hd => by rw [applyPartCb_dev_ne w p c hd],
    applyPartCb_dev_field Dev.kind (fun _ _ _ => rfl) w x p c x,
    applyPartCb_dev_field Dev.part (fun _ _ _ => rfl) w x p c x,
    applyPartCb_dev_field Dev.inprog (fun _ _ _ => rfl) w x p c x⟩

theorem SlotsEq.foldl {α} {x : Nat} (g : World → α → World) (l : List α) (w : World)
    (h : ∀ w a, SlotsEq x w (g w a)) : SlotsEq x w (l.foldl g w) := by
  induction l generalizing w with
  | nil => exact .refl x w
  | cons a l ih => exact (h w a).trans (ih (g w a))

theorem slotsEq_recvHead (w : World) (x p : Nat) : SlotsEq x w (recvHeadW w x p) := by
  unfold recvHeadW
  split
  · exact .setDev w _ rfl rfl rfl
  · refine SlotsEq.trans ?_ (SlotsEq.addRec x _ _)
    exact SlotsEq.setDev w _ rfl rfl rfl
  · exact .refl x w

theorem BOK.of_slots {E A : List Nat} {w w' : World} {x : Nat} (h : BOK E A w x)
    (s : SlotsEq x w w') : BOK E A w' x := by
  intro hk
  obtain ⟨hA, hf⟩ := h (by rw [← s.kind]; exact hk)
  refine ⟨hA, fun d q hd hq => ?_⟩
  have hdx : d ≠ x := fun hc => hd (hc ▸ List.mem_cons_self ..)
  rw [s.other d hdx] at hq
  rw [s.part, s.inprog]
  exact hf d q hd hq

theorem G.onReceived {E N A : List Nat} {w : World} (h : G E N A w) (x p : Nat)
    (hbok : BOK E A w x) : G E N A (w.onReceived x p) := by
  rw [onReceived_eq]
  dsimp only
  have h1 := h.recvHd x p
  have s1 := slotsEq_recvHead w x p
  generalize recvHeadW w x p = w1 at h1 s1 ⊢
  have h2 := h1.addRec (.received x w1.now p (w1.part p).quality (w1.partValue p))
  have s2 : SlotsEq x w (w1.addRec (.received x w1.now p (w1.part p).quality (w1.partValue p))) :=
    s1.trans (.addRec x _ _)
  generalize w1.addRec _ = w2 at h2 s2 ⊢
  have h3 := G.foldl_applyPartCb x p _ (h2.sc.recvPure x) h2
  have s3 : SlotsEq x w ((w2.dev x).recvCbs.foldl (fun w c => w.applyPartCb x p c) w2) :=
    s2.trans (SlotsEq.foldl _ _ _ (fun w c => .applyPartCb x w p c))
  split
  · exact h3.tryMove x (hbok.of_slots s3)
  · exact h3

theorem G.withDelivered {E N A : List Nat} {w : World} (h : G E N A w) (l : List Nat) :
    G E N A { w with delivered := l } :=
  h.of_eq rfl rfl rfl rfl rfl

/-- What `acceptPart x p` needs of a batcher `x`: it is counted as willing, and nobody else offers
`p` or the batch under construction. -/
def BOKp (E A : List Nat) (w : World) (x p : Nat) : Prop :=
  (w.dev x).kind = .batcher → x ∈ A ∧ ∀ d q, d ∉ x :: E → holdsD (w.dev d) = some q →
    q ≠ p ∧ (w.dev x).inprog ≠ some q

/-- the state in which `onReceived` is called by `acceptPart` -/
theorem bok_acceptPre {E A : List Nat} {w1 : World} {x p : Nat} (h : BOKp E A w1 x p) :
    BOK E A (((w1.modDev x (fun d => { d with part := some p })).addHist p x).setWaiting x false
      false) x := by
  have hc : ∀ y, ((((w1.modDev x (fun d => { d with part := some p })).addHist p x).setWaiting x
      false false).dev y).core = ((w1.modDev x (fun d => { d with part := some p })).dev y).core := by
    intro y
    rw [core_eq_dev (setWaiting_core _ x false false), dev_addHist]
  intro hk
  have hk1 : (w1.dev x).kind = .batcher := by
    have := congrArg Dev.kind (hc x)
    have e : ((w1.modDev x (fun d => { d with part := some p })).dev x).kind = (w1.dev x).kind :=
      modDev_dev_field Dev.kind w1 x _ rfl x
    rw [← e]; exact this.symm.trans hk
  obtain ⟨hA, hf⟩ := h hk1
  have hx : x < w1.devs.length := kind_lt (by rw [hk1]; decide)
  refine ⟨hA, fun d q hd hq => ?_⟩
  have hdx : d ≠ x := fun hc' => hd (hc' ▸ List.mem_cons_self ..)
  have hq1 : holdsD (w1.dev d) = some q := by
    rw [← holdsD_core, hc d, holdsD_core, dev_modDev_ne (Ne.symm hdx)] at hq
    exact hq
  obtain ⟨h1, h2⟩ := hf d q hd hq1
  have hp' := congrArg Dev.part (hc x)
  have hi' := congrArg Dev.inprog (hc x)
  rw [dev_modDev_same hx] at hp' hi'
  constructor
  · intro hcq
    have : (some p : Option Nat) = some q := hp'.symm.trans hcq
    cases this
    exact h1 rfl
  · intro hcq
    exact h2 (hi'.symm.trans hcq)

theorem G.acceptPart {E N A : List Nat} {w : World} (h : G E N A w) (x p : Nat)
    (hp : p < w.parts.length) (hbok : BOKp E A w x p) : G E N A (w.acceptPart x p) := by
  unfold World.acceptPart
  have h1 : G E N A (if (w.dev x).kind == .sink then { w with delivered := w.delivered ++ w.leavesOf p } else w) := by
    split
    · exact h.withDelivered _
    · exact h
  have hp1 : p < (if (w.dev x).kind == .sink then { w with delivered := w.delivered ++ w.leavesOf p } else w).parts.length := by
    split <;> exact hp
  have hb1 : BOKp E A (if (w.dev x).kind == .sink then { w with delivered := w.delivered ++ w.leavesOf p } else w) x p := by
    split <;> exact hbok
  generalize (if (w.dev x).kind == .sink then { w with delivered := w.delivered ++ w.leavesOf p } else w) = w1 at h1 hp1 hb1
  dsimp only
  refine G.onReceived ?_ x p (bok_acceptPre hb1)
  apply G.setWaiting
  apply G.addHist
  refine h1.modDev x _ rfl ?_ (fun _ h => h) (fun _ h => h)
    (Or.inr (Or.inr (fun n hacc =>
      accB_le_of_occupied (d := w1.dev x) (by rfl) (by rfl) (Or.inl (by rfl)) n hacc)))
    (Or.inr (fun q hq => ⟨hq, Int.le_refl _, id⟩))
  intro q hq
  rw [heldL_mem] at hq
  rcases hq with hq | hq | hq
  · cases hq; exact hp1
  · exact h1.valid.dev x q ((heldL_mem _ _).mpr (Or.inr (Or.inl hq)))
  · exact h1.valid.dev x q ((heldL_mem _ _).mpr (Or.inr (Or.inr hq)))

/-- **Accepting discharges**: a handler-like device that takes a part refuses from then on, so a
notification that was pending for it (after it acquired its resources) is no longer needed. -/
theorem G.acceptPartD {E N A : List Nat} {w : World} {x : Nat} (h : G E (x :: N) A w) (p : Nat)
    (hp : p < w.parts.length) (hhl : isHandlerLike (w.dev x).kind = true)
    (hx0 : x < w.devs.length) (hnb : (w.dev x).kind ≠ .batcher) (hxA : x ∉ A) :
    G E N A (w.acceptPart x p) := by
  unfold World.acceptPart
  have h1 : G E (x :: N) A (if (w.dev x).kind == .sink then { w with delivered := w.delivered ++ w.leavesOf p } else w) := by
    split
    · exact h.withDelivered _
    · exact h
  have hp1 : p < (if (w.dev x).kind == .sink then { w with delivered := w.delivered ++ w.leavesOf p } else w).parts.length := by
    split <;> exact hp
  have hhl1 : isHandlerLike ((if (w.dev x).kind == .sink then { w with delivered := w.delivered ++ w.leavesOf p } else w).dev x).kind = true := by
    split <;> exact hhl
  have hx : x < (if (w.dev x).kind == .sink then { w with delivered := w.delivered ++ w.leavesOf p } else w).devs.length := by
    split <;> exact hx0
  have hnb1 : ((if (w.dev x).kind == .sink then { w with delivered := w.delivered ++ w.leavesOf p } else w).dev x).kind ≠ .batcher := by
    split <;> exact hnb
  generalize (if (w.dev x).kind == .sink then { w with delivered := w.delivered ++ w.leavesOf p } else w) = w1 at h1 hp1 hhl1 hx hnb1
  dsimp only
  refine G.onReceived ?_ x p (bok_acceptPre (fun hk => absurd hk hnb1))
  apply G.setWaiting
  apply G.addHist
  have h2 : G E (x :: N) A (w1.modDev x (fun d => { d with part := some p })) := by
    refine h1.modDev x _ rfl ?_ (fun _ h => h) (fun _ h => h) (Or.inl (List.mem_cons_self ..))
      (Or.inr (fun q hq => ⟨hq, Int.le_refl _, id⟩))
    intro q hq
    rw [heldL_mem] at hq
    rcases hq with hq | hq | hq
    · cases hq; exact hp1
    · exact h1.valid.dev x q ((heldL_mem _ _).mpr (Or.inr (Or.inl hq)))
    · exact h1.valid.dev x q ((heldL_mem _ _).mpr (Or.inr (Or.inr hq)))
  refine h2.discharge x (fun y hy => (List.mem_cons.mp hy).imp id id) (fun n => ?_) hxA
  rw [dev_modDev_same hx]
  exact accB_false_of_part (d := { w1.dev x with part := some p }) (p := p) rfl hhl1 n

end C03W
end SimProc
