/-
C14W — the simp set `c14w` (pushing the twin-world constructor `sw` outwards).
-/
import Lean

/-- Rewriting rules `f (sw w t) … = sw (f w …) (NX … w t)` and the reads of `sw w t`. -/
register_simp_attr c14w

